import PngVerif.Proofs.LazyRefineRows
/-!
# `Reader` refines `Lazy`, part 4: the row loops of `next_frame` and `frameInto`
-/
namespace Png.LazyRefine
open Png Png.Framing Png.WellFormed Png.Reader

theorem RowKeep.refl (r : R) (s : Lazy.St) : RowKeep r r s s := ⟨SameEnv.refl r, rfl, rfl, rfl, rfl, rfl, rfl⟩

theorem RowKeep.trans {a b c : R} {x y z : Lazy.St} (h1 : RowKeep a b x y) (h2 : RowKeep b c y z) : RowKeep a c x z :=
  ⟨h1.env.trans h2.env, h2.width.trans h1.width, h2.height.trans h1.height, h2.fi.trans h1.fi, h2.sub.trans h1.sub,
   h2.finished.trans h1.finished, h2.atEnd.trans h1.atEnd⟩

theorem scan_false_length (w h : Nat) : (scan false w h).length = h := by simp [scan]

theorem scan_false_get {w h idx : Nat} {x : Nat × Nat × Nat} (hx : (scan false w h)[idx]? = some x) :
    x = (0, idx, w) ∧ idx < h := by
  simp only [scan, Bool.false_eq_true, if_false, List.getElem?_map] at hx
  cases hr : (List.range h)[idx]? with
  | none => rw [hr] at hx; cases hx
  | some l =>
    rw [hr] at hx
    simp only [Option.map_some, Option.some.injEq] at hx
    have hlt : idx < h := by
      rcases Nat.lt_or_ge idx h with hlt | hge
      · exact hlt
      · have : (List.range h)[idx]? = none := by simp; omega
        rw [this] at hr; cases hr
    rw [List.getElem?_range hlt] at hr
    cases hr
    exact ⟨hx.symm, hlt⟩

theorem CurRel.sub_length {i : Info} {r : R} {s : Lazy.St} (h : CurRel i r s) :
    s.sub.length = (scan i.interlaced r.sub.width r.sub.height).length := by
  rw [h.sub]; simp

/-- with a `Lazy` cursor there is a current row -/
theorem CurRel.cur_some {i : Info} {r : R} {s : Lazy.St} (h : CurRel i r s) {k : Nat} (hk : s.cur = some k) :
    ∃ c, r.sub.cur = some c := by
  obtain ⟨ls, hrows, _, _, hscur⟩ := h.rows
  rcases hrows with ⟨c, hc, _⟩ | ⟨_, hnil⟩
  · exact ⟨c, hc⟩
  · subst hnil; rw [hk] at hscur; simp at hscur

theorem CurRel.cur_none {i : Info} {r : R} {s : Lazy.St} (h : CurRel i r s) (hk : s.cur = none) : r.sub.cur = none := by
  obtain ⟨ls, hrows, _, _, hscur⟩ := h.rows
  rw [hk] at hscur
  cases ls with
  | nil => exact hrows.cur_none
  | cons x xs => simp at hscur

theorem CurRel.cur_none' {i : Info} {r : R} {s : Lazy.St} (h : CurRel i r s) (hk : r.sub.cur = none) : s.cur = none := by
  obtain ⟨ls, hrows, _, _, hscur⟩ := h.rows
  rw [rows_cur_none hrows hk] at hscur
  simpa using hscur

/-- the answer of a row loop as the `Lazy` model says it -/
def loopRes : Option Reader.Res → Option Lazy.Res
  | none => none
  | some _ => some (.err .noMoreImageData)

/-- **the non-interlaced row loop of `next_frame`** (a loop that stops early because the caller's buffer is short
    leaves a current row: excluded by `hfull`) -/
theorem frameRows_sim (cfg : Cfg) (t : TCfg) (hts : CreateSafe t) (i : Info) (hil : i.interlaced = false) (dEnd : Dec)
    (bEnd : Bytes) (lineSize : Nat) :
    ∀ (n k : Nat) (r : R) (s : Lazy.St) (buf : Bytes) (w : List Nat), Pos cfg i r s.src dEnd bEnd → Cnt i r s → CurRel i r s →
      k + n = s.sub.length → (s.cur = if n = 0 then none else some k) →
      ∀ r' buf' eo, Reader.frameRows cfg t lineSize n k r buf = (r', buf', eo) → (∀ e, eo = some e → okRes e = true) →
        (eo = none → r'.sub.cur = none) →
        ∃ s' w', Lazy.frameRows n k s w = (s', w', loopRes eo) ∧ Pos cfg i r' s'.src dEnd bEnd ∧ Cnt i r' s' ∧
          CurRel i r' s' ∧ RowKeep r r' s s' ∧ (∀ e, eo = some e → e = .err .format "NoMoreImageData") := by
  intro n
  induction n with
  | zero =>
    intro k r s buf w hpos hc hcr _ _ r' buf' eo hx _ _
    simp only [Reader.frameRows, Prod.mk.injEq] at hx
    obtain ⟨rfl, rfl, rfl⟩ := hx
    exact ⟨s, w, rfl, hpos, hc, hcr, RowKeep.refl _ _, fun e he => by cases he⟩
  | succ n ih =>
    intro k r s buf w hpos hc hcr hkn hscur r' buf' eo hx hok hfull
    have hsk : s.cur = some k := by simpa using hscur
    obtain ⟨c, hcur⟩ := hcr.cur_some hsk
    have hiw0 := hcr.iterWf
    have hcu0 := hcr.curOk
    rw [hil] at hiw0 hcu0
    obtain ⟨l, rfl, _⟩ := curOk_null hiw0 hcu0 hcur
    rw [Reader.frameRows] at hx
    by_cases hshort : (k + 1) * lineSize > buf.length
    · rw [if_pos hshort] at hx
      simp only [Prod.mk.injEq] at hx
      obtain ⟨rfl, rfl, rfl⟩ := hx
      rw [hfull rfl] at hcur; cases hcur
    · rw [if_neg hshort] at hx
      cases himpl : nextRowImpl cfg t r r.sub.rowlen lineSize with
      | mk r1 x1 =>
        rw [himpl] at hx
        have hok1 : ∀ e, x1 = .error e → okRes e = true := by
          intro e he; subst he
          simp only [Prod.mk.injEq] at hx
          exact hok e hx.2.2.symm
        obtain ⟨idx, s1, hsidx, hget, hrun, hpos1, hc1, hcr1, hk1, hcase⟩ :=
          rowStep_sim cfg t hts i dEnd bEnd r s hpos hc hcr (.null l) hcur lineSize r1 x1 himpl hok1
        have hidx : idx = k := by rw [hsk] at hsidx; cases hsidx; rfl
        subst hidx
        rw [Lazy.frameRows, hrun]
        rcases hcase with ⟨out, rfl, hadv⟩ | ⟨rfl, hsame⟩
        · simp only at hx
          simp only [implRes]
          have hcur1 : s1.cur = if n = 0 then none else some (idx + 1) := by
            rw [hadv]; unfold Lazy.advance; rw [hsk]
            by_cases hn : n = 0
            · have : ¬ idx + 1 < s.sub.length := by omega
              simp [this, hn]
            · have : idx + 1 < s.sub.length := by omega
              simp [this, hn]
          obtain ⟨s', w', hrun', hpos', hc', hcr', hk', herr'⟩ :=
            ih (idx + 1) r1 s1 _ (w ++ [idx]) hpos1 hc1 hcr1 (by rw [hk1.sub]; omega) hcur1 r' buf' eo hx hok hfull
          exact ⟨s', w', hrun', hpos', hc', hcr', hk1.trans hk', herr'⟩
        · simp only [Prod.mk.injEq] at hx
          obtain ⟨rfl, rfl, rfl⟩ := hx
          exact ⟨s1, w, rfl, hpos1, hc1, hcr1, hk1, fun e he => by cases he; rfl⟩

/-- the rows the `Lazy` cursor has still to go -/
def rowsLeft (s : Lazy.St) : Nat :=
  match s.cur with
  | none => 0
  | some i => s.sub.length - i

/-- **the interlaced row loop of `next_frame`** -/
theorem frameInterlaced_sim (cfg : Cfg) (t : TCfg) (hts : CreateSafe t) (i : Info) (dEnd : Dec) (bEnd : Bytes)
    (stride bits : Nat) :
    ∀ (fuel : Nat) (r : R) (s : Lazy.St) (lf : Nat) (buf : Bytes) (w : List Nat), rowsLeft s + 1 ≤ lf →
      Pos cfg i r s.src dEnd bEnd → Cnt i r s → CurRel i r s →
      ∀ r' buf' eo, Reader.frameInterlaced cfg t stride bits fuel r buf = (r', buf', eo) → (∀ e, eo = some e → okRes e = true) →
        ∃ s' w', Lazy.frameInterlaced lf s w = (s', w', loopRes eo) ∧ Pos cfg i r' s'.src dEnd bEnd ∧ Cnt i r' s' ∧
          CurRel i r' s' ∧ RowKeep r r' s s' ∧ (∀ e, eo = some e → e = .err .format "NoMoreImageData") ∧
          (eo = none → r'.sub.cur = none) := by
  intro fuel
  induction fuel with
  | zero =>
    intro r s lf buf w _ _ _ _ r' buf' eo hx hok
    simp only [Reader.frameInterlaced, Prod.mk.injEq] at hx
    have := hok _ hx.2.2.symm
    simp [okRes] at this
  | succ fuel ih =>
    intro r s lf buf w hlf hpos hc hcr r' buf' eo hx hok
    cases lf with
    | zero => omega
    | succ lf =>
      rw [Reader.frameInterlaced] at hx
      rw [Lazy.frameInterlaced]
      cases hrow : nextInterlacedRow cfg t r with
      | mk r1 res1 =>
        rw [hrow] at hx
        have hok1 : okRes res1 = true := by
          cases res1 with
          | noRow => rfl
          | row ii data => rfl
          | header => simp only [Prod.mk.injEq] at hx; exact hok _ hx.2.2.symm
          | frame oi b => simp only [Prod.mk.injEq] at hx; exact hok _ hx.2.2.symm
          | frameInfo fc => simp only [Prod.mk.injEq] at hx; exact hok _ hx.2.2.symm
          | done => simp only [Prod.mk.injEq] at hx; exact hok _ hx.2.2.symm
          | err c why => simp only [Prod.mk.injEq] at hx; exact hok _ hx.2.2.symm
          | panic site => simp only [Prod.mk.injEq] at hx; exact hok _ hx.2.2.symm
        obtain ⟨s1, lres, hrun, hpos1, hc1, hcr1, hk1, hm⟩ :=
          nextInterlacedRow_sim cfg t hts i dEnd bEnd r s hpos hc hcr r1 res1 hrow hok1
        rw [hrun]
        cases hm with
        | noRow hcur hs' =>
          simp only [Prod.mk.injEq] at hx
          obtain ⟨rfl, rfl, rfl⟩ := hx
          exact ⟨s1, w, rfl, hpos1, hc1, hcr1, hk1, (fun e he => by cases he), (fun _ => hcr1.cur_none hs')⟩
        | noMore hs' =>
          simp only [Prod.mk.injEq] at hx
          obtain ⟨rfl, rfl, rfl⟩ := hx
          exact ⟨s1, w, rfl, hpos1, hc1, hcr1, hk1, (fun e he => by cases he; rfl), (fun h => by cases h)⟩
        | row ii out idx hcur hs hidx hadv =>
          cases ii with
          | null l =>
            simp only [Prod.mk.injEq] at hx
            have := hok _ hx.2.2.symm
            simp [okRes] at this
          | adam7 p l wd =>
            simp only at hx
            cases hexp : Adam7.expandPass buf stride out { pass := p, line := l, width := wd } bits with
            | none =>
              rw [hexp] at hx
              simp only [Prod.mk.injEq] at hx
              have := hok _ hx.2.2.symm
              simp [okRes] at this
            | some buf1 =>
              rw [hexp] at hx
              simp only at hx
              have hidxlt : idx < s.sub.length := by
                rw [hcr.sub_length]
                rcases Nat.lt_or_ge idx (scan i.interlaced r.sub.width r.sub.height).length with hlt | hge
                · exact hlt
                · have : (scan i.interlaced r.sub.width r.sub.height)[idx]? = none := by simp; omega
                  rw [this] at hidx; cases hidx
              have hleft : rowsLeft s1 + 1 ≤ lf := by
                have h0 : rowsLeft s = s.sub.length - idx := by unfold rowsLeft; rw [hs]
                have h1 : rowsLeft s1 + 1 ≤ rowsLeft s := by
                  rw [h0]
                  unfold rowsLeft
                  rw [hadv]; unfold Lazy.advance; rw [hs]
                  by_cases hlt : idx + 1 < s.sub.length
                  · simp only [hlt, if_true, hk1.sub]; omega
                  · simp only [hlt, if_false]; omega
                omega
              obtain ⟨s', w', hrun', hpos', hc', hcr', hk', herr', hnone'⟩ :=
                ih r1 s1 lf buf1 (w ++ [idx]) hleft hpos1 hc1 hcr1 r' buf' eo hx hok
              exact ⟨s', w', hrun', hpos', hc', hcr', hk1.trans hk', herr', hnone'⟩

/-- how a `next_frame` result of the `Reader` model and one of the `Lazy` model correspond; `r1`, `s1` = the states
    standing in the frame's data -/
inductive FrameMatch (r1 : R) (s1 : Lazy.St) : Reader.Res → Lazy.Res → Prop
  | frame (oi : OutputInfo) (buf : Bytes) (w : List Nat) (hw : oi.width = r1.sub.width) (hh : oi.height = r1.sub.height) :
      FrameMatch r1 s1 (.frame oi buf) (.frame s1.fi w)
  | noMore : FrameMatch r1 s1 (.err .format "NoMoreImageData") (.err .noMoreImageData)

/-- **`next_frame` once the reader stands in the frame's data**: the row loop, then `finish_decoding` -/
theorem frameInto_sim (cfg : Cfg) (t : TCfg) (hts : CreateSafe t) (i : Info) (dEnd : Dec) (bEnd : Bytes) (e : Lazy.Env)
    (hil : i.interlaced = e.interlaced) (r1 : R) (s1 : Lazy.St) (buf : Bytes)
    (hpos : Pos cfg i r1 s1.src dEnd bEnd) (hc : Cnt i r1 s1) (hcr : CurRel i r1 s1)
    (r' : R) (res : Reader.Res) (buf' : Bytes) (hx : Reader.frameInto cfg t r1 buf = (r', res, buf'))
    (hok : okRes res = true) :
    ∃ s' lres, Lazy.frameInto e s1 = (s', lres) ∧ Pos cfg i r' s'.src dEnd bEnd ∧ Cnt i r' s' ∧ CurRel i r' s' ∧
      RowKeep r1 r' s1 s' ∧ FrameMatch r1 s1 res lres := by
  unfold Reader.frameInto at hx
  have hi : infoOf r1 = some i := hc.info
  simp only [hi] at hx
  by_cases hshort : buf.length < outLineSize t i r1.flags i.width * i.height
  · rw [if_pos hshort] at hx
    simp only [Prod.mk.injEq] at hx
    rw [← hx.2.1] at hok
    have : okRes (.err .parameter "ImageBufferSize") = false := by decide
    rw [this] at hok; cases hok
  rw [if_neg hshort] at hx
  -- the row loop
  have body : ∀ r2 buf2 eo,
      frameBody cfg t r1 i.interlaced (outLineSize t i r1.flags r1.sub.width)
        (samplesOf (t.outColorDepth i r1.flags).1 * (t.outColorDepth i r1.flags).2) buf = (r2, buf2, eo) →
      (∀ e', eo = some e' → okRes e' = true) → (eo = none → r2.sub.cur = none) →
      ∃ s2 w2, (if e.interlaced then Lazy.frameInterlaced (s1.sub.length + 2) s1 []
          else Lazy.frameRows (s1.sub.length - s1.cur.getD s1.sub.length) (s1.cur.getD s1.sub.length) s1 []) =
          (s2, w2, loopRes eo) ∧ Pos cfg i r2 s2.src dEnd bEnd ∧ Cnt i r2 s2 ∧ CurRel i r2 s2 ∧ RowKeep r1 r2 s1 s2 ∧
          (∀ e', eo = some e' → e' = .err .format "NoMoreImageData") ∧ (eo = none → r2.sub.cur = none) := by
    intro r2 buf2 eo hb hokb hfull
    unfold frameBody at hb
    cases hi' : i.interlaced with
    | true =>
      rw [hi'] at hb
      simp only [if_true] at hb
      rw [← hil, hi']
      simp only [if_true]
      have hleft : rowsLeft s1 + 1 ≤ s1.sub.length + 2 := by
        unfold rowsLeft; cases s1.cur <;> simp <;> omega
      obtain ⟨s2, w2, h1, h2, h3, h4, h5, h6, h7⟩ :=
        frameInterlaced_sim cfg t hts i dEnd bEnd _ _ _ r1 s1 _ buf [] hleft hpos hc hcr r2 buf2 eo hb hokb
      exact ⟨s2, w2, h1, h2, h3, h4, h5, h6, h7⟩
    | false =>
      rw [hi'] at hb
      simp only [Bool.false_eq_true, if_false] at hb
      rw [← hil, hi']
      simp only [Bool.false_eq_true, if_false]
      by_cases hls0 : outLineSize t i r1.flags r1.sub.width = 0
      · rw [if_pos hls0] at hb
        simp only [Prod.mk.injEq] at hb
        have := hokb _ hb.2.2.symm
        simp [okRes] at this
      rw [if_neg hls0] at hb
      have hlen : s1.sub.length = r1.sub.height := by rw [hcr.sub_length, hi', scan_false_length]
      cases hsc : s1.cur with
      | none =>
        have hcn := hcr.cur_none hsc
        simp only [hcn, Nat.sub_self] at hb
        simp only [Option.getD_none, Nat.sub_self]
        obtain ⟨s2, w2, h1, h2, h3, h4, h5, h6⟩ :=
          frameRows_sim cfg t hts i hi' dEnd bEnd _ 0 s1.sub.length r1 s1 buf [] hpos hc hcr (by omega) (by simp [hsc])
            r2 buf2 eo (by rw [hlen]; exact hb) hokb hfull
        exact ⟨s2, w2, h1, h2, h3, h4, h5, h6, hfull⟩
      | some k =>
        obtain ⟨c, hcur⟩ := hcr.cur_some hsc
        obtain ⟨ls, hrows, hlsl, hlsd, hscur⟩ := hcr.rows
        obtain ⟨ls', hls⟩ := rows_cur_some hrows hcur
        subst hls
        rw [hsc] at hscur
        simp only [reduceCtorEq, if_false, Option.some.injEq] at hscur
        have hklt : k < s1.sub.length := by simp only [List.length_cons] at hscur hlsl; omega
        rw [← hscur] at hlsd
        obtain ⟨hget, _⟩ := drop_cons_facts hlsd.symm
        rw [hi'] at hget
        obtain ⟨hx1, _⟩ := scan_false_get hget
        have hline : c.line = k := by
          have := congrArg (fun x => x.2.1) hx1
          simp only [desc_line] at this
          exact this
        simp only [hcur, hline] at hb
        simp only [Option.getD_some]
        obtain ⟨s2, w2, h1, h2, h3, h4, h5, h6⟩ :=
          frameRows_sim cfg t hts i hi' dEnd bEnd _ (s1.sub.length - k) k r1 s1 buf [] hpos hc hcr (by omega)
            (by rw [hsc]; have : ¬ s1.sub.length - k = 0 := by omega
                simp [this])
            r2 buf2 eo (by rw [hlen]; exact hb) hokb hfull
        exact ⟨s2, w2, h1, h2, h3, h4, h5, h6, hfull⟩
  cases hbody : frameBody cfg t r1 i.interlaced (outLineSize t i r1.flags r1.sub.width)
      (samplesOf (t.outColorDepth i r1.flags).1 * (t.outColorDepth i r1.flags).2) buf with
  | mk r2 rest =>
    obtain ⟨buf2, eo⟩ := rest
    simp only [hbody] at hx
    unfold Lazy.frameInto
    cases eo with
    | some e' =>
      simp only [Prod.mk.injEq] at hx
      obtain ⟨rfl, rfl, rfl⟩ := hx
      obtain ⟨s2, w2, h1, h2, h3, h4, h5, h6, _⟩ := body r2 buf2 (some e') hbody (fun e'' he'' => by cases he''; exact hok)
        (fun h => by cases h)
      have := h6 e' rfl
      subst this
      refine ⟨s2, .err .noMoreImageData, ?_, h2, h3, h4, h5, .noMore⟩
      simp only [h1, loopRes]
    | none =>
      simp only at hx
      by_cases hcur2 : r2.sub.cur = none
      · obtain ⟨s2, w2, h1, h2, h3, h4, h5, _, _⟩ := body r2 buf2 none hbody (fun e' he' => by cases he') (fun _ => hcur2)
        cases hfd : finishDecoding cfg r2 with
        | mk r3 x3 =>
          rw [hfd] at hx
          have hok3 : ∀ e', x3 = .error e' → okRes e' = true := by
            intro e' he'; subst he'
            simp only [Prod.mk.injEq] at hx
            rw [← hx.2.1] at hok; exact hok
          obtain ⟨hx3, s3, hrun3, hpos3, hc3, _, hlf3, hsub3, hse3, _⟩ :=
            finishDecoding_sim cfg i dEnd bEnd r2 s2 h2 h3 hcur2 (h4.cur_none' hcur2) r3 x3 hfd hok3
          subst hx3
          simp only [Prod.mk.injEq] at hx
          obtain ⟨rfl, rfl, rfl⟩ := hx
          refine ⟨s3, .frame s1.fi w2, ?_, hpos3, hc3, CurRel.congr h4 (by rw [hsub3]) hlf3.sub hlf3.cur,
            h5.trans ⟨hse3, by rw [hsub3], by rw [hsub3], hlf3.fi, hlf3.sub, hlf3.finished, hlf3.atEnd⟩,
            .frame _ _ _ rfl rfl⟩
          simp only [h1, loopRes, hrun3]
      · have hfd : finishDecoding cfg r2 =
            (r2, .error (.panic "assert!(current_interlace_info.is_none()) (mod.rs:463)")) := by
          unfold finishDecoding
          cases hc2 : r2.sub.cur with
          | none => exact absurd hc2 hcur2
          | some c => simp
        rw [hfd] at hx
        simp only [Prod.mk.injEq] at hx
        rw [← hx.2.1] at hok
        simp [okRes] at hok

end Png.LazyRefine
