import PngVerif.Proofs.StreamSinkSW
/-!
# The stream writer under EVERY sink behaviour, part 4: `write`, `write_all`, `flush`, the setters

Every operation of a stream-writer session keeps `SWInv`, does not panic, changes the `Writer` only by `Tr`, and
returns `Ok` only if every chunk it handed to the sink got through completely — from ANY state of the invariant,
for ANY arguments, for ANY sink.  `animation_written` grows by at most one per `write` call, hence by at most the
number of bytes per `write_all`.
-/
namespace Png.Enc
open Png Png.Val

/-! ## A complete row -/

/-- `rowDone` from a `Zlib` wrapper: the compression of the row failed (only the wrapper changed: the row stays
    recorded as complete), or the row is done and the image goes on, or the image is done (`finish_image` ran) -/
theorem rowDone_ok (Z : ZCodec) {o : Bool} {s : SW} {z : ZEnc} (ho : s.owned = o) (hz : s.wr = .zlib z)
    (hrel : s.released = none) (hc : CWOk z.cw) :
    ∀ s' r, s.rowDone Z = (s', r) → r.isPanic = false ∧ ∃ w', Tr 0 (r = .ok) z.cw.w w' ∧
      ((r ≠ .ok ∧ ∃ z', s' = { s with wr := .zlib z' } ∧ CWOk z'.cw ∧ w' = z'.cw.w) ∨
       (s.toWrite ≠ 0 ∧ ∃ z', s' = { s with wr := .zlib z', prevBuf := s.curBuf, curBuf := s.prevBuf, index := 0 } ∧
          CWOk z'.cw ∧ w' = z'.cw.w) ∨
       (s.toWrite = 0 ∧ ∃ wr' rel', s' = { s with wr := wr', released := rel', prevBuf := s.curBuf, curBuf := s.prevBuf, index := 0 } ∧
          WrOk o wr' rel' w' ∧ (∀ z', wr' ≠ .zlib z'))) := by
  intro s' r hf
  unfold SW.rowDone at hf
  rw [hz] at hf
  simp only at hf
  cases h1 : z.writeAll Z ((Z.row s.bpp s.prevBuf s.curBuf).take 1) with
  | mk z1 r1 =>
    obtain ⟨a1, a2, a3⟩ := ZEnc.writeAll_ok Z hc _ z1 r1 h1
    rw [h1] at hf
    cases r1 with
    | panic p => cases a1
    | err e =>
      simp only [Prod.mk.injEq] at hf; obtain ⟨rfl, rfl⟩ := hf
      exact ⟨rfl, z1.cw.w, a3, Or.inl ⟨by simp, z1, rfl, a2, rfl⟩⟩
    | ok =>
      simp only at hf
      cases h2 : z1.writeAll Z ((Z.row s.bpp s.prevBuf s.curBuf).drop 1) with
      | mk z2 r2 =>
        obtain ⟨b1, b2, b3⟩ := ZEnc.writeAll_ok Z a2 _ z2 r2 h2
        rw [h2] at hf
        have t2 : Tr 0 (r2 = .ok) z.cw.w z2.cw.w := a3.comp b3 (Nat.le_refl _) (fun h => ⟨rfl, h⟩)
        cases r2 with
        | panic p => cases b1
        | err e =>
          simp only [Prod.mk.injEq] at hf; obtain ⟨rfl, rfl⟩ := hf
          exact ⟨rfl, z2.cw.w, t2, Or.inl ⟨by simp, z2, rfl, b2, rfl⟩⟩
        | ok =>
          simp only at hf
          by_cases htw : s.toWrite = 0
          · rw [if_pos htw] at hf
            obtain ⟨c1, wr', rel', w', c2, c3, c4, c5, _, _⟩ := finishImage_zlib Z
              (s := { s with wr := .zlib z2, prevBuf := s.curBuf, curBuf := s.prevBuf, index := 0 }) ho rfl hrel b2 s' r hf
            exact ⟨c1, w', t2.comp c4 (Nat.le_refl _) (fun h => ⟨rfl, h⟩), Or.inr (Or.inr ⟨htw, wr', rel', c2, c3, c5⟩)⟩
          · rw [if_neg htw] at hf
            simp only [Prod.mk.injEq] at hf; obtain ⟨rfl, rfl⟩ := hf
            exact ⟨rfl, z2.cw.w, t2, Or.inr (Or.inl ⟨htw, z2, rfl, b2, rfl⟩)⟩

/-! ## `write` -/

/-- **one `write` call from any state of the invariant, any sink**: no panic; the invariant holds again;
    `animation_written` grew by at most one; `Ok` only if every chunk handed to the sink got through -/
theorem SWInv.write (Z : ZCodec) {o : Bool} {s : SW} {w : WState} (h : SWInv o s w) (hb : Room w 1)
    (data : Bytes) : ∀ s' out, s.write Z data = (s', out) →
    out.toRes.isPanic = false ∧ ∃ w', SWInv o s' w' ∧ Tr 1 (out.toRes = .ok) w w' := by
  intro s' out hf
  unfold SW.write at hf
  by_cases hu : s.wr = .unrecoverable
  · rw [if_pos hu] at hf
    simp only [Prod.mk.injEq] at hf; obtain ⟨rfl, rfl⟩ := hf
    exact ⟨rfl, w, h, Tr.refl' _⟩
  rw [if_neg hu] at hf
  by_cases hd : data = []
  · rw [if_pos hd] at hf
    simp only [Prod.mk.injEq] at hf; obtain ⟨rfl, rfl⟩ := hf
    exact ⟨rfl, w, h, Tr.refl' _⟩
  rw [if_neg hd] at hf
  cases hbd : s.beginIfDone Z with
  | mk s1 r1 =>
    obtain ⟨a1, w1, a2, a3, a4⟩ := h.beginIfDone Z hu hb s1 r1 hbd
    rw [hbd] at hf
    cases r1 with
    | panic p => cases a1
    | err e =>
      simp only [Prod.mk.injEq] at hf; obtain ⟨rfl, rfl⟩ := hf
      exact ⟨rfl, w1, a2, a3.weaken (Nat.le_refl _) (fun hh => by cases hh)⟩
    | ok =>
      simp only at hf
      obtain ⟨htw1, z1, hz1⟩ := a4 rfl
      have g := a2.geo
      obtain ⟨m, hm⟩ := g.rows
      have hwr1 := a2.wr
      rw [hz1] at hwr1
      obtain ⟨hrel1, rfl, hc1⟩ := hwr1.zlib_inv
      have hrs : ¬ (s1.lineLen > s1.curBuf.length ∨ s1.index > s1.lineLen) := by
        have := g.cur; have := g.idx; omega
      rw [if_neg hrs] at hf
      have hmpos : 0 < m := by
        apply Nat.pos_of_ne_zero; intro h0; rw [h0] at hm; omega
      have hLm : s1.lineLen ≤ m * s1.lineLen := Nat.le_mul_of_pos_left _ hmpos
      have hidx := g.idx
      have hwt : ¬ (min data.length (s1.lineLen - s1.index) > s1.toWrite) := by omega
      rw [if_neg hwt] at hf
      generalize hW : min data.length (s1.lineLen - s1.index) = W at hf hwt
      have hWle : W ≤ s1.lineLen - s1.index := by omega
      have hWtw : W ≤ s1.toWrite := by omega
      have hcur2 : (overwrite s1.curBuf s1.index (data.take W)).length = s1.lineLen := by
        rw [overwrite_length, g.cur]
        simp only [List.length_take, g.cur]; omega
      -- the state with the bytes copied into the row buffer
      have geo2 : Geo { s1 with curBuf := overwrite s1.curBuf s1.index (data.take W), index := s1.index + W, toWrite := s1.toWrite - W } :=
        ⟨g.pos, by show s1.index + W ≤ s1.lineLen; omega, hcur2, g.prev,
          ⟨m, by show s1.toWrite - W + (s1.index + W) = m * s1.lineLen; omega⟩⟩
      by_cases hfull : s1.index + W = s1.lineLen
      · rw [if_pos hfull] at hf
        cases hrd : SW.rowDone Z { s1 with curBuf := overwrite s1.curBuf s1.index (data.take W), index := s1.index + W, toWrite := s1.toWrite - W } with
        | mk s3 r3 =>
          obtain ⟨b1, w3, b2, b3⟩ := rowDone_ok Z (o := o)
            (s := { s1 with curBuf := overwrite s1.curBuf s1.index (data.take W), index := s1.index + W, toWrite := s1.toWrite - W }) a2.owned hz1 hrel1 hc1 s3 r3 hrd
          rw [hrd] at hf
          have t3 : Tr 1 (r3 = .ok) w w3 := a3.comp b2 (Nat.le_refl _) (fun hh => ⟨rfl, hh⟩)
          have hcp3 : CopyR s1 w3 := a2.copy.static b2.static
          have hinv3 : SWInv o s3 w3 := by
            rcases b3 with ⟨_, z', rfl, hcz, rfl⟩ | ⟨hne, z', rfl, hcz, rfl⟩ | ⟨h0, wr', rel', rfl, hw', hnz⟩
            · exact {
                owned := a2.owned, geo := ⟨geo2.pos, geo2.idx, geo2.cur, geo2.prev, geo2.rows⟩
                copy := ⟨hcp3.width, hcp3.height, hcp3.fc⟩
                wr := by
                  show WrOk o (.zlib z') s1.released z'.cw.w
                  rw [hrel1]; exact WrOk.zlib hcz
                chunkTw := fun c hh => by cases hh
                zlibTw := fun _ _ _ => hfull }
            · exact {
                owned := a2.owned
                geo := ⟨g.pos, Nat.zero_le _, g.prev, hcur2, by
                  cases m with
                  | zero => omega
                  | succ k =>
                    refine ⟨k, ?_⟩
                    show s1.toWrite - W + 0 = k * s1.lineLen
                    rw [Nat.succ_mul] at hm; omega⟩
                copy := ⟨hcp3.width, hcp3.height, hcp3.fc⟩
                wr := by
                  show WrOk o (.zlib z') s1.released z'.cw.w
                  rw [hrel1]; exact WrOk.zlib hcz
                chunkTw := fun c hh => by cases hh
                zlibTw := fun _ _ h0 => absurd h0 hne }
            · exact {
                owned := a2.owned
                geo := ⟨g.pos, Nat.zero_le _, g.prev, hcur2, ⟨0, by
                  show s1.toWrite - W + 0 = 0 * s1.lineLen
                  have : s1.toWrite - W = 0 := h0
                  omega⟩⟩
                copy := ⟨hcp3.width, hcp3.height, hcp3.fc⟩
                wr := hw'
                chunkTw := fun _ _ => h0
                zlibTw := fun z hh => absurd hh (hnz z) }
          cases r3 with
          | panic p => cases b1
          | err e =>
            simp only [Prod.mk.injEq] at hf; obtain ⟨rfl, rfl⟩ := hf
            exact ⟨rfl, w3, hinv3, t3.weaken (Nat.le_refl _) (fun hh => by cases hh)⟩
          | ok =>
            simp only [Prod.mk.injEq] at hf; obtain ⟨rfl, rfl⟩ := hf
            exact ⟨rfl, w3, hinv3, t3.weaken (Nat.le_refl _) (fun _ => rfl)⟩
      · rw [if_neg hfull] at hf
        simp only [Prod.mk.injEq] at hf; obtain ⟨rfl, rfl⟩ := hf
        refine ⟨rfl, z1.cw.w, ?_, a3.weaken (Nat.le_refl _) (fun _ => rfl)⟩
        exact {
          owned := a2.owned, geo := geo2
          copy := ⟨a2.copy.width, a2.copy.height, a2.copy.fc⟩
          wr := a2.wr
          chunkTw := fun c hh => by
            have : s1.wr = .chunk c := hh
            rw [hz1] at this; cases this
          zlibTw := fun _ _ h0 => by
            have h0' : s1.toWrite - W = 0 := h0
            show s1.index + W = s1.lineLen
            omega }

/-! ## `write_all` -/

/-- `write_all`: at most one `write` call per byte, hence `animation_written` grows by at most `d.length` -/
theorem SWInv.writeAllAux (Z : ZCodec) {o : Bool} (fuel : Nat) : ∀ {s : SW} {w : WState} (d : Bytes), SWInv o s w →
    Room w d.length → ∀ s' r, SW.writeAllAux Z fuel s d = (s', r) →
    r.isPanic = false ∧ ∃ w', SWInv o s' w' ∧ Tr d.length (r = .ok) w w' := by
  induction fuel with
  | zero =>
    intro s w d h _ s' r hf
    simp only [SW.writeAllAux, Prod.mk.injEq] at hf; obtain ⟨rfl, rfl⟩ := hf
    exact ⟨rfl, w, h, Tr.refl' _⟩
  | succ k ih =>
    intro s w d h hb s' r hf
    simp only [SW.writeAllAux] at hf
    by_cases hd : d = []
    · rw [if_pos hd] at hf
      simp only [Prod.mk.injEq] at hf; obtain ⟨rfl, rfl⟩ := hf
      exact ⟨rfl, w, h, Tr.refl' _⟩
    · rw [if_neg hd] at hf
      have hlen : 0 < d.length := List.length_pos_iff.mpr hd
      cases hw : s.write Z d with
      | mk s1 out =>
        obtain ⟨a1, w1, a2, a3⟩ := h.write Z (hb.mono (by omega)) d s1 out hw
        rw [hw] at hf
        cases out with
        | panic p => cases a1
        | err e =>
          simp only [Prod.mk.injEq] at hf; obtain ⟨rfl, rfl⟩ := hf
          exact ⟨rfl, w1, a2, a3.weaken (by omega) (fun hh => by cases hh)⟩
        | ok n =>
          simp only at hf
          by_cases hn : n = 0
          · rw [if_pos hn] at hf
            simp only [Prod.mk.injEq] at hf; obtain ⟨rfl, rfl⟩ := hf
            exact ⟨rfl, w1, a2, a3.weaken (by omega) (fun hh => by cases hh)⟩
          · rw [if_neg hn] at hf
            have hdl : (d.drop n).length = d.length - n := List.length_drop
            obtain ⟨b1, w2, b2, b3⟩ := ih (d.drop n) a2 (hb.tr a3 (by omega)) s' r hf
            exact ⟨b1, w2, b2, a3.comp b3 (by omega) (fun hh => ⟨rfl, hh⟩)⟩

theorem SWInv.writeAll (Z : ZCodec) {o : Bool} {s : SW} {w : WState} (h : SWInv o s w) (d : Bytes)
    (hb : Room w d.length) : ∀ s' r, s.writeAll Z d = (s', r) →
    r.isPanic = false ∧ ∃ w', SWInv o s' w' ∧ Tr d.length (r = .ok) w w' :=
  SWInv.writeAllAux Z _ d h hb

/-! ## `flush` -/

/-- `flush` from any state: `Ok` means the row index is 0 and a `Chunk` wrapper has an empty buffer -/
theorem SWInv.flush (Z : ZCodec) {o : Bool} {s : SW} {w : WState} (h : SWInv o s w) : ∀ s' r, s.flush Z = (s', r) →
    r.isPanic = false ∧ ∃ w', SWInv o s' w' ∧ Tr 0 (r = .ok) w w' ∧ s'.toWrite = s.toWrite ∧
      (r = .ok → s'.index = 0 ∧ ∀ c, s'.wr = .chunk c → c.buf = []) := by
  intro s' r hf
  have hwr := h.wr
  cases hw : s.wr with
  | unrecoverable =>
    simp only [SW.flush, hw, Prod.mk.injEq] at hf; obtain ⟨rfl, rfl⟩ := hf
    exact ⟨rfl, w, h, Tr.refl' _, rfl, fun hh => by cases hh⟩
  | none => rw [hw] at hwr; exact hwr.none_inv.elim
  | chunk c =>
    rw [hw] at hwr
    obtain ⟨hrel, rfl, hc⟩ := hwr.chunk_inv
    cases hfi : c.flushInner with
    | mk c1 r1 =>
      obtain ⟨a1, a2, a3, _, _, a6, _⟩ := hc.flushInner c1 r1 hfi
      have hinv : SWInv o { s with wr := .chunk c1 } c1.w := by
        have := SWInv.ofEnd (wr' := .chunk c1) (rel' := none) h.owned h.geo h.copy a3.static (WrOk.chunk a2)
          (fun z' hh => by cases hh) (h.chunkTw c hw)
        rw [← hrel] at this; exact this
      simp only [SW.flush, hw, hfi] at hf
      cases r1 with
      | panic p => cases a1
      | err e =>
        simp only [Prod.mk.injEq] at hf; obtain ⟨rfl, rfl⟩ := hf
        exact ⟨rfl, c1.w, hinv, a3, rfl, fun hh => by cases hh⟩
      | ok =>
        simp only at hf
        by_cases hi : s.index > 0
        · rw [if_pos hi] at hf
          simp only [Prod.mk.injEq] at hf; obtain ⟨rfl, rfl⟩ := hf
          exact ⟨rfl, c1.w, hinv, a3.weaken (Nat.le_refl _) (fun hh => by cases hh), rfl, fun hh => by cases hh⟩
        · rw [if_neg hi] at hf
          simp only [Prod.mk.injEq] at hf; obtain ⟨rfl, rfl⟩ := hf
          refine ⟨rfl, c1.w, hinv, a3, rfl, fun _ => ⟨by show s.index = 0; omega, fun c' hc' => ?_⟩⟩
          have : Wrap.chunk c1 = Wrap.chunk c' := hc'
          cases this; exact a6 rfl
  | zlib z =>
    rw [hw] at hwr
    obtain ⟨hrel, rfl, hc⟩ := hwr.zlib_inv
    cases hfi : z.flush Z with
    | mk z1 r1 =>
      obtain ⟨a1, a2, a3⟩ := ZEnc.flush_ok Z hc z1 r1 hfi
      have hcp := h.copy.static a3.static
      have hinv : SWInv o { s with wr := .zlib z1 } z1.cw.w :=
        { owned := h.owned, geo := ⟨h.geo.pos, h.geo.idx, h.geo.cur, h.geo.prev, h.geo.rows⟩
          copy := ⟨hcp.width, hcp.height, hcp.fc⟩
          wr := by
            show WrOk o (.zlib z1) s.released z1.cw.w
            rw [hrel]; exact WrOk.zlib a2
          chunkTw := fun c hh => by cases hh
          zlibTw := fun _ _ h0 => h.zlibTw z hw h0 }
      simp only [SW.flush, hw, hfi] at hf
      cases r1 with
      | panic p => cases a1
      | err e =>
        simp only [Prod.mk.injEq] at hf; obtain ⟨rfl, rfl⟩ := hf
        exact ⟨rfl, z1.cw.w, hinv, a3, rfl, fun hh => by cases hh⟩
      | ok =>
        simp only at hf
        by_cases hi : s.index > 0
        · rw [if_pos hi] at hf
          simp only [Prod.mk.injEq] at hf; obtain ⟨rfl, rfl⟩ := hf
          exact ⟨rfl, z1.cw.w, hinv, a3.weaken (Nat.le_refl _) (fun hh => by cases hh), rfl, fun hh => by cases hh⟩
        · rw [if_neg hi] at hf
          simp only [Prod.mk.injEq] at hf; obtain ⟨rfl, rfl⟩ := hf
          exact ⟨rfl, z1.cw.w, hinv, a3, rfl, fun _ => ⟨by show s.index = 0; omega, fun c' hc' => by cases hc'⟩⟩

/-! ## The frame setters of the stream writer -/

/-- the setters on a frame control inside the canvas: never a panic (`reset_frame_dimension` cannot underflow),
    for ANY arguments, and the result is inside the canvas again -/
theorem setFc_rect (cw ch : Nat) (fc : Option FC) (o : SetOp)
    (hfc : ∀ f, fc = some f → 0 < f.w ∧ 0 < f.h ∧ f.x + f.w ≤ cw ∧ f.y + f.h ≤ ch) :
    (setFc cw ch fc o).2.isPanic = false ∧
    ∀ f, (setFc cw ch fc o).1 = some f → 0 < f.w ∧ 0 < f.h ∧ f.x + f.w ≤ cw ∧ f.y + f.h ≤ ch := by
  unfold setFc
  cases hf : fc with
  | none => exact ⟨rfl, fun f h => by cases h⟩
  | some f =>
    obtain ⟨q1, q2, q3, q4⟩ := hfc f hf
    cases o with
    | delay n d =>
      refine ⟨rfl, fun g hg => ?_⟩
      simp only [Option.some.injEq] at hg; subst hg
      exact ⟨q1, q2, q3, q4⟩
    | blend b =>
      refine ⟨rfl, fun g hg => ?_⟩
      simp only [Option.some.injEq] at hg; subst hg
      exact ⟨q1, q2, q3, q4⟩
    | dispose d =>
      refine ⟨rfl, fun g hg => ?_⟩
      simp only [Option.some.injEq] at hg; subst hg
      exact ⟨q1, q2, q3, q4⟩
    | resetPos =>
      refine ⟨rfl, fun g hg => ?_⟩
      simp only [Option.some.injEq] at hg; subst hg
      exact ⟨q1, q2, by dsimp only; omega, by dsimp only; omega⟩
    | resetDim =>
      have hn : ¬ (cw < f.x ∨ ch < f.y) := by omega
      simp only [hn, if_false]
      refine ⟨rfl, fun g hg => ?_⟩
      simp only [Option.some.injEq] at hg; subst hg
      exact ⟨by dsimp only; omega, by dsimp only; omega, by dsimp only; omega, by dsimp only; omega⟩
    | dim w h =>
      simp only
      cases hg : (gtCheckedSub w cw f.x || gtCheckedSub h ch f.y) with
      | true => simp only [if_true]; exact ⟨rfl, fun g hg' => hfc g (by rw [hf]; exact hg')⟩
      | false =>
        simp only [Bool.or_eq_false_iff] at hg
        obtain ⟨a1, a2⟩ := gtCheckedSub_false hg.1
        obtain ⟨b1, b2⟩ := gtCheckedSub_false hg.2
        simp only [Bool.false_eq_true, if_false]
        by_cases hw : w = 0
        · simp only [hw, if_true]; exact ⟨rfl, fun g hg' => hfc g (by rw [hf]; exact hg')⟩
        · by_cases hh : h = 0
          · simp only [hw, hh, if_true, if_false]; exact ⟨rfl, fun g hg' => hfc g (by rw [hf]; exact hg')⟩
          · simp only [hw, hh, if_false]
            refine ⟨rfl, fun g hg' => ?_⟩
            simp only [Option.some.injEq] at hg'; subst hg'
            exact ⟨by dsimp only; omega, by dsimp only; omega, by dsimp only; omega, by dsimp only; omega⟩
    | pos x y =>
      simp only
      cases hg : (gtCheckedSub x cw f.w || gtCheckedSub y ch f.h) with
      | true => simp only [if_true]; exact ⟨rfl, fun g hg' => hfc g (by rw [hf]; exact hg')⟩
      | false =>
        simp only [Bool.or_eq_false_iff] at hg
        obtain ⟨a1, a2⟩ := gtCheckedSub_false hg.1
        obtain ⟨b1, b2⟩ := gtCheckedSub_false hg.2
        simp only [Bool.false_eq_true, if_false]
        refine ⟨rfl, fun g hg' => ?_⟩
        simp only [Option.some.injEq] at hg'; subst hg'
        exact ⟨q1, q2, by dsimp only; omega, by dsimp only; omega⟩

/-! ## One operation, a sequence of operations -/

/-- the bytes an operation supplies: a bound on the number of frame headers it can make the writer emit -/
def SOp.cost : SOp → Nat
  | .write d => d.length
  | _ => 0

def sopsCost : List SOp → Nat
  | [] => 0
  | o :: os => o.cost + sopsCost os

/-- **every operation of a stream-writer session, from any state of the invariant, any sink, any arguments** -/
theorem SWInv.step (Z : ZCodec) {o : Bool} {s : SW} {w : WState} (h : SWInv o s w) (op : SOp)
    (hb : Room w op.cost) : ∀ s' r, streamStep Z s op = (s', r) →
    r.isPanic = false ∧ ∃ w', SWInv o s' w' ∧ Tr op.cost (r = .ok) w w' := by
  intro s' r hf
  cases op with
  | write d => exact h.writeAll Z d hb s' r hf
  | flush =>
    obtain ⟨a1, w', a2, a3, _⟩ := h.flush Z s' r hf
    exact ⟨a1, w', a2, a3⟩
  | set so =>
    simp only [streamStep] at hf
    have hsp := setFc_rect s.width s.height s.fctl so (fun f hf => by
      have := h.copy.fc f hf
      simpa [RectOk, h.copy.width, h.copy.height] using this)
    cases hs : setFc s.width s.height s.fctl so with
    | mk fc r1 =>
      rw [hs] at hf hsp
      simp only [Prod.mk.injEq] at hf; obtain ⟨rfl, rfl⟩ := hf
      refine ⟨hsp.1, w, ?_, Tr.refl' _⟩
      exact {
        owned := h.owned, geo := ⟨h.geo.pos, h.geo.idx, h.geo.cur, h.geo.prev, h.geo.rows⟩
        copy := ⟨h.copy.width, h.copy.height, fun f hf => by
          have := hsp.2 f hf
          simpa [RectOk, h.copy.width, h.copy.height] using this⟩
        wr := h.wr, chunkTw := h.chunkTw, zlibTw := h.zlibTw }

theorem SWInv.runSOps (Z : ZCodec) {o : Bool} (ops : List SOp) : ∀ {s : SW} {w : WState}, SWInv o s w →
    Room w (sopsCost ops) → ∀ s' rs, runSOps Z s ops = (s', rs) →
    anyPanic rs = false ∧ ∃ w', SWInv o s' w' ∧ Tr (sopsCost ops) (∀ r ∈ rs, r = .ok) w w' := by
  induction ops with
  | nil =>
    intro s w h _ s' rs hf
    simp only [Enc.runSOps, Prod.mk.injEq] at hf; obtain ⟨rfl, rfl⟩ := hf
    exact ⟨rfl, w, h, Tr.refl' _⟩
  | cons op ops ih =>
    intro s w h hb s' rs hf
    simp only [sopsCost] at hb ⊢
    simp only [Enc.runSOps] at hf
    cases hs : streamStep Z s op with
    | mk s1 r1 =>
      obtain ⟨a1, w1, a2, a3⟩ := h.step Z op (hb.mono (by omega)) s1 r1 hs
      rw [hs] at hf
      have hrest : ∀ (hnp : ∀ p, r1 ≠ .panic p), (let (s'', rs') := Enc.runSOps Z s1 ops; (s'', r1 :: rs')) = (s', rs) →
          anyPanic rs = false ∧ ∃ w', SWInv o s' w' ∧ Tr (op.cost + sopsCost ops) (∀ r ∈ rs, r = .ok) w w' := by
        intro _ hf
        cases hr : Enc.runSOps Z s1 ops with
        | mk s2 rs2 =>
          obtain ⟨b1, w2, b2, b3⟩ := ih a2 (hb.tr a3 (Nat.le_refl _)) s2 rs2 hr
          rw [hr] at hf
          simp only [Prod.mk.injEq] at hf; obtain ⟨rfl, rfl⟩ := hf
          refine ⟨?_, w2, b2, a3.comp b3 (Nat.le_refl _) (fun hh => ⟨hh r1 (by simp), fun r hr => hh r (by simp [hr])⟩)⟩
          simp only [anyPanic, List.any_cons, a1, Bool.false_or]
          exact b1
      cases r1 with
      | panic p => cases a1
      | ok => exact hrest (fun p hh => by cases hh) hf
      | err e => exact hrest (fun p hh => by cases hh) hf

end Png.Enc
