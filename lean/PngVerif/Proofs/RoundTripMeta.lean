import PngVerif.Proofs.RoundTripSpec
import PngVerif.Proofs.ComposeAncBig
/-!
# C03 end to end: `parse_chunk` accepts everything `encode_header` writes between `IHDR` and `IDAT`

Generic part.  `Accepts cfg t body n pre`: in every decoder that has seen `IHDR` (with `pre` of its `Info`) and whose
limit is at least `n`, `parse_chunk` accepts the chunk `(t, body)` and charges at most `n` bytes.  From this
`step_of_accepts` builds the `AncStepG` of `Proofs/ComposeAncBig.lean` (the chunk buffer grows to the body's length
first — `growCap_ok`: with `3·|body| ≤ limit` the buffer doubles until the body fits and at most `2·|body|` are
charged) with a LOWER bound on the limit afterwards; `chain_of_accepts` composes chunks.

The chunk kinds themselves are in `Proofs/RoundTripKinds.lean`, the header `encode_header` writes in `Proofs/RoundTripHeader.lean`.
-/
namespace Png.RoundTrip
open Png Png.Val Png.Enc Png.Framing Png.WellFormed

/-! ## growing the chunk buffer -/

theorem growCap_sum (L : Nat) : ∀ (fuel cap limit : Nat), 0 < cap → L ≤ cap + fuel → 3 * L ≤ limit + cap →
    ∃ cap' limit', growCap L (fuel + 1) cap limit = some (cap', limit') ∧ limit' + cap' = limit + cap ∧ cap ≤ cap' ∧
      (cap' = cap ∨ cap' < 2 * L) := by
  intro fuel
  induction fuel with
  | zero =>
    intro cap limit _ hL _
    refine ⟨cap, limit, ?_, rfl, Nat.le_refl _, Or.inl rfl⟩
    unfold growCap; rw [if_pos (by omega)]
  | succ fuel ih =>
    intro cap limit hcap hL h3
    by_cases hfit : L ≤ cap
    · refine ⟨cap, limit, ?_, rfl, Nat.le_refl _, Or.inl rfl⟩
      unfold growCap; rw [if_pos hfit]
    · have hm : min cap (limit - cap) = cap := by omega
      obtain ⟨cap', limit', hg, hsum, hle, hb⟩ := ih (cap + cap) (limit - cap) (by omega) (by omega) (by omega)
      refine ⟨cap', limit', ?_, by omega, by omega, Or.inr (by omega)⟩
      rw [growCap, if_neg hfit, hm, if_neg (by omega)]
      exact hg

/-- **the chunk buffer can grow to any body length `L` when `3·L ≤ limit`**; at most `2·L` are charged -/
theorem growCap_ok (L cap limit : Nat) (hcap : 0 < cap) (h3 : 3 * L ≤ limit) :
    ∃ cap' limit', growCap L (L + 1) cap limit = some (cap', limit') ∧ cap ≤ cap' ∧ limit ≤ limit' + 2 * L ∧ limit' ≤ limit := by
  obtain ⟨cap', limit', hg, hsum, hle, hb⟩ := growCap_sum L L cap limit hcap (by omega) (by omega)
  exact ⟨cap', limit', hg, hle, by omega, by omega⟩

/-! ## one chunk -/

/-- a chunk type that may stand between `IHDR` and `IDAT` -/
structure TypeOk (t : ChunkType) : Prop where
  tIHDR : t ≠ IHDR
  tIDAT : t ≠ IDAT
  tfdAT : t ≠ fdAT
  tIEND : t ≠ IEND
  tfcTL : t ≠ fcTL
  tlt : t < 2 ^ 32

/-- in every decoder with the options `o` that holds the body `body` of a chunk of type `t`, has seen `IHDR` (`pre` holds
    of its `Info`) and whose limit is at least `n`: `parse_chunk` accepts the chunk and charges at most `n` bytes to the limit -/
def Accepts (cfg : Framing.Cfg) (o : Options) (t : ChunkType) (body : Bytes) (n : Nat) (pre : Info → Prop) : Prop :=
  ∀ (D : Dec) (i : Info), D.opts = o → D.raw = body → D.info = some i → pre i → n ≤ D.limit →
    ∃ ev d2, parseChunk cfg D t = .ok (ev, d2) ∧ D.limit ≤ d2.limit + n

/-- what the chain needs to know of the decoder between two chunks -/
structure Ready (d : Dec) (i : Info) (o : Options) : Prop where
  info : d.info = some i
  cap : 0 < d.cap
  opts : d.opts = o

/-- **one chunk of any length**: accepted (`AncStepG`), with a lower bound on the limit afterwards; the palette stored in
    `Info` changes only for `PLTE` -/
theorem step_of_accepts (cfg : Framing.Cfg) {d : Dec} {i : Info} {o : Options} {t : ChunkType} {body : Bytes} {n : Nat}
    {pre : Info → Prop}
    (ht : TypeOk t) (hlen : body.length < 2 ^ 32) (hacc : Accepts cfg o t body n pre) (hr : Ready d i o) (hpre : pre i)
    (h3 : 3 * body.length ≤ d.limit) (hn : 2 * body.length + n ≤ d.limit) :
    ∃ d' i', AncStepG cfg d t body d' ∧ Ready d' i' o ∧ d.limit ≤ d'.limit + (2 * body.length + n) ∧
      (t ≠ PLTE → i'.palette = i.palette) := by
  obtain ⟨cap', limit', hg, hcle, hlim, _⟩ := growCap_ok body.length d.cap d.limit hr.cap h3
  generalize hD : ({ d.atParse t body with cap := cap', limit := limit' } : Dec) = D
  have hDraw : D.raw = body := by rw [← hD]; rfl
  have hDinfo : D.info = some i := by rw [← hD]; exact hr.info
  have hDlim : D.limit = limit' := by rw [← hD]
  have hDcap : D.cap = cap' := by rw [← hD]
  have hDopts : D.opts = o := by rw [← hD]; exact hr.opts
  obtain ⟨ev, d2, hp, hl2⟩ := hacc D i hDopts hDraw hDinfo hpre (by rw [hDlim]; omega)
  have hfr := parseChunk_frame hp
  obtain ⟨hcore, _⟩ := parseChunk_info ht.tIHDR ht.tfcTL hp
  have hi2 : ∃ i', d2.info = some i' := by
    rw [hDinfo] at hcore
    cases h2 : d2.info with
    | none => rw [h2] at hcore; cases hcore
    | some i' => exact ⟨i', rfl⟩
  obtain ⟨i', hi'⟩ := hi2
  refine ⟨d2.withState (some (.u32 .length [])), i', ?_, ⟨hi', ?_, ?_⟩, ?_, ?_⟩
  · exact ⟨ht.tIHDR, ht.tIDAT, ht.tfdAT, ht.tIEND, ht.tfcTL, ht.tlt, hlen, cap', limit', hg, ev, d2, by rw [hD]; exact hp, rfl⟩
  · show 0 < d2.cap
    rw [hfr.cap]; show 0 < D.cap; rw [hDcap]; have := hr.cap; omega
  · show d2.opts = o
    rw [hfr.opts]; exact hDopts
  · show d.limit ≤ d2.limit + _
    rw [hDlim] at hl2; omega
  · intro hne
    have hg := (parseChunk_frameG hp ht.tIHDR hne ht.tfcTL).palette
    have : (D.atCrc t).info = some i := hDinfo
    rw [this, hi'] at hg
    simpa using hg

/-! ## a sequence of chunks -/

theorem AncChunksG.append {cfg : Framing.Cfg} {d d1 d2 : Dec} {a b : List (ChunkType × Bytes)}
    (h1 : AncChunksG cfg d a d1) (h2 : AncChunksG cfg d1 b d2) : AncChunksG cfg d (a ++ b) d2 := by
  induction h1 with
  | nil _ => exact h2
  | cons s _ ih => exact .cons s (ih h2)

/-- what is charged for a chunk at most: twice the body for the growth of the chunk buffer, the body once more (or `x`
    more, whichever is larger) by its parser -/
def chunkCost (x : RChunk → Nat) (c : RChunk) : Nat := 3 * c.data.length + x c

def listCost (x : RChunk → Nat) (cs : List RChunk) : Nat := (cs.map (chunkCost x)).sum

theorem listCost_cons (x : RChunk → Nat) (c : RChunk) (cs : List RChunk) :
    listCost x (c :: cs) = chunkCost x c + listCost x cs := by simp [listCost]

theorem listCost_append (x : RChunk → Nat) (a b : List RChunk) : listCost x (a ++ b) = listCost x a + listCost x b := by
  simp [listCost]

theorem listCost_nil (x : RChunk → Nat) : listCost x [] = 0 := rfl

/-- a chunk that is accepted whatever the `Info` holds, charging at most its body length plus `x c` -/
structure Inert (cfg : Framing.Cfg) (o : Options) (x : RChunk → Nat) (c : RChunk) : Prop where
  ty : TypeOk c.ty
  notPlte : c.ty ≠ PLTE
  len : c.data.length < 2 ^ 32
  acc : ∃ n, n ≤ c.data.length + x c ∧ Accepts cfg o c.ty c.data n (fun _ => True)

/-- **a sequence of such chunks**: accepted one after the other when the limit covers their cost; the palette in `Info`
    stays as it is -/
theorem chain_of_accepts (cfg : Framing.Cfg) (o : Options) (x : RChunk → Nat) (cs : List RChunk)
    (hcs : ∀ c ∈ cs, Inert cfg o x c) :
    ∀ (d : Dec) (i : Info), Ready d i o → listCost x cs ≤ d.limit →
      ∃ d' i', AncChunksG cfg d (pairs cs) d' ∧ Ready d' i' o ∧ d.limit ≤ d'.limit + listCost x cs ∧
        i'.palette = i.palette := by
  induction cs with
  | nil => intro d i hr _; exact ⟨d, i, .nil d, hr, by simp [listCost], rfl⟩
  | cons c cs ih =>
    intro d i hr hl
    rw [listCost_cons] at hl ⊢
    obtain ⟨ht, hnp, hlen, n, hn, hacc⟩ := hcs c (by simp)
    have hcc : chunkCost x c = 3 * c.data.length + x c := rfl
    obtain ⟨d1, i1, hs1, hr1, hl1, hp1⟩ := step_of_accepts cfg ht hlen hacc hr trivial (by omega) (by omega)
    obtain ⟨d', i', hs2, hr2, hl2, hp2⟩ := ih (fun c' hc' => hcs c' (by simp [hc'])) d1 i1 hr1 (by omega)
    exact ⟨d', i', .cons hs1 hs2, hr2, by omega, by rw [hp2, hp1 hnp]⟩

end Png.RoundTrip
