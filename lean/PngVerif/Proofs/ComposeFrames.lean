import PngVerif.Proofs.ComposeRows
import PngVerif.Proofs.ComposeApng
/-!
# Layer L2 for animated images: the frames after the first (property C09)

* `nextFrameOp_next`: `next_frame` on a reader whose previous frame is consumed and flushed: it advances through the
  `fcTL` chunk to the frame's first `fdAT` chunk (`read_until_image_data`), sets the sub-frame up from the new frame
  control and decodes the frame.
* `frames_run`: the remaining frames one after the other, then `PolledAfterEndOfImage`.
-/
namespace Png.Reader
open Png Png.Framing Png.WellFormed

/-- **`next_frame` for a frame after the first**.  `Thead`: the calls from behind the previous frame's flush to the
    begin of the frame's first data chunk; `Tdata`: the frame's data-chunk sequence. -/
theorem nextFrameOp_next (cfg : Cfg) {t : TCfg} {f : Flags} (ht : t.IsIdentity f) (i i' : Info)
    (hcore : i'.core = i.core) (hleg : (i'.color, i'.depth) ∈ legalPairs)
    (hW : 1 ≤ (Sub.dims i').1) (hH : 1 ≤ (Sub.dims i').2) (M : Nat) (hM : 1 ≤ M) (r : R) (p : UInt8)
    (hinfo : r.dec.info = some i) (hout : r.dec.out = []) (hcaf : r.sub.caf = true) (hcur : r.sub.cur = none)
    (hrem : r.remaining = M) (hfl : r.flags = f) (hrd : r.isReader = true) (hpb : r.pendingBuf = none) (hca : CachedLegal r)
    (pre : List (Ev × Bytes)) (len : Nat) (dM : Dec) (bM : Bytes) (hpre : ∀ e ∈ pre, PreEv e)
    (Thead : Trace cfg (fun _ => True) r.dec (avail r) (pre ++ [(.chunkBegin len fdAT, [])]) dM bM)
    (hiM : dM.info = some i') (houtM : dM.out = []) (hlim : (hdrOf i').lineSize ≤ dM.limit)
    (raw : Bytes) (dEnd : Dec) (bEnd : Bytes) (pend : List (Ev × Bytes))
    (Tdata : Trace cfg (fun d => d.info = some i') { dM with limit := dM.limit - (hdrOf i').lineSize } bM pend dEnd bEnd)
    (hev : DataEvs pend) (hdata : dataOf pend = raw) (hraw : RawOk (hdrOf i') raw)
    (hfit : (hdrOf i').bufferSize ≤ outLineSize t i f i.width * i.height) :
    ∃ r' buf', step cfg t r (.nextFrame p) =
        (r', .frame { width := (Sub.dims i').1, height := (Sub.dims i').2, color := i'.color, depth := i'.depth,
                      lineSize := (hdrOf i').lineSize } buf') ∧
      specFrame (hdrOf i') raw (List.replicate (outLineSize t i f i.width * i.height) p) = some buf' ∧
      buf'.length = outLineSize t i f i.width * i.height ∧
      Pending cfg i' (M - 1 + 1) r' [] dEnd bEnd ∧ r'.sub.caf = true ∧ r'.dec = dEnd ∧ avail r' = bEnd ∧ r'.remaining + 1 = M ∧
      SameEnv r r' ∧ CachedLegal r' ∧ r'.sub.cur = none := by
  have hcore' := hcore
  simp only [Info.core, Prod.mk.injEq] at hcore'
  obtain ⟨c1, c2, c3, c4, c5⟩ := hcore'
  have hM' : M - 1 + 1 = M := by omega
  -- advancing to the frame
  obtain ⟨r1, hru, hdec1, hav1, hsub1, hbpp1, hub1, hse1, hca1, hrem1⟩ :=
    readUntilImageData_trace cfg ht (P := fun _ => True) (r := r) (i := i') (Or.inr rfl) hout hpre Thead hiM hleg hfl hlim
  have hR : Ready cfg f i' M r1 raw dEnd bEnd := by
    refine ⟨⟨pend, ⟨?_, ?_, ?_, Or.inl ⟨?_, hev, hrem1.trans hrem⟩, hM⟩, hdata⟩, hse1.flags.trans hfl, hsub1, hbpp1, hub1, ?_⟩
    · rw [hdec1]; exact houtM
    · rw [hdec1]; exact hiM
    · rw [hdec1, hav1]; exact Tdata
    · rw [hsub1]; exact (subNew_dims i').2.2.2
    · intro s0 hs0; rw [hca1] at hs0; exact hca s0 hs0
  have hsz : outLineSize t i' f i'.width * i'.height = outLineSize t i f i.width * i.height := by
    rw [outLineSize_id ht, outLineSize_id ht, c1, c2, c3, c4]
  obtain ⟨r', buf', hrun, hspec, hbl, h3, h4, h5, h6, h7, h8, h9, h10⟩ :=
    frameInto_trace cfg ht i' hleg hW hH M raw dEnd bEnd r1 (List.replicate (outLineSize t i f i.width * i.height) p) hR hraw
      (by rw [hsz]; simp) (by simpa using hfit)
  refine ⟨r', buf', ?_, hspec, by simpa using hbl, by rw [hM']; exact h3, h4, h5, h6, h7, hse1.trans h8, h9, h10⟩
  · show (if !r.isReader then _ else nextFrameOp cfg t r p) = _
    simp only [hrd, Bool.not_true, Bool.false_eq_true, if_false]
    unfold nextFrameOp
    have hio : infoOf r = some i := hinfo
    simp only [hio, callerBuf, hpb]
    rw [pendingBuf_none_eq hpb]
    rw [nextFrameBuf_none cfg t r _ hcur]
    unfold nextFrameBuf0
    have hrem0 : r.remaining ≠ 0 := by omega
    simp only [hrem0, if_false, hcaf, if_true, hru, hfl, hrun]


/-! ## the frames one after the other -/

/-- a frame control that is legal for the image `h`: not empty, inside the image, every field fits its width -/
structure FcOk (h : Header) (fc : FrameControl) : Prop where
  w1 : 1 ≤ fc.width
  h1 : 1 ≤ fc.height
  xw : fc.x + fc.width ≤ h.width
  yh : fc.y + fc.height ≤ h.height
  dn : fc.delayNum < 2 ^ 16
  dd : fc.delayDen < 2 ^ 16
  dis : fc.dispose ≤ 2
  bl : fc.blend ≤ 1

/-- a frame after the first, as `(frame control, pieces of its zlib stream, its inflated stream)`: at least one
    `fdAT` chunk, the stream inflates to `raw`, `raw` consists of the scanlines of the frame's size -/
structure FrameOk (cfg : Cfg) (h : Header) (fr : FrameControl × List Bytes × Bytes) : Prop where
  fc : FcOk h fr.1
  ne : fr.2.1 ≠ []
  len : ∀ z ∈ fr.2.1, 4 + z.length < 2 ^ 32
  inf : cfg.inflate fr.2.1.flatten = some (fr.2.2, true)
  raw : RawOk (h.frame fr.1) fr.2.2

/-- the `(frame control, pieces)` part of the frames, as `apngFrames` takes them -/
def framesOf (frames : List (FrameControl × List Bytes × Bytes)) : List (FrameControl × List Bytes) :=
  frames.map fun x => (x.1, x.2.1)

/-- what follows the image data of a frame: length and type of the next chunk, and the bytes behind these -/
def nextHead (cfg : Cfg) (n : Nat) : List (FrameControl × List Bytes) → Nat × Nat × Bytes
  | [] => (0, IEND, [] ++ (be32Bytes (cfg.crc (typeBytes IEND ++ [])) ++ []))
  | (fc, zs) :: rest =>
    (26, fcTL, fctlBody { fc with seq := n } ++
      (be32Bytes (cfg.crc (typeBytes fcTL ++ fctlBody { fc with seq := n })) ++
        (fdats cfg n zs ++ (apngFrames cfg (n + 1 + zs.length) rest ++ chunk cfg IEND []))))

theorem nextHead_eq (cfg : Cfg) (s : Nat) (fs : List (FrameControl × List Bytes)) :
    apngFrames cfg s fs ++ chunk cfg IEND [] =
      be32Bytes (nextHead cfg s fs).1 ++ typeBytes (nextHead cfg s fs).2.1 ++ (nextHead cfg s fs).2.2 := by
  cases fs with
  | nil =>
    simp only [apngFrames, List.nil_append, nextHead]
    exact chunk_append cfg IEND [] []
  | cons x rest =>
    obtain ⟨fc, zs⟩ := x
    simp only [apngFrames, nextHead]
    rw [List.append_assoc, List.append_assoc, chunk_append, fctlBody_length]

theorem nextHead_facts (cfg : Cfg) (s : Nat) (fs : List (FrameControl × List Bytes)) :
    (nextHead cfg s fs).1 < 2 ^ 32 ∧ (nextHead cfg s fs).2.1 < 2 ^ 32 ∧ (nextHead cfg s fs).2.1 ≠ IDAT ∧
      (nextHead cfg s fs).2.1 ≠ fdAT := by
  cases fs with
  | nil =>
    exact ⟨by show (0 : Nat) < 2 ^ 32; decide, IEND_lt, fun h => IDAT_ne_IEND' h.symm, fun h => fdAT_ne_IEND' h.symm⟩
  | cons x rest =>
    obtain ⟨fc, zs⟩ := x
    exact ⟨by show (26 : Nat) < 2 ^ 32; decide, fcTL_lt, by show fcTL ≠ IDAT; decide +kernel,
      by show fcTL ≠ fdAT; decide +kernel⟩

/-- the results of the `next_frame` calls: every frame with the geometry of its frame control and, in a buffer of the
    image's size pre-filled with `p`, the pixels the specification defines for it (`specFrame`: the frame's
    `line_size × height` bytes from the start of the buffer, the rest untouched) -/
def FramesOk (h : Header) : List (FrameControl × List Bytes × Bytes) → List UInt8 → List Res → Prop
  | [], [], [] => True
  | fr :: fs, p :: ps, res :: rs =>
    (∃ buf, res = .frame { width := fr.1.width, height := fr.1.height, color := h.color, depth := h.depth,
                           lineSize := (h.frame fr.1).lineSize } buf ∧
      specFrame (h.frame fr.1) fr.2.2 (List.replicate h.bufferSize p) = some buf ∧ buf.length = h.bufferSize) ∧
    FramesOk h fs ps rs
  | _, _, _ => False

/-- the reader between two frames: the previous frame is consumed and flushed; the decoder stands right behind length
    and type of the next chunk; `frames` are still to come, the next sequence number is `s` -/
structure Between (cfg : Cfg) (f : Flags) (h : Header) (r : R) (i : Info) (s : Nat)
    (frames : List (FrameControl × List Bytes × Bytes)) : Prop where
  core : i.core = h.info.core
  flushed : Flushed r.dec i (nextHead cfg s (framesOf frames)).1 (nextHead cfg s (framesOf frames)).2.1
  avail : avail r = (nextHead cfg s (framesOf frames)).2.2
  seqNo : SeqOk r.dec.seqNo s
  cap : 26 ≤ r.dec.cap
  limit : (frames.map fun x => (h.frame x.1).lineSize).sum ≤ r.dec.limit
  caf : r.sub.caf = true
  cur : r.sub.cur = none
  remaining : r.remaining = frames.length
  flags : r.flags = f
  isReader : r.isReader = true
  pendingBuf : r.pendingBuf = none
  cached : CachedLegal r

theorem hdrOf_frame {i : Info} {h : Header} (fc : FrameControl) (hc : i.core = h.info.core) :
    hdrOf { i with fctl := some fc } = h.frame fc := by
  simp only [Info.core, Header.info, Prod.mk.injEq] at hc
  obtain ⟨h1, h2, h3, h4, h5⟩ := hc
  cases h
  simp only [hdrOf, Sub.dims, Header.frame] at *
  simp [h3, h4, h5]

theorem frame_fits (h : Header) (hd : depthOk h.depth = true) (fc : FrameControl) (hw : fc.width ≤ h.width)
    (hh : fc.height ≤ h.height) : (h.frame fc).lineSize ≤ h.lineSize ∧ (h.frame fc).bufferSize ≤ h.bufferSize := by
  have h1 : (h.frame fc).lineSize ≤ h.lineSize := by
    show (h.frame fc).rowBytes fc.width ≤ h.rowBytes h.width
    have e1 : (h.frame fc).rowBytes fc.width = rawRowLengthFromWidth h.color h.depth fc.width - 1 :=
      rowBytes_eq (h.frame fc) hd fc.width
    rw [e1, rowBytes_eq h hd]
    have := rowlen_mono (c := h.color) hd hw
    omega
  exact ⟨h1, Nat.mul_le_mul h1 hh⟩

/-- **the remaining frames of an animation, then the end of the image**: every `next_frame` call returns the next frame
    in file order with the geometry of its own `fcTL` and the specification's pixels for its own data; one more call
    is refused with `PolledAfterEndOfImage` -/
theorem frames_run (cfg : Cfg) (hI : cfg.InflateOk) (hC : cfg.CrcOk) {t : TCfg} {f : Flags} (ht : t.IsIdentity f)
    (h : Header) (hv : h.Valid) (q : UInt8) :
    ∀ (frames : List (FrameControl × List Bytes × Bytes)) (ps : List UInt8) (r : R) (i : Info) (s : Nat),
      ps.length = frames.length → (∀ fr ∈ frames, FrameOk cfg h fr) →
      s + (frames.map fun x => 1 + x.2.1.length).sum < 2 ^ 32 → Between cfg f h r i s frames →
      ∃ rs, (run cfg t r (ps.map Op.nextFrame ++ [.nextFrame q])).2 = rs ++ [.err .parameter "PolledAfterEndOfImage"] ∧
        FramesOk h frames ps rs := by
  obtain ⟨hw1, hw2, hh1, hh2, hleg⟩ := hv
  have hd := (legal_pos hleg).2.2
  intro frames
  induction frames with
  | nil =>
    intro ps r i s hps _ _ hB
    have : ps = [] := List.eq_nil_of_length_eq_zero hps
    subst this
    refine ⟨[], ?_, trivial⟩
    simp only [List.map_nil, List.nil_append]
    rw [run_cons_res cfg t r (.nextFrame q) []]
    simp only [run, List.foldl_nil]
    have hio : infoOf r = some i := hB.flushed.info
    have hrem : r.remaining = 0 := hB.remaining
    show [(if !r.isReader then _ else nextFrameOp cfg t r q).2] = _
    simp only [hB.isReader, Bool.not_true, Bool.false_eq_true, if_false]
    unfold nextFrameOp
    simp only [hio]
    rw [nextFrameBuf_none cfg t _ _ (show ({ r with pendingBuf := none } : R).sub.cur = none from hB.cur)]
    unfold nextFrameBuf0
    simp only [hrem, if_true]
  | cons fr rest ih =>
    intro ps r i s hps hok hseq hB
    obtain ⟨fc, zs, raw⟩ := fr
    cases ps with
    | nil => simp at hps
    | cons p ps =>
      have hfo := hok (fc, zs, raw) (by simp)
      obtain ⟨hfc, hne, hlen, hinf, hraw⟩ := hfo
      simp only at hfc hne hlen hinf hraw
      cases zs with
      | nil => exact absurd rfl hne
      | cons z zs =>
        simp only [List.map_cons, List.sum_cons, List.length_cons] at hseq
        have hcore' := hB.core
        simp only [Info.core, Header.info, Prod.mk.injEq] at hcore'
        obtain ⟨c1, c2, c3, c4, c5⟩ := hcore'
        -- the frame control as it stands in the file
        generalize hfc' : ({ fc with seq := s } : FrameControl) = fc'
        have hfw : fc'.width = fc.width := by rw [← hfc']
        have hfh : fc'.height = fc.height := by rw [← hfc']
        have hframe : h.frame fc' = h.frame fc := by rw [← hfc']; rfl
        have hfits : fc'.Fits := by
          rw [← hfc']
          refine ⟨by show s < 2 ^ 32; omega, ?_, ?_, ?_, ?_, hfc.dn, hfc.dd, ?_, ?_⟩
          · show fc.width < 2 ^ 32; have := hfc.xw; omega
          · show fc.height < 2 ^ 32; have := hfc.yh; omega
          · show fc.x < 2 ^ 32; have := hfc.xw; omega
          · show fc.y < 2 ^ 32; have := hfc.yh; omega
          · show fc.dispose < 256; have := hfc.dis; omega
          · show fc.blend < 256; have := hfc.bl; omega
        have hinb : fctlInBounds i fc' = true := by
          rw [fctlInBounds_iff, ← hfc']
          exact ⟨hfc.w1, hfc.h1, by rw [c1]; exact hfc.xw, by rw [c2]; exact hfc.yh⟩
        -- the layout behind the previous flush
        have hnh : nextHead cfg s (framesOf ((fc, z :: zs, raw) :: rest)) =
            (26, fcTL, fctlBody fc' ++ (be32Bytes (cfg.crc (typeBytes fcTL ++ fctlBody fc')) ++
              (fdats cfg s (z :: zs) ++ (apngFrames cfg (s + 1 + (z :: zs).length) (framesOf rest) ++ chunk cfg IEND [])))) := by
          rw [← hfc']; rfl
        have hfl := hB.flushed
        have hav := hB.avail
        rw [hnh] at hfl hav
        simp only at hfl hav
        generalize hs' : s + 1 + (z :: zs).length = s' at hav
        obtain ⟨hl1, hl2, hl3, hl4⟩ := nextHead_facts cfg s' (framesOf rest)
        have htail := nextHead_eq cfg s' (framesOf rest)
        generalize hLn : (nextHead cfg s' (framesOf rest)).1 = lenN at *
        generalize hTn : (nextHead cfg s' (framesOf rest)).2.1 = tN at *
        generalize hRn : (nextHead cfg s' (framesOf rest)).2.2 = restN at *
        rw [htail, fdats_cons, List.append_assoc, chunk_append] at hav
        have hl4z : (be32Bytes (s + 1) ++ z).length = 4 + z.length := by simp [be32Bytes_length]
        rw [hl4z] at hav
        have hzl := hlen z (by simp)
        -- the calls up to the first `fdAT`
        obtain ⟨dM, Thead, hatM, hlimM, hcapM, _⟩ := frame_head_trace cfg hC fc' (4 + z.length)
          (be32Bytes (s + 1) ++ z ++ (be32Bytes (cfg.crc (typeBytes fdAT ++ (be32Bytes (s + 1) ++ z))) ++
            (fdats cfg (s + 1) zs ++ (be32Bytes lenN ++ typeBytes tN ++ restN))))
          hfl hB.cap hfits (by rw [← hfc']; exact hB.seqNo) (by rw [← hfc']; exact hfc.dis)
          (by rw [← hfc']; exact hfc.bl) hinb hzl (by omega)
        have hseqM : fc'.seq = s := by rw [← hfc']
        rw [hseqM] at hatM
        -- the frame's data
        generalize hi' : ({ i with fctl := some fc' } : Info) = i' at hatM
        have hhdr : hdrOf i' = h.frame fc := by rw [← hi', hdrOf_frame fc' hB.core, hframe]
        have hcorei : i'.core = i.core := by rw [← hi']; rfl
        obtain ⟨pend, dEnd, Tdata, hev, hdata, hfluE, hkE, hsqE⟩ := fdat_sequence_trace cfg hI hC i' raw restN lenN tN hl1 hl2 hl4
          z zs { dM with limit := dM.limit - (hdrOf i').lineSize } s (hatM.setLimit _)
          (fun z' hz' => hlen z' (by simp [hz'])) (by omega) hinf
        have hlegi : (i'.color, i'.depth) ∈ legalPairs := by rw [← hi']; show (i.color, i.depth) ∈ _; rw [c3, c4]; exact hleg
        have hdims : Sub.dims i' = (fc.width, fc.height) := by rw [← hi']; simp [Sub.dims, hfw, hfh]
        have hLS : (h.frame fc).lineSize ≤ r.dec.limit := by
          have := hB.limit
          simp only [List.map_cons, List.sum_cons] at this
          omega
        obtain ⟨hfit1, hfit2⟩ := frame_fits h hd fc (by have := hfc.xw; omega) (by have := hfc.yh; omega)
        have hszI : outLineSize t i f i.width * i.height = h.bufferSize := by
          rw [outLineSize_id ht, c1, c2, c3, c4, ← rowBytes_eq h hd]; rfl
        obtain ⟨r', buf', hstep, hspec, hblen, hP', hcaf', hdec', hav', hrem', hse', hca', hcur'⟩ :=
          nextFrameOp_next cfg ht i i' hcorei hlegi (by rw [hdims]; exact hfc.w1) (by rw [hdims]; exact hfc.h1)
            (rest.length + 1) (by omega) r p hB.flushed.info hB.flushed.out hB.caf hB.cur (by rw [hB.remaining]; rfl) hB.flags
            hB.isReader hB.pendingBuf hB.cached
            [(.chunkBegin 26 fcTL, []), (.frameControl fc', []), (.chunkComplete (cfg.crc (typeBytes fcTL ++ fctlBody fc')) fcTL, [])]
            (4 + z.length) dM _
            (by
              intro e he
              simp only [List.mem_cons, List.mem_nil_iff, or_false] at he
              rcases he with rfl | rfl | rfl
              · exact ⟨rfl, by simp, fun _ _ hx => by cases hx; exact ⟨by decide +kernel, by decide +kernel⟩⟩
              · exact ⟨rfl, by simp, fun _ _ hx => by cases hx⟩
              · exact ⟨rfl, by simp, fun _ _ hx => by cases hx⟩)
            (by rw [hav]; exact Thead) hatM.info hatM.out (by rw [hhdr, hlimM]; exact hLS)
            raw dEnd restN pend Tdata hev hdata (by rw [hhdr]; exact hraw) (by rw [hhdr, hszI]; exact hfit2)
        -- the rest
        have hB' : Between cfg f h r' i' s' rest := by
          refine ⟨hcorei.trans hB.core, ?_, ?_, ?_, ?_, ?_, hcaf', hcur', by omega, hse'.flags.trans hB.flags,
            hse'.isReader.trans hB.isReader, hse'.pendingBuf.trans hB.pendingBuf, hca'⟩
          · rw [hdec', hLn, hTn]; exact hfluE
          · rw [hav', hRn]
          · rw [hdec', hsqE, ← hs']; simp only [List.length_cons]; exact ⟨by omega, by omega⟩
          · rw [hdec', hkE.cap]; show dM.cap ≥ 26; rw [hcapM]; exact hB.cap
          · rw [hdec', hkE.limit]
            show _ ≤ dM.limit - (hdrOf i').lineSize
            have := hB.limit
            simp only [List.map_cons, List.sum_cons] at this
            rw [hhdr, hlimM]; omega
        obtain ⟨rs, hrs, hfo⟩ := ih ps r' i' s' (by simpa using hps) (fun fr hfr => hok fr (by simp [hfr]))
          (by rw [← hs']; simp only [List.length_cons]; omega) hB'
        refine ⟨Res.frame { width := fc.width, height := fc.height, color := h.color, depth := h.depth, lineSize := (h.frame fc).lineSize } buf' :: rs, ?_, ⟨buf', rfl, ?_, ?_⟩, hfo⟩
        · simp only [List.map_cons, List.cons_append]
          rw [run_cons_res, hstep]
          simp only
          rw [hrs, hdims, hhdr]
          have e3 : i'.color = h.color := by rw [← hi']; exact c4
          have e4 : i'.depth = h.depth := by rw [← hi']; exact c3
          rw [e3, e4]
        · rw [hhdr, hszI] at hspec; exact hspec
        · rw [hblen, hszI]


/-! ## the whole animation -/

theorem run_append_two (cfg : Cfg) (t : TCfg) (r : R) (a b : Op) (ops : List Op) :
    (run cfg t r (a :: b :: ops)).2 =
      (step cfg t r a).2 :: (step cfg t (step cfg t r a).1 b).2 ::
        (run cfg t (step cfg t (step cfg t r a).1 b).1 ops).2 := by
  rw [run_cons_res, run_cons_res]

/-- **C09: a well-formed animated image whose first frame is the `IDAT` image.**  `read_info`, then one `next_frame` per
    frame (each into a buffer of the image's size pre-filled with its own byte), then one more `next_frame`:
    the frames come in file order, each with the size of its own `fcTL` and the pixels the specification defines for
    its own data (`specFrame`: `line_size × height` bytes from the start of the buffer, whatever the buffer held); the
    extra call reports the end of the image. -/
theorem apng_wf (cfg : Cfg) (hI : cfg.InflateOk) (hC : cfg.CrcOk) {t : TCfg} {f : Flags} (ht : t.IsIdentity f)
    (opts : Options) (limit : Nat) (h : Header) (hv : h.Valid) (plays : Nat) (hplays : plays < 2 ^ 32)
    (anc : List (ChunkType × Bytes)) (dAnc : Dec)
    (frames : List (FrameControl × List Bytes × Bytes)) (hnf : frames.length + 1 < 2 ^ 32)
    (hanc : AncChunksG cfg (actlAfter (afterIhdr cfg opts limit h) (frames.length + 1) plays) anc dAnc) (hna : NoActl anc)
    (fc0 : FrameControl) (zs0 : List Bytes) (raw0 : Bytes) (hfc0 : FcOk h fc0)
    (hzs0 : zs0 ≠ []) (hlen0 : ∀ z ∈ zs0, z.length < 2 ^ 32) (hinf0 : cfg.inflate zs0.flatten = some (raw0, true))
    (hraw0 : RawOk (h.frame fc0) raw0)
    (hframes : ∀ fr ∈ frames, FrameOk cfg h fr)
    (hseq : 1 + (frames.map fun x => 1 + x.2.1.length).sum < 2 ^ 32)
    (hsize : h.lineSize * h.height < 2 ^ 64)
    (hlimit : (h.frame fc0).lineSize + (frames.map fun x => (h.frame x.1).lineSize).sum ≤ dAnc.limit)
    (p0 : UInt8) (ps : List UInt8) (hps : ps.length = frames.length) (q : UInt8) :
    ∃ buf0 rs,
      (run cfg t (R.init opts limit f (wellFormedApng cfg h plays anc fc0 zs0 (framesOf frames))
          (wellFormedApng cfg h plays anc fc0 zs0 (framesOf frames)).length)
        (.readInfo :: .nextFrame p0 :: (ps.map Op.nextFrame ++ [.nextFrame q]))).2 =
        .header :: .frame { width := fc0.width, height := fc0.height, color := h.color, depth := h.depth,
                            lineSize := (h.frame fc0).lineSize } buf0 ::
          (rs ++ [.err .parameter "PolledAfterEndOfImage"]) ∧
      specFrame (h.frame fc0) raw0 (List.replicate h.bufferSize p0) = some buf0 ∧ buf0.length = h.bufferSize ∧
      FramesOk h frames ps rs := by
  obtain ⟨hw1, hw2, hh1, hh2, hleg⟩ := hv
  have hd := (legal_pos hleg).2.2
  -- the chunks before the image data: `acTL`, `anc`, `fcTL` number 0
  have hidle0 := idle_afterIhdr cfg opts limit h
  obtain ⟨hsA, hiA⟩ := ancStep_acTL cfg (afterIhdr cfg opts limit h) h.info (frames.length + 1) plays hnf hplays rfl rfl
    (by show 8 ≤ Params.chunkBufferSize; decide)
  obtain ⟨TA, hidleA, _, _, _, hsqA⟩ := anc_step cfg hC hidle0 hsA
  generalize hdA : actlAfter (afterIhdr cfg opts limit h) (frames.length + 1) plays = dA1 at *
  have hcapA0 : dA1.cap = Params.chunkBufferSize := by rw [← hdA]; rfl
  obtain ⟨TB, hidleB, _, hsqB, hcapB⟩ := anc_chunks_g cfg hC hidleA (by rw [hcapA0]; decide) hanc
  have hactlB := ancChunksG_actl hanc hna
  generalize hfc0' : ({ fc0 with seq := 0 } : FrameControl) = fc0'
  have hframe0 : h.frame fc0' = h.frame fc0 := by rw [← hfc0']; rfl
  have hcapA : dA1.cap = Params.chunkBufferSize := by
    have := hsA; rw [← hdA]; rfl
  have hsq0 : dAnc.seqNo = none := by rw [hsqB, hsqA]; rfl
  obtain ⟨dF, TC, hidleC, hsqC, hlimC, hcapC, _, hactlC⟩ := fctl0_step cfg hC fc0' hidleB
    (by rw [hcapA] at hcapB; have : (26 : Nat) ≤ Params.chunkBufferSize := by decide
        omega)
    (by
      rw [← hfc0']
      refine ⟨by show (0 : Nat) < 2 ^ 32; decide, ?_, ?_, ?_, ?_, hfc0.dn, hfc0.dd, ?_, ?_⟩
      · show fc0.width < 2 ^ 32; have := hfc0.xw; omega
      · show fc0.height < 2 ^ 32; have := hfc0.yh; omega
      · show fc0.x < 2 ^ 32; have := hfc0.xw; omega
      · show fc0.y < 2 ^ 32; have := hfc0.yh; omega
      · show fc0.dispose < 256; have := hfc0.dis; omega
      · show fc0.blend < 256; have := hfc0.bl; omega)
    (by rw [hsq0, ← hfc0']; rfl) (by rw [← hfc0']; exact hfc0.dis) (by rw [← hfc0']; exact hfc0.bl)
    (by
      intro i hi
      obtain ⟨j, hj, hcj, _⟩ := hidleB.info
      rw [hi] at hj; cases hj
      simp only [Info.core, Header.info, Prod.mk.injEq] at hcj
      rw [fctlInBounds_iff, ← hfc0']
      exact ⟨hfc0.w1, hfc0.h1, by rw [hcj.1]; exact hfc0.xw, by rw [hcj.2.1]; exact hfc0.yh⟩)
  have hancAll : AncTrace cfg (afterIhdr cfg opts limit h)
      (chunk cfg acTL (actlBody (frames.length + 1) plays) ++ (chunks cfg anc ++ chunk cfg fcTL (fctlBody fc0'))) dF :=
    TA.append (TB.append TC)
  -- the layout
  cases zs0 with
  | nil => exact absurd rfl hzs0
  | cons z0 zs0 =>
    obtain ⟨hl1, hl2, hl3, hl4⟩ := nextHead_facts cfg 1 (framesOf frames)
    have htail := nextHead_eq cfg 1 (framesOf frames)
    generalize hLn : (nextHead cfg 1 (framesOf frames)).1 = lenN at *
    generalize hTn : (nextHead cfg 1 (framesOf frames)).2.1 = tN at *
    generalize hRn : (nextHead cfg 1 (framesOf frames)).2.2 = restN at *
    have hfile : wellFormedApng cfg h plays anc fc0 (z0 :: zs0) (framesOf frames) =
        signature ++ (chunk cfg IHDR h.body ++ ((chunk cfg acTL (actlBody (frames.length + 1) plays) ++
          (chunks cfg anc ++ chunk cfg fcTL (fctlBody fc0'))) ++ (idats cfg (z0 :: zs0) ++
            (be32Bytes lenN ++ typeBytes tN ++ restN)))) := by
      unfold wellFormedApng
      rw [← htail, hfc0']
      have : (framesOf frames).length = frames.length := by simp [framesOf]
      rw [this]
      simp only [List.append_assoc]
    rw [hfile]
    -- `read_info`
    have hLS0 : (h.frame fc0).lineSize ≤ dF.limit := by rw [hlimC]; omega
    obtain ⟨r, i, N, dEnd, hri, hR, hcore, hfctl, hflu, hrd, hpb, _, _, hiF, hremN, hN, hseqE, hcapE, _, hlimE⟩ :=
      readInfo_wf cfg hI hC ht opts limit h ⟨hw1, hw2, hh1, hh2, hleg⟩ _ dF (some fc0') hancAll hidleC z0 zs0 raw0
        (hlen0 z0 (by simp)) (fun z' hz' => hlen0 z' (by simp [hz'])) hinf0 lenN tN restN hl1 hl2 hl3 hsize
        (fun j hc hf => by
          have : hdrOf j = h.frame fc0' := by
            have := hdrOf_frame (i := j) fc0' hc
            have hj : ({ j with fctl := some fc0' } : Info) = j := by cases j; simp only at hf; subst hf; rfl
            rw [hj] at this; exact this
          rw [this, hframe0]; exact hLS0)
    have hcore' := hcore
    simp only [Info.core, Header.info, Prod.mk.injEq] at hcore'
    obtain ⟨c1, c2, c3, c4, c5⟩ := hcore'
    have hlegi : (i.color, i.depth) ∈ legalPairs := by rw [c3, c4]; exact hleg
    have hij : ({ i with fctl := some fc0' } : Info) = i := by cases i; simp only at hfctl; subst hfctl; rfl
    have hhdr : hdrOf i = h.frame fc0 := by
      have := hdrOf_frame (i := i) fc0' hcore
      rw [hij] at this; rw [this, hframe0]
    have hdims : Sub.dims i = (fc0.width, fc0.height) := by
      simp only [Sub.dims, hfctl]; rw [← hfc0']
    -- the number of frames
    have hactl : i.actl = some (frames.length + 1, plays) := by
      have h1 : dF.info.map (·.actl) = some (some (frames.length + 1, plays)) := by
        rw [hactlC, hactlB, hiA]; rfl
      rw [hiF] at h1
      simpa using h1
    have hNv : N = frames.length + 1 := by
      rw [hN, hactl, hfctl]; simp
    obtain ⟨hfit1, hfit2⟩ := frame_fits h hd fc0 (by have := hfc0.xw; omega) (by have := hfc0.yh; omega)
    have hszI : outLineSize t i f i.width * i.height = h.bufferSize := by
      rw [outLineSize_id ht, c1, c2, c3, c4, ← rowBytes_eq h hd]; rfl
    -- the first frame
    obtain ⟨r', buf0, hstep, hspec, hblen, hP', hcaf', hdec', hav', hrem', hse', hca', hcur'⟩ :=
      nextFrameOp_ready cfg ht i hlegi (by rw [hdims]; exact hfc0.w1) (by rw [hdims]; exact hfc0.h1) N raw0 dEnd restN r p0
        hR hpb hrd (by rw [hhdr]; exact hraw0) (by rw [hhdr, hszI]; exact hfit2)
    -- the other frames
    have hB : Between cfg f h r' i 1 frames := by
      refine ⟨hcore, ?_, ?_, ?_, ?_, ?_, hcaf', hcur', by omega, hse'.flags.trans hR.flags, hse'.isReader.trans hrd,
        hse'.pendingBuf.trans hpb, hca'⟩
      · rw [hdec', hLn, hTn]; exact hflu
      · rw [hav', hRn]
      · rw [hdec', hseqE, hsqC, ← hfc0']; exact ⟨rfl, by show (0 : Nat) + 1 < 2 ^ 32; decide⟩
      · rw [hdec', hcapE, hcapC]; rw [hcapA] at hcapB; have : (26 : Nat) ≤ Params.chunkBufferSize := by decide
        omega
      · rw [hdec', hlimE, hhdr, hlimC]; omega
    obtain ⟨rs, hrs, hfo⟩ := frames_run cfg hI hC ht h ⟨hw1, hw2, hh1, hh2, hleg⟩ q frames ps r' i 1 hps hframes
      hseq hB
    refine ⟨buf0, rs, ?_, by rw [hhdr, hszI] at hspec; exact hspec, by rw [hblen, hszI], hfo⟩
    generalize (signature ++ (chunk cfg IHDR h.body ++ ((chunk cfg acTL (actlBody (frames.length + 1) plays) ++
          (chunks cfg anc ++ chunk cfg fcTL (fctlBody fc0'))) ++ (idats cfg (z0 :: zs0) ++
            (be32Bytes lenN ++ typeBytes tN ++ restN))))) = file at hri ⊢
    have hdead : (R.init opts limit f file file.length).dead = false := rfl
    generalize R.init opts limit f file file.length = r0 at hri hdead ⊢
    have hs1 : step cfg t r0 .readInfo = (r, .header) := by
      show (if r0.dead then _ else readInfo cfg t r0) = _
      rw [hdead]; exact hri
    rw [run_append_two, hs1]
    simp only
    rw [hstep]
    simp only
    rw [hrs, hdims, hhdr, c3, c4]


/-- **C09 for an animated image whose `IDAT` image is not part of the animation**: the first `next_frame` returns the
    `IDAT` image (the whole image, as for a still image), the following ones the frames of the `fcTL` / `fdAT` chunks in
    file order; one more call reports the end of the image -/
theorem apng_default_wf (cfg : Cfg) (hI : cfg.InflateOk) (hC : cfg.CrcOk) {t : TCfg} {f : Flags} (ht : t.IsIdentity f)
    (opts : Options) (limit : Nat) (h : Header) (hv : h.Valid) (plays : Nat) (hplays : plays < 2 ^ 32)
    (anc : List (ChunkType × Bytes)) (dAnc : Dec)
    (frames : List (FrameControl × List Bytes × Bytes)) (hnf : frames.length < 2 ^ 32)
    (hanc : AncChunksG cfg (actlAfter (afterIhdr cfg opts limit h) frames.length plays) anc dAnc) (hna : NoActl anc)
    (zs0 : List Bytes) (raw0 : Bytes)
    (hzs0 : zs0 ≠ []) (hlen0 : ∀ z ∈ zs0, z.length < 2 ^ 32) (hinf0 : cfg.inflate zs0.flatten = some (raw0, true))
    (hraw0 : RawOk h raw0)
    (hframes : ∀ fr ∈ frames, FrameOk cfg h fr)
    (hseq : (frames.map fun x => 1 + x.2.1.length).sum < 2 ^ 32)
    (hsize : h.lineSize * h.height < 2 ^ 64)
    (hlimit : h.lineSize + (frames.map fun x => (h.frame x.1).lineSize).sum ≤ dAnc.limit)
    (p0 : UInt8) (ps : List UInt8) (hps : ps.length = frames.length) (q : UInt8) :
    ∃ buf0 rs,
      (run cfg t (R.init opts limit f (wellFormedApngDefault cfg h plays anc zs0 (framesOf frames))
          (wellFormedApngDefault cfg h plays anc zs0 (framesOf frames)).length)
        (.readInfo :: .nextFrame p0 :: (ps.map Op.nextFrame ++ [.nextFrame q]))).2 =
        .header :: .frame { width := h.width, height := h.height, color := h.color, depth := h.depth,
                            lineSize := h.lineSize } buf0 ::
          (rs ++ [.err .parameter "PolledAfterEndOfImage"]) ∧
      specPixels h raw0 (List.replicate h.bufferSize p0) = some buf0 ∧ buf0.length = h.bufferSize ∧
      FramesOk h frames ps rs := by
  obtain ⟨hw1, hw2, hh1, hh2, hleg⟩ := hv
  have hd := (legal_pos hleg).2.2
  have hidle0 := idle_afterIhdr cfg opts limit h
  obtain ⟨hsA, hiA⟩ := ancStep_acTL cfg (afterIhdr cfg opts limit h) h.info frames.length plays hnf hplays rfl rfl
    (by show 8 ≤ Params.chunkBufferSize; decide)
  obtain ⟨TA, hidleA, _, _, _, hsqA⟩ := anc_step cfg hC hidle0 hsA
  generalize hdA : actlAfter (afterIhdr cfg opts limit h) frames.length plays = dA1 at *
  have hcapA : dA1.cap = Params.chunkBufferSize := by rw [← hdA]; rfl
  obtain ⟨TB, hidleB, _, hsqB, hcapB⟩ := anc_chunks_g cfg hC hidleA (by rw [hcapA]; decide) hanc
  have hactlB := ancChunksG_actl hanc hna
  have hsq0 : dAnc.seqNo = none := by rw [hsqB, hsqA]; rfl
  have hancAll : AncTrace cfg (afterIhdr cfg opts limit h)
      (chunk cfg acTL (actlBody frames.length plays) ++ chunks cfg anc) dAnc := TA.append TB
  cases zs0 with
  | nil => exact absurd rfl hzs0
  | cons z0 zs0 =>
    obtain ⟨hl1, hl2, hl3, hl4⟩ := nextHead_facts cfg 0 (framesOf frames)
    have htail := nextHead_eq cfg 0 (framesOf frames)
    generalize hLn : (nextHead cfg 0 (framesOf frames)).1 = lenN at *
    generalize hTn : (nextHead cfg 0 (framesOf frames)).2.1 = tN at *
    generalize hRn : (nextHead cfg 0 (framesOf frames)).2.2 = restN at *
    have hfile : wellFormedApngDefault cfg h plays anc (z0 :: zs0) (framesOf frames) =
        signature ++ (chunk cfg IHDR h.body ++ ((chunk cfg acTL (actlBody frames.length plays) ++ chunks cfg anc) ++
          (idats cfg (z0 :: zs0) ++ (be32Bytes lenN ++ typeBytes tN ++ restN)))) := by
      unfold wellFormedApngDefault
      rw [← htail]
      have : (framesOf frames).length = frames.length := by simp [framesOf]
      rw [this]
      simp only [List.append_assoc]
    rw [hfile]
    obtain ⟨r, i, N, dEnd, hri, hR, hcore, hfctl, hflu, hrd, hpb, _, _, hiF, hremN, hN, hseqE, hcapE, _, hlimE⟩ :=
      readInfo_wf cfg hI hC ht opts limit h ⟨hw1, hw2, hh1, hh2, hleg⟩ _ dAnc none hancAll hidleB z0 zs0 raw0
        (hlen0 z0 (by simp)) (fun z' hz' => hlen0 z' (by simp [hz'])) hinf0 lenN tN restN hl1 hl2 hl3 hsize
        (fun j hc hf => by rw [hdrOf_eq hc hf]; omega)
    have hhdr : hdrOf i = h := hdrOf_eq hcore hfctl
    have hcore' := hcore
    simp only [Info.core, Header.info, Prod.mk.injEq] at hcore'
    obtain ⟨c1, c2, c3, c4, c5⟩ := hcore'
    have hlegi : (i.color, i.depth) ∈ legalPairs := by rw [c3, c4]; exact hleg
    have hdims : Sub.dims i = (h.width, h.height) := by simp [Sub.dims, hfctl, c1, c2]
    have hactl : i.actl = some (frames.length, plays) := by
      have h1 : dAnc.info.map (·.actl) = some (some (frames.length, plays)) := by rw [hactlB, hiA]; rfl
      rw [hiF] at h1
      simpa using h1
    have hNv : N = frames.length + 1 := by
      rw [hN, hactl, hfctl]; simp
    have hszI : outLineSize t i f i.width * i.height = h.bufferSize := by
      rw [outLineSize_id ht, c1, c2, c3, c4, ← rowBytes_eq h hd]; rfl
    obtain ⟨r', buf0, hstep, hspec, hblen, hP', hcaf', hdec', hav', hrem', hse', hca', hcur'⟩ :=
      nextFrameOp_ready cfg ht i hlegi (by rw [hdims]; exact hw1) (by rw [hdims]; exact hh1) N raw0 dEnd restN r p0
        hR hpb hrd (by rw [hhdr]; exact hraw0) (by rw [hhdr, hszI]; exact Nat.le_refl _)
    have hB : Between cfg f h r' i 0 frames := by
      refine ⟨hcore, ?_, ?_, ?_, ?_, ?_, hcaf', hcur', by omega, hse'.flags.trans hR.flags, hse'.isReader.trans hrd,
        hse'.pendingBuf.trans hpb, hca'⟩
      · rw [hdec', hLn, hTn]; exact hflu
      · rw [hav', hRn]
      · rw [hdec', hseqE, hsq0]; rfl
      · rw [hdec', hcapE]; rw [hcapA] at hcapB; have : (26 : Nat) ≤ Params.chunkBufferSize := by decide
        omega
      · rw [hdec', hlimE, hhdr]; omega
    obtain ⟨rs, hrs, hfo⟩ := frames_run cfg hI hC ht h ⟨hw1, hw2, hh1, hh2, hleg⟩ q frames ps r' i 0 hps hframes
      (by omega) hB
    refine ⟨buf0, rs, ?_, ?_, by rw [hblen, hszI], hfo⟩
    · generalize (signature ++ (chunk cfg IHDR h.body ++ ((chunk cfg acTL (actlBody frames.length plays) ++ chunks cfg anc) ++
          (idats cfg (z0 :: zs0) ++ (be32Bytes lenN ++ typeBytes tN ++ restN))))) = file at hri ⊢
      have hdead : (R.init opts limit f file file.length).dead = false := rfl
      generalize R.init opts limit f file file.length = r0 at hri hdead ⊢
      have hs1 : step cfg t r0 .readInfo = (r, .header) := by
        show (if r0.dead then _ else readInfo cfg t r0) = _
        rw [hdead]; exact hri
      rw [run_append_two, hs1]
      simp only
      rw [hstep]
      simp only
      rw [hrs, hdims, hhdr, c3, c4]
    · rw [hhdr, hszI] at hspec
      rw [← specFrame_eq_specPixels h raw0 _ (by simp)]
      exact hspec

end Png.Reader
