import PngVerif.Proofs.ReaderInv
/-!
# After an error or the end of the image the reader stays well behaved (C18); end of input (C05 core)

* Part A: a poisoned (or finished) stream decoder: every `decode_next` fails and changes nothing, so
  every loop of `ReadDecoder` returns at once.
* Part B: row calls that cannot touch the stream (`NoStream`: decoder poisoned, or the frame already
  consumed and flushed): they only work on the rows that are already buffered.
* Part C: the public calls in the three terminal situations — after a fatal error, after the last
  frame (or a failed `finish`), after `finish` succeeded.
* Part D: end of input: `decode_next` with nothing visible changes nothing; the part of every public
  call before its first `decode_next` is idempotent under retry.
-/
namespace Png.Reader
open Png Png.Framing

/-! ## Part A: a poisoned stream decoder -/

/-- the stream decoder is poisoned (fatal error) or finished (`ImageEnd`), nothing pending in `out` -/
def Dead (r : R) : Prop := r.dec.state = none ∧ r.dec.out = []

theorem decodeNext'_dead (cfg : Cfg) (r : R) (h : Dead r) :
    ∃ e, decodeNext' cfg r = (r, .error e) ∧ e.isErr = true := by
  have hdn := decodeNext'_dn cfg r h.2
  generalize decodeNext' cfg r = out at hdn
  obtain ⟨r', res⟩ := out
  obtain ⟨h1, e, h2, h3⟩ := dn_poisoned h.2 h.1 hdn
  subst h1; subst h2
  exact ⟨e, rfl, h3⟩

theorem decodeNextNoData_dead (cfg : Cfg) (r : R) (h : Dead r) :
    ∃ e, decodeNextNoData cfg r = (r, .error e) ∧ e.isErr = true := by
  obtain ⟨e, h1, h2⟩ := decodeNext'_dead cfg r h
  exact ⟨e, by unfold decodeNextNoData; rw [h1], h2⟩

theorem rdReadUntilImageData_dead (cfg : Cfg) (r : R) (h : Dead r) (fuel : Nat) :
    ∃ e, rdReadUntilImageData cfg (fuel + 1) r = (r, .error e) ∧ e.isErr = true := by
  obtain ⟨e, h1, h2⟩ := decodeNextNoData_dead cfg r h
  exact ⟨e, by unfold rdReadUntilImageData; rw [h1], h2⟩

theorem decodeImageData_dead (cfg : Cfg) (r : R) (b : Bool) (h : Dead r) :
    ∃ e, decodeImageData cfg r b = ((if b = true then { r with ub := r.ub.compact } else r), .error e) ∧ e.isErr = true := by
  have hd : Dead (if b = true then { r with ub := r.ub.compact } else r) := by split <;> exact h
  obtain ⟨e, h1, h2⟩ := decodeNext'_dead cfg _ hd
  exact ⟨e, by unfold decodeImageData; simp only; rw [h1], h2⟩

theorem finishDecodingImageData_dead (cfg : Cfg) (r : R) (h : Dead r) (fuel : Nat) :
    ∃ e, finishDecodingImageData cfg (fuel + 1) r = (r, .error e) ∧ e.isErr = true := by
  obtain ⟨e, h1, h2⟩ := decodeImageData_dead cfg r false h
  refine ⟨e, ?_, h2⟩
  unfold finishDecodingImageData; rw [h1]; rfl

theorem readUntilEndOfInput_dead (cfg : Cfg) (r : R) (h : Dead r) (fuel : Nat) :
    ∃ e, readUntilEndOfInput cfg (fuel + 1) r = (r, .error e) ∧ e.isErr = true := by
  obtain ⟨e, h1, h2⟩ := decodeNext'_dead cfg r h
  exact ⟨e, by unfold readUntilEndOfInput; rw [h1], h2⟩

theorem fuelOf_succ (r : R) : ∃ n, fuelOf r = n + 1 := ⟨6 * (r.visible - r.pos) + 15, rfl⟩

theorem readUntilImageData_dead (cfg : Cfg) (t : TCfg) (r : R) (h : Dead r) :
    ∃ e, readUntilImageData cfg t r = (r, .error e) ∧ e.isErr = true := by
  obtain ⟨n, hn⟩ := fuelOf_succ r
  obtain ⟨e, h1, h2⟩ := rdReadUntilImageData_dead cfg r h n
  exact ⟨e, by unfold readUntilImageData; rw [hn, h1], h2⟩

/-! ## Part B: row calls that cannot touch the stream -/

/-- no image data can be fetched: the decoder is poisoned, or the current frame's data-chunk sequence
    was already consumed and flushed -/
def NoStream (r : R) : Prop := Dead r ∨ r.sub.caf = true

/-- the stream decoder, the read position and the frame accounting are untouched -/
structure Still (r r' : R) : Prop where
  dec : r'.dec = r.dec
  pos : r'.pos = r.pos
  caf : r'.sub.caf = r.sub.caf
  remaining : r'.remaining = r.remaining
  finished : r'.finished = r.finished
  input : r'.input = r.input
  visible : r'.visible = r.visible

theorem Still.refl (r : R) : Still r r := ⟨rfl, rfl, rfl, rfl, rfl, rfl, rfl⟩
theorem Still.trans {a b c : R} (h1 : Still a b) (h2 : Still b c) : Still a c :=
  ⟨h2.dec.trans h1.dec, h2.pos.trans h1.pos, h2.caf.trans h1.caf, h2.remaining.trans h1.remaining,
   h2.finished.trans h1.finished, h2.input.trans h1.input, h2.visible.trans h1.visible⟩

theorem NoStream.still {r r' : R} (h : NoStream r) (s : Still r r') : NoStream r' := by
  rcases h with h | h
  · exact Or.inl ⟨s.dec ▸ h.1, s.dec ▸ h.2⟩
  · exact Or.inr (s.caf.trans h)

/-- **`next_raw_interlaced_row` without a stream** only changes the unfiltering buffer -/
theorem nextRawRow_ns (cfg : Cfg) (rowlen : Nat) (r : R) (h : NoStream r) (fuel : Nat) :
    ∃ u, (nextRawRow cfg rowlen (fuel + 1) r).1 = { r with ub := u } := by
  unfold nextRawRow
  split
  · split
    · exact ⟨r.ub, rfl⟩
    · rename_i hcaf
      rcases h with h | h
      · obtain ⟨e, h1, _⟩ := decodeImageData_dead cfg r true h
        rw [h1]; exact ⟨r.ub.compact, rfl⟩
      · exact absurd h hcaf
  · split
    · exact ⟨_, rfl⟩
    · exact ⟨r.ub, rfl⟩
    · exact ⟨r.ub, rfl⟩

theorem still_setUb (r : R) (u : UB) : Still r { r with ub := u } := ⟨rfl, rfl, rfl, rfl, rfl, rfl, rfl⟩

theorem getTransform_cached (t : TCfg) (r : R) (i : Info) (r2 : R) (snap : Info)
    (h : getTransform t r i = .ok (r2, snap)) : ∃ c, r2 = { r with cached := c } := by
  unfold getTransform at h
  split at h
  · cases h; exact ⟨r.cached, rfl⟩
  · split at h
    · split at h <;> cases h
    · cases h; exact ⟨some i, rfl⟩

/-- **`next_interlaced_row_impl` without a stream** -/
theorem nextRowImpl_ns (cfg : Cfg) (t : TCfg) (r : R) (rowlen outLen : Nat) (h : NoStream r) :
    Still r (nextRowImpl cfg t r rowlen outLen).1 := by
  obtain ⟨n, hn⟩ := fuelOf_succ r
  obtain ⟨u, hu⟩ := nextRawRow_ns cfg rowlen r h n
  unfold nextRowImpl
  rw [hn]
  generalize nextRawRow cfg rowlen (n + 1) r = out at hu
  obtain ⟨r1, res⟩ := out
  simp only at hu
  subst hu
  cases res with
  | error e => exact still_setUb r u
  | ok x =>
    simp only
    split
    · exact still_setUb r u
    · cases hi : infoOf { r with ub := u } with
      | none => exact still_setUb r u
      | some i =>
        simp only
        cases hgt : getTransform t { r with ub := u } i with
        | error e => exact still_setUb r u
        | ok p =>
          obtain ⟨r2, snap⟩ := p
          obtain ⟨c, hc⟩ := getTransform_cached t _ i r2 snap hgt
          subst hc
          simp only
          split
          · exact ⟨rfl, rfl, rfl, rfl, rfl, rfl, rfl⟩
          · exact ⟨rfl, rfl, (advance_dims _).2.2.2, rfl, rfl, rfl, rfl⟩

/-- **`finish_decoding` without a stream**: nothing changes; it succeeds exactly when the frame was
    already flushed -/
theorem finishDecoding_ns (cfg : Cfg) (r : R) (h : NoStream r) :
    (finishDecoding cfg r).1 = r ∧
    (∀ u, (finishDecoding cfg r).2 = .ok u → r.sub.caf = true) := by
  unfold finishDecoding
  split
  · exact ⟨rfl, fun u hu => by cases hu⟩
  · split
    · rename_i hcaf; exact ⟨rfl, fun _ _ => hcaf⟩
    · rename_i hcaf
      rcases h with h | h
      · obtain ⟨n, hn⟩ := fuelOf_succ r
        obtain ⟨e, h1, _⟩ := finishDecodingImageData_dead cfg r h n
        rw [hn, h1]
        exact ⟨rfl, fun u hu => by cases hu⟩
      · exact absurd h hcaf

/-- **`read_row` without a stream** -/
theorem readRow_ns (cfg : Cfg) (t : TCfg) (r : R) (bufLen : Nat) (h : NoStream r) :
    Still r (readRow cfg t r bufLen).1 := by
  cases hcur : r.sub.cur with
  | none =>
    unfold readRow
    rw [hcur]
    simp only
    have := (finishDecoding_ns cfg r h).1
    generalize finishDecoding cfg r = out at this
    obtain ⟨r1, res⟩ := out
    simp only at this
    subst this
    cases res <;> exact Still.refl _
  | some ii =>
    rw [readRow_some cfg t r bufLen ii hcur]
    generalize hr0 : (if ii.line = 0 then { r with ub := r.ub.resetPrev } else r) = r0
    have hs0 : Still r r0 := by subst hr0; split <;> exact ⟨rfl, rfl, rfl, rfl, rfl, rfl, rfl⟩
    split
    · exact hs0
    · split
      · exact hs0
      · rename_i i _ _
        have := nextRowImpl_ns cfg t r0 (rowlenOf i.color i.depth r0.sub ii) (lineSizeFor t r0 i ii) (h.still hs0)
        generalize nextRowImpl cfg t r0 (rowlenOf i.color i.depth r0.sub ii) (lineSizeFor t r0 i ii) = out at this
        obtain ⟨r1, res⟩ := out
        cases res <;> exact hs0.trans this

theorem nextInterlacedRow_ns (cfg : Cfg) (t : TCfg) (r : R) (h : NoStream r) :
    Still r (nextInterlacedRow cfg t r).1 := by
  unfold nextInterlacedRow
  split
  · exact Still.refl _
  · rename_i i hi
    have hs0 : Still r { r with scratchLen := outLineSize t i r.flags r.sub.width } := ⟨rfl, rfl, rfl, rfl, rfl, rfl, rfl⟩
    exact hs0.trans (readRow_ns cfg t _ _ (h.still hs0))

theorem frameRows_ns (cfg : Cfg) (t : TCfg) (lineSize : Nat) : ∀ (n k : Nat) (r : R) (buf : Bytes), NoStream r →
    Still r (frameRows cfg t lineSize n k r buf).1 := by
  intro n
  induction n with
  | zero => intro k r buf _; exact Still.refl _
  | succ n ih =>
    intro k r buf h
    unfold frameRows
    split
    · exact Still.refl _
    · have h1 := nextRowImpl_ns cfg t r r.sub.rowlen lineSize h
      generalize nextRowImpl cfg t r r.sub.rowlen lineSize = out at h1
      obtain ⟨r1, res⟩ := out
      cases res with
      | error e => exact h1
      | ok o => exact h1.trans (ih _ r1 _ (h.still h1))

theorem frameInterlaced_ns (cfg : Cfg) (t : TCfg) (stride bitsPP : Nat) : ∀ (fuel : Nat) (r : R) (buf : Bytes),
    NoStream r → Still r (frameInterlaced cfg t stride bitsPP fuel r buf).1 := by
  intro fuel
  induction fuel with
  | zero => intro r buf _; exact Still.refl _
  | succ fuel ih =>
    intro r buf h
    unfold frameInterlaced
    have h1 := nextInterlacedRow_ns cfg t r h
    generalize nextInterlacedRow cfg t r = out at h1
    obtain ⟨r1, res⟩ := out
    cases res with
    | row ii data =>
      cases ii with
      | null l => exact h1
      | adam7 p l w =>
        simp only
        split
        · exact h1
        · exact h1.trans (ih r1 _ (h.still h1))
    | noRow => exact h1
    | header => exact h1
    | frame _ _ => exact h1
    | frameInfo _ => exact h1
    | done => exact h1
    | err _ _ => exact h1
    | panic _ => exact h1

theorem frameBody_ns (cfg : Cfg) (t : TCfg) (r : R) (il : Bool) (lineSize bitsPP : Nat) (buf : Bytes) (h : NoStream r) :
    Still r (frameBody cfg t r il lineSize bitsPP buf).1 := by
  unfold frameBody
  split
  · exact frameInterlaced_ns cfg t _ _ _ r buf h
  · simp only
    split
    · exact Still.refl _
    · exact frameRows_ns cfg t _ _ _ r buf h

/-- the row loop of `next_frame` under the invariant: an error value is an error (restated from
    `frameInto_spec`, to be combined with `frameBody_ns`) -/
theorem frameBody_err (cfg : Cfg) {t : TCfg} (ht : t.Ok) (r1 : R) (buf : Bytes) (hI : Inv t r1) (i : Info)
    (hi : r1.dec.info = some i) (hbuf : r1.sub.height * outLineSize t i r1.flags r1.sub.width ≤ buf.length) :
    match frameBody cfg t r1 i.interlaced (outLineSize t i r1.flags r1.sub.width)
        (samplesOf (t.outColorDepth i r1.flags).1 * (t.outColorDepth i r1.flags).2) buf with
    | (r', _, none) => Inv t r' ∧ r'.sub.cur = none
    | (r', _, some e) => e.isErr = true ∧ Inv t r' := by
  obtain ⟨j, hj, hg⟩ := hI.info
  rw [hi] at hj; cases hj
  have hleg := hI.base.dinv.legal i hi
  unfold frameBody
  cases hil : i.interlaced with
  | true =>
    simp only [if_true]
    have := frameInterlaced_spec cfg ht i hil (outLineSize t i r1.flags r1.sub.width) (7 * r1.sub.height + 8) r1 buf hI hi rfl
      (by have := rowsLeft_le (hil ▸ hg.iter); omega) hbuf
    generalize frameInterlaced cfg t (outLineSize t i r1.flags r1.sub.width)
      (samplesOf (t.outColorDepth i r1.flags).1 * (t.outColorDepth i r1.flags).2) (7 * r1.sub.height + 8) r1 buf = out at this
    obtain ⟨r2, b2, res⟩ := out
    cases res with
    | none => exact ⟨this.1, this.2.2.1⟩
    | some e => exact ⟨this.1, this.2.1⟩
  | false =>
    simp only [Bool.false_eq_true, if_false]
    rw [if_neg (by have := outLineSize_pos ht hleg r1.flags hg.w1; omega)]
    have key : ∀ n k, k + n = r1.sub.height → (n = 0 → r1.sub.cur = none) → (0 < n → r1.sub.cur = some (.null k)) →
        (match frameRows cfg t (outLineSize t i r1.flags r1.sub.width) n k r1 buf with
         | (r', _, none) => Inv t r' ∧ r'.sub.cur = none
         | (r', _, some e) => e.isErr = true ∧ Inv t r') := by
      intro n k h1 h2 h3
      have := frameRows_spec cfg ht i hil _ n k r1 buf hI hi rfl h1 h2 h3 hbuf
      generalize frameRows cfg t (outLineSize t i r1.flags r1.sub.width) n k r1 buf = out at this
      obtain ⟨r2, b2, res⟩ := out
      cases res with
      | none => exact ⟨this.1, this.2.2.1⟩
      | some e => exact ⟨this.1, this.2.1⟩
    cases hcur : r1.sub.cur with
    | none => simp only; exact key _ _ (by omega) (fun _ => hcur) (fun h => by omega)
    | some ii =>
      have hc := hg.cur
      unfold CurOk at hc
      rw [hil, hcur] at hc
      cases ii with
      | adam7 _ _ _ => cases hit : r1.sub.iter <;> (rw [hit] at hc; exact hc.elim)
      | null l =>
        cases hit : r1.sub.iter with
        | adam7 _ => rw [hit] at hc; exact hc.elim
        | none n stop =>
          rw [hit] at hc; simp only at hc
          simp only [IInfo.line]
          exact key _ _ (by omega) (fun h => by omega) (fun _ => hcur)

/-- **`next_frame` inside a frame whose stream is gone** (fatal error before the flush): nothing the
    stream position or the frame accounting depends on changes, and the call fails with an error -/
theorem frameInto_dead (cfg : Cfg) {t : TCfg} (ht : t.Ok) (r : R) (buf : Bytes) (hI : Inv t r) (h : Dead r)
    (hcaf : r.sub.caf = false) :
    Still r (frameInto cfg t r buf).1 ∧ (frameInto cfg t r buf).2.1.isErr = true := by
  obtain ⟨i, hi, hg⟩ := hI.info
  have hleg := hI.base.dinv.legal i hi
  unfold frameInto
  simp only [infoOf, hi]
  by_cases hneed : buf.length < outLineSize t i r.flags i.width * i.height
  · rw [if_pos hneed]; exact ⟨Still.refl _, rfl⟩
  · rw [if_neg hneed]
    have hbuf : r.sub.height * outLineSize t i r.flags r.sub.width ≤ buf.length := by
      have h1 := outLineSize_mono ht hleg r.flags hg.wW
      have h2 : r.sub.height * outLineSize t i r.flags r.sub.width ≤ i.height * outLineSize t i r.flags i.width :=
        Nat.mul_le_mul hg.hH h1
      rw [Nat.mul_comm i.height] at h2
      omega
    have h1 := frameBody_ns cfg t r i.interlaced (outLineSize t i r.flags r.sub.width)
      (samplesOf (t.outColorDepth i r.flags).1 * (t.outColorDepth i r.flags).2) buf (Or.inl h)
    have h0 := frameBody_err cfg ht r buf hI i hi hbuf
    generalize frameBody cfg t r i.interlaced (outLineSize t i r.flags r.sub.width)
      (samplesOf (t.outColorDepth i r.flags).1 * (t.outColorDepth i r.flags).2) buf = out at h1 h0
    obtain ⟨r2, buf', res⟩ := out
    cases res with
    | some e => exact ⟨h1, h0.1⟩
    | none =>
      simp only
      have h2 := finishDecoding_ns cfg r2 (Or.inl ⟨h1.dec ▸ h.1, h1.dec ▸ h.2⟩)
      have h5 := finishDecoding_spec cfg r2 h0.1 h0.2
      generalize finishDecoding cfg r2 = out2 at h2 h5
      obtain ⟨r3, res3⟩ := out2
      simp only at h2
      obtain ⟨h3, h4⟩ := h2
      subst h3
      cases res3 with
      | error e => exact ⟨h1, h5.1⟩
      | ok u =>
        have := h4 u rfl
        rw [h1.caf, hcaf] at this
        cases this

/-! ## Part C: the public calls in the terminal situations -/

/-- what a row call may return: a row, `None`, or an error -/
def Res.isRowRes : Res → Bool
  | .row _ _ | .noRow | .err _ _ => true
  | _ => false

theorem RowRes.isRowRes {t : TCfg} {i : Info} {f : Flags} {s s' : Sub} {res : Res} (h : RowRes t i f s s' res) :
    res.isRowRes = true := by
  cases res <;> first | rfl | exact h.elim

/-- **`next_frame` inside a frame without a stream** (poisoned, or the frame's data was consumed and flushed): only
    what is buffered is used -/
theorem frameInto_ns (cfg : Cfg) (t : TCfg) (r : R) (buf : Bytes) (h : NoStream r) :
    Still r (frameInto cfg t r buf).1 := by
  unfold frameInto
  split
  · exact Still.refl _
  · rename_i i hi
    simp only
    split
    · exact Still.refl _
    · have h1 := frameBody_ns cfg t r i.interlaced (outLineSize t i r.flags r.sub.width)
        (samplesOf (t.outColorDepth i r.flags).1 * (t.outColorDepth i r.flags).2) buf h
      generalize frameBody cfg t r i.interlaced (outLineSize t i r.flags r.sub.width)
        (samplesOf (t.outColorDepth i r.flags).1 * (t.outColorDepth i r.flags).2) buf = out at h1
      obtain ⟨r2, buf', res⟩ := out
      cases res with
      | some e => exact h1
      | none =>
        simp only
        have h2 := (finishDecoding_ns cfg r2 (h.still h1)).1
        generalize finishDecoding cfg r2 = out2 at h2
        obtain ⟨r3, res3⟩ := out2
        simp only at h2
        subst h2
        cases res3 <;> exact h1

/-- `next_frame` inside a frame answers an error or the frame -/
theorem frameInto_kind (cfg : Cfg) {t : TCfg} (ht : t.Ok) (r : R) (buf : Bytes) (hI : Inv t r) :
    (frameInto cfg t r buf).2.1.isErr = true ∨ ∃ oi b, (frameInto cfg t r buf).2.1 = .frame oi b := by
  obtain ⟨i, hi, hg⟩ := hI.info
  have hleg := hI.base.dinv.legal i hi
  unfold frameInto
  simp only [infoOf, hi]
  by_cases hneed : buf.length < outLineSize t i r.flags i.width * i.height
  · rw [if_pos hneed]; exact Or.inl rfl
  · rw [if_neg hneed]
    have hbuf : r.sub.height * outLineSize t i r.flags r.sub.width ≤ buf.length := by
      have h1 := outLineSize_mono ht hleg r.flags hg.wW
      have h2 : r.sub.height * outLineSize t i r.flags r.sub.width ≤ i.height * outLineSize t i r.flags i.width :=
        Nat.mul_le_mul hg.hH h1
      rw [Nat.mul_comm i.height] at h2
      omega
    have h0 := frameBody_err cfg ht r buf hI i hi hbuf
    generalize frameBody cfg t r i.interlaced (outLineSize t i r.flags r.sub.width)
      (samplesOf (t.outColorDepth i r.flags).1 * (t.outColorDepth i r.flags).2) buf = out at h0
    obtain ⟨r2, buf', res⟩ := out
    cases res with
    | some e => exact Or.inl h0.1
    | none =>
      simp only
      have h5 := finishDecoding_spec cfg r2 h0.1 h0.2
      generalize finishDecoding cfg r2 = out2 at h5
      obtain ⟨r3, res3⟩ := out2
      cases res3 with
      | error e => exact Or.inl h5.1
      | ok u => exact Or.inr ⟨_, _, rfl⟩

/-- **`next_frame` after a fatal error**: it fails with an error — unless rows of the current frame are still to be
    delivered and the frame's data was already consumed and flushed: then (repair 429476f) it finishes that frame from
    what is buffered and answers the frame or an error; the stream is not touched either way -/
theorem nextFrameBuf_dead (cfg : Cfg) {t : TCfg} (ht : t.Ok) (r : R) (buf : Bytes) (hI : Inv t r) (h : Dead r) :
    Still r (nextFrameBuf cfg t r buf).1 ∧
    ((nextFrameBuf cfg t r buf).2.1.isErr = true ∨
      (r.sub.cur.isSome = true ∧ r.sub.caf = true ∧ ∃ oi b, (nextFrameBuf cfg t r buf).2.1 = .frame oi b)) := by
  by_cases hc : r.sub.cur.isSome = true
  · rw [nextFrameBuf_some cfg t r buf hc]
    cases hcaf : r.sub.caf with
    | false => exact ⟨(frameInto_dead cfg ht r buf hI h hcaf).1, Or.inl (frameInto_dead cfg ht r buf hI h hcaf).2⟩
    | true =>
      refine ⟨frameInto_ns cfg t r buf (Or.inl h), ?_⟩
      rcases frameInto_kind cfg ht r buf hI with h1 | h1
      · exact Or.inl h1
      · exact Or.inr ⟨hc, rfl, h1⟩
  rw [nextFrameBuf_eq, if_neg hc]
  unfold nextFrameBuf0
  split
  · exact ⟨Still.refl _, Or.inl rfl⟩
  · cases hcaf : r.sub.caf with
    | true =>
      simp only [if_true]
      obtain ⟨e, h1, h2⟩ := readUntilImageData_dead cfg t r h
      rw [h1]; exact ⟨Still.refl _, Or.inl h2⟩
    | false =>
      simp only [Bool.false_eq_true, if_false]
      exact ⟨(frameInto_dead cfg ht r buf hI h hcaf).1, Or.inl (frameInto_dead cfg ht r buf hI h hcaf).2⟩

/-- **`next_frame_info` after a fatal error** -/
theorem nextFrameInfo_dead (cfg : Cfg) {t : TCfg} (r : R) (hI : Inv t r) (h : Dead r) :
    Still r (nextFrameInfo cfg t r).1 ∧ (nextFrameInfo cfg t r).2.isErr = true := by
  unfold nextFrameInfo
  cases hcaf : r.sub.caf with
  | true =>
    simp only [if_true, Bool.not_true, Bool.false_eq_true, if_false]
    cases hrem : r.remaining with
    | zero => exact ⟨Still.refl _, rfl⟩
    | succ n =>
      simp only
      obtain ⟨e, h1, h2⟩ := readUntilImageData_dead cfg t r h
      rw [h1]; exact ⟨Still.refl _, h2⟩
  | false =>
    simp only [Bool.false_eq_true, if_false, Bool.not_false, if_true]
    cases hrem : r.remaining - 1 with
    | zero => exact ⟨Still.refl _, rfl⟩
    | succ n =>
      simp only
      have hs0 : Still r { r with sub := { r.sub with cur := none } } := ⟨rfl, rfl, rfl, rfl, rfl, rfl, rfl⟩
      have hns : NoStream { r with sub := { r.sub with cur := none } } := Or.inl h
      have h2 := finishDecoding_ns cfg _ hns
      have h5 := finishDecoding_spec cfg { r with sub := { r.sub with cur := none } } hI.clearCur rfl
      generalize finishDecoding cfg { r with sub := { r.sub with cur := none } } = out at h2 h5
      obtain ⟨r1, res⟩ := out
      simp only at h2
      obtain ⟨h3, h4⟩ := h2
      subst h3
      cases res with
      | error e => exact ⟨hs0, h5.1⟩
      | ok u =>
        have := h4 u rfl
        have h6 : r.sub.caf = true := this
        rw [hcaf] at h6; cases h6

/-- **`finish` after a fatal error**: the rest of the frame is discarded, the stream is not touched,
    the call fails with an error -/
theorem finish_dead (cfg : Cfg) (r : R) (h : Dead r) :
    (finish cfg r).1.dec = r.dec ∧ (finish cfg r).1.pos = r.pos ∧ (finish cfg r).1.visible = r.visible ∧
    (finish cfg r).2.isErr = true := by
  unfold finish
  by_cases hfin : r.finished = true
  · rw [if_pos hfin]; exact ⟨rfl, rfl, rfl, rfl⟩
  · rw [if_neg hfin]
    simp only
    obtain ⟨n, hn⟩ := fuelOf_succ { r with remaining := 0, ub := UB.new, sub := { r.sub with cur := none, caf := true } }
    obtain ⟨e, h1, h2⟩ := readUntilEndOfInput_dead cfg
      { r with remaining := 0, ub := UB.new, sub := { r.sub with cur := none, caf := true } } h n
    rw [hn, h1]
    exact ⟨rfl, rfl, rfl, h2⟩

/-- the public calls of a `Reader` -/
def Op.isCall : Op → Bool
  | .nextFrame _ | .nextRow | .readRow | .nextFrameInfo | .finish => true
  | _ => false

/-- a row call -/
def Op.isRowCall : Op → Bool
  | .nextRow | .readRow => true
  | _ => false

/-- `next_frame` -/
def Op.isFrameCall : Op → Bool
  | .nextFrame _ => true
  | _ => false

/-- `Ok(OutputInfo)` of `next_frame` -/
def Res.isFrame : Res → Bool
  | .frame _ _ => true
  | _ => false

/-- the model's `next_frame` operation in terms of `next_frame` on the caller's buffer: the same answer, and the
    reader differs only in the model's bookkeeping of that buffer -/
theorem nextFrameOp_out (cfg : Cfg) (t : TCfg) (r : R) (p : UInt8) (i : Info) (hi : r.dec.info = some i) :
    (nextFrameOp cfg t r p).2 =
      (nextFrameBuf cfg t { r with pendingBuf := none } (callerBuf r (outLineSize t i r.flags i.width * i.height) p)).2.1 ∧
    Still (nextFrameBuf cfg t { r with pendingBuf := none } (callerBuf r (outLineSize t i r.flags i.width * i.height) p)).1
      (nextFrameOp cfg t r p).1 := by
  unfold nextFrameOp
  simp only [infoOf, hi]
  generalize nextFrameBuf cfg t { r with pendingBuf := none }
    (callerBuf r (outLineSize t i r.flags i.width * i.height) p) = out
  obtain ⟨r1, res, b⟩ := out
  simp only
  split <;> exact ⟨rfl, ⟨rfl, rfl, rfl, rfl, rfl, rfl, rfl⟩⟩

/-- `next_frame` with no frame left and no row pending -/
theorem nextFrameOp_polled (cfg : Cfg) (t : TCfg) (r : R) (p : UInt8) (i : Info) (hi : r.dec.info = some i)
    (hrem : r.remaining = 0) (hcur : r.sub.cur = none) :
    nextFrameOp cfg t r p = ({ r with pendingBuf := none }, .err .parameter "PolledAfterEndOfImage") := by
  unfold nextFrameOp
  simp only [infoOf, hi]
  rw [nextFrameBuf_none cfg t { r with pendingBuf := none } _ hcur]
  unfold nextFrameBuf0
  simp only [hrem, if_true]

theorem step_reader (cfg : Cfg) (t : TCfg) (r : R) (hr : r.isReader = true) :
    (∀ p, step cfg t r (.nextFrame p) = nextFrameOp cfg t r p) ∧
    step cfg t r .nextRow = nextInterlacedRow cfg t { r with pendingBuf := none } ∧
    step cfg t r .readRow = (match infoOf r with
      | none => (r, .panic "info().unwrap()")
      | some i => readRow cfg t { r with pendingBuf := none } (outLineSize t i r.flags i.width)) ∧
    step cfg t r .nextFrameInfo = nextFrameInfo cfg t { r with pendingBuf := none } ∧
    step cfg t r .finish = finish cfg { r with pendingBuf := none } := by
  refine ⟨fun p => ?_, ?_, ?_, ?_, ?_⟩ <;> simp only [step] <;> rw [if_neg (by rw [hr]; simp)] <;>
    (cases infoOf r <;> rfl)

/-- **after a fatal error** (or after `ImageEnd`): every call of the `Reader` leaves the stream decoder
    and the read position alone and fails with an error — except that the row calls keep handing
    out the rows that were already buffered (then `None` or an error) -/
theorem poisoned_absorbing (cfg : Cfg) {t : TCfg} (ht : t.Ok) (r : R) (op : Op) (hI : Inv t r)
    (hr : r.isReader = true) (hd : r.dec.state = none) (hop : op.isCall = true) :
    (step cfg t r op).1.dec = r.dec ∧ (step cfg t r op).1.pos = r.pos ∧ (step cfg t r op).1.visible = r.visible ∧
    ((step cfg t r op).2.isErr = true ∨ (op.isRowCall = true ∧ (step cfg t r op).2.isRowRes = true) ∨
      (op.isFrameCall = true ∧ r.sub.cur.isSome = true ∧ r.sub.caf = true ∧ (step cfg t r op).2.isFrame = true)) := by
  obtain ⟨s1, s2, s3, s4, s5⟩ := step_reader cfg t r hr
  have hdead : Dead { r with pendingBuf := none } := ⟨hd, hI.base.out⟩
  have hI0 := hI.setPending none
  obtain ⟨i, hi, hg⟩ := hI.info
  cases op with
  | grow _ => cases hop
  | readInfo => cases hop
  | readHeader => cases hop
  | nextFrame p =>
    rw [s1 p]
    obtain ⟨o1, o2⟩ := nextFrameOp_out cfg t r p i hi
    obtain ⟨h1, h2⟩ := nextFrameBuf_dead cfg ht { r with pendingBuf := none }
      (callerBuf r (outLineSize t i r.flags i.width * i.height) p) hI0 hdead
    have hS := h1.trans o2
    refine ⟨hS.dec, hS.pos, hS.visible, ?_⟩
    rw [o1]
    rcases h2 with h2 | ⟨c1, c2, oi, b, c3⟩
    · exact Or.inl h2
    · exact Or.inr (Or.inr ⟨rfl, c1, c2, by rw [c3]; rfl⟩)
  | nextRow =>
    rw [s2]
    have h1 := nextInterlacedRow_ns cfg t { r with pendingBuf := none } (Or.inl hdead)
    have h2 := nextInterlacedRow_spec cfg ht { r with pendingBuf := none } i hI0 hi
    generalize nextInterlacedRow cfg t { r with pendingBuf := none } = out at h1 h2
    obtain ⟨r1, res⟩ := out
    exact ⟨h1.dec, h1.pos, h1.visible, Or.inr (Or.inl ⟨rfl, h2.2.2.2.isRowRes⟩)⟩
  | readRow =>
    rw [s3]
    simp only [infoOf, hi]
    have h1 := readRow_ns cfg t { r with pendingBuf := none } (outLineSize t i r.flags i.width) (Or.inl hdead)
    have h2 := readRow_spec cfg ht { r with pendingBuf := none } (outLineSize t i r.flags i.width) i hI0 hi
      (outLineSize_mono ht (hI.base.dinv.legal i hi) r.flags hg.wW)
    generalize readRow cfg t { r with pendingBuf := none } (outLineSize t i r.flags i.width) = out at h1 h2
    obtain ⟨r1, res⟩ := out
    exact ⟨h1.dec, h1.pos, h1.visible, Or.inr (Or.inl ⟨rfl, h2.2.2.2.isRowRes⟩)⟩
  | nextFrameInfo =>
    rw [s4]
    have := nextFrameInfo_dead cfg { r with pendingBuf := none } hI0 hdead
    exact ⟨this.1.dec, this.1.pos, this.1.visible, Or.inl this.2⟩
  | finish =>
    rw [s5]
    have := finish_dead cfg { r with pendingBuf := none } hdead
    exact ⟨this.1, this.2.1, this.2.2.1, Or.inl this.2.2.2⟩

/-- **`finish`** always leaves `remaining_frames = 0` and the frame marked consumed; it fails with an
    error or reaches `ImageEnd` (then the reader is finished and the stream decoder done) -/
theorem finish_terminal (cfg : Cfg) {t : TCfg} (r : R) (hI : Inv t r) :
    (finish cfg r).1.remaining = 0 ∧ (finish cfg r).1.sub.caf = true ∧
    (((finish cfg r).2 = .done ∧ (finish cfg r).1.finished = true ∧ (finish cfg r).1.dec.state = none ∧
        r.finished = false) ∨ (finish cfg r).2.isErr = true) := by
  unfold finish
  by_cases hfin : r.finished = true
  · rw [if_pos hfin]; exact ⟨(hI.fin hfin).2.1, (hI.fin hfin).1, Or.inr rfl⟩
  · rw [if_neg hfin]
    simp only
    have hB : Base { r with remaining := 0, ub := UB.new, sub := { r.sub with cur := none, caf := true } } :=
      hI.base.congr rfl rfl rfl
    have hsp := readUntilEndOfInput_spec cfg _ _ (fuelOf_ge _) hB
    generalize readUntilEndOfInput cfg
      (fuelOf { r with remaining := 0, ub := UB.new, sub := { r.sub with cur := none, caf := true } })
      { r with remaining := 0, ub := UB.new, sub := { r.sub with cur := none, caf := true } } = out at hsp
    obtain ⟨r1, res⟩ := out
    cases res with
    | error e =>
      obtain ⟨f1, _, f3, _⟩ := hsp.2.frame.fields
      exact ⟨f3, by show r1.sub.caf = true; rw [f1], Or.inr hsp.1⟩
    | ok u =>
      obtain ⟨f1, _, f3, _⟩ := hsp.1.frame.fields
      refine ⟨f3, by show r1.sub.caf = true; rw [f1], Or.inl ⟨rfl, rfl, hsp.2, ?_⟩⟩
      cases h : r.finished <;> simp_all

/-- **after the last frame** (`remaining_frames = 0`, frame consumed and flushed — also the state a
    failed `finish` leaves): `next_frame` and `next_frame_info` refuse with `Parameter` without
    touching anything; the row calls do not touch the stream; `finish` keeps the state terminal and
    either fails or reaches `ImageEnd` -/
theorem ended_absorbing (cfg : Cfg) {t : TCfg} (ht : t.Ok) (r : R) (hI : Inv t r) (hr : r.isReader = true)
    (hrem : r.remaining = 0) (hcaf : r.sub.caf = true) :
    (∀ p, (r.sub.cur = none →
        step cfg t r (.nextFrame p) = ({ r with pendingBuf := none }, .err .parameter "PolledAfterEndOfImage")) ∧
      Still r (step cfg t r (.nextFrame p)).1 ∧
      ((step cfg t r (.nextFrame p)).2.isErr = true ∨
        (r.sub.cur.isSome = true ∧ (step cfg t r (.nextFrame p)).2.isFrame = true))) ∧
    step cfg t r .nextFrameInfo = ({ r with pendingBuf := none }, .err .parameter "PolledAfterEndOfImage") ∧
    (Still r (step cfg t r .nextRow).1 ∧ (step cfg t r .nextRow).2.isRowRes = true) ∧
    (Still r (step cfg t r .readRow).1 ∧ (step cfg t r .readRow).2.isRowRes = true) ∧
    ((step cfg t r .finish).1.remaining = 0 ∧ (step cfg t r .finish).1.sub.caf = true ∧
      (((step cfg t r .finish).2 = .done ∧ (step cfg t r .finish).1.finished = true ∧
          (step cfg t r .finish).1.dec.state = none ∧ r.finished = false) ∨
        (step cfg t r .finish).2.isErr = true)) := by
  obtain ⟨s1, s2, s3, s4, s5⟩ := step_reader cfg t r hr
  have hI0 := hI.setPending none
  obtain ⟨i, hi, hg⟩ := hI.info
  have hs0 : Still r { r with pendingBuf := none } := ⟨rfl, rfl, rfl, rfl, rfl, rfl, rfl⟩
  refine ⟨fun p => ?_, ?_, ?_, ?_, ?_⟩
  · rw [s1 p]
    refine ⟨fun hcur => nextFrameOp_polled cfg t r p i hi hrem hcur, ?_⟩
    cases hcur : r.sub.cur with
    | none =>
      rw [nextFrameOp_polled cfg t r p i hi hrem hcur]
      exact ⟨hs0, Or.inl rfl⟩
    | some ii =>
      have hc : ({ r with pendingBuf := none } : R).sub.cur.isSome = true := by
        show r.sub.cur.isSome = true; rw [hcur]; rfl
      obtain ⟨o1, o2⟩ := nextFrameOp_out cfg t r p i hi
      rw [nextFrameBuf_some cfg t _ _ hc] at o1 o2
      have hS := (frameInto_ns cfg t { r with pendingBuf := none }
        (callerBuf r (outLineSize t i r.flags i.width * i.height) p) (Or.inr hcaf)).trans o2
      refine ⟨hs0.trans hS, ?_⟩
      rw [o1]
      rcases frameInto_kind cfg ht { r with pendingBuf := none }
        (callerBuf r (outLineSize t i r.flags i.width * i.height) p) hI0 with h | ⟨oi, b, h⟩
      · exact Or.inl h
      · exact Or.inr ⟨rfl, by rw [h]; rfl⟩
  · rw [s4]
    unfold nextFrameInfo
    simp only [hcaf, if_true, hrem]
  · rw [s2]
    have h1 := nextInterlacedRow_ns cfg t { r with pendingBuf := none } (Or.inr hcaf)
    have h2 := nextInterlacedRow_spec cfg ht { r with pendingBuf := none } i hI0 hi
    generalize nextInterlacedRow cfg t { r with pendingBuf := none } = out at h1 h2
    obtain ⟨r1, res⟩ := out
    exact ⟨hs0.trans h1, h2.2.2.2.isRowRes⟩
  · rw [s3]
    simp only [infoOf, hi]
    have h1 := readRow_ns cfg t { r with pendingBuf := none } (outLineSize t i r.flags i.width) (Or.inr hcaf)
    have h2 := readRow_spec cfg ht { r with pendingBuf := none } (outLineSize t i r.flags i.width) i hI0 hi
      (outLineSize_mono ht (hI.base.dinv.legal i hi) r.flags hg.wW)
    generalize readRow cfg t { r with pendingBuf := none } (outLineSize t i r.flags i.width) = out at h1 h2
    obtain ⟨r1, res⟩ := out
    exact ⟨hs0.trans h1, h2.2.2.2.isRowRes⟩
  · rw [s5]
    exact finish_terminal cfg { r with pendingBuf := none } hI0

/-- **after `finish` succeeded**: every call leaves the reader as it is; the row calls return `None`,
    everything else `Parameter` -/
theorem finished_absorbing (cfg : Cfg) {t : TCfg} (r : R) (hI : Inv t r) (hr : r.isReader = true)
    (hfin : r.finished = true) :
    (∀ p, step cfg t r (.nextFrame p) = ({ r with pendingBuf := none }, .err .parameter "PolledAfterEndOfImage")) ∧
    step cfg t r .nextFrameInfo = ({ r with pendingBuf := none }, .err .parameter "PolledAfterEndOfImage") ∧
    step cfg t r .finish = ({ r with pendingBuf := none }, .err .parameter "PolledAfterEndOfImage") ∧
    (step cfg t r .readRow = ({ r with pendingBuf := none }, .noRow)) ∧
    (Still r (step cfg t r .nextRow).1 ∧ (step cfg t r .nextRow).2 = .noRow) := by
  obtain ⟨s1, s2, s3, s4, s5⟩ := step_reader cfg t r hr
  obtain ⟨hcaf, hrem, hcur⟩ := hI.fin hfin
  obtain ⟨i, hi, hg⟩ := hI.info
  refine ⟨fun p => ?_, ?_, ?_, ?_, ?_⟩
  · rw [s1 p]
    exact nextFrameOp_polled cfg t r p i hi hrem hcur
  · rw [s4]
    unfold nextFrameInfo
    simp only [hcaf, if_true, hrem]
  · rw [s5]
    unfold finish
    simp only [hfin, if_true]
  · rw [s3]
    simp only [infoOf, hi]
    unfold readRow finishDecoding
    simp only [hcur, hcaf, Option.isSome_none, Bool.false_eq_true, if_false, if_true]
  · rw [s2]
    unfold nextInterlacedRow
    simp only [infoOf, hi]
    unfold readRow finishDecoding
    simp only [hcur, hcaf, Option.isSome_none, Bool.false_eq_true, if_false, if_true]
    exact ⟨⟨rfl, rfl, rfl, rfl, rfl, rfl, rfl⟩, trivial⟩

/-- **the state a refused reservation leaves** (`Reader::read_until_image_data`, mod.rs:367-374; it is also the state
    after `finish`): no frame remains, the sub-frame that is still installed — the OLD one, whose row buffers were
    paid for — is consumed and flushed and has no current row -/
def Ended (r : R) : Prop := r.remaining = 0 ∧ r.sub.caf = true ∧ r.sub.cur = none

theorem R.ended_Ended (r : R) : Ended r.ended := ⟨rfl, rfl, rfl⟩

theorem Sub.ended_eq (s : Sub) (h1 : s.caf = true) (h2 : s.cur = none) : ({ s with cur := none, caf := true } : Sub) = s := by
  cases s; simp only at h1 h2; subst h1; subst h2; rfl

/-- `finish` leaves the sub-frame as it is, marked consumed and without a current row -/
theorem finish_sub (cfg : Cfg) {t : TCfg} (r : R) (hI : Inv t r) :
    (finish cfg r).1.sub = { r.sub with cur := none, caf := true } := by
  unfold finish
  by_cases hfin : r.finished = true
  · rw [if_pos hfin]
    exact (Sub.ended_eq r.sub (hI.fin hfin).1 (hI.fin hfin).2.2).symm
  · rw [if_neg hfin]
    simp only
    have hB : Base { r with remaining := 0, ub := UB.new, sub := { r.sub with cur := none, caf := true } } :=
      hI.base.congr rfl rfl rfl
    have hsp := readUntilEndOfInput_spec cfg _ _ (fuelOf_ge _) hB
    generalize readUntilEndOfInput cfg
      (fuelOf { r with remaining := 0, ub := UB.new, sub := { r.sub with cur := none, caf := true } })
      { r with remaining := 0, ub := UB.new, sub := { r.sub with cur := none, caf := true } } = out at hsp
    obtain ⟨r1, res⟩ := out
    cases res with
    | error e => exact hsp.2.frame.fields.1
    | ok u => exact hsp.1.frame.fields.1

/-- **after a refused reservation**: `next_frame` and `next_frame_info` answer `Parameter(PolledAfterEndOfImage)`,
    `read_row` and `next_row` answer `None` — none of them touches the stream decoder, the sub-frame or the
    unfiltering buffer; `next_row` sizes its scratch row by the width of the sub-frame that is still installed;
    `finish` keeps the state ended and the sub-frame as it is, and returns `Ok` or an error -/
theorem refused_absorbing (cfg : Cfg) {t : TCfg} (r : R) (hI : Inv t r) (hr : r.isReader = true) (hE : Ended r) :
    (∀ p, step cfg t r (.nextFrame p) = ({ r with pendingBuf := none }, .err .parameter "PolledAfterEndOfImage")) ∧
    step cfg t r .nextFrameInfo = ({ r with pendingBuf := none }, .err .parameter "PolledAfterEndOfImage") ∧
    step cfg t r .readRow = ({ r with pendingBuf := none }, .noRow) ∧
    (∀ i, r.dec.info = some i → step cfg t r .nextRow =
      ({ r with pendingBuf := none, scratchLen := outLineSize t i r.flags r.sub.width }, .noRow)) ∧
    (Ended (step cfg t r .finish).1 ∧ (step cfg t r .finish).1.sub = r.sub ∧
      ((step cfg t r .finish).2 = .done ∨ (step cfg t r .finish).2.isErr = true)) := by
  obtain ⟨s1, s2, s3, s4, s5⟩ := step_reader cfg t r hr
  obtain ⟨hrem, hcaf, hcur⟩ := hE
  obtain ⟨i, hi, hg⟩ := hI.info
  refine ⟨fun p => ?_, ?_, ?_, ?_, ?_⟩
  · rw [s1 p]
    exact nextFrameOp_polled cfg t r p i hi hrem hcur
  · rw [s4]
    unfold nextFrameInfo
    simp only [hcaf, if_true, hrem]
  · rw [s3]
    simp only [infoOf, hi]
    unfold readRow finishDecoding
    simp only [hcur, hcaf, Option.isSome_none, Bool.false_eq_true, if_false, if_true]
  · intro j hj
    rw [hi] at hj; cases hj
    rw [s2]
    unfold nextInterlacedRow
    simp only [infoOf, hi]
    unfold readRow finishDecoding
    simp only [hcur, hcaf, Option.isSome_none, Bool.false_eq_true, if_false, if_true]
  · rw [s5]
    have hft := finish_terminal cfg { r with pendingBuf := none } (hI.setPending none)
    have hsub : (finish cfg { r with pendingBuf := none }).1.sub = { r.sub with cur := none, caf := true } :=
      finish_sub cfg { r with pendingBuf := none } (hI.setPending none)
    refine ⟨⟨hft.1, hft.2.1, by rw [hsub]⟩, by rw [hsub]; exact Sub.ended_eq r.sub hcaf hcur, ?_⟩
    rcases hft.2.2 with h | h
    · exact Or.inl h.1
    · exact Or.inr h

/-- results that can follow a refused reservation: `None`, `Ok(())` (`finish`, or the model's `grow`), an error — never
    a row, a frame, a frame control, a header or a panic -/
def Res.afterRefusal : Res → Bool
  | .noRow | .done | .err _ _ => true
  | _ => false

/-- **the ended state is kept by every call sequence** (no `read_info`: a `Reader` exists): the invariant, the ended
    state, the installed sub-frame and the transformation flags survive any further calls and growths of the
    input, and no call returns a row, a frame or a frame control -/
theorem ended_run (cfg : Cfg) {t : TCfg} : ∀ (ops : List Op) (r : R), Inv t r → r.isReader = true →
    Ended r → Op.readInfo ∉ ops →
    Inv t (run cfg t r ops).1 ∧ (run cfg t r ops).1.isReader = true ∧
    Ended (run cfg t r ops).1 ∧ (run cfg t r ops).1.sub = r.sub ∧ (run cfg t r ops).1.flags = r.flags ∧
    ∀ res ∈ (run cfg t r ops).2, res.afterRefusal = true := by
  intro ops
  induction ops with
  | nil => intro r hI hr hE _; exact ⟨hI, hr, hE, rfl, rfl, by simp [run]⟩
  | cons op ops ih =>
    intro r hI hr hE hops
    have hop : op ≠ .readInfo := fun h => hops (by rw [h]; exact List.mem_cons_self)
    have hops' : Op.readInfo ∉ ops := fun h => hops (List.mem_cons_of_mem _ h)
    obtain ⟨i, hi, _⟩ := hI.info
    obtain ⟨e1, e2, e3, e4, e5⟩ := refused_absorbing cfg r hI hr hE
    have key : Inv t (step cfg t r op).1 ∧ (step cfg t r op).1.isReader = true ∧
        Ended (step cfg t r op).1 ∧ (step cfg t r op).1.sub = r.sub ∧ (step cfg t r op).1.flags = r.flags ∧
        (step cfg t r op).2.afterRefusal = true := by
      cases op with
      | readInfo => exact absurd rfl hop
      | grow n =>
        refine ⟨?_, hr, hE, rfl, rfl, rfl⟩
        exact hI.setVisible _ (by omega)
      | readHeader =>
        have : step cfg t r .readHeader = (r, .err .parameter "model: Decoder already consumed") := by
          simp only [step]; rw [if_pos (Or.inl hr)]
        rw [this]; exact ⟨hI, hr, hE, rfl, rfl, rfl⟩
      | nextFrame p => rw [e1 p]; exact ⟨hI.setPending none, hr, hE, rfl, rfl, rfl⟩
      | nextFrameInfo => rw [e2]; exact ⟨hI.setPending none, hr, hE, rfl, rfl, rfl⟩
      | readRow => rw [e3]; exact ⟨hI.setPending none, hr, hE, rfl, rfl, rfl⟩
      | nextRow => rw [e4 i hi]; exact ⟨(hI.setPending none).setScratch _, hr, hE, rfl, rfl, rfl⟩
      | finish =>
        have hsp := finish_spec cfg { r with pendingBuf := none } (hI.setPending none)
        have hs5 := (step_reader cfg t r hr).2.2.2.2
        refine ⟨?_, ?_, e5.1, e5.2.1, ?_, ?_⟩
        · rw [hs5]; exact hsp.1
        · rw [hs5]; exact hsp.2.1.isReader.trans hr
        · rw [hs5]; exact hsp.2.1.flags
        · rcases e5.2.2 with h | h
          · rw [h]; rfl
          · generalize (step cfg t r .finish).2 = x at h
            cases x <;> first | rfl | cases h
    obtain ⟨k0, k00, k1, k2, k3, k4⟩ := key
    obtain ⟨a1, a2, a4, a5, a6, a7⟩ := ih (step cfg t r op).1 k0 k00 k1 hops'
    have hrun : run cfg t r (op :: ops) =
        ((run cfg t (step cfg t r op).1 ops).1, (step cfg t r op).2 :: (run cfg t (step cfg t r op).1 ops).2) := by
      simp only [run, List.foldl_cons, List.nil_append]
      rw [run_acc]
      simp [run]
    rw [hrun]
    refine ⟨a1, a2, a4, a5.trans k2, a6.trans k3, ?_⟩
    intro res hres
    simp only [List.mem_cons] at hres
    rcases hres with rfl | hres
    · exact k4
    · exact a7 res hres

/-- a state in which no further frame can be delivered -/
def Terminal (r : R) : Prop := r.dec.state = none ∨ r.finished = true ∨ (r.remaining = 0 ∧ r.sub.caf = true)

/-- results that can follow a terminal state: an error, `None`, an already buffered row, — from `next_frame` when
    rows of the current frame were still pending and its data already flushed (`pending`; repair 429476f) — that
    frame, finished from what is buffered, or — from `finish` on a reader that is not yet finished and whose stream is
    still usable — `Ok(())` -/
def Res.afterEnd (op : Op) (pending : Bool) : Res → Bool
  | .err _ _ => true
  | .noRow | .row _ _ => op.isRowCall
  | .frame _ _ => op.isFrameCall && pending
  | .done => op == .finish
  | _ => false

/-- **C18, terminal states are absorbing**: from a terminal state every call of the `Reader` leads to
    a terminal state and returns an error, `None`, an already buffered row, (`next_frame` with pending rows of a
    flushed frame only) the frame completed from buffered rows, or (`finish` only) `Ok` —
    never a frame control or a header; unless the call is a `finish` on an unfinished reader
    with a usable stream, neither the stream decoder nor the read position moves -/
theorem terminal_absorbing (cfg : Cfg) {t : TCfg} (ht : t.Ok) (r : R) (op : Op) (hI : Inv t r) (hr : r.isReader = true)
    (hT : Terminal r) (hop : op.isCall = true) :
    Terminal (step cfg t r op).1 ∧ (step cfg t r op).2.afterEnd op (r.sub.cur.isSome && r.sub.caf) = true ∧
    ((step cfg t r op).2 = .done → op = .finish ∧ r.finished = false ∧ r.dec.state ≠ none) ∧
    (op ≠ .finish ∨ r.dec.state = none ∨ r.finished = true →
      (step cfg t r op).1.dec = r.dec ∧ (step cfg t r op).1.pos = r.pos) := by
  have rowAfter : ∀ {o : Op} {res : Res} {b : Bool}, o.isRowCall = true → res.isRowRes = true → res.afterEnd o b = true := by
    intro o res b h1 h2
    cases res <;> first | rfl | exact h1 | cases h2
  have errAfter : ∀ {o : Op} {res : Res} {b : Bool}, res.isErr = true → res.afterEnd o b = true := by
    intro o res b h; cases res <;> first | rfl | cases h
  have frameAfter : ∀ {o : Op} {res : Res}, o.isFrameCall = true → res.isFrame = true → res.afterEnd o true = true := by
    intro o res h1 h2
    cases res with
    | frame oi b => show (o.isFrameCall && true) = true; rw [h1]; rfl
    | _ => cases h2
  have notDone : ∀ {res : Res}, res.isErr = true → res = .done → False := by
    intro res h h2; subst h2; cases h
  by_cases hd : r.dec.state = none
  · obtain ⟨h1, h2, _, h4⟩ := poisoned_absorbing cfg ht r op hI hr hd hop
    refine ⟨Or.inl (h1 ▸ hd), ?_, ?_, fun _ => ⟨h1, h2⟩⟩
    · rcases h4 with h4 | ⟨h4, h5⟩ | ⟨h4, h5, h6, h7⟩
      · exact errAfter h4
      · exact rowAfter h4 h5
      · rw [h5, h6]; exact frameAfter h4 h7
    · intro hdone
      rcases h4 with h4 | ⟨h4, h5⟩ | ⟨h4, h5, h6, h7⟩
      · exact (notDone h4 hdone).elim
      · rw [hdone] at h5; cases h5
      · rw [hdone] at h7; cases h7
  · have hrc : r.remaining = 0 ∧ r.sub.caf = true := by
      rcases hT with h | h | h
      · exact absurd h hd
      · exact ⟨(hI.fin h).2.1, (hI.fin h).1⟩
      · exact h
    obtain ⟨e1, e2, e3, e4, e5⟩ := ended_absorbing cfg ht r hI hr hrc.1 hrc.2
    cases op with
    | grow _ => cases hop
    | readInfo => cases hop
    | readHeader => cases hop
    | nextFrame p =>
      obtain ⟨_, f2, f3⟩ := e1 p
      refine ⟨Or.inr (Or.inr ⟨f2.remaining.trans hrc.1, f2.caf.trans hrc.2⟩), ?_, ?_, fun _ => ⟨f2.dec, f2.pos⟩⟩
      · rcases f3 with f3 | ⟨f3, f4⟩
        · exact errAfter f3
        · rw [f3, hrc.2]; exact frameAfter rfl f4
      · intro h
        rcases f3 with f3 | ⟨_, f4⟩
        · exact (notDone f3 h).elim
        · rw [h] at f4; cases f4
    | nextFrameInfo =>
      rw [e2]
      exact ⟨Or.inr (Or.inr hrc), rfl, fun h => (by cases h), fun _ => ⟨rfl, rfl⟩⟩
    | nextRow =>
      refine ⟨Or.inr (Or.inr ⟨e3.1.remaining.trans hrc.1, e3.1.caf.trans hrc.2⟩), rowAfter rfl e3.2, ?_,
        fun _ => ⟨e3.1.dec, e3.1.pos⟩⟩
      intro h; have := e3.2; rw [h] at this; cases this
    | readRow =>
      refine ⟨Or.inr (Or.inr ⟨e4.1.remaining.trans hrc.1, e4.1.caf.trans hrc.2⟩), rowAfter rfl e4.2, ?_,
        fun _ => ⟨e4.1.dec, e4.1.pos⟩⟩
      intro h; have := e4.2; rw [h] at this; cases this
    | finish =>
      obtain ⟨f1, f2, f3⟩ := e5
      refine ⟨Or.inr (Or.inr ⟨f1, f2⟩), ?_, ?_, ?_⟩
      · rcases f3 with ⟨f3, _⟩ | f3
        · rw [f3]; rfl
        · exact errAfter f3
      · intro hdone
        rcases f3 with ⟨_, _, _, f4⟩ | f3
        · exact ⟨rfl, f4, hd⟩
        · exact (notDone f3 hdone).elim
      · intro h
        rcases h with h | h | h
        · exact absurd rfl h
        · exact absurd h hd
        · have := (finished_absorbing cfg r hI hr h).2.2.1
          rw [this]; exact ⟨rfl, rfl⟩

/-! ## Part D: end of input (C05 core) -/

/-- **`eof_no_state_change`**: `decode_next` with nothing visible beyond the read position reports
    `UnexpectedEof` and changes nothing at all -/
theorem eof_no_state_change (cfg : Cfg) (r : R) (h : avail r = []) :
    decodeNext' cfg r = (r, .error (.err .eof "UnexpectedEof")) := by
  unfold decodeNext'
  simp only
  have : (r.input.take r.visible).drop r.pos = [] := h
  rw [this]
  rfl

/-- nothing is visible beyond the read position exactly when the position reached the visible prefix -/
theorem avail_nil_iff (r : R) : avail r = [] ↔ min r.visible r.input.length ≤ r.pos := by
  unfold avail
  rw [List.drop_eq_nil_iff, List.length_take]

/-- at end of input every loop of `ReadDecoder` returns `UnexpectedEof` with the reader unchanged
    (`read_header_info`: unless the header is already there) -/
theorem loops_at_eof (cfg : Cfg) (r : R) (h : avail r = []) (fuel : Nat) :
    (r.dec.info.isSome = false → readHeaderInfo cfg (fuel + 1) r = (r, .error (.err .eof "UnexpectedEof"))) ∧
    rdReadUntilImageData cfg (fuel + 1) r = (r, .error (.err .eof "UnexpectedEof")) ∧
    finishDecodingImageData cfg (fuel + 1) r = (r, .error (.err .eof "UnexpectedEof")) ∧
    readUntilEndOfInput cfg (fuel + 1) r = (r, .error (.err .eof "UnexpectedEof")) := by
  have h0 := eof_no_state_change cfg r h
  refine ⟨fun hi => ?_, ?_, ?_, ?_⟩
  · unfold readHeaderInfo decodeNextNoData; rw [hi, h0]; rfl
  · unfold rdReadUntilImageData decodeNextNoData; rw [h0]
  · unfold finishDecodingImageData decodeImageData; simp only [Bool.false_eq_true, if_false]; rw [h0]
  · unfold readUntilEndOfInput; rw [h0]

/-! ### `UnexpectedEof` means: everything visible was consumed -/

theorem ofFraming_not_eof (e : Framing.Err) (w : String) : ofFraming e ≠ .err .eof w := by
  cases e <;> simp [ofFraming]

/-- `decode_next` reports `UnexpectedEof` only when nothing is visible beyond the read position (and
    then it changed nothing) -/
theorem decodeNext'_eof_iff (cfg : Cfg) (r r' : R) (w : String) (h : decodeNext' cfg r = (r', .error (.err .eof w))) :
    r' = r ∧ avail r = [] := by
  unfold decodeNext' at h
  simp only at h
  have hav : (r.input.take r.visible).drop r.pos = avail r := rfl
  rw [hav] at h
  cases ha : (avail r).isEmpty with
  | true =>
    rw [ha] at h; simp only [if_true, Prod.mk.injEq] at h
    exact ⟨h.1.symm, by simpa using ha⟩
  | false =>
    rw [ha] at h; simp only [Bool.false_eq_true, if_false] at h
    split at h
    · simp only [Prod.mk.injEq, Except.error.injEq] at h
      exact absurd h.2 (ofFraming_not_eof _ _)
    · cases h

/-! ### the part of a call before its first `decode_next` is idempotent under retry -/

/-- the unfiltering buffer holds no previous row (`prev_start = current_start`) -/
def Fresh (u : UB) : Prop := u.prevStart = u.curStart

theorem fresh_resetPrev (u : UB) : Fresh u.resetPrev := rfl

theorem resetPrev_of_fresh (u : UB) (h : Fresh u) : u.resetPrev = u := by
  unfold UB.resetPrev; cases u; simp only [Fresh] at h; subst h; rfl

theorem fresh_compact (u : UB) (h : Fresh u) : Fresh u.compact := by
  unfold UB.compact Fresh at *
  split
  · simp only; omega
  · exact h

theorem fresh_extend (u : UB) (bs : Bytes) (h : Fresh u) : Fresh (u.extend bs) := h

theorem markFlushed_ub {r r' : R} (h : markFlushed r = .ok r') : r'.ub = r.ub := by
  unfold markFlushed at h; split at h
  · cases h
  · cases h; rfl

/-- a `next_raw_interlaced_row` that fails (for instance with `UnexpectedEof`) has only compacted and
    extended the unfiltering buffer: a reset previous row stays reset -/
theorem nextRawRow_fresh (cfg : Cfg) (rowlen : Nat) : ∀ (fuel : Nat) (r r1 : R) (e : Res),
    nextRawRow cfg rowlen fuel r = (r1, .error e) → Fresh r.ub → Fresh r1.ub := by
  intro fuel
  induction fuel with
  | zero => intro r r1 e h hf; simp only [nextRawRow, Prod.mk.injEq] at h; rw [← h.1]; exact hf
  | succ fuel ih =>
    intro r r1 e h hf
    unfold nextRawRow at h
    split at h
    · split at h
      · simp only [Prod.mk.injEq] at h; rw [← h.1]; exact hf
      · unfold decodeImageData at h
        simp only [if_true] at h
        have hfc : Fresh ({ r with ub := r.ub.compact } : R).ub := fresh_compact _ hf
        have hframe : ∀ r0 : R, (decodeNext' cfg r0).1.ub = r0.ub := by
          intro r0; unfold decodeNext'; simp only
          split
          · rfl
          · split <;> rfl
        have hub := hframe { r with ub := r.ub.compact }
        generalize decodeNext' cfg { r with ub := r.ub.compact } = out at h hub
        obtain ⟨r2, res⟩ := out
        simp only at hub
        cases res with
        | error e2 =>
          simp only [Prod.mk.injEq] at h
          rw [← h.1, hub]; exact hfc
        | ok x =>
          obtain ⟨ev, data⟩ := x
          have hf2 : Fresh ({ r2 with ub := r2.ub.extend data } : R).ub := by
            show Fresh (r2.ub.extend data)
            rw [hub]; exact fresh_extend _ _ hfc
          simp only at h
          cases ev <;> simp only at h
          all_goals first
            | exact ih _ r1 e h hf2
            | (simp only [Prod.mk.injEq] at h; rw [← h.1]; exact hf2)
            | (split at h
               · simp only [Prod.mk.injEq] at h; rw [← h.1]; exact hf2
               · rename_i r3 hm
                 exact ih _ r1 e h (by rw [markFlushed_ub hm]; exact hf2))
    · split at h
      · cases h
      · simp only [Prod.mk.injEq] at h; rw [← h.1]; exact hf
      · simp only [Prod.mk.injEq] at h; rw [← h.1]; exact hf

/-- `next_interlaced_row_impl` reports `UnexpectedEof` only out of `next_raw_interlaced_row` -/
theorem nextRowImpl_eof (cfg : Cfg) (t : TCfg) (r r1 : R) (rowlen outLen : Nat) (w : String)
    (h : nextRowImpl cfg t r rowlen outLen = (r1, .error (.err .eof w))) :
    nextRawRow cfg rowlen (fuelOf r) r = (r1, .error (.err .eof w)) := by
  unfold nextRowImpl at h
  generalize nextRawRow cfg rowlen (fuelOf r) r = out at h
  obtain ⟨r', res⟩ := out
  cases res with
  | error e => simp only [Prod.mk.injEq, Except.error.injEq] at h; rw [h.1, h.2]
  | ok u =>
    exfalso
    simp only at h
    split at h
    · cases h
    · split at h
      · cases h
      · split at h
        · rename_i e hg
          simp only [Prod.mk.injEq, Except.error.injEq] at h
          unfold getTransform at hg
          split at hg
          · cases hg
          · split at hg
            · split at hg <;> (cases hg; cases h.2)
            · cases hg
        · split at h <;> cases h

/-- **retrying `read_row` after `UnexpectedEof`**: the current row is still the same, and the reset
    of the previous row that `read_row` performs at line 0 is the identity on the state the failed
    call left (the part of the call before its first `decode_next` is idempotent) -/
theorem readRow_retry (cfg : Cfg) {t : TCfg} (ht : t.Ok) (r r1 : R) (bufLen : Nat) (i : Info) (ii : IInfo) (w : String)
    (hI : Inv t r) (hi : r.dec.info = some i) (hbuf : outLineSize t i r.flags r.sub.width ≤ bufLen)
    (hcur : r.sub.cur = some ii) (h : readRow cfg t r bufLen = (r1, .err .eof w)) :
    r1.sub.cur = some ii ∧ (if ii.line = 0 then { r1 with ub := r1.ub.resetPrev } else r1) = r1 := by
  have hsp := readRow_spec cfg ht r bufLen i hI hi hbuf
  rw [h] at hsp
  obtain ⟨_, _, _, hrr⟩ := hsp
  have hs : r1.sub = { r.sub with caf := r1.sub.caf } := hrr
  refine ⟨by rw [hs]; exact hcur, ?_⟩
  by_cases hl : ii.line = 0
  · rw [if_pos hl]
    rw [readRow_some cfg t r bufLen ii hcur, if_pos hl] at h
    simp only [infoOf, hi] at h
    split at h
    · cases h
    · generalize hout : nextRowImpl cfg t { r with ub := r.ub.resetPrev }
        (rowlenOf i.color i.depth ({ r with ub := r.ub.resetPrev } : R).sub ii)
        (lineSizeFor t { r with ub := r.ub.resetPrev } i ii) = out at h
      obtain ⟨r2, res⟩ := out
      cases res with
      | ok o => cases h
      | error e =>
        simp only [Prod.mk.injEq] at h
        obtain ⟨rfl, rfl⟩ := h
        have := nextRowImpl_eof cfg t _ _ _ _ w hout
        have hf := nextRawRow_fresh cfg _ _ _ _ _ this (fresh_resetPrev r.ub)
        rw [resetPrev_of_fresh _ hf]
  · rw [if_neg hl]

/-- **retrying `finish` after a failure**: what `finish` does before reading (`remaining_frames = 0`,
    fresh unfiltering buffer, frame marked discarded) is the identity on the state the failed call
    left -/
theorem finish_retry (cfg : Cfg) {t : TCfg} (r r1 : R) (e : Res) (hI : Inv t r) (hfin : r.finished = false)
    (h : finish cfg r = (r1, e)) (he : e.isErr = true) :
    r1.finished = false ∧
    ({ r1 with remaining := 0, ub := UB.new, sub := { r1.sub with cur := none, caf := true } } : R) = r1 := by
  unfold finish at h
  rw [if_neg (by rw [hfin]; simp)] at h
  simp only at h
  have hB : Base { r with remaining := 0, ub := UB.new, sub := { r.sub with cur := none, caf := true } } :=
    hI.base.congr rfl rfl rfl
  have hsp := readUntilEndOfInput_spec cfg _ _ (fuelOf_ge _) hB
  generalize readUntilEndOfInput cfg
    (fuelOf { r with remaining := 0, ub := UB.new, sub := { r.sub with cur := none, caf := true } })
    { r with remaining := 0, ub := UB.new, sub := { r.sub with cur := none, caf := true } } = out at hsp h
  obtain ⟨r2, res⟩ := out
  cases res with
  | ok u => simp only [Prod.mk.injEq] at h; rw [← h.2] at he; cases he
  | error e2 =>
    simp only [Prod.mk.injEq] at h
    obtain ⟨rfl, _⟩ := h
    have hf := hsp.2.frame
    unfold Frame at hf
    constructor
    · rw [hf]; exact hfin
    · rw [hf]

/-- the number of frames `next_frame_info` sees as remaining (mod.rs:334-339) -/
def rfOf (r : R) : Nat := if r.sub.caf then r.remaining else r.remaining - 1

/-- **retrying `next_frame_info` after a failure**: the frame count the retry starts from is the one
    the failed call started from (a frame flushed by the failed call is not counted twice), and the
    rest of the skipped frame stays skipped -/
theorem nextFrameInfo_retry (cfg : Cfg) {t : TCfg} (r r1 : R) (w : String) (hI : Inv t r)
    (h : nextFrameInfo cfg t r = (r1, .err .eof w)) :
    rfOf r1 = rfOf r ∧ (r1.sub.caf = false → r1.sub.cur = none) := by
  -- a failed advance to the next frame: `UnexpectedEof` only before the new sub-frame is set up
  have adv : ∀ (r0 r2 : R), Inv t r0 → r0.sub.caf = true → r0.remaining ≠ 0 →
      readUntilImageData cfg t r0 = (r2, .error (.err .eof w)) → r2.sub = r0.sub ∧ r2.remaining = r0.remaining := by
    intro r0 r2 hI0 hc hr hru
    have hsp0 := readUntilImageData_spec cfg t r0 hI0.base ((hI0.flushed hc).resolve_left hr).2
    rw [hru] at hsp0
    rcases hsp0.2 with ⟨a2, _⟩ | ⟨_, a3⟩
    · obtain ⟨f1, _, f3, _⟩ := a2.frame.fields
      exact ⟨f1, f3⟩
    · cases a3
  unfold nextFrameInfo at h
  cases hcaf : r.sub.caf with
  | true =>
    rw [hcaf] at h
    simp only [if_true, Bool.not_true, Bool.false_eq_true, if_false] at h
    cases hrem : r.remaining with
    | zero => rw [hrem] at h; cases h
    | succ n =>
      rw [hrem] at h
      simp only at h
      generalize hru : readUntilImageData cfg t r = out at h
      obtain ⟨r2, res⟩ := out
      cases res with
      | ok u =>
        simp only at h
        split at h <;> cases h
      | error e =>
        simp only [Prod.mk.injEq] at h
        obtain ⟨rfl, rfl⟩ := h
        obtain ⟨f1, f3⟩ := adv r r2 hI hcaf (by omega) hru
        refine ⟨by unfold rfOf; rw [f1, f3], fun hc => ?_⟩
        rw [f1, hcaf] at hc; cases hc
  | false =>
    rw [hcaf] at h
    simp only [Bool.false_eq_true, if_false, Bool.not_false, if_true] at h
    cases hrem : r.remaining - 1 with
    | zero => rw [hrem] at h; cases h
    | succ n =>
      rw [hrem] at h
      simp only at h
      have hsp := finishDecoding_spec cfg { r with sub := { r.sub with cur := none } } hI.clearCur rfl
      generalize finishDecoding cfg { r with sub := { r.sub with cur := none } } = out at h hsp
      obtain ⟨r2, res⟩ := out
      cases res with
      | error e =>
        simp only [Prod.mk.injEq] at h
        obtain ⟨rfl, rfl⟩ := h
        obtain ⟨_, _, _, b4, _, b6⟩ := hsp
        refine ⟨?_, fun _ => by rw [b4]⟩
        unfold rfOf; rw [b4, b6]
      | ok u =>
        obtain ⟨b1, _, b3, _, _, b6⟩ := hsp
        simp only at h
        have hrem2 : r2.remaining + 1 = r.remaining := b6 hcaf
        have hcaf2 : r2.sub.caf = true := by rw [b3]
        generalize hru : readUntilImageData cfg t r2 = out2 at h
        obtain ⟨r3, res3⟩ := out2
        cases res3 with
        | ok u =>
          simp only at h
          split at h <;> cases h
        | error e =>
          simp only [Prod.mk.injEq] at h
          obtain ⟨rfl, rfl⟩ := h
          obtain ⟨f1, f3⟩ := adv r2 r3 b1 hcaf2 (by omega) hru
          refine ⟨?_, fun hc => ?_⟩
          · unfold rfOf; rw [f1, f3, hcaf2, hcaf]; simp only [if_true, Bool.false_eq_true, if_false]; omega
          · rw [f1, hcaf2] at hc; cases hc

end Png.Reader
