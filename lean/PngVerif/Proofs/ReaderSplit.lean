import PngVerif.Proofs.ReaderSeq
/-!
# One `update` call on a longer buffer (C05 at the `update` level)

How `update cfg d (a ++ b)` relates to `update cfg d a`: either the call on `a` did not need more
input (it stopped at an event, or failed) and the call on `a ++ b` returns exactly the same; or the
call on `a` consumed all of `a` and reported `Nothing` or `ImageData`, and the call on `a ++ b` is the
call on `a` merged with the following call on `b`.

* Part 1: `update` unfolded by one `next_state` call, without fuel (`update_unfold`).
* Part 2: one more byte visible (`update_cons`), from `step_split` of `Proofs/Framing.lean`.
* Part 3: any prefix (`update_prefix`).
-/
namespace Png.Framing
open Png

/-! ## Part 1: `update` without fuel -/

/-- add `k` to the number of consumed bytes of an `update` result -/
def shiftN (k : Nat) (r : Dec × Except Err (Nat × Ev)) : Dec × Except Err (Nat × Ev) :=
  (r.1, r.2.map fun p => (p.1 + k, p.2))

theorem shiftN_zero (r : Dec × Except Err (Nat × Ev)) : shiftN 0 r = r := by
  obtain ⟨d, res⟩ := r
  cases res with
  | error e => rfl
  | ok p => rfl

theorem updateLoop_counter (cfg : Cfg) : ∀ (fuel : Nat) (d : Dec) (buf : Bytes) (c : Nat),
    updateLoop cfg fuel d buf c = shiftN c (updateLoop cfg fuel d buf 0) := by
  intro fuel
  induction fuel with
  | zero => intro d buf c; simp [updateLoop, shiftN, Except.map]
  | succ fuel ih =>
    intro d buf c
    unfold updateLoop
    cases hb : buf.isEmpty with
    | true => simp [shiftN, Except.map]
    | false =>
      simp only [Bool.false_eq_true, if_false]
      cases hs : d.state with
      | none => rfl
      | some st =>
        simp only
        cases hr : nextState cfg d st buf with
        | error e => rfl
        | ok r =>
          obtain ⟨n, ev, d'⟩ := r
          cases ev <;> first
            | (simp only [shiftN, Except.map]; rw [show c + n = 0 + n + c by omega]; done)
            | (simp only
               rw [ih d' (buf.drop n) (c + n), ih d' (buf.drop n) (0 + n)]
               generalize updateLoop cfg fuel d' (buf.drop n) 0 = out
               obtain ⟨d2, res⟩ := out
               cases res with
               | error e => rfl
               | ok p => simp only [shiftN, Except.map, Nat.zero_add]; congr 3; omega)

/-- **`update` unfolded by one `next_state` call** (no fuel): an error poisons; an event other than
    `Nothing` is returned; after `Nothing` the loop goes on with the rest of the buffer -/
theorem update_unfold (cfg : Cfg) (d : Dec) (st : St) (buf : Bytes) (hs : d.state = some st) (hbuf : buf ≠ []) :
    update cfg d buf =
      match nextState cfg d st buf with
      | .error e => ({ d with state := none }, .error e)
      | .ok (n, .nothing, d') =>
        if buf.drop n = [] then (d', .ok (n, .nothing)) else shiftN n (update cfg d' (buf.drop n))
      | .ok (n, ev, d') => (d', .ok (n, ev)) := by
  have hne : buf.isEmpty = false := by cases buf with | nil => exact absurd rfl hbuf | cons _ _ => rfl
  have hupd : ∀ (d : Dec) (buf : Bytes) (st : St), d.state = some st →
      update cfg d buf = updateLoop cfg (updateFuel buf) d buf 0 := by
    intro d buf st h; unfold update; rw [h]
  have hstep : ∀ (fuel : Nat), updateLoop cfg (fuel + 1) d buf 0 =
      match nextState cfg d st buf with
      | .error e => ({ d with state := none }, .error e)
      | .ok (n, .nothing, d') => updateLoop cfg fuel d' (buf.drop n) (0 + n)
      | .ok (n, ev, d') => (d', .ok (0 + n, ev)) := by
    intro fuel
    rw [updateLoop]
    simp only [hne, Bool.false_eq_true, if_false, hs]
    cases nextState cfg d st buf with
    | error e => rfl
    | ok r => obtain ⟨n, ev, d'⟩ := r; cases ev <;> rfl
  rw [hupd d buf st hs]
  have hfuel : updateFuel buf = (updateFuel buf - 1) + 1 := by simp only [updateFuel]; omega
  rw [hfuel, hstep]
  cases hr : nextState cfg d st buf with
  | error e => rfl
  | ok r =>
    obtain ⟨n, ev, d'⟩ := r
    obtain ⟨hn, _, hst, _⟩ := nextState_progress hbuf hr
    have hmu := step_mu hs hbuf hr
    cases ev <;> first | (simp only [Nat.zero_add]; done) | skip
    simp only
    have hst' : d'.state ≠ none := hst (by simp)
    rw [updateLoop_counter]
    simp only [Nat.zero_add]
    by_cases hd : buf.drop n = []
    · rw [if_pos hd, hd]
      have hf2 : updateFuel buf - 1 = (updateFuel buf - 2) + 1 := by simp only [updateFuel]; omega
      rw [hf2, updateLoop]
      simp [shiftN, Except.map]
    · rw [if_neg hd]
      congr 1
      cases hs' : d'.state with
      | none => exact absurd hs' hst'
      | some st' =>
        rw [hupd d' (buf.drop n) st' hs']
        exact updateLoop_fuel cfg _ _ d' (buf.drop n) 0
          (by simp only [updateFuel]; simp only [mu] at hmu ⊢; have := rank_le d; omega)
          (updateFuel_ge d' (buf.drop n))

/-! ## Part 2: one more byte visible -/

/-- `step_split` of `Proofs/Framing.lean` with the case distinction independent of the bytes after `x` -/
theorem step_split_uniform (cfg : Cfg) (hI : cfg.InflateOk) (d : Dec) (st : St) (x : UInt8) :
    (∀ y ys, nextState cfg d st (x :: y :: ys) = nextState cfg d st [x]) ∨
    ∃ ev1 d1 st1, nextState cfg d st [x] = .ok (1, ev1, d1) ∧ d1.state = some st1 ∧
      (ev1 = .nothing ∨ (ev1 = .imageData ∧ ∃ t, st = .imageData t ∧ st1 = .imageData t)) ∧
      (∀ y ys, nextState cfg d st (x :: y :: ys) = shift1 (nextState cfg d1 st1 (y :: ys))) := by
  cases st with
  | u32 kind acc =>
    by_cases hacc : acc.length < 3
    · refine Or.inr ⟨.nothing, { d with state := some (.u32 kind (acc ++ [x])) }, .u32 kind (acc ++ [x]), ?_, rfl, Or.inl rfl, ?_⟩
      · exact stepU32_first cfg _ kind acc x hacc
      · intro y ys; exact stepU32_merge cfg _ kind acc x y ys hacc
    · exact Or.inl fun y ys => stepU32_indep cfg _ kind acc x y ys (by omega)
  | parseChunkData t => exact Or.inl fun _ _ => rfl
  | readChunkData t =>
    by_cases h : 2 ≤ min d.remaining (d.cap - d.raw.length)
    · refine Or.inr ⟨.nothing, { d.readPiece 1 [x] with state := some (.readChunkData t) }, .readChunkData t, ?_, rfl, Or.inl rfl, ?_⟩
      · exact stepRead_first { d with state := none } t x h
      · intro y ys; exact stepRead_merge { d with state := none } t x y ys h
    · exact Or.inl fun y ys => stepRead_indep { d with state := none } t x y ys (by simp only; omega)
  | imageData t =>
    by_cases h : 2 ≤ d.remaining
    · cases hi : cfg.inflate (d.zin ++ [x]) with
      | none => exact Or.inl fun y ys => stepImage_corrupt cfg hI { d with state := none } t x y ys h hi
      | some r =>
        obtain ⟨o1, b1⟩ := r
        refine Or.inr ⟨.imageData, { d.imagePiece 1 [x] o1 with state := some (.imageData t) }, .imageData t, ?_, rfl,
          Or.inr ⟨rfl, t, rfl, rfl⟩, ?_⟩
        · exact stepImage_first cfg { d with state := none } t x o1 b1 h hi
        · intro y ys; exact stepImage_merge cfg hI { d with state := none } t x y ys o1 b1 h hi
    · exact Or.inl fun y ys => stepImage_indep cfg { d with state := none } t x y ys (by simp only; omega)

/-- a `next_state` call that reports `Nothing` appends nothing to the caller's `image_data` -/
theorem nextState_nothing_out {cfg : Cfg} {d d' : Dec} {st : St} {buf : Bytes} {n : Nat}
    (h : nextState cfg d st buf = .ok (n, .nothing, d')) : d'.out = d.out := by
  unfold nextState at h
  simp only at h
  cases st with
  | u32 kind acc =>
    simp only at h
    rcases stepU32_eq h with ⟨_, _, acc', _, rfl⟩ | ⟨b0, b1, b2, b3, hp, _⟩
    · rfl
    · cases kind with
      | sig1 => obtain ⟨_, k', _, rfl⟩ := parseU32_simple (Or.inl rfl) hp; rfl
      | sig2 => obtain ⟨_, k', _, rfl⟩ := parseU32_simple (Or.inr (Or.inl rfl)) hp; rfl
      | length => obtain ⟨_, k', _, rfl⟩ := parseU32_simple (Or.inr (Or.inr rfl)) hp; rfl
      | type len =>
        cases parseU32_typeStep hp with
        | flush hne hdt he hi hh hst hc hri hrf hsq => cases he
        | begin hno he hi hri hrf ho hh hc hinfo hst hsq hraw => cases he
      | crc t =>
        rcases parseU32_crcStep hp with ⟨_, he, _⟩ | ⟨_, he, _⟩ | ⟨_, rfl⟩
        · cases he
        · cases he
        · rfl
      | seqNo => obtain ⟨he, _⟩ := parseU32_seqNoStep hp; cases he
  | parseChunkData t =>
    simp only at h
    rcases stepParse_eq h with hp | ⟨he, _⟩
    · cases hp with
      | gen g e => exact g.out
      | ihdr hn i hd hl hf he => cases he
      | fctl i fc hi hb hi' hs' hc ho hri hh hrf he hraw hseq => cases he
    · cases he
  | readChunkData t =>
    simp only at h
    exact (stepRead_eq h).2.2.1
  | imageData t =>
    simp only at h
    obtain ⟨he, _⟩ := stepImage_eq h
    cases he

/-- the `ImageData` arm does not read the caller's `image_data`, it only appends to it -/
theorem stepImage_out (cfg : Cfg) (d : Dec) (t : ChunkType) (buf : Bytes) :
    stepImage cfg { d with state := none } t buf =
      (stepImage cfg { ({ d with out := [] } : Dec) with state := none } t buf).map
        fun p => (p.1, p.2.1, { p.2.2 with out := d.out ++ p.2.2.out }) := by
  unfold stepImage
  simp only
  cases cfg.inflate (d.zin ++ buf.take (min buf.length d.remaining)) with
  | none => rfl
  | some r =>
    obtain ⟨o, b⟩ := r
    simp only [Except.map, Dec.imagePiece, List.nil_append]
    rfl

theorem uu_error {cfg : Cfg} {d : Dec} {st : St} {buf : Bytes} {e : Err} (hs : d.state = some st) (hbuf : buf ≠ [])
    (h : nextState cfg d st buf = .error e) : update cfg d buf = ({ d with state := none }, .error e) := by
  rw [update_unfold cfg d st buf hs hbuf, h]

theorem uu_nothing {cfg : Cfg} {d d' : Dec} {st : St} {buf : Bytes} {n : Nat} (hs : d.state = some st) (hbuf : buf ≠ [])
    (h : nextState cfg d st buf = .ok (n, .nothing, d')) :
    update cfg d buf = if buf.drop n = [] then (d', .ok (n, .nothing)) else shiftN n (update cfg d' (buf.drop n)) := by
  rw [update_unfold cfg d st buf hs hbuf, h]

theorem uu_event {cfg : Cfg} {d d' : Dec} {st : St} {buf : Bytes} {n : Nat} {ev : Ev} (hs : d.state = some st)
    (hbuf : buf ≠ []) (h : nextState cfg d st buf = .ok (n, ev, d')) (hev : ev ≠ .nothing) :
    update cfg d buf = (d', .ok (n, ev)) := by
  rw [update_unfold cfg d st buf hs hbuf, h]
  cases ev <;> first | exact absurd rfl hev | rfl

theorem setOut_nil_eq {d : Dec} (h : d.out = []) : ({ d with out := [] } : Dec) = d := by
  cases d; simp only at h; subst h; rfl

theorem setOut_append_nil (d : Dec) : ({ d with out := [] ++ d.out } : Dec) = d := by
  cases d; rfl

/-- the call on `x :: rest` is the call on `[x]` — which consumed `x` and left the decoder `d1` —
    merged with the following call on `rest`: same decoder (the image data of both calls
    concatenated), one more byte consumed, the event of the second call; if the second call fails,
    the merged call fails with the same error -/
def Merged (cfg : Cfg) (d1 : Dec) (rest : Bytes) (whole : Dec × Except Err (Nat × Ev)) : Prop :=
  match update cfg { d1 with out := [] } rest with
  | (d2, .ok (n2, ev2)) => whole = ({ d2 with out := d1.out ++ d2.out }, .ok (n2 + 1, ev2))
  | (_, .error e) => ∃ d2', whole = (d2', .error e)

theorem shift1_error (e : Err) : shift1 (.error e) = .error e := rfl
theorem shift1_ok (n : Nat) (ev : Ev) (d : Dec) : shift1 (.ok (n, ev, d)) = .ok (n + 1, ev, d) := rfl

theorem update_cons_aux (cfg : Cfg) (hI : cfg.InflateOk) : ∀ (m : Nat) (d : Dec), rank d ≤ m → d.state ≠ none →
    d.out = [] → ∀ x : UInt8,
    (∀ y ys, update cfg d (x :: y :: ys) = update cfg d [x]) ∨
    (∃ d1 ev1, update cfg d [x] = (d1, .ok (1, ev1)) ∧ d1.state ≠ none ∧
      ((ev1 = .nothing ∧ d1.out = []) ∨ (ev1 = .imageData ∧ ∃ t, d1.state = some (.imageData t))) ∧
      ∀ y ys, Merged cfg d1 (y :: ys) (update cfg d (x :: y :: ys))) := by
  intro m
  induction m with
  | zero => ?_
  | succ m ih => ?_
  all_goals
    intro d hm hsn hd x
    cases hs : d.state with
    | none => exact absurd hs hsn
    | some st =>
      have nx : ([x] : Bytes) ≠ [] := by simp
      have nw : ∀ y ys, (x :: y :: ys : Bytes) ≠ [] := by intro y ys; simp
      rcases step_split_uniform cfg hI d st x with hA | ⟨ev1, d1, st1, h1, hs1, hev1, hB⟩
      · -- the first `next_state` call does not look beyond `x`
        cases hr : nextState cfg d st [x] with
        | error e =>
          left; intro y ys
          rw [uu_error hs (nw y ys) ((hA y ys).trans hr), uu_error hs nx hr]
        | ok r =>
          obtain ⟨n, ev, d'⟩ := r
          obtain ⟨hn, hrk, hst', _⟩ := nextState_progress nx hr
          rw [withState_self hs] at hrk
          by_cases hev : ev = .nothing
          · subst hev
            have hst'' : d'.state ≠ none := hst' (by simp)
            have hout : d'.out = [] := (nextState_nothing_out hr).trans hd
            have hn' : n = 0 ∨ n = 1 := by simp only [List.length_cons, List.length_nil] at hn; omega
            rcases hn' with rfl | rfl
            · -- a step that consumes nothing: go on with the smaller rank
              have e1 : update cfg d [x] = update cfg d' [x] := by
                rw [uu_nothing hs nx hr]; simp only [List.drop_zero]; rw [if_neg nx, shiftN_zero]
              have ew : ∀ y ys, update cfg d (x :: y :: ys) = update cfg d' (x :: y :: ys) := by
                intro y ys
                rw [uu_nothing hs (nw y ys) ((hA y ys).trans hr)]; simp only [List.drop_zero]
                rw [if_neg (nw y ys), shiftN_zero]
              have hrec : (∀ y ys, update cfg d' (x :: y :: ys) = update cfg d' [x]) ∨
                  (∃ d1 ev1, update cfg d' [x] = (d1, .ok (1, ev1)) ∧ d1.state ≠ none ∧
                    ((ev1 = .nothing ∧ d1.out = []) ∨ (ev1 = .imageData ∧ ∃ t, d1.state = some (.imageData t))) ∧
                    ∀ y ys, Merged cfg d1 (y :: ys) (update cfg d' (x :: y :: ys))) := by
                first
                  | (have := hrk rfl; omega)
                  | exact ih d' (by have := hrk rfl; omega) hst'' hout x
              rcases hrec with h | ⟨d1, ev1, a1, a2, a3, a4⟩
              · left; intro y ys; rw [ew, e1]; exact h y ys
              · right; exact ⟨d1, ev1, e1.trans a1, a2, a3, fun y ys => by rw [ew]; exact a4 y ys⟩
            · -- `x` consumed, `Nothing`: the longer call goes on where the call on `[x]` stopped
              right
              refine ⟨d', .nothing, ?_, hst'', Or.inl ⟨rfl, hout⟩, fun y ys => ?_⟩
              · rw [uu_nothing hs nx hr]; simp
              · rw [uu_nothing hs (nw y ys) ((hA y ys).trans hr)]
                simp only [List.drop_succ_cons, List.drop_zero]
                rw [if_neg (by simp)]
                unfold Merged
                rw [setOut_nil_eq hout]
                generalize update cfg d' (y :: ys) = out
                obtain ⟨d2, res⟩ := out
                cases res with
                | error e => exact ⟨d2, rfl⟩
                | ok p =>
                  obtain ⟨n2, ev2⟩ := p
                  simp only [shiftN, Except.map]
                  rw [hout, setOut_append_nil]
          · left; intro y ys
            rw [uu_event hs (nw y ys) ((hA y ys).trans hr) hev, uu_event hs nx hr hev]
      · -- the first `next_state` call on the longer buffer merges the call on `[x]` with the next one
        have hst1 : d1.state ≠ none := by rw [hs1]; simp
        right
        rcases hev1 with rfl | ⟨rfl, t, rfl, rfl⟩
        · have hout : d1.out = [] := (nextState_nothing_out h1).trans hd
          refine ⟨d1, .nothing, ?_, hst1, Or.inl ⟨rfl, hout⟩, fun y ys => ?_⟩
          · rw [uu_nothing hs nx h1]; simp
          · unfold Merged
            rw [setOut_nil_eq hout]
            have ny : (y :: ys : Bytes) ≠ [] := by simp
            cases hr : nextState cfg d1 st1 (y :: ys) with
            | error e =>
              rw [uu_error hs1 ny hr]
              simp only
              have := hB y ys
              rw [hr, shift1_error] at this
              exact ⟨_, uu_error hs (nw y ys) this⟩
            | ok r =>
              obtain ⟨n, ev, d'⟩ := r
              have hw := hB y ys
              rw [hr, shift1_ok] at hw
              by_cases hev : ev = .nothing
              · subst hev
                rw [uu_nothing hs1 ny hr, uu_nothing hs (nw y ys) hw]
                simp only [List.drop_succ_cons]
                by_cases hdn : (y :: ys).drop n = []
                · rw [if_pos hdn, if_pos hdn]
                  simp only
                  rw [hout, setOut_append_nil]
                · rw [if_neg hdn, if_neg hdn]
                  generalize update cfg d' ((y :: ys).drop n) = out
                  obtain ⟨d2, res⟩ := out
                  cases res with
                  | error e => exact ⟨d2, rfl⟩
                  | ok p =>
                    obtain ⟨n2, ev2⟩ := p
                    simp only [shiftN, Except.map]
                    rw [hout, setOut_append_nil]
                    rfl
              · rw [uu_event hs1 ny hr hev, uu_event hs (nw y ys) hw hev]
                simp only
                rw [hout, setOut_append_nil]
        · refine ⟨d1, .imageData, ?_, hst1, Or.inr ⟨rfl, t, hs1⟩, fun y ys => ?_⟩
          · exact uu_event hs nx h1 (by simp)
          · unfold Merged
            have ny : (y :: ys : Bytes) ≠ [] := by simp
            have hw := hB y ys
            have hs1c : ({ d1 with out := [] } : Dec).state = some (.imageData t) := hs1
            have htr : nextState cfg d1 (.imageData t) (y :: ys) =
                (nextState cfg { d1 with out := [] } (.imageData t) (y :: ys)).map
                  fun p => (p.1, p.2.1, { p.2.2 with out := d1.out ++ p.2.2.out }) := by
              simp only [nextState]
              exact stepImage_out cfg d1 t (y :: ys)
            cases hr : nextState cfg { d1 with out := [] } (.imageData t) (y :: ys) with
            | error e =>
              rw [uu_error hs1c ny hr]
              simp only
              rw [htr, hr] at hw
              exact ⟨_, uu_error hs (nw y ys) hw⟩
            | ok r =>
              obtain ⟨n, ev, d'⟩ := r
              have hev : ev = .imageData := by
                have := hr; simp only [nextState] at this
                exact (stepImage_eq this).1
              subst hev
              rw [uu_event hs1c ny hr (by simp)]
              simp only
              rw [htr, hr] at hw
              exact uu_event hs (nw y ys) hw (by simp)

/-- **one more byte visible**: the call on `x :: y :: ys` either equals the call on `[x]` (whatever
    follows `x`), or the call on `[x]` consumed `x` with `Nothing` / `ImageData` and the longer call is
    that call merged with the next one -/
theorem update_cons (cfg : Cfg) (hI : cfg.InflateOk) (d : Dec) (hs : d.state ≠ none) (hd : d.out = []) (x : UInt8) :
    (∀ y ys, update cfg d (x :: y :: ys) = update cfg d [x]) ∨
    (∃ d1 ev1, update cfg d [x] = (d1, .ok (1, ev1)) ∧ d1.state ≠ none ∧
      ((ev1 = .nothing ∧ d1.out = []) ∨ (ev1 = .imageData ∧ ∃ t, d1.state = some (.imageData t))) ∧
      ∀ y ys, Merged cfg d1 (y :: ys) (update cfg d (x :: y :: ys))) :=
  update_cons_aux cfg hI (rank d) d (Nat.le_refl _) hs hd x

/-! ## Part 3: any prefix -/

/-- the call on `a ++ b` is the call on `a` — which consumed all `n = |a|` bytes and left the decoder
    `d1` — merged with the following call on `b` -/
def MergedN (cfg : Cfg) (d1 : Dec) (b : Bytes) (n : Nat) (whole : Dec × Except Err (Nat × Ev)) : Prop :=
  match update cfg { d1 with out := [] } b with
  | (d2, .ok (n2, ev2)) => whole = ({ d2 with out := d1.out ++ d2.out }, .ok (n2 + n, ev2))
  | (_, .error e) => ∃ d2', whole = (d2', .error e)

/-- in the state `ImageData` a successful `update` call reports `ImageData` -/
theorem update_in_imageData {cfg : Cfg} {d d2 : Dec} {t : ChunkType} {b : Bytes} {n2 : Nat} {ev2 : Ev}
    (hs : d.state = some (.imageData t)) (hb : b ≠ []) (h : update cfg d b = (d2, .ok (n2, ev2))) :
    ev2 = .imageData := by
  cases hr : nextState cfg d (.imageData t) b with
  | error e => rw [uu_error hs hb hr] at h; cases h
  | ok r =>
    obtain ⟨n, ev, d'⟩ := r
    have hev : ev = .imageData := by
      have := hr; simp only [nextState] at this
      exact (stepImage_eq this).1
    subst hev
    rw [uu_event hs hb hr (by simp)] at h
    simp only [Prod.mk.injEq, Except.ok.injEq] at h
    exact h.2.2.symm

/-- what the call on `a ++ b` returns, given the call on `a` -/
def PrefixRel (cfg : Cfg) (d : Dec) (a b : Bytes) : Prop :=
  match update cfg d a with
  | (d1, .ok (n, ev)) =>
    update cfg d (a ++ b) = (d1, .ok (n, ev)) ∨
    (n = a.length ∧ d1.state ≠ none ∧
      ((ev = .nothing ∧ d1.out = []) ∨ (ev = .imageData ∧ ∃ t, d1.state = some (.imageData t))) ∧
      MergedN cfg d1 b n (update cfg d (a ++ b)))
  | (_, .error e) => ∃ d', update cfg d (a ++ b) = (d', .error e)

/-- **`update` on `a` versus `update` on `a ++ b`** (C05 at the `update` level; needs the inflater
    contract `Cfg.InflateOk` like C04): for a live decoder with nothing pending in `image_data`,
    * if the call on `a` failed, the call on `a ++ b` fails with the same error;
    * if the call on `a` stopped before the end of `a`, or stopped at an event other than `Nothing` /
      `ImageData`, the call on `a ++ b` returns exactly the same (decoder, consumed bytes, event,
      image data);
    * otherwise the call on `a` consumed all of `a` with `Nothing` (no image data) or `ImageData`
      (and stands inside the data chunk), and the call on `a ++ b` is that call merged with the
      following call on `b`: same final decoder, `|a|` more bytes consumed, the second call's
      event, the image data of both calls concatenated (`MergedN`). -/
theorem update_prefix (cfg : Cfg) (hI : cfg.InflateOk) : ∀ (a : Bytes) (d : Dec) (b : Bytes), a ≠ [] → b ≠ [] →
    d.state ≠ none → d.out = [] → PrefixRel cfg d a b := by
  intro a
  induction a with
  | nil => intro d b h; exact absurd rfl h
  | cons x a' ih =>
    intro d b _ hb hs hd
    obtain ⟨y, ys, rfl⟩ : ∃ y ys, b = y :: ys := by
      cases b with
      | nil => exact absurd rfl hb
      | cons y ys => exact ⟨y, ys, rfl⟩
    unfold PrefixRel
    cases a' with
    | nil =>
      simp only [List.cons_append, List.nil_append]
      rcases update_cons cfg hI d hs hd x with hA | ⟨d1, ev1, h1, h2, h3, h4⟩
      · rw [hA y ys]
        generalize update cfg d [x] = out
        obtain ⟨d1, res⟩ := out
        cases res with
        | error e => exact ⟨d1, rfl⟩
        | ok p => exact Or.inl rfl
      · rw [h1]
        exact Or.inr ⟨rfl, h2, h3, h4 y ys⟩
    | cons z zs =>
      have hcons : (x :: z :: zs) ++ y :: ys = x :: z :: (zs ++ y :: ys) := rfl
      rw [hcons]
      rcases update_cons cfg hI d hs hd x with hA | ⟨d1', ev1, h1, h2, h3, h4⟩
      · rw [hA z zs, hA z (zs ++ y :: ys)]
        generalize update cfg d [x] = out
        obtain ⟨d1, res⟩ := out
        cases res with
        | error e => exact ⟨d1, rfl⟩
        | ok p => exact Or.inl rfl
      · have hm1 := h4 z zs
        have hm2 := h4 z (zs ++ y :: ys)
        unfold Merged at hm1 hm2
        have hrec := ih { d1' with out := [] } (y :: ys) (by simp) (by simp) h2 rfl
        unfold PrefixRel at hrec
        have hz : z :: (zs ++ y :: ys) = (z :: zs) ++ y :: ys := rfl
        rw [hz] at hm2
        generalize ho1 : update cfg { d1' with out := [] } (z :: zs) = o1 at hm1 hrec
        obtain ⟨d2, r2⟩ := o1
        cases r2 with
        | error e =>
          obtain ⟨dw, hw⟩ := hm1
          rw [hw]
          simp only
          obtain ⟨d', hd'⟩ := hrec
          rw [hd'] at hm2
          exact hm2
        | ok p =>
          obtain ⟨n2, ev2⟩ := p
          simp only at hm1 hrec
          rw [hm1]
          simp only
          rcases hrec with hsame | ⟨e1, e2, e3, e4⟩
          · rw [hsame] at hm2
            exact Or.inl hm2
          · right
            refine ⟨by simp only [List.length_cons] at e1 ⊢; omega, e2, ?_, ?_⟩
            · rcases e3 with ⟨rfl, ho⟩ | ⟨rfl, t, hst⟩
              · rcases h3 with ⟨_, ho1⟩ | ⟨_, t, hst1⟩
                · exact Or.inl ⟨rfl, by show d1'.out ++ d2.out = []; rw [ho1, ho]; rfl⟩
                · -- after `ImageData` inside the chunk, the next call cannot report `Nothing`
                  exfalso
                  have := update_in_imageData (d := { d1' with out := [] }) hst1 (by simp) ho1
                  cases this
              · exact Or.inr ⟨rfl, t, hst⟩
            · unfold MergedN at e4 ⊢
              have hc : ({ ({ d2 with out := d1'.out ++ d2.out } : Dec) with out := [] } : Dec) = { d2 with out := [] } := rfl
              rw [hc]
              generalize update cfg { d2 with out := [] } (y :: ys) = o3 at e4
              obtain ⟨d3, r3⟩ := o3
              cases r3 with
              | error e =>
                obtain ⟨dw, hw⟩ := e4
                rw [hw] at hm2
                exact hm2
              | ok q =>
                obtain ⟨n3, ev3⟩ := q
                simp only at e4 ⊢
                rw [e4] at hm2
                simp only at hm2
                exact hm2.trans (by simp only [List.append_assoc, Nat.add_assoc])

end Png.Framing
