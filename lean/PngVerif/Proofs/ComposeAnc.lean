import PngVerif.Proofs.ComposeTrace
/-!
# Layer L1 of the C01 composition, part 3: chunks between `IHDR` and the image data

`AncStep cfg d t body d'`: in the idle state `d`, the chunk `(t, body)` — any type but `IHDR`, `IDAT`, `fdAT`,
`IEND`, `fcTL`; body no longer than the chunk buffer — is accepted by `parse_chunk` and leaves the decoder `d'`.
Such a chunk is read without image data, keeps the header fields of `info`, stores no frame control and starts no
data-chunk sequence (`anc_step`); sequences of such chunks compose (`AncChunks`, `anc_chunks`).
-/
namespace Png.Framing
open Png Png.WellFormed

/-! ## an empty body: `ParseChunkData` right after the type -/

theorem update_parse_event {cfg : Cfg} {d d2 : Dec} {t : ChunkType} {rest : Bytes} {ev : Ev}
    (hs : d.state = some (.parseChunkData t)) (hrem : d.remaining = 0) (hrest : rest ≠ [])
    (hp : parseChunk cfg d t = .ok (ev, d2)) (hev : ev ≠ .nothing) :
    update cfg d rest = (d2, .ok (0, ev)) := by
  refine update_ok_of_step hs hrest ?_ hev
  show stepParse cfg (d.withState none) t = _
  rw [stepParse_done _ _ _ (by exact hrem), parseChunk_withState, hp]; rfl

theorem update_parse_crc {cfg : Cfg} {d d2 : Dec} {t : ChunkType} {rest : Bytes} {c : Nat}
    (hs : d.state = some (.parseChunkData t)) (hrem : d.remaining = 0)
    (hp : parseChunk cfg d t = .ok (.nothing, d2))
    (hc32 : c < 2 ^ 32) (ht : t ≠ IEND) (hc : d2.opts.ignoreCrc = false → cfg.crc d2.crcAcc = c) :
    update cfg d (be32Bytes c ++ rest) = (d2.withState (some (.u32 .length [])), .ok (4, .chunkComplete c t)) := by
  have hne : be32Bytes c ++ rest ≠ [] := by simp [be32Bytes]
  have h2 : nextState cfg d (.parseChunkData t) (be32Bytes c ++ rest) = .ok (0, .nothing, d2) := by
    show stepParse cfg (d.withState none) t = _
    rw [stepParse_done _ _ _ (by exact hrem), parseChunk_withState, hp]; rfl
  have := update_of_nothing (m := 4) hs hne h2 (by
    rw [List.drop_zero]; exact update_crc (parseChunk_ok hp).1 hc32 ht hc)
  simpa using this

/-! ## what a chunk parser other than `IHDR` / `fcTL` leaves alone -/

local macro "dcase" h:ident c:term "," l:term : tactic =>
  `(tactic| (by_cases hc : $c; (· rw [if_pos hc] at $h:ident; exact $l); rw [if_neg hc] at $h:ident))

theorem dispatch_gen {cfg : Cfg} {d d' : Dec} {t : ChunkType} {ev : Ev} (h1 : t ≠ IHDR) (h2 : t ≠ fcTL)
    (h : dispatch cfg d t = .ok (d', ev)) : Gen d d' := by
  have gen : ∀ {r : PRes}, PGen d r → r = .ok (d', ev) → Gen d d' := fun hp hr => (hp _ _ hr).1
  unfold dispatch at h
  rw [if_neg h1] at h
  dcase h (t = sBIT), gen (parseSbit_gen _) h
  dcase h (t = PLTE), gen (parsePlte_gen _) h
  dcase h (t = tRNS), gen (parseTrns_gen _) h
  dcase h (t = pHYs), gen (parsePhys_gen _) h
  dcase h (t = gAMA), gen (parseGama_gen _) h
  dcase h (t = acTL), gen (parseActl_gen _) h
  rw [if_neg h2] at h
  dcase h (t = cHRM), gen (parseChrm_gen _) h
  dcase h (t = sRGB), gen (parseSrgb_gen _) h
  dcase h (t = cICP), gen (parseCicp_gen _) h
  dcase h (t = mDCV), gen (parseMdcv_gen _) h
  dcase h (t = cLLI), gen (parseClli_gen _) h
  dcase h (t = eXIf), gen (parseExif_gen _) h
  dcase h (t = bKGD), gen (parseBkgd_gen _) h
  dcase h (t = iCCP ∧ (!d.opts.ignoreIccp) = true), gen (parseIccp_gen _ _) h
  dcase h (t = tEXt ∧ (!d.opts.ignoreText) = true), gen (parseText_gen _) h
  dcase h (t = zTXt ∧ (!d.opts.ignoreText) = true), gen (parseZtxt_gen _) h
  dcase h (t = iTXt ∧ (!d.opts.ignoreText) = true), gen (parseItxt_gen _ _) h
  cases h; exact Gen.refl _

/-- `parse_chunk` of anything but `IHDR` / `fcTL` keeps the header fields and the frame control of `info` -/
theorem parseChunk_info {cfg : Cfg} {d d' : Dec} {t : ChunkType} {ev : Ev} (h1 : t ≠ IHDR) (h2 : t ≠ fcTL)
    (h : parseChunk cfg d t = .ok (ev, d')) :
    d'.info.map Info.core = d.info.map Info.core ∧ d'.info.map (·.fctl) = d.info.map (·.fctl) := by
  rcases parseChunk_cases h with h | ⟨e, _, _, _, _, rfl⟩
  · have := dispatch_gen h1 h2 h
    exact ⟨this.core, this.fctl⟩
  · rw [benignResidue_info]; exact ⟨rfl, rfl⟩

/-! ## one chunk -/

/-- the decoder when `parse_chunk` is called for the chunk `(t, body)` that began in state `d` -/
def Dec.atParse (d : Dec) (t : ChunkType) (body : Bytes) : Dec :=
  { d with state := none, curType := t, crcAcc := if d.opts.ignoreCrc then d.crcAcc else typeBytes t ++ body,
           remaining := 0, raw := body }

/-- in the idle state `d`, `parse_chunk` accepts the chunk `(t, body)` and leaves the decoder `d'` (idle again) -/
structure AncStep (cfg : Cfg) (d : Dec) (t : ChunkType) (body : Bytes) (d' : Dec) : Prop where
  tIHDR : t ≠ IHDR
  tIDAT : t ≠ IDAT
  tfdAT : t ≠ fdAT
  tIEND : t ≠ IEND
  tfcTL : t ≠ fcTL
  tlt : t < 2 ^ 32
  len : body.length < 2 ^ 32
  cap : body.length ≤ d.cap
  parse : ∃ ev d2, parseChunk cfg (d.atParse t body) t = .ok (ev, d2) ∧ d' = d2.withState (some (.u32 .length []))

theorem Dec.ext_out {d : Dec} (h : d.out = []) : d.clearOut = d := clearOut_of_nil h

theorem collect_eq_atParse (d : Dec) (t : ChunkType) (body : Bytes) (ho : d.out = []) :
    (({ d with state := some (if body.length = 0 then St.parseChunkData t else St.readChunkData t), curType := t,
               crcAcc := if d.opts.ignoreCrc then d.crcAcc else typeBytes t, remaining := body.length,
               raw := [] } : Dec).clearOut.collect body) = d.atParse t body := by
  cases d with
  | mk state curType crcAcc remaining raw cap zin zstarted zemitted info seqNo haveIdat readyIdat readyFdat haveIccp opts limit out =>
    simp only at ho
    subst ho
    cases hig : opts.ignoreCrc <;>
      simp [Dec.clearOut, Dec.collect, Dec.readPiece, Dec.withState, Dec.atParse, hig]

theorem ParserEv.preEv {ev : Ev} (h : ParserEv ev) (hne : ev ≠ .imageEnd) : PreEv (ev, []) := by
  refine ⟨rfl, hne, fun len t he => ?_⟩
  simp only at he
  subst he
  exact h.elim

/-- **one chunk between `IHDR` and the image data** -/
theorem anc_step (cfg : Cfg) (hC : cfg.CrcOk) {d d' : Dec} {c : Nat × Nat × Nat × Nat × Bool} {fo : Option FrameControl}
    {t : ChunkType} {body : Bytes} (hd : IdleF d c fo) (hs : AncStep cfg d t body d') :
    AncTrace cfg d (chunk cfg t body) d' ∧ IdleF d' c fo ∧ d'.limit ≤ d.limit ∧ d'.cap = d.cap ∧ d'.opts = d.opts ∧
      d'.seqNo = d.seqNo := by
  obtain ⟨ev, d2, hp, rfl⟩ := hs.parse
  obtain ⟨i, hi, hcore, hfctl⟩ := hd.info
  have hfr := parseChunk_frame hp
  have hfz := parseChunk_frameZ hp hs.tfcTL
  obtain ⟨hinfc, hinff⟩ := parseChunk_info hs.tIHDR hs.tfcTL hp
  have hev := parseChunk_ev hp
  have hok := parseChunk_ok hp
  -- the state afterwards
  have hinfo2 : ∃ i', d2.info = some i' ∧ i'.core = c ∧ i'.fctl = fo := by
    have h1 : d2.info.map Info.core = some c := by rw [hinfc]; show d.info.map Info.core = _; rw [hi, ← hcore]; rfl
    have h2 : d2.info.map (·.fctl) = some fo := by rw [hinff]; show d.info.map (·.fctl) = _; rw [hi, ← hfctl]; rfl
    cases hd2 : d2.info with
    | none => rw [hd2] at h1; cases h1
    | some i' =>
      rw [hd2] at h1 h2
      simp only [Option.map_some, Option.some.injEq] at h1 h2
      exact ⟨i', rfl, h1, h2⟩
  have hidle : IdleF (d2.withState (some (.u32 .length []))) c fo := by
    refine ⟨rfl, ?_, hinfo2, ?_, ?_, ?_, ?_⟩
    · show d2.out = []; rw [hfr.out]; exact hd.out
    · show ¬ (d2.curType = IDAT ∨ d2.curType = fdAT)
      rw [hfr.curType]
      show ¬ (t = IDAT ∨ t = fdAT)
      exact fun h => h.elim hs.tIDAT hs.tfdAT
    · show d2.readyIdat = true; rw [hfr.readyIdat]; exact hd.readyIdat
    · show d2.zin = []; rw [hfz.zin]; exact hd.zin
    · show d2.zemitted = 0; rw [hfz.zemitted]; exact hd.zemitted
  refine ⟨?_, hidle, hfr.limit, hfr.cap, hfr.opts, hfz.seqNo⟩
  -- the trace
  intro tb htb
  have hnf : ¬ IsFlush d t := fun h => hd.notData h.2
  have hu1 := update_chunkBegin_other (cfg := cfg) (rest := body ++ (be32Bytes (cfg.crc (typeBytes t ++ body)) ++ tb))
    hd.state hs.len hs.tlt (Or.inl (by rw [hi]; rfl)) hnf hs.tfdAT hs.tIDAT
  generalize hD1 : ({ d with state := some (if body.length = 0 then St.parseChunkData t else St.readChunkData t), curType := t, crcAcc := if d.opts.ignoreCrc then d.crcAcc else typeBytes t, remaining := body.length, raw := [] } : Dec) = D1 at hu1
  have hcol : D1.clearOut.collect body = d.atParse t body := by rw [← hD1]; exact collect_eq_atParse d t body hd.out
  have hcrc : (d2.opts.ignoreCrc = false → cfg.crc d2.crcAcc = cfg.crc (typeBytes t ++ body)) := by
    intro hig
    rw [hfr.crcAcc]
    have : d.opts.ignoreCrc = false := by rw [← hig, hfr.opts]; rfl
    show cfg.crc (if d.opts.ignoreCrc then d.crcAcc else typeBytes t ++ body) = _
    rw [this]; rfl
  have hout2 : d2.out = [] := by rw [hfr.out]; exact hd.out
  have T1 : Trace cfg (fun _ => True) d (chunk cfg t body ++ tb) [(.chunkBegin body.length t, [])] D1.clearOut
      (body ++ (be32Bytes (cfg.crc (typeBytes t ++ body)) ++ tb)) := by
    rw [chunk_append]
    exact Trace.one (head8_ne_nil _ _ _) hu1 rfl trivial (by rw [← hD1]; exact hd.out) (drop_head8 _ _ _)
  have hcb : PreEv (Ev.chunkBegin body.length t, ([] : Bytes)) :=
    ⟨rfl, by simp, fun len t' he => by cases he; exact ⟨hs.tIDAT, hs.tfdAT⟩⟩
  have hcc : PreEv (Ev.chunkComplete (cfg.crc (typeBytes t ++ body)) t, ([] : Bytes)) :=
    ⟨rfl, by simp, fun _ _ he => by cases he⟩
  have mem2 : ∀ (x y : Ev × Bytes), PreEv x → PreEv y → ∀ e ∈ [x, y], PreEv e := by
    intro x y hx hy e he
    simp only [List.mem_cons, List.mem_nil_iff, or_false] at he
    rcases he with rfl | rfl
    · exact hx
    · exact hy
  have mem3 : ∀ (x y z : Ev × Bytes), PreEv x → PreEv y → PreEv z → ∀ e ∈ [x, y, z], PreEv e := by
    intro x y z hx hy hz e he
    simp only [List.mem_cons, List.mem_nil_iff, or_false] at he
    rcases he with rfl | rfl | rfl
    · exact hx
    · exact hy
    · exact hz
  have hD2 : d2.clearOut = d2 := clearOut_of_nil hout2
  by_cases hb : body = []
  · -- an empty body
    subst hb
    have hst1 : D1.clearOut.state = some (.parseChunkData t) := by rw [← hD1]; rfl
    have hrem1 : D1.clearOut.remaining = 0 := by rw [← hD1]; rfl
    have hp1 : parseChunk cfg D1.clearOut t = .ok (ev, d2) := by
      have : D1.clearOut.collect [] = D1.clearOut.withState none := by
        simp only [Dec.collect, Dec.readPiece, Dec.withState, List.length_nil, List.append_nil, Nat.sub_zero]
        cases D1.clearOut.opts.ignoreCrc <;> rfl
      rw [← parseChunk_withState cfg D1.clearOut none, ← this, hcol]; exact hp
    simp only [List.nil_append] at T1
    by_cases hevn : ev = .nothing
    · subst hevn
      have hu2 := update_parse_crc (cfg := cfg) (rest := tb) hst1 hrem1 hp1 (hC _) hs.tIEND hcrc
      have T2 : Trace cfg (fun _ => True) D1.clearOut (be32Bytes (cfg.crc (typeBytes t ++ [])) ++ tb)
          [(.chunkComplete (cfg.crc (typeBytes t ++ [])) t, [])] (d2.withState (some (.u32 .length []))) tb :=
        Trace.one (by simp [be32Bytes]) hu2 (clearOut_of_nil hout2) trivial hout2 (List.drop_left' rfl)
      exact ⟨_, T1.append T2, mem2 _ _ hcb hcc⟩
    · have hu2 := update_parse_event (cfg := cfg) (rest := be32Bytes (cfg.crc (typeBytes t ++ [])) ++ tb)
        hst1 hrem1 (by simp [be32Bytes]) hp1 hevn
      have hu3 := update_crc (cfg := cfg) (d := d2) (t := t) (rest := tb) hok.1 (hC _) hs.tIEND hcrc
      have T2 : Trace cfg (fun _ => True) D1.clearOut (be32Bytes (cfg.crc (typeBytes t ++ [])) ++ tb)
          [(ev, [])] d2 (be32Bytes (cfg.crc (typeBytes t ++ [])) ++ tb) :=
        Trace.one (by simp [be32Bytes]) hu2 hD2 trivial hout2 List.drop_zero
      have T3 : Trace cfg (fun _ => True) d2 (be32Bytes (cfg.crc (typeBytes t ++ [])) ++ tb)
          [(.chunkComplete (cfg.crc (typeBytes t ++ [])) t, [])] (d2.withState (some (.u32 .length []))) tb :=
        Trace.one (by simp [be32Bytes]) hu3 (clearOut_of_nil hout2) trivial hout2 (List.drop_left' rfl)
      exact ⟨_, T1.append (T2.append T3), mem3 _ _ _ hcb (hev.preEv hok.2) hcc⟩
  · -- the body is collected first
    have hlen0 : body.length ≠ 0 := by intro h; exact hb (List.eq_nil_of_length_eq_zero h)
    have hst1 : D1.clearOut.state = some (.readChunkData t) := by rw [← hD1]; simp [hlen0]
    have hrem1 : D1.clearOut.remaining = body.length := by rw [← hD1]; rfl
    have hcap1 : body.length ≤ D1.clearOut.cap - D1.clearOut.raw.length := by
      rw [← hD1]; show body.length ≤ d.cap - 0; have := hs.cap; omega
    by_cases hevn : ev = .nothing
    · subst hevn
      have hu2 := update_body_crc (cfg := cfg) (rest := tb) hst1 hrem1 hb hcap1 (by rw [hcol]; exact hp) (hC _) hs.tIEND hcrc
      have T2 : Trace cfg (fun _ => True) D1.clearOut (body ++ (be32Bytes (cfg.crc (typeBytes t ++ body)) ++ tb))
          [(.chunkComplete (cfg.crc (typeBytes t ++ body)) t, [])] (d2.withState (some (.u32 .length []))) tb := by
        refine Trace.one (by simp [hb]) hu2 (clearOut_of_nil hout2) trivial hout2 ?_
        rw [← List.append_assoc, List.drop_left' (by simp [be32Bytes_length])]
      exact ⟨_, T1.append T2, mem2 _ _ hcb hcc⟩
    · have hu2 := update_body_event (cfg := cfg) (rest := be32Bytes (cfg.crc (typeBytes t ++ body)) ++ tb)
        hst1 hrem1 hb hcap1 (by simp [be32Bytes]) (by rw [hcol]; exact hp) hevn
      have hu3 := update_crc (cfg := cfg) (d := d2) (t := t) (rest := tb) hok.1 (hC _) hs.tIEND hcrc
      have T2 : Trace cfg (fun _ => True) D1.clearOut (body ++ (be32Bytes (cfg.crc (typeBytes t ++ body)) ++ tb))
          [(ev, [])] d2 (be32Bytes (cfg.crc (typeBytes t ++ body)) ++ tb) :=
        Trace.one (by simp [hb]) hu2 hD2 trivial hout2 (List.drop_left' rfl)
      have T3 : Trace cfg (fun _ => True) d2 (be32Bytes (cfg.crc (typeBytes t ++ body)) ++ tb)
          [(.chunkComplete (cfg.crc (typeBytes t ++ body)) t, [])] (d2.withState (some (.u32 .length []))) tb :=
        Trace.one (by simp [be32Bytes]) hu3 (clearOut_of_nil hout2) trivial hout2 (List.drop_left' rfl)
      exact ⟨_, T1.append (T2.append T3), mem3 _ _ _ hcb (hev.preEv hok.2) hcc⟩

/-! ## a sequence of chunks -/

/-- the chunks `cs` are accepted one after the other, taking the decoder from `d` to `d'` -/
inductive AncChunks (cfg : Cfg) : Dec → List (ChunkType × Bytes) → Dec → Prop
  | nil (d : Dec) : AncChunks cfg d [] d
  | cons {d d1 d' : Dec} {t : ChunkType} {body : Bytes} {cs : List (ChunkType × Bytes)}
      (h1 : AncStep cfg d t body d1) (h2 : AncChunks cfg d1 cs d') : AncChunks cfg d ((t, body) :: cs) d'

/-- **any sequence of accepted chunks between `IHDR` and the image data** -/
theorem anc_chunks (cfg : Cfg) (hC : cfg.CrcOk) {d d' : Dec} {c : Nat × Nat × Nat × Nat × Bool} {fo : Option FrameControl}
    {cs : List (ChunkType × Bytes)} (hd : IdleF d c fo) (h : AncChunks cfg d cs d') :
    AncTrace cfg d (chunks cfg cs) d' ∧ IdleF d' c fo ∧ d'.limit ≤ d.limit ∧ d'.seqNo = d.seqNo ∧ d'.cap = d.cap := by
  induction h with
  | nil d => exact ⟨AncTrace.nil cfg d, hd, Nat.le_refl _, rfl, rfl⟩
  | @cons d0 d1 d' t body cs h1 _ ih =>
    obtain ⟨a1, a2, a3, a4, _, a6⟩ := anc_step cfg hC hd h1
    obtain ⟨b1, b2, b3, b4, b5⟩ := ih a2
    refine ⟨?_, b2, Nat.le_trans b3 a3, b4.trans a6, b5.trans a4⟩
    have : chunks cfg ((t, body) :: cs) = chunk cfg t body ++ chunks cfg cs := by simp [chunks]
    rw [this]
    exact a1.append b1


/-! ## chunks that satisfy `AncStep` -/

theorem atParse_fields (d : Dec) (t : ChunkType) (body : Bytes) :
    ((d.atParse t body).atCrc t).info = d.info ∧ ((d.atParse t body).atCrc t).raw = body ∧
    ((d.atParse t body).atCrc t).haveIdat = d.haveIdat ∧ ((d.atParse t body).atCrc t).opts = d.opts ∧
    ((d.atParse t body).atCrc t).limit = d.limit := ⟨rfl, rfl, rfl, rfl, rfl⟩

theorem AncStep.of_parse {cfg : Cfg} {d d2 : Dec} {t : ChunkType} {body : Bytes} {ev : Ev}
    (h0 : t ≠ IHDR) (h1 : t ≠ IDAT) (h2 : t ≠ fdAT) (h3 : t ≠ IEND) (h4 : t ≠ fcTL) (hlt : t < 2 ^ 32)
    (hlen : body.length < 2 ^ 32) (hcap : body.length ≤ d.cap)
    (hp : parseChunk cfg (d.atParse t body) t = .ok (ev, d2)) : ∃ d', AncStep cfg d t body d' :=
  ⟨d2.withState (some (.u32 .length [])), h0, h1, h2, h3, h4, hlt, hlen, hcap, ev, d2, hp, rfl⟩

/-- **a chunk of a type `parse_chunk` does not know** (and not a data chunk or `IEND`), of any contents that fit the
    chunk buffer: accepted, nothing changes -/
theorem ancStep_unknown (cfg : Cfg) (d : Dec) (t : ChunkType) (body : Bytes) (hk : t ∉ knownTypes)
    (h1 : t ≠ IDAT) (h2 : t ≠ fdAT) (h3 : t ≠ IEND) (hlt : t < 2 ^ 32) (hlen : body.length < 2 ^ 32)
    (hcap : body.length ≤ d.cap) : ∃ d', AncStep cfg d t body d' := by
  have hk' := hk
  simp only [knownTypes, List.mem_cons, List.mem_nil_iff, or_false, not_or] at hk'
  exact AncStep.of_parse hk'.1 h1 h2 h3 hk'.2.2.2.2.2.2.2.1 hlt hlen hcap
    (parseChunk_of_ok (dispatch_unknown cfg _ t (Or.inl hk)))

/-- **`gAMA`** with a four-byte value, before the image data, when no gamma is stored yet -/
theorem ancStep_gAMA (cfg : Cfg) (d : Dec) (i : Info) (g : Nat) (hg : g < 2 ^ 32) (hi : d.info = some i)
    (hn : i.gama = none) (hh : d.haveIdat = false) (hcap : 4 ≤ d.cap) : ∃ d', AncStep cfg d gAMA (be32Bytes g) d' := by
  have hp : ∃ d2, parseChunk cfg (d.atParse gAMA (be32Bytes g)) gAMA = .ok (.nothing, d2) := by
    refine ⟨setInfo ((d.atParse gAMA (be32Bytes g)).atCrc gAMA) (fun i => { i with gama := some g }), parseChunk_of_ok ?_⟩
    rw [dispatch_gAMA]
    obtain ⟨f1, f2, f3, _, _⟩ := atParse_fields d gAMA (be32Bytes g)
    unfold parseGama withInfo
    rw [f1, hi]
    simp only [f3, hh, hn, f2, bind, Except.bind, pure, Except.pure, Bool.false_eq_true, if_false, Option.isSome_none]
    have : rdU32 (be32Bytes g) = some (g, []) := by simpa using rdU32_be32Bytes hg []
    rw [this]
    rfl
  obtain ⟨d2, hp⟩ := hp
  exact AncStep.of_parse (by decide +kernel) (by decide +kernel) (by decide +kernel) (by decide +kernel)
    (by decide +kernel) (by decide +kernel) (by simp [be32Bytes]) (by simpa [be32Bytes] using hcap) hp

theorem parseText_forward (D : Dec) (i : Info) (kw text : Bytes) (hi : D.info = some i) (hr : D.raw = kw ++ 0 :: text)
    (hk : KeywordOk kw) (hlim : D.raw.length ≤ D.limit) :
    parseText D = .ok (addText { D with limit := D.limit - D.raw.length } (.tEXt kw text), .nothing) := by
  unfold parseText
  rw [reserve_ok _ _ hlim]
  have e1 := splitKeyword_encode kw text hk
  rw [← hr] at e1
  simp only [bind, Except.bind, withInfo, e1, hi]

/-- **`tEXt`** with a legal keyword, within the limits -/
theorem ancStep_tEXt (cfg : Cfg) (d : Dec) (i : Info) (kw text : Bytes) (hi : d.info = some i) (hk : KeywordOk kw)
    (ho : d.opts.ignoreText = false) (hlim : (kw ++ 0 :: text).length ≤ d.limit)
    (hcap : (kw ++ 0 :: text).length ≤ d.cap) (hlen : (kw ++ 0 :: text).length < 2 ^ 32) :
    ∃ d', AncStep cfg d tEXt (kw ++ 0 :: text) d' := by
  obtain ⟨f1, f2, _, f4, f5⟩ := atParse_fields d tEXt (kw ++ 0 :: text)
  have hp := parseChunk_of_ok (cfg := cfg) (d := d.atParse tEXt (kw ++ 0 :: text)) (t := tEXt) (by
    rw [dispatch_tEXt _ _ (by rw [f4]; exact ho)]
    exact parseText_forward _ i kw text (f1.trans hi) f2 hk (by rw [f2, f5]; exact hlim))
  exact AncStep.of_parse (by decide +kernel) (by decide +kernel) (by decide +kernel) (by decide +kernel)
    (by decide +kernel) (by decide +kernel) hlen hcap hp

end Png.Framing
