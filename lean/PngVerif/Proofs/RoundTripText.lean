import PngVerif.Proofs.RoundTripKinds
import PngVerif.Proofs.Text
/-!
# C03 end to end: the text chunks the crate's encoders build are text chunks the decoder accepts

`Enc.Cfg.texts` holds "what `EncodableTextChunk::encode` builds".  `Model/Text.lean` models the three encoders
(`TEXt.encodeBody`, `ZTXt.encodeBody`, `ITXt.encodeBody`); here: every body they produce satisfies `TextBodyOk`, the
hypothesis of `C03_encode_decode` about text chunks (the decoder's UTF-8 test being the real one).
-/
namespace Png.RoundTrip
open Png Png.Framing

theorem keywordOk_of_encodeKeyword (kw : String) (data : Bytes) (h : encodeKeyword kw = .ok data) : KeywordOk data := by
  obtain ⟨⟨h1, h2, h3⟩, _⟩ := encodeKeyword_keywordBytes kw data h
  exact ⟨h1, h2, fun b hb h0 => h3 (h0 ▸ hb)⟩

/-- `TEXtChunk::encode` -/
theorem textBodyOk_tEXt (cfg : Framing.Cfg) (c : TEXt) (body : Bytes) (h : c.encodeBody = .ok body) :
    TextBodyOk cfg tEXt body := by
  unfold TEXt.encodeBody at h
  cases hk : encodeKeyword c.keyword with
  | error e => rw [hk] at h; cases h
  | ok data =>
    rw [hk] at h
    simp only at h
    cases ht : encodeLatin1 c.text with
    | error e => rw [ht] at h; cases h
    | ok t =>
      rw [ht] at h
      simp only [Except.ok.injEq] at h
      subst h
      exact .tEXt data t (keywordOk_of_encodeKeyword _ _ hk)

/-- `ZTXtChunk::encode`, any compressor -/
theorem textBodyOk_zTXt (cfg : Framing.Cfg) (z : ZCodec) (c : ZTXt) (body : Bytes) (h : c.encodeBody z = .ok body) :
    TextBodyOk cfg zTXt body := by
  unfold ZTXt.encodeBody at h
  cases hk : encodeKeyword c.keyword with
  | error e => rw [hk] at h; cases h
  | ok data =>
    rw [hk] at h
    simp only at h
    have hkw := keywordOk_of_encodeKeyword _ _ hk
    obtain ⟨kw, text⟩ := c
    cases text with
    | compressed v =>
      simp only [Except.ok.injEq] at h
      subst h
      exact .zTXt data v hkw
    | uncompressed s =>
      simp only at h
      cases ht : encodeLatin1 s with
      | error e => rw [ht] at h; cases h
      | ok raw =>
        rw [ht] at h
        simp only [Except.ok.injEq] at h
        subst h
        exact .zTXt data _ hkw

/-- `ITXtChunk::encode`, any compressor; the decoder's UTF-8 test is the real one -/
theorem textBodyOk_iTXt (cfg : Framing.Cfg) (hu : ∀ b, cfg.utf8Ok b = (utf8Decode b).isSome) (z : ZCodec) (c : ITXt)
    (body : Bytes) (h : c.encodeBody z = .ok body) : TextBodyOk cfg iTXt body := by
  obtain ⟨data, p, hk, hasc, hnl, hnt, hp, rfl⟩ := ITXt.encodeBody_ok z c body h
  have hkw := keywordOk_of_encodeKeyword _ _ hk
  have hlang : ∀ b ∈ utf8Encode c.languageTag, b ≠ 0 ∧ b.toNat < 128 := by
    intro b hb
    refine ⟨fun h0 => (nul_mem_utf8Encode _).mpr hnl (h0 ▸ hb), ?_⟩
    have := isAsciiBytes_utf8Encode _ hasc
    unfold isAsciiBytes at this
    rw [List.all_eq_true] at this
    have hb' := this b hb
    simp only [decide_eq_true_eq, UInt8.lt_iff_toNat_lt] at hb'
    exact hb'
  have htrans : (∀ b ∈ utf8Encode c.translatedKeyword, b ≠ 0) ∧ cfg.utf8Ok (utf8Encode c.translatedKeyword) = true :=
    ⟨fun b hb h0 => (nul_mem_utf8Encode _).mpr hnt (h0 ▸ hb), by rw [hu, utf8Decode_utf8Encode]; rfl⟩
  cases hc : c.compressed with
  | true =>
    simp only [if_true]
    exact .iTXt data _ _ p 1 0 hkw (by decide) (fun _ => rfl) hlang htrans (Or.inl rfl)
  | false =>
    simp only [Bool.false_eq_true, if_false]
    refine .iTXt data _ _ p 0 0 hkw (by decide) (fun _ => rfl) hlang htrans (Or.inr ?_)
    rw [hu]
    simp only [ITXt.payload, hc, Bool.false_eq_true, if_false] at hp
    cases ht : c.text with
    | compressed v =>
      rw [ht] at hp
      simp only at hp
      cases hd : z.decompress v with
      | none => rw [hd] at hp; cases hp
      | some raw =>
        rw [hd] at hp
        simp only at hp
        split at hp
        · cases hp; assumption
        · cases hp
    | uncompressed s =>
      rw [ht] at hp
      simp only [Option.some.injEq] at hp
      subst hp
      rw [utf8Decode_utf8Encode]; rfl

end Png.RoundTrip
