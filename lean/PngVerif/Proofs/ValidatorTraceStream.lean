import PngVerif.Proofs.ValidatorTrace
/-!
# What programs over both writer APIs leave in the sink (stream writer included)

The analogue of `runWriter_shape` (Proofs/ValidatorTrace.lean) for `runProg`: every function of the
`ChunkWriter` / `ZlibEncoder` / `StreamWriter` model changes the sink only by emission attempts of chunks of
the class `BodyChunk` — fcTL, IDAT / fdAT of at most 2^31-1 bytes (`CWok`: the chunk buffer is never longer
than its capacity `≤ CAP = 2^31-1` and its kind is IDAT or fdAT), IEND — for EVERY sink, every codec, every
operation sequence (no domain hypothesis).
-/
namespace Png.Enc
open Png Png.Val

/-- invariant of a `ChunkWriter`: kind of data chunk, buffer within its capacity, capacity within `5 ..= CAP` -/
structure CWok (c : CW) : Prop where
  kind : c.curr = tyIDAT ∨ c.curr = tyFDAT
  len : c.buf.length ≤ c.cap
  capLo : 5 ≤ c.cap
  capHi : c.cap ≤ 2 ^ 31 - 1

variable {all : List Op}

/-- shorthand: the sink grows by body chunks -/
abbrev GrowsBy (all : List Op) (w w' : WState) : Prop := Adds (BodyChunk all) w w'

theorem chunkKind_cases (w : WState) : chunkKind w = tyIDAT ∨ chunkKind w = tyFDAT := by
  unfold chunkKind; split
  · exact Or.inl rfl
  · exact Or.inr rfl

theorem CW.new_ok (w : WState) (bufLen : Nat) : CWok (CW.new w bufLen) ∧ (CW.new w bufLen).w = w := by
  refine ⟨⟨chunkKind_cases w, Nat.zero_le _, ?_, ?_⟩, rfl⟩
  · simp only [CW.new, streamMinBuffer]; omega
  · simp only [CW.new, streamMinBuffer, chunkCap]; omega

theorem CW.writeHeader_tr (c : CW) (h : CWok c) :
    GrowsBy all c.w (c.writeHeader).1.w ∧ CWok (c.writeHeader).1 := by
  unfold CW.writeHeader
  split
  · exact ⟨Adds.refl _ _, h⟩
  · have h1 : CWok { c with curr := chunkKind c.w } := ⟨chunkKind_cases _, h.len, h.capLo, h.capHi⟩
    simp only
    cases hf : c.w.fctl with
    | none => exact ⟨Adds.refl _ _, h1⟩
    | some f =>
      simp only
      split
      · exact ⟨Adds.refl _ _, h1⟩
      · have he : GrowsBy all c.w (c.w.emit [mkFctl f]).1 := Adds.emit _ _ (by
          intro x hx; simp only [List.mem_singleton] at hx; subst hx; exact .fctl f)
        cases hem : c.w.emit [mkFctl f] with
        | mk w' ok =>
          rw [hem] at he
          cases ok with
          | false => exact ⟨he, ⟨h1.kind, h1.len, h1.capLo, h1.capHi⟩⟩
          | true =>
            simp only
            split
            · exact ⟨he, ⟨h1.kind, h1.len, h1.capLo, h1.capHi⟩⟩
            · exact ⟨he.trans (Adds.of_sink rfl), ⟨h1.kind, h1.len, h1.capLo, h1.capHi⟩⟩

theorem CW.setFctlOpt_tr (c : CW) (f : Option FC) (h : CWok c) :
    GrowsBy all c.w (c.setFctlOpt f).w ∧ CWok (c.setFctlOpt f) := by
  cases f with
  | none => exact ⟨Adds.refl _ _, h⟩
  | some f =>
    simp only [CW.setFctlOpt, CW.setFctl]
    cases c.w.fctl with
    | none => exact ⟨Adds.refl _ _, h⟩
    | some cur => exact ⟨Adds.of_sink rfl, ⟨h.kind, h.len, h.capLo, h.capHi⟩⟩

theorem CW.flushInner_tr (c : CW) (h : CWok c) :
    GrowsBy all c.w (c.flushInner).1.w ∧ CWok (c.flushInner).1 := by
  unfold CW.flushInner
  split
  · have he : GrowsBy all c.w (c.w.emit [⟨c.curr, c.buf⟩]).1 := Adds.emit _ _ (by
      intro x hx; simp only [List.mem_singleton] at hx; subst hx
      exact .data _ _ h.kind (by have := h.len; have := h.capHi; omega))
    cases hem : c.w.emit [⟨c.curr, c.buf⟩] with
    | mk w' ok =>
      rw [hem] at he
      cases ok with
      | true => exact ⟨he, ⟨h.kind, Nat.zero_le _, h.capLo, h.capHi⟩⟩
      | false => exact ⟨he, ⟨h.kind, h.len, h.capLo, h.capHi⟩⟩
  · exact ⟨Adds.refl _ _, h⟩

theorem CW.startChunk_tr (c : CW) (h : CWok c) :
    GrowsBy all c.w c.startChunk.w ∧ CWok c.startChunk := by
  unfold CW.startChunk
  split
  · cases c.w.fctl with
    | none => exact ⟨Adds.refl _ _, h⟩
    | some f =>
      refine ⟨Adds.of_sink rfl, ⟨h.kind, ?_, h.capLo, h.capHi⟩⟩
      simp only [be32Bytes_length]; have := h.capLo; omega
  · exact ⟨Adds.refl _ _, h⟩

theorem CW.append_fst (c : CW) (data : Bytes) :
    (c.append data).1 =
      if (c.buf ++ data.take (min data.length (c.cap - c.buf.length))).length = c.cap then
        ({ c with buf := c.buf ++ data.take (min data.length (c.cap - c.buf.length)) } : CW).flushInner.1
      else { c with buf := c.buf ++ data.take (min data.length (c.cap - c.buf.length)) } := by
  unfold CW.append
  simp only
  split
  · cases hfl : ({ c with buf := c.buf ++ data.take (min data.length (c.cap - c.buf.length)) } : CW).flushInner with
    | mk c' r => cases r <;> rfl
  · rfl

theorem CW.append_tr (c : CW) (data : Bytes) (h : CWok c) :
    GrowsBy all c.w (c.append data).1.w ∧ CWok (c.append data).1 := by
  rw [CW.append_fst]
  have h1 : CWok { c with buf := c.buf ++ data.take (min data.length (c.cap - c.buf.length)) } :=
    ⟨h.kind, by simp only [List.length_append, List.length_take]; have := h.len; omega, h.capLo, h.capHi⟩
  split
  · exact CW.flushInner_tr _ h1
  · exact ⟨Adds.refl _ _, h1⟩

theorem CW.write_tr (c : CW) (data : Bytes) (h : CWok c) :
    GrowsBy all c.w (c.write data).1.w ∧ CWok (c.write data).1 := by
  unfold CW.write
  split
  · exact ⟨Adds.refl _ _, h⟩
  · obtain ⟨a1, a2⟩ := CW.startChunk_tr (all := all) c h
    obtain ⟨b1, b2⟩ := CW.append_tr (all := all) c.startChunk data a2
    exact ⟨a1.trans b1, b2⟩

theorem CW.drop_tr (c : CW) (owned : Bool) (h : CWok c) : GrowsBy all c.w (c.drop owned).1 := by
  unfold CW.drop
  obtain ⟨a1, _⟩ := CW.flushInner_tr (all := all) c h
  cases hfl : c.flushInner with
  | mk c' r =>
    rw [hfl] at a1
    cases r with
    | panic p => exact a1
    | ok => cases owned <;> first | exact a1 | exact a1.trans (Adds.dropW all _)
    | err e => cases owned <;> first | exact a1 | exact a1.trans (Adds.dropW all _)

/-! ## `ZlibEncoder<ChunkWriter>` -/

theorem ZEnc.dumpAux_tr : ∀ (fuel : Nat) (z : ZEnc), CWok z.cw →
    GrowsBy all z.cw.w (ZEnc.dumpAux fuel z).1.cw.w ∧ CWok (ZEnc.dumpAux fuel z).1.cw := by
  intro fuel
  induction fuel with
  | zero => intro z h; exact ⟨Adds.refl _ _, h⟩
  | succ k ih =>
    intro z h
    unfold ZEnc.dumpAux
    split
    · exact ⟨Adds.refl _ _, h⟩
    · obtain ⟨a1, a2⟩ := CW.write_tr (all := all) z.cw z.pending h
      cases hw : z.cw.write z.pending with
      | mk cw' r =>
        rw [hw] at a1 a2
        cases r with
        | ok n =>
          simp only
          split
          · exact ⟨a1, a2⟩
          · obtain ⟨b1, b2⟩ := ih { z with cw := cw', pending := z.pending.drop n } a2
            exact ⟨a1.trans b1, b2⟩
        | err e => exact ⟨a1, a2⟩
        | panic p => exact ⟨a1, a2⟩

theorem ZEnc.dump_tr (z : ZEnc) (h : CWok z.cw) : GrowsBy all z.cw.w z.dump.1.cw.w ∧ CWok z.dump.1.cw :=
  ZEnc.dumpAux_tr _ z h

theorem ZEnc.writeAll_tr (Z : ZCodec) (z : ZEnc) (d : Bytes) (h : CWok z.cw) :
    GrowsBy all z.cw.w (z.writeAll Z d).1.cw.w ∧ CWok (z.writeAll Z d).1.cw := by
  unfold ZEnc.writeAll
  split
  · exact ⟨Adds.refl _ _, h⟩
  · obtain ⟨a1, a2⟩ := ZEnc.dump_tr (all := all) z h
    cases hd : z.dump with
    | mk z' r =>
      rw [hd] at a1 a2
      cases r with
      | ok => exact ⟨a1, a2⟩
      | err e => exact ⟨a1, a2⟩
      | panic p => exact ⟨a1, a2⟩

theorem ZEnc.flush_tr (Z : ZCodec) (z : ZEnc) (h : CWok z.cw) :
    GrowsBy all z.cw.w (z.flush Z).1.cw.w ∧ CWok (z.flush Z).1.cw := by
  unfold ZEnc.flush
  simp only
  obtain ⟨a1, a2⟩ := ZEnc.dump_tr (all := all)
    { z with pending := z.pending ++ Z.out z.hist ZOp.flush, hist := z.hist ++ [ZOp.flush] } h
  cases hd : ZEnc.dump { z with pending := z.pending ++ Z.out z.hist ZOp.flush, hist := z.hist ++ [ZOp.flush] } with
  | mk z' r =>
    rw [hd] at a1 a2
    cases r with
    | ok =>
      obtain ⟨b1, b2⟩ := CW.flushInner_tr (all := all) z'.cw a2
      simp only
      cases hfl : z'.cw.flushInner with
      | mk cw' r2 => rw [hfl] at b1 b2; exact ⟨a1.trans b1, b2⟩
    | err e => exact ⟨a1, a2⟩
    | panic p => exact ⟨a1, a2⟩

theorem ZEnc.finish_tr (Z : ZCodec) (z : ZEnc) (h : CWok z.cw) :
    GrowsBy all z.cw.w (z.finish Z).1.cw.w ∧ CWok (z.finish Z).1.cw := by
  unfold ZEnc.finish
  obtain ⟨a1, a2⟩ := ZEnc.dump_tr (all := all) z h
  cases hd : z.dump with
  | mk z' r =>
    rw [hd] at a1 a2
    cases r with
    | ok =>
      simp only
      split
      · exact ⟨a1, a2⟩
      · obtain ⟨b1, b2⟩ := ZEnc.dump_tr (all := all)
          { z' with pending := z'.pending ++ Z.out z'.hist ZOp.finish, hist := z'.hist ++ [ZOp.finish] } a2
        exact ⟨a1.trans b1, b2⟩
    | err e => exact ⟨a1, a2⟩
    | panic p => exact ⟨a1, a2⟩

theorem ZEnc.drop_tr (Z : ZCodec) (z : ZEnc) (owned : Bool) (h : CWok z.cw) : GrowsBy all z.cw.w (z.drop Z owned).1 := by
  unfold ZEnc.drop
  obtain ⟨a1, a2⟩ := ZEnc.finish_tr (all := all) Z z h
  cases hf : z.finish Z with
  | mk z' r =>
    rw [hf] at a1 a2
    cases r with
    | panic p => exact a1
    | ok => exact a1.trans (CW.drop_tr z'.cw owned a2)
    | err e => exact a1.trans (CW.drop_tr z'.cw owned a2)

/-! ## `StreamWriter` -/

/-- every `Writer` state a stream writer holds (inside its wrapper, or released by a drop) has grown out of
    `w0` by body chunks, and its chunk writer is within its invariant -/
structure SWTr (all : List Op) (w0 : WState) (s : SW) : Prop where
  chunk : ∀ c, s.wr = .chunk c → GrowsBy all w0 c.w ∧ CWok c
  zlib : ∀ z, s.wr = .zlib z → GrowsBy all w0 z.cw.w ∧ CWok z.cw
  rel : ∀ w, s.released = some w → GrowsBy all w0 w

variable {w0 : WState}

theorem SWTr.upd {s s' : SW} (h : SWTr all w0 s) (hwr : s'.wr = s.wr) (hrel : s'.released = s.released) :
    SWTr all w0 s' :=
  ⟨fun c hc => h.chunk c (hwr ▸ hc), fun z hz => h.zlib z (hwr ▸ hz), fun w hw => h.rel w (hrel ▸ hw)⟩

theorem SWTr.toChunk {s s' : SW} (h : SWTr all w0 s) {c : CW} (hc : GrowsBy all w0 c.w) (ok : CWok c)
    (hwr : s'.wr = .chunk c) (hrel : s'.released = s.released) : SWTr all w0 s' :=
  ⟨fun c' hc' => (by rw [hwr] at hc'; cases hc'; exact ⟨hc, ok⟩), fun z hz => (by rw [hwr] at hz; cases hz),
    fun w hw => h.rel w (hrel ▸ hw)⟩

theorem SWTr.toZlib {s s' : SW} (h : SWTr all w0 s) {z : ZEnc} (hc : GrowsBy all w0 z.cw.w) (ok : CWok z.cw)
    (hwr : s'.wr = .zlib z) (hrel : s'.released = s.released) : SWTr all w0 s' :=
  ⟨fun c hc' => (by rw [hwr] at hc'; cases hc'), fun z' hz => (by rw [hwr] at hz; cases hz; exact ⟨hc, ok⟩),
    fun w hw => h.rel w (hrel ▸ hw)⟩

theorem SWTr.toDead {s' : SW} {w : WState} (hw : GrowsBy all w0 w)
    (hwr : s'.wr = .unrecoverable ∨ s'.wr = .none) (hrel : s'.released = some w) : SWTr all w0 s' :=
  ⟨fun c hc => (by rcases hwr with h | h <;> rw [h] at hc <;> cases hc),
    fun z hz => (by rcases hwr with h | h <;> rw [h] at hz <;> cases hz),
    fun w' hw' => (by rw [hrel] at hw'; cases hw'; exact hw)⟩

theorem SWTr.writerState {s : SW} (h : SWTr all w0 s) : GrowsBy all w0 (s.writerState w0) := by
  unfold SW.writerState
  cases hr : s.released with
  | some w => exact h.rel w hr
  | none =>
    simp only
    cases hw : s.wr with
    | chunk c => exact (h.chunk c hw).1
    | zlib z => exact (h.zlib z hw).1
    | unrecoverable => exact Adds.refl _ _
    | none => exact Adds.refl _ _

theorem SW.new_tr (w : WState) (owned : Bool) (bufLen : Nat) :
    match (SW.new w owned bufLen).1 with
    | .inl s => SWTr all w s
    | .inr w' => GrowsBy all w w' := by
  unfold SW.new
  cases streamChecks w with
  | some e =>
    simp only
    cases owned
    · exact Adds.refl _ _
    · exact Adds.dropW all w
  | none =>
    simp only
    obtain ⟨k1, k2⟩ := CW.new_ok w bufLen
    obtain ⟨a1, a2⟩ := CW.writeHeader_tr (all := all) (CW.new w bufLen) k1
    rw [k2] at a1
    cases hh : (CW.new w bufLen).writeHeader with
    | mk cw' r =>
      rw [hh] at a1 a2
      cases r with
      | ok =>
        exact ⟨fun c hc => (by cases hc), fun z hz => (by simp only [Wrap.zlib.injEq] at hz; subst hz; exact ⟨a1, a2⟩),
          fun w' hw' => (by cases hw')⟩
      | err e => exact a1.trans (CW.drop_tr cw' owned a2)
      | panic p => exact a1.trans (CW.drop_tr cw' owned a2)

theorem SW.endZlib_tr (Z : ZCodec) (s : SW) (h : SWTr all w0 s) : SWTr all w0 (s.endZlib Z).1 := by
  unfold SW.endZlib
  cases hw : s.wr with
  | zlib z =>
    simp only
    obtain ⟨t, ok⟩ := h.zlib z hw
    obtain ⟨a1, a2⟩ := ZEnc.finish_tr (all := all) Z z ok
    cases hf : z.finish Z with
    | mk z' r =>
      rw [hf] at a1 a2
      cases r with
      | ok => exact h.toChunk (t.trans a1) a2 rfl rfl
      | panic p => exact h.toZlib (t.trans a1) a2 rfl rfl
      | err e =>
        simp only
        have hd := ZEnc.drop_tr (all := all) Z z' s.owned a2
        cases hdr : z'.drop Z s.owned with
        | mk w r2 =>
          rw [hdr] at hd
          cases r2 <;> exact SWTr.toDead ((t.trans a1).trans hd) (Or.inl rfl) rfl
  | chunk c => exact h
  | unrecoverable => exact h
  | none => exact h

theorem SW.finishImage_tr (Z : ZCodec) (s : SW) (h : SWTr all w0 s) : SWTr all w0 (s.finishImage Z).1 := by
  unfold SW.finishImage
  have h1 := SW.endZlib_tr (all := all) Z s h
  cases he : s.endZlib Z with
  | mk s1 r =>
    rw [he] at h1
    cases r with
    | ok =>
      simp only
      cases hw : s1.wr with
      | chunk cw =>
        simp only
        obtain ⟨t, ok⟩ := h1.chunk cw hw
        obtain ⟨a1, a2⟩ := CW.flushInner_tr (all := all) cw ok
        cases hfl : cw.flushInner with
        | mk cw' r2 =>
          rw [hfl] at a1 a2
          cases r2 with
          | ok =>
            exact h1.toChunk (c := { cw' with w := incrementImagesWritten cw'.w }) ((t.trans a1).trans (Adds.incr _))
              ⟨a2.kind, a2.len, a2.capLo, a2.capHi⟩ rfl rfl
          | err e => exact h1.toChunk (t.trans a1) a2 rfl rfl
          | panic p => exact h1.toChunk (t.trans a1) a2 rfl rfl
      | zlib z => exact h1
      | unrecoverable => exact h1
      | none => exact h1
    | err e => exact h1
    | panic p => exact h1

theorem SW.newFrame_tr (s : SW) (h : SWTr all w0 s) : SWTr all w0 s.newFrame.1 := by
  unfold SW.newFrame
  cases hw : s.wr with
  | unrecoverable => exact h
  | zlib z => exact h
  | none => exact h
  | chunk cw =>
    simp only
    obtain ⟨t, ok⟩ := h.chunk cw hw
    obtain ⟨a1, a2⟩ := CW.flushInner_tr (all := all) cw ok
    cases hfl : cw.flushInner with
    | mk cw1 r =>
      rw [hfl] at a1 a2
      cases r with
      | panic p => exact h.toChunk (t.trans a1) a2 rfl rfl
      | err e => exact h.toChunk (t.trans a1) a2 rfl rfl
      | ok =>
        simp only
        cases validateNewImage cw1.w with
        | some e => exact h.toChunk (t.trans a1) a2 rfl rfl
        | none =>
          simp only
          obtain ⟨b1, b2⟩ := CW.setFctlOpt_tr (all := all) cw1 s.fctl a2
          obtain ⟨c1, c2⟩ := CW.writeHeader_tr (all := all) (cw1.setFctlOpt s.fctl) b2
          cases hh : (cw1.setFctlOpt s.fctl).writeHeader with
          | mk cw2 r2 =>
            rw [hh] at c1 c2
            have tt := ((t.trans a1).trans b1).trans c1
            cases r2 with
            | ok => exact h.toZlib (z := { cw := cw2 }) tt c2 rfl rfl
            | err e => exact h.toChunk tt c2 rfl rfl
            | panic p => exact h.toChunk tt c2 rfl rfl

theorem SW.beginIfDone_tr (Z : ZCodec) (s : SW) (h : SWTr all w0 s) : SWTr all w0 (s.beginIfDone Z).1 := by
  unfold SW.beginIfDone
  split
  · cases hw : s.wr with
    | unrecoverable => exact h
    | none => exact h
    | chunk c =>
      simp only
      have h1 := SW.endZlib_tr (all := all) Z s h
      cases he : s.endZlib Z with
      | mk s1 r =>
        rw [he] at h1
        cases r with
        | ok => exact SW.newFrame_tr s1 h1
        | err e => exact h1
        | panic p => exact h1
    | zlib z =>
      simp only
      have h1 := SW.endZlib_tr (all := all) Z s h
      cases he : s.endZlib Z with
      | mk s1 r =>
        rw [he] at h1
        cases r with
        | ok => exact SW.newFrame_tr s1 h1
        | err e => exact h1
        | panic p => exact h1
  · exact h

theorem SW.rowDone_tr (Z : ZCodec) (s : SW) (h : SWTr all w0 s) : SWTr all w0 (s.rowDone Z).1 := by
  unfold SW.rowDone
  cases hw : s.wr with
  | zlib z =>
    simp only
    obtain ⟨t, ok⟩ := h.zlib z hw
    obtain ⟨a1, a2⟩ := ZEnc.writeAll_tr (all := all) Z z ((Z.row s.bpp s.prevBuf s.curBuf).take 1) ok
    cases h1 : z.writeAll Z ((Z.row s.bpp s.prevBuf s.curBuf).take 1) with
    | mk z1 r1 =>
      rw [h1] at a1 a2
      cases r1 with
      | ok =>
        simp only
        obtain ⟨b1, b2⟩ := ZEnc.writeAll_tr (all := all) Z z1 ((Z.row s.bpp s.prevBuf s.curBuf).drop 1) a2
        cases h2 : z1.writeAll Z ((Z.row s.bpp s.prevBuf s.curBuf).drop 1) with
        | mk z2 r2 =>
          rw [h2] at b1 b2
          have tt := (t.trans a1).trans b1
          cases r2 with
          | ok =>
            simp only
            have hs2 : SWTr all w0 { s with wr := .zlib z2, prevBuf := s.curBuf, curBuf := s.prevBuf, index := 0 } :=
              h.toZlib tt b2 rfl rfl
            split
            · exact SW.finishImage_tr Z _ hs2
            · exact hs2
          | err e => exact h.toZlib tt b2 rfl rfl
          | panic p => exact h.toZlib tt b2 rfl rfl
      | err e => exact h.toZlib (t.trans a1) a2 rfl rfl
      | panic p => exact h.toZlib (t.trans a1) a2 rfl rfl
  | chunk c => exact h
  | unrecoverable => exact h
  | none => exact h

theorem SW.write_tr (Z : ZCodec) (s : SW) (data : Bytes) (h : SWTr all w0 s) : SWTr all w0 (s.write Z data).1 := by
  unfold SW.write
  split
  · exact h
  · split
    · exact h
    · have h1 := SW.beginIfDone_tr (all := all) Z s h
      cases hb : s.beginIfDone Z with
      | mk s1 r =>
        rw [hb] at h1
        cases r with
        | err e => exact h1
        | panic p => exact h1
        | ok =>
          simp only
          split
          · exact h1
          · split
            · exact h1
            · have h2 : SWTr all w0 { s1 with
                  curBuf := overwrite s1.curBuf s1.index (data.take (min data.length (s1.lineLen - s1.index))),
                  index := s1.index + min data.length (s1.lineLen - s1.index),
                  toWrite := s1.toWrite - min data.length (s1.lineLen - s1.index) } := h1.upd rfl rfl
              split
              · have h3 := SW.rowDone_tr (all := all) Z _ h2
                cases hr : SW.rowDone Z { s1 with
                  curBuf := overwrite s1.curBuf s1.index (data.take (min data.length (s1.lineLen - s1.index))),
                  index := s1.index + min data.length (s1.lineLen - s1.index),
                  toWrite := s1.toWrite - min data.length (s1.lineLen - s1.index) } with
                | mk s2 r2 =>
                  rw [hr] at h3
                  cases r2 <;> exact h3
              · exact h2

theorem SW.writeAllAux_tr (Z : ZCodec) : ∀ (fuel : Nat) (s : SW) (d : Bytes), SWTr all w0 s →
    SWTr all w0 (SW.writeAllAux Z fuel s d).1 := by
  intro fuel
  induction fuel with
  | zero => intro s d h; exact h
  | succ k ih =>
    intro s d h
    unfold SW.writeAllAux
    split
    · exact h
    · have h1 := SW.write_tr (all := all) Z s d h
      cases hw : s.write Z d with
      | mk s1 r =>
        rw [hw] at h1
        cases r with
        | ok n =>
          simp only
          split
          · exact h1
          · exact ih s1 _ h1
        | err e => exact h1
        | panic p => exact h1

theorem SW.flush_tr (Z : ZCodec) (s : SW) (h : SWTr all w0 s) : SWTr all w0 (s.flush Z).1 := by
  unfold SW.flush
  cases hw : s.wr with
  | zlib z =>
    obtain ⟨t, ok⟩ := h.zlib z hw
    obtain ⟨a1, a2⟩ := ZEnc.flush_tr (all := all) Z z ok
    simp only
    cases hf : z.flush Z with
    | mk z' r =>
      rw [hf] at a1 a2
      have hs : SWTr all w0 { s with wr := .zlib z' } := h.toZlib (t.trans a1) a2 rfl rfl
      cases r with
      | ok => simp only; split <;> exact hs
      | err e => exact hs
      | panic p => exact hs
  | chunk c =>
    obtain ⟨t, ok⟩ := h.chunk c hw
    obtain ⟨a1, a2⟩ := CW.flushInner_tr (all := all) c ok
    simp only
    cases hf : c.flushInner with
    | mk c' r =>
      rw [hf] at a1 a2
      have hs : SWTr all w0 { s with wr := .chunk c' } := h.toChunk (t.trans a1) a2 rfl rfl
      cases r with
      | ok => simp only; split <;> exact hs
      | err e => exact hs
      | panic p => exact hs
  | unrecoverable => exact h
  | none => exact h

theorem Wrap.drop_tr (Z : ZCodec) (s : SW) (h : SWTr all w0 s) :
    ∀ w, (s.wr.drop Z s.owned).1 = some w → GrowsBy all w0 w := by
  intro w hw
  unfold Wrap.drop at hw
  cases hwr : s.wr with
  | chunk c =>
    rw [hwr] at hw
    simp only [Option.some.injEq] at hw
    obtain ⟨t, ok⟩ := h.chunk c hwr
    rw [← hw]; exact t.trans (CW.drop_tr c s.owned ok)
  | zlib z =>
    rw [hwr] at hw
    simp only [Option.some.injEq] at hw
    obtain ⟨t, ok⟩ := h.zlib z hwr
    rw [← hw]; exact t.trans (ZEnc.drop_tr Z z s.owned ok)
  | unrecoverable => rw [hwr] at hw; cases hw
  | none => rw [hwr] at hw; cases hw

/-- taking the wrapper away and dropping it: the released `Writer`, if any, replaces the recorded one -/
theorem SWTr.afterDrop (Z : ZCodec) {s : SW} (h : SWTr all w0 s) :
    SWTr all w0 (({ s with wr := .none } : SW).release (s.wr.drop Z s.owned).1) := by
  have hd := Wrap.drop_tr (all := all) Z s h
  cases hr : (s.wr.drop Z s.owned).1 with
  | none =>
    exact ⟨fun c hc => (by cases hc), fun z hz => (by cases hz), fun w hw => h.rel w hw⟩
  | some w => exact SWTr.toDead (hd w hr) (Or.inr rfl) rfl

theorem SW.drop_tr (Z : ZCodec) (s : SW) (h : SWTr all w0 s) : SWTr all w0 (s.drop Z).1 := by
  unfold SW.drop
  have h1 := SW.flush_tr (all := all) Z s h
  cases hf : s.flush Z with
  | mk s1 r =>
    rw [hf] at h1
    have h2 := h1.afterDrop (all := all) Z
    cases r with
    | panic p => exact h1
    | ok => simp only; cases hd : s1.wr.drop Z s1.owned with | mk w r2 => rw [hd] at h2; exact h2
    | err e => simp only; cases hd : s1.wr.drop Z s1.owned with | mk w r2 => rw [hd] at h2; exact h2

theorem SW.finishChunk_tr (s : SW) (cw : CW) (_h : SWTr all w0 s) (t : GrowsBy all w0 cw.w) (ok : CWok cw) :
    SWTr all w0 (s.finishChunk cw).1 := by
  have fin : ∀ (w : WState), GrowsBy all w0 w →
      SWTr all w0 ({ s with wr := .none, released := some (({ cw with w := w } : CW).drop s.owned).1 } : SW) := by
    intro w tw
    exact SWTr.toDead (tw.trans (CW.drop_tr (all := all) { cw with w := w } s.owned ⟨ok.kind, ok.len, ok.capLo, ok.capHi⟩))
      (Or.inr rfl) rfl
  unfold SW.finishChunk
  simp only
  cases validateSequenceDone cw.w with
  | some e => exact fin cw.w t
  | none =>
    simp only
    split
    · have hi := Adds.writeIend all cw.w
      cases hwi : writeIend cw.w with
      | mk w1 okk =>
        rw [hwi] at hi
        cases okk with
        | false => exact fin w1 (t.trans hi)
        | true =>
          simp only
          have hfl : GrowsBy all w1 { w1 with sink := (w1.sink.flush).1 } := ⟨rfl, [], by simp [Sink.flush], by simp, by simp⟩
          cases hf : w1.sink.flush with
          | mk k okf =>
            rw [hf] at hfl
            cases okf <;> exact fin _ ((t.trans hi).trans hfl)
    · exact fin cw.w t

theorem SW.finish_tr (Z : ZCodec) (s : SW) (h : SWTr all w0 s) : SWTr all w0 (s.finish Z).1 := by
  unfold SW.finish
  split
  · have h1 := SW.drop_tr (all := all) Z s h
    cases hd : s.drop Z with
    | mk s1 r => rw [hd] at h1; cases r <;> exact h1
  · have h1 := SW.flush_tr (all := all) Z s h
    cases hf : s.flush Z with
    | mk s1 r =>
      rw [hf] at h1
      cases r with
      | panic p => exact h1
      | err e =>
        simp only
        have h2 := SW.drop_tr (all := all) Z s1 h1
        cases hd : s1.drop Z with
        | mk s2 r2 => rw [hd] at h2; cases r2 <;> exact h2
      | ok =>
        simp only
        cases hw : s1.wr with
        | chunk cw =>
          obtain ⟨t, ok⟩ := h1.chunk cw hw
          exact SW.finishChunk_tr s1 cw h1 t ok
        | zlib z =>
          simp only
          have h2 := h1.afterDrop (all := all) Z
          rw [hw] at h2
          cases hd : (Wrap.zlib z).drop Z s1.owned with
          | mk w r2 => rw [hd] at h2; cases r2 <;> exact h2
        | unrecoverable =>
          simp only
          have h2 := h1.afterDrop (all := all) Z
          rw [hw] at h2
          cases hd : Wrap.unrecoverable.drop Z s1.owned with
          | mk w r2 => rw [hd] at h2; cases r2 <;> exact h2
        | none =>
          simp only
          have h2 := h1.afterDrop (all := all) Z
          rw [hw] at h2
          cases hd : Wrap.none.drop Z s1.owned with
          | mk w r2 => rw [hd] at h2; cases r2 <;> exact h2

theorem streamStep_tr (Z : ZCodec) (s : SW) (o : SOp) (h : SWTr all w0 s) : SWTr all w0 (streamStep Z s o).1 := by
  cases o with
  | write d => exact SW.writeAllAux_tr Z _ s d h
  | flush => exact SW.flush_tr Z s h
  | set o =>
    simp only [streamStep]
    cases hs : setFc s.width s.height s.fctl o with
    | mk fc r => exact h.upd rfl rfl

theorem runSOps_tr (Z : ZCodec) : ∀ (ops : List SOp) (s : SW), SWTr all w0 s → SWTr all w0 (runSOps Z s ops).1 := by
  intro ops
  induction ops with
  | nil => intro s h; exact h
  | cons o os ih =>
    intro s h
    have h1 := streamStep_tr (all := all) Z s o h
    simp only [runSOps]
    cases hs : streamStep Z s o with
    | mk s1 r =>
      rw [hs] at h1
      cases r with
      | panic p => exact h1
      | ok => exact ih s1 h1
      | err e => exact ih s1 h1

/-- one stream-writer session, whatever the sink does: the `Writer` it leaves behind has grown by body chunks -/
theorem streamSession_tr (Z : ZCodec) (w : WState) (owned : Bool) (size : Nat) (ops : List SOp) (fin : Final) :
    GrowsBy all w (streamSession Z w owned size ops fin).1 := by
  unfold streamSession
  have hn := SW.new_tr (all := all) w owned size
  cases hnew : SW.new w owned size with
  | mk x r0 =>
    rw [hnew] at hn
    cases x with
    | inr w' => exact hn
    | inl s =>
      simp only at hn ⊢
      have h1 := runSOps_tr (all := all) Z ops s hn
      cases hr : runSOps Z s ops with
      | mk s1 rs =>
        rw [hr] at h1
        simp only at h1 ⊢
        split
        · have h2 := SW.drop_tr (all := all) Z s1 h1
          cases hd : s1.drop Z with
          | mk s2 r => rw [hd] at h2; exact h2.writerState
        · cases fin with
          | finish =>
            have h2 := SW.finish_tr (all := all) Z s1 h1
            cases hd : s1.finish Z with
            | mk s2 r => rw [hd] at h2; exact h2.writerState
          | drop =>
            have h2 := SW.drop_tr (all := all) Z s1 h1
            cases hd : s1.drop Z with
            | mk s2 r => rw [hd] at h2; exact h2.writerState

/-! ## Programs over both APIs -/

/-- the whole-image operations of a program -/
def progOps : List Step → List Op
  | [] => []
  | .op o :: rest => o :: progOps rest
  | .stream _ _ _ :: rest => progOps rest

theorem runSteps_tr (E : Codec) (Z : ZCodec) : ∀ (steps : List Step) (s : WState),
    (∀ o ∈ progOps steps, o ∈ all) → GrowsBy all s (runSteps E Z s steps).1 := by
  intro steps
  induction steps with
  | nil => intro s _; exact Adds.refl _ _
  | cons st rest ih =>
    intro s hm
    cases st with
    | op o =>
      have h1 := Adds.step all E s o (hm o (by simp [progOps]))
      simp only [runSteps]
      cases hws : writerStep E s o with
      | mk s' r =>
        rw [hws] at h1
        have h2 := ih s' (fun x hx => hm x (by simp [progOps, hx]))
        cases r with
        | panic p => exact h1
        | ok => exact h1.trans h2
        | err e => exact h1.trans h2
    | stream size ops fin =>
      have h1 := streamSession_tr (all := all) Z s false size ops fin
      simp only [runSteps]
      cases hss : streamSession Z s false size ops fin with
      | mk s' rs =>
        rw [hss] at h1
        have h2 := ih s' (fun x hx => hm x (by simpa [progOps] using hx))
        simp only
        split
        · exact h1
        · exact h1.trans h2

/-- **shape of the output of a program over both APIs on the sink that never fails** (`write_header`
    succeeded; steps, sessions and the end are arbitrary) -/
theorem runProg_shape (E : Codec) (Z : ZCodec) (c : Cfg) (steps : List Step) (fin : PFinal)
    (hh : (writeHeader c {}).2 = .ok) :
    ∃ body, (∀ b ∈ body, BodyChunk (progOps steps) b) ∧
      (runProg E Z c {} steps fin).state.sink.log = ⟨.sig, 8⟩ :: (headerChunks c ++ body).map emitFull := by
  cases hwh : writeHeader c {} with
  | mk s0 r0 =>
    rw [hwh] at hh
    simp only at hh
    subst hh
    obtain ⟨hg0, hl0⟩ := header_log c hwh
    have key : ∀ s', GrowsBy (progOps steps) s0 s' →
        ∃ body, (∀ b ∈ body, BodyChunk (progOps steps) b) ∧ s'.sink.log = ⟨.sig, 8⟩ :: (headerChunks c ++ body).map emitFull := by
      intro s' ha
      obtain ⟨ext, l, m, cpl⟩ := ha.log
      obtain ⟨cs, hcs, hp⟩ := complete_ext ext m (cpl hg0)
      exact ⟨cs, hp, by rw [l, hl0, hcs]; simp⟩
    unfold runProg
    rw [hwh]
    simp only
    have h1 := runSteps_tr (all := progOps steps) E Z steps s0 (fun _ h => h)
    cases hro : runSteps E Z s0 steps with
    | mk s1 rss =>
      rw [hro] at h1
      simp only at h1 ⊢
      split
      · exact key _ (h1.trans (Adds.dropW _ s1))
      · cases fin with
        | finish =>
          simp only
          have := Adds.finishW (progOps steps) s1
          cases hf : finishW s1 with
          | mk s2 r => rw [hf] at this; exact key _ (h1.trans this)
        | drop => exact key _ (h1.trans (Adds.dropW _ s1))
        | intoStream size ops f =>
          simp only
          have := streamSession_tr (all := progOps steps) Z s1 true size ops f
          cases hss : streamSession Z s1 true size ops f with
          | mk s2 rs => rw [hss] at this; exact key _ (h1.trans this)

theorem runProg_chunks_bytes (E : Codec) (Z : ZCodec) (c : Cfg) (steps : List Step) (fin : PFinal)
    (hh : (writeHeader c {}).2 = .ok) :
    ∃ body, (∀ b ∈ body, BodyChunk (progOps steps) b) ∧
      (runProg E Z c {} steps fin).state.sink.chunks = headerChunks c ++ body ∧
      (runProg E Z c {} steps fin).state.sink.bytes = fileBytes (headerChunks c ++ body) := by
  obtain ⟨body, hb, hl⟩ := runProg_shape E Z c steps fin hh
  exact ⟨body, hb, chunks_of_full _ _ hl, bytes_of_full _ _ hl⟩

theorem StepsOk.inRange (E : Codec) (Z : ZCodec) : ∀ (steps : List Step) (s : WState), StepsOk E Z s steps →
    ∀ o ∈ progOps steps, o.inRange := by
  intro steps
  induction steps with
  | nil => intro s _ o ho; simp [progOps] at ho
  | cons st rest ih =>
    intro s h o ho
    cases st with
    | op o' =>
      simp only [progOps, List.mem_cons] at ho
      rcases ho with ho | ho
      · subst ho; exact h.1
      · exact ih _ h.2 o ho
    | stream size ops fin =>
      simp only [progOps] at ho
      exact ih _ h.2.2 o ho

end Png.Enc
