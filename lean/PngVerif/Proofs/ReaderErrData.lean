import PngVerif.Proofs.ReaderStart
/-!
# Image data and errors of one `update` / `decode_next` call; the retrying caller up to the first failure (C05)

**Which calls can produce image data AND an error?**  Read off `StreamingDecoder::update` (stream.rs:653-679) and
`next_state` (stream.rs:681-796): `update` returns after every `next_state` whose event is not `Nothing`
(stream.rs:668-671) and after every error (672-675).  Only two arms append to the caller's `image_data`:
the `ImageData` arm (781-794, through `ZlibStream::decompress`), which ALWAYS reports the event `ImageData` (793), and the
`Type` arm of `parse_u32` at the end of a data-chunk sequence (840-854, through `finish_compressed_chunks`), which
reports `ImageDataFlushed` (854) or fails (844).  Hence no other `next_state` follows a data-producing one in the same
`update` call: a CRC mismatch at the end of an `IDAT` (904-913), a chunk-level `Format`/`Limits` error, a sequence
number error are raised in a LATER call, after the data was handed over by an earlier, successful one.  Inside the
two data-producing arms:

* `decompress` (zlib.rs:82-113): the inflater's error leaves through `?` (100-105) BEFORE `transfer_finished_data`
  (109); what `fdeflate` wrote into `out_buffer` during the failing `read` is never counted (`out_pos` is advanced at
  108 only).  So a corrupt deflate stream yields the error INSTEAD of the bytes decoded from the same input piece —
  in the crate exactly as in `Framing.stepImage` (`cfg.inflate (zin ++ piece) = none`).
* `finish_compressed_chunks` (zlib.rs:120-152): a loop; iteration `k` fails through `?` (130-135) before its own
  transfer, but iterations `< k` have transferred (140) — possible only when a `read(&[], …, end_of_input = true)`
  returns `Ok` without finishing, i.e. when the output window is full (fdeflate `read`, last lines:
  `Done || !end_of_input || output_index == output.len()`), which needs output the inflater HELD BACK.  The model's
  inflater holds nothing back (`stepImage` emits everything `cfg.inflate` yields for the input so far), so
  `Framing.flushData` has nothing to append when it fails.  This corner (a truncated deflate stream whose held-back tail
  crosses the window / `max_total_output` boundary) is outside the model's inflater abstraction altogether (C06's
  data-path model has the loop).

`update_error_out` / `decodeNext'_error_no_data`: in the model a failing `update` has appended NOTHING to `image_data`:
the `out := []` of `decodeNext'`'s error branch discards no byte, and the variant `decodeNextKeep` that hands over data
AND error is the same function (`decodeNextKeep_eq`).

So the hypothesis of `C05_resume*` ("no call of the run that sees everything fails") is not an artefact of a dropped
buffer.  It reflects the first bullet: the more input `decompress` gets at once, the EARLIER a corrupt stream fails —
rows that a caller with less input visible had already received are never delivered
(`Props/C05.lean`: `C05_resume_needs_good_run`, a decided counterexample; reproduced on the crate).  The second half of
this file weakens the hypothesis as far as that allows: the results agree up to the first failure (`resumeRun_until_failure`).
-/
namespace Png.Reader
open Png Png.Framing

/-! ## a failing `update` appends nothing -/

theorem updateLoop_error_out (cfg : Cfg) : ∀ (fuel : Nat) (d : Dec) (buf : Bytes) (c : Nat) (d' : Dec) (e : Err),
    updateLoop cfg fuel d buf c = (d', .error e) → d'.out = d.out := by
  intro fuel
  induction fuel with
  | zero => intro d buf c d' e h; simp only [updateLoop, Prod.mk.injEq, reduceCtorEq, and_false] at h
  | succ fuel ih =>
    intro d buf c d' e h
    rw [updateLoop] at h
    split at h
    · cases h
    · cases hs : d.state with
      | none => rw [hs] at h; simp only [Prod.mk.injEq] at h; rw [← h.1]
      | some st =>
        rw [hs] at h
        simp only at h
        cases hn : nextState cfg d st buf with
        | error e1 => rw [hn] at h; simp only [Prod.mk.injEq] at h; rw [← h.1]
        | ok p =>
          obtain ⟨n, ev, d1⟩ := p
          rw [hn] at h
          cases ev with
          | nothing =>
            simp only at h
            exact (ih d1 _ _ d' e h).trans (nextState_nothing_out hn)
          | _ => cases h

/-- **a failing `update` call has appended nothing to `image_data`** (whatever the decoder, the input, the error) -/
theorem update_error_out (cfg : Cfg) (d d' : Dec) (buf : Bytes) (e : Err) (h : update cfg d buf = (d', .error e)) :
    d'.out = d.out := by
  unfold update at h
  split at h
  · simp only [Prod.mk.injEq] at h; rw [← h.1]
  · exact updateLoop_error_out cfg _ d buf 0 d' e h

/-- `decode_next` as the Rust code does it: what `update` appended to the caller's `image_data` is there afterwards,
    whether the call failed or not (read_decoder.rs:61-72): the reader, the image data, the event or error -/
def decodeNextKeep (cfg : Cfg) (r : R) : R × Bytes × Except Res Ev :=
  let avail := (r.input.take r.visible).drop r.pos
  if avail.isEmpty then (r, [], .error (.err .eof "UnexpectedEof")) else
  let d0 := { r.dec with out := [] }
  match update cfg d0 avail with
  | (d', .error e) => ({ r with dec := { d' with out := [] } }, d'.out, .error (ofFraming e))
  | (d', .ok (n, ev)) => ({ r with dec := { d' with out := [] }, pos := r.pos + n }, d'.out, .ok ev)

/-- **the model's `decode_next` drops no image data when it fails**: it is `decodeNextKeep`, and the data of a failing
    call is empty -/
theorem decodeNextKeep_eq (cfg : Cfg) (r : R) :
    (decodeNextKeep cfg r).1 = (decodeNext' cfg r).1 ∧
    (decodeNextKeep cfg r).2 = (match (decodeNext' cfg r).2 with
      | .ok (ev, data) => (data, .ok ev)
      | .error e => ([], .error e)) := by
  unfold decodeNextKeep decodeNext'
  simp only
  split
  · exact ⟨rfl, rfl⟩
  · cases hu : update cfg { r.dec with out := [] } ((r.input.take r.visible).drop r.pos) with
    | mk d' res =>
      cases res with
      | error e =>
        refine ⟨rfl, ?_⟩
        have := update_error_out cfg _ d' _ e hu
        simp only [this]
      | ok p => exact ⟨rfl, rfl⟩

/-- the same, read off `decodeNext'` alone: when it fails, the `update` call inside has produced no image data -/
theorem decodeNext'_error_no_data (cfg : Cfg) (r : R) {d' : Dec} {e : Err}
    (h : update cfg { r.dec with out := [] } ((r.input.take r.visible).drop r.pos) = (d', .error e)) : d'.out = [] :=
  update_error_out cfg _ d' _ e h

/-- where an `update` error comes from: the decoder was poisoned already, or the LAST `next_state` of the call failed and
    every `next_state` before it in the same call reported `Nothing` (so none of them was the `ImageData` arm, which
    reports `ImageData`, nor a successful flush, which reports `ImageDataFlushed`): image data and an error never come
    from different `next_state` calls of one `update` -/
theorem updateLoop_error_site (cfg : Cfg) : ∀ (fuel : Nat) (d : Dec) (buf : Bytes) (c : Nat) (d' : Dec) (e : Err),
    updateLoop cfg fuel d buf c = (d', .error e) →
    ∃ (dl : Dec) (bl : Bytes), dl.out = d.out ∧ d' = { dl with state := none } ∧
      (dl.state = none ∨ ∃ st, dl.state = some st ∧ nextState cfg dl st bl = .error e) := by
  intro fuel
  induction fuel with
  | zero => intro d buf c d' e h; simp only [updateLoop, Prod.mk.injEq, reduceCtorEq, and_false] at h
  | succ fuel ih =>
    intro d buf c d' e h
    rw [updateLoop] at h
    split at h
    · cases h
    · cases hs : d.state with
      | none =>
        rw [hs] at h; simp only [Prod.mk.injEq] at h
        refine ⟨d, buf, rfl, ?_, Or.inl hs⟩
        rw [← h.1]; cases d; simp only at hs; subst hs; rfl
      | some st =>
        rw [hs] at h
        simp only at h
        cases hn : nextState cfg d st buf with
        | error e1 =>
          rw [hn] at h; simp only [Prod.mk.injEq, Except.error.injEq] at h
          exact ⟨d, buf, rfl, h.1.symm, Or.inr ⟨st, hs, by rw [hn, h.2]⟩⟩
        | ok p =>
          obtain ⟨n, ev, d1⟩ := p
          rw [hn] at h
          cases ev with
          | nothing =>
            simp only at h
            obtain ⟨dl, bl, h1, h2, h3⟩ := ih d1 _ _ d' e h
            exact ⟨dl, bl, h1.trans (nextState_nothing_out hn), h2, h3⟩
          | _ => cases h

/-! ## the retrying caller, up to the first failure of the run that sees everything -/

theorem run_append (cfg : Cfg) (t : TCfg) : ∀ (a b : List Op) (r : R),
    run cfg t r (a ++ b) = ((run cfg t (run cfg t r a).1 b).1, (run cfg t r a).2 ++ (run cfg t (run cfg t r a).1 b).2) := by
  intro a
  induction a with
  | nil => intro b r; simp [run]
  | cons op a ih =>
    intro b r
    rw [List.cons_append, run_cons, ih, run_cons]
    simp

/-- making the calls `a ++ b` until one runs out of input: the calls `a` until one runs out of input, and then — if
    none did — the calls `b` -/
theorem runUntilEof_append (cfg : Cfg) (t : TCfg) : ∀ (a b : List Op) (r : R),
    runUntilEof cfg t (a ++ b) r =
      (if (runUntilEof cfg t a r).2.2 = [] then
        ((runUntilEof cfg t b (runUntilEof cfg t a r).1).1,
          (runUntilEof cfg t a r).2.1 ++ (runUntilEof cfg t b (runUntilEof cfg t a r).1).2.1,
          (runUntilEof cfg t b (runUntilEof cfg t a r).1).2.2)
      else ((runUntilEof cfg t a r).1, (runUntilEof cfg t a r).2.1, (runUntilEof cfg t a r).2.2 ++ b)) := by
  intro a
  induction a with
  | nil => intro b r; simp [runUntilEof]
  | cons op a ih =>
    intro b r
    rw [List.cons_append, runUntilEof, runUntilEof]
    by_cases he : (step cfg t r op).2.isEof = true
    · rw [if_pos he, if_pos he]
      simp
    · rw [if_neg he, if_neg he]
      simp only
      rw [ih]
      by_cases hn : (runUntilEof cfg t a (step cfg t r op).1).2.2 = []
      · rw [if_pos hn, if_pos hn]; first | done | simp
      · rw [if_neg hn, if_neg hn]; first | done | simp

theorem resumeRun_nil_ops (cfg : Cfg) (t : TCfg) (L : Nat) : ∀ (sched : List Nat) (r : R), resumeRun cfg t L sched [] r = [] := by
  intro sched
  induction sched with
  | nil => intro r; rfl
  | cons g sched ih => intro r; rw [resumeRun]; simp only [runUntilEof, List.nil_append]; exact ih _

/-- **the retrying caller is compositional**: its results on the calls `a ++ b` begin with its results on the calls `a` -/
theorem resumeRun_append (cfg : Cfg) (t : TCfg) (L : Nat) : ∀ (sched : List Nat) (a b : List Op) (r : R),
    ∃ zs, resumeRun cfg t L sched (a ++ b) r = resumeRun cfg t L sched a r ++ zs := by
  intro sched
  induction sched with
  | nil =>
    intro a b r
    simp only [resumeRun]
    rw [runUntilEof_append]
    by_cases hn : (runUntilEof cfg t a r).2.2 = []
    · rw [if_pos hn]; exact ⟨_, rfl⟩
    · rw [if_neg hn]; exact ⟨[], by simp⟩
  | cons g sched ih =>
    intro a b r
    rw [resumeRun, resumeRun, runUntilEof_append]
    by_cases hn : (runUntilEof cfg t a r).2.2 = []
    · rw [if_pos hn]
      simp only
      rw [hn, resumeRun_nil_ops]
      exact ⟨(runUntilEof cfg t b (runUntilEof cfg t a r).1).2.1 ++
        resumeRun cfg t L sched (runUntilEof cfg t b (runUntilEof cfg t a r).1).2.2
          (growTo (runUntilEof cfg t b (runUntilEof cfg t a r).1).1
            (min L ((runUntilEof cfg t b (runUntilEof cfg t a r).1).1.visible + g))),
        by rw [List.append_nil, List.append_assoc]⟩
    · rw [if_neg hn]
      simp only
      obtain ⟨zs, hz⟩ := ih (runUntilEof cfg t a r).2.2 b
        (growTo (runUntilEof cfg t a r).1 (min L ((runUntilEof cfg t a r).1.visible + g)))
      rw [hz]
      exact ⟨zs, by rw [List.append_assoc]⟩

/-- **the retrying caller against the run that sees everything, up to that run's first failure**: `good` are calls
    none of which fails (or runs out of input) on the reader that sees all `L` bytes; `more` are ANY further calls.  The
    results of the retrying caller on `good ++ more` begin with its results on `good`, which are the first results of
    the run that sees everything — all of them if the schedule delivers all `L` bytes: then both result lists begin
    with the results of that run on `good`. -/
theorem resumeRun_until_failure (cfg : Cfg) (hI : cfg.InflateOk) {t : TCfg} (ht : t.Ok) (hst : t.Stable) (r0 : R)
    (hInv : Inv t r0) (hr : r0.isReader = true) (hd : r0.dead = false) (L : Nat) (hL : r0.visible ≤ L)
    (good more : List Op) (hc : ∀ op ∈ good, op.isCall = true) (sched : List Nat)
    (hg : ∀ x ∈ (run cfg t (growTo r0 L) good).2, x.isGood = true) :
    ∃ ys zs zs', (run cfg t (growTo r0 L) (good ++ more)).2 = (run cfg t (growTo r0 L) good).2 ++ ys ∧
      (run cfg t (growTo r0 L) good).2 = resumeRun cfg t L sched good r0 ++ zs ∧
      (L ≤ r0.visible + sched.sum → zs = []) ∧
      resumeRun cfg t L sched (good ++ more) r0 = resumeRun cfg t L sched good r0 ++ zs' := by
  obtain ⟨zs', hz'⟩ := resumeRun_append cfg t L sched good more r0
  have hJ : JSt cfg t L r0 (growTo r0 L) good := by
    cases good with
    | nil => exact hL
    | cons op rest => exact Mid.start hInv hr hd ⟨0, rfl, hL, Sim.refl _⟩ op
  obtain ⟨zs, h1, h2⟩ := resumeRun_spec cfg hI ht hst L sched good r0 (growTo r0 L) hJ hc hg
  exact ⟨_, zs, zs', by rw [run_append], h1, h2, hz'⟩

/-- the same from a `Decoder`: `read_info` succeeds on the visible prefix; `good` are calls such that no call of
    `read_info, good` fails on the whole input; `more` are any further calls -/
theorem resumeRun_from_start_until_failure (cfg : Cfg) (hI : cfg.InflateOk) {t : TCfg} (ht : t.Ok) (hst : t.Stable)
    (a r0 : R) (hP : PreInv a) (hr : a.isReader = false) (hd : a.dead = false) (L : Nat) (hv : a.visible ≤ L)
    (h : step cfg t a .readInfo = (r0, .header)) (good more : List Op) (hc : ∀ op ∈ good, op.isCall = true)
    (sched : List Nat) (hg : ∀ x ∈ (run cfg t (growTo a L) (.readInfo :: good)).2, x.isGood = true) :
    ∃ ys zs zs', (run cfg t (growTo a L) (.readInfo :: (good ++ more))).2 =
        (run cfg t (growTo a L) (.readInfo :: good)).2 ++ ys ∧
      (run cfg t (growTo a L) (.readInfo :: good)).2 = .header :: (resumeRun cfg t L sched good r0 ++ zs) ∧
      (L ≤ a.visible + sched.sum → zs = []) ∧
      resumeRun cfg t L sched (good ++ more) r0 = resumeRun cfg t L sched good r0 ++ zs' := by
  obtain ⟨zs', hz'⟩ := resumeRun_append cfg t L sched good more r0
  obtain ⟨zs, h1, h2⟩ := resumeRun_from_start cfg hI ht hst a r0 hP hr hd L hv h good hc sched hg
  have e : Op.readInfo :: (good ++ more) = (Op.readInfo :: good) ++ more := rfl
  exact ⟨(run cfg t (run cfg t (growTo a L) (.readInfo :: good)).1 more).2, zs, zs', by rw [e, run_append], h1, h2, hz'⟩

end Png.Reader
