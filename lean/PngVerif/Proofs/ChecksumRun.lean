import PngVerif.Proofs.FramingLogic
import PngVerif.Proofs.ComposeFraming
/-!
# Whole chunk records through the framing state machine (C11, run level) — part 1: one step

`Model/Framing.lean` looks at a chunk record `length ++ type ++ body ++ crc` field by field.  This file follows ONE
`next_state` call of a run that is handed the whole rest of the stream in one buffer:

* `lookAhead`, `nextState_local`: a call never looks further into its buffer than the current field (four-byte field: what is
  missing of it; chunk body: what remains of it; `ParseChunkData`: nothing).
* `Track d t body st common`: the decoder is somewhere inside the record of the chunk `(t, body)` — in its length, type,
  sequence-number field or in its body, or at the start of its CRC field — and `common` is what is left of the record up to
  (not including) the CRC field.  When CRCs are checked it also says what the running CRC covers: `crcAcc ++ common` is
  `type bytes ++ body`.  No assumption whatsoever about which chunk kinds came before.
* `track_step`: a successful call in a tracked state consumes a prefix of `common` and leaves a tracked state.

Everything is for an arbitrary `cfg` and arbitrary decoder values.
-/
namespace Png.Framing
open Png

/-! ## locality of one call -/

/-- how far one `next_state` call can look into its buffer -/
def lookAhead (d : Dec) : St → Nat
  | .u32 _ acc => 4 - acc.length
  | .parseChunkData _ => 0
  | .readChunkData _ => d.remaining
  | .imageData _ => d.remaining

theorem stepU32_local (cfg : Cfg) (d : Dec) (kind : U32Kind) (acc a X : Bytes) (h : 4 - acc.length ≤ a.length) :
    stepU32 cfg d kind acc (a ++ X) = stepU32 cfg d kind acc a := by
  by_cases hacc : acc.length = 0
  · have hnil : acc = [] := List.eq_nil_of_length_eq_zero hacc
    subst hnil
    match a, h with
    | b0 :: b1 :: b2 :: b3 :: a', _ => simp [stepU32, parse4]
  · have h1 : min (4 - acc.length) (a ++ X).length = 4 - acc.length := by
      simp only [List.length_append]; omega
    have h2 : min (4 - acc.length) a.length = 4 - acc.length := by omega
    simp only [stepU32, hacc, false_and, if_false, h1, h2, List.take_append_of_le_length h]

theorem stepRead_local (d : Dec) (t : ChunkType) (a X : Bytes) (h : d.remaining ≤ a.length) :
    stepRead d t (a ++ X) = stepRead d t a := by
  have h1 : min d.remaining (min (a ++ X).length (d.cap - d.raw.length)) =
      min d.remaining (min a.length (d.cap - d.raw.length)) := by
    simp only [List.length_append]; omega
  have h2 : min d.remaining (min a.length (d.cap - d.raw.length)) ≤ a.length := by omega
  simp only [stepRead, h1, List.take_append_of_le_length h2]

theorem stepImage_local (cfg : Cfg) (d : Dec) (t : ChunkType) (a X : Bytes) (h : d.remaining ≤ a.length) :
    stepImage cfg d t (a ++ X) = stepImage cfg d t a := by
  have h1 : min (a ++ X).length d.remaining = min a.length d.remaining := by
    simp only [List.length_append]; omega
  have h2 : min a.length d.remaining ≤ a.length := by omega
  simp only [stepImage, h1, List.take_append_of_le_length h2]

/-- **Locality**: a `next_state` call whose buffer holds at least the rest of the current field does not depend on what
    follows it in the buffer -/
theorem nextState_local (cfg : Cfg) (d : Dec) (st : St) (a X : Bytes) (h : lookAhead d st ≤ a.length) :
    nextState cfg d st (a ++ X) = nextState cfg d st a := by
  cases st with
  | u32 kind acc => exact stepU32_local cfg _ kind acc a X h
  | parseChunkData t => rfl
  | readChunkData t => exact stepRead_local _ t a X h
  | imageData t => exact stepImage_local cfg _ t a X h

/-! ## where in a chunk record the decoder is -/

/-- inside the body of the chunk: `common` is what remains of the body -/
def InBody (d : Dec) (t : ChunkType) (body : Bytes) (t' : ChunkType) (common : Bytes) : Prop :=
  t' = t ∧ d.remaining = common.length ∧ (d.opts.ignoreCrc = false → d.crcAcc ++ common = typeBytes t ++ body)

/-- The decoder (in state `st`) is inside the record of the chunk `(t, body)`, and `common` is what is left of the record
    up to the CRC field.  With CRC checking enabled, the running CRC plus `common` is `type bytes ++ body`. -/
def Track (d : Dec) (t : ChunkType) (body : Bytes) : St → Bytes → Prop
  | .u32 .length [], common => common = be32Bytes body.length ++ (typeBytes t ++ body)
  | .u32 (.type len) [], common => len = body.length ∧ common = typeBytes t ++ body
  | .u32 (.type len) [a0, a1, a2, a3], common => len = body.length ∧ typeBytes t = [a0, a1, a2, a3] ∧ common = body
  | .u32 .seqNo [], common =>
    t = fdAT ∧ d.remaining = body.length ∧ 4 ≤ body.length ∧ common = body ∧
      (d.opts.ignoreCrc = false → d.crcAcc = typeBytes t)
  | .u32 (.crc t') [], common => t' = t ∧ common = [] ∧ (d.opts.ignoreCrc = false → d.crcAcc = typeBytes t ++ body)
  | .readChunkData t', common => InBody d t body t' common
  | .parseChunkData t', common => InBody d t body t' common
  | .imageData t', common => InBody d t body t' common
  | _, _ => False

theorem be32Bytes_len4 (n : Nat) : (be32Bytes n).length = 4 := rfl
theorem typeBytes_len4 (t : ChunkType) : (typeBytes t).length = 4 := rfl

/-- in a tracked state other than the CRC field the next call stays within `common` -/
theorem track_look {d : Dec} {t : ChunkType} {body : Bytes} {st : St} {common : Bytes}
    (hT : Track d t body st common) (hnc : ∀ t', st ≠ .u32 (.crc t') []) : lookAhead d st ≤ common.length := by
  match st, hT with
  | .u32 .length [], hT =>
    simp only [Track] at hT; subst hT
    simp only [lookAhead, List.length_append, be32Bytes_len4, typeBytes_len4, List.length_nil]; omega
  | .u32 (.type len) [], hT =>
    simp only [Track] at hT; obtain ⟨_, rfl⟩ := hT
    simp only [lookAhead, List.length_append, typeBytes_len4, List.length_nil]; omega
  | .u32 (.type len) [a0, a1, a2, a3], hT => simp [lookAhead]
  | .u32 .seqNo [], hT =>
    simp only [Track] at hT; obtain ⟨_, _, h4, rfl, _⟩ := hT
    simp only [lookAhead, List.length_nil]; omega
  | .u32 (.crc t') [], hT => exact absurd rfl (hnc t')
  | .readChunkData t', hT => simp only [Track, InBody] at hT; simp only [lookAhead]; omega
  | .parseChunkData t', hT => simp [lookAhead]
  | .imageData t', hT => simp only [Track, InBody] at hT; simp only [lookAhead]; omega

/-! ## one step in a tracked state -/

/-- the chunk-type field of the record (first parse, or the pending re-parse after `ImageDataFlushed`) -/
theorem track_type {cfg : Cfg} {D d' : Dec} {t : ChunkType} {body : Bytes} {len : Nat} {t0 t1 t2 t3 : UInt8} {ev : Ev}
    (hty : typeBytes t = [t0, t1, t2, t3]) (hbe : be32 t0 t1 t2 t3 = t) (hlen : len = body.length)
    (h : parseU32 cfg D (.type len) t0 t1 t2 t3 = .ok (ev, d')) :
    ∃ st', d'.state = some st' ∧ Track d' t body st' body := by
  obtain ⟨_, hc⟩ := parseU32_type_cases h
  rw [hbe] at hc
  rcases hc with ⟨_, _, d1, hf, rfl⟩ | ⟨_, _, st, d1, ha, rfl⟩
  · exact ⟨_, rfl, hlen, hty, rfl⟩
  · rcases afterType_cases ha with ⟨ht, _, h4, rfl, rfl⟩ | ⟨ht, _, rfl, rfl⟩ | ⟨h1, h2, rfl, rfl⟩
    · refine ⟨_, rfl, ht, hlen, by omega, rfl, ?_⟩
      intro hig
      simp only at hig
      simp only [hig, Bool.false_eq_true, if_false]
    · refine ⟨_, rfl, ht.symm, hlen, ?_⟩
      intro hig
      simp only at hig
      simp only [hig, Bool.false_eq_true, if_false]
    · by_cases hl : len = 0
      · simp only [hl, if_true]
        refine ⟨_, rfl, rfl, by simpa [hl] using hlen, ?_⟩
        intro hig
        simp only at hig
        simp only [hig, Bool.false_eq_true, if_false]
      · simp only [hl, if_false]
        refine ⟨_, rfl, rfl, hlen, ?_⟩
        intro hig
        simp only at hig
        simp only [hig, Bool.false_eq_true, if_false]

/-- **One step in a tracked state** (not yet at the CRC field): a successful call on `common` consumes a prefix of it and
    leaves the decoder in a tracked state for the rest.  (By `nextState_local` the call on `common ++ X` is the same call.) -/
theorem track_step {cfg : Cfg} {d d' : Dec} {t : ChunkType} {body : Bytes} {st : St} {common : Bytes} {n : Nat} {ev : Ev}
    (ht : t < 2 ^ 32) (hb : body.length < 2 ^ 32) (hT : Track d t body st common)
    (hnc : ∀ t', st ≠ .u32 (.crc t') []) (h : nextState cfg d st common = .ok (n, ev, d')) :
    n ≤ common.length ∧ ∃ st', d'.state = some st' ∧ Track d' t body st' (common.drop n) := by
  obtain ⟨t0, t1, t2, t3, hty, hbe⟩ := typeBytes_eq ht
  match st, hT with
  | .u32 .length [], hT =>
    simp only [Track] at hT; subst hT
    obtain ⟨l0, l1, l2, l3, hl, hle⟩ := be32Bytes_eq hb
    rw [hl] at h ⊢
    simp only [List.cons_append, List.nil_append] at h ⊢
    rw [nextState_u32_fast, parseU32_length] at h
    simp only [Except.map, Except.ok.injEq, Prod.mk.injEq] at h
    obtain ⟨rfl, rfl, rfl⟩ := h
    exact ⟨by simp, _, rfl, hle, rfl⟩
  | .u32 (.type len) [], hT =>
    simp only [Track] at hT; obtain ⟨hlen, rfl⟩ := hT
    rw [hty] at h ⊢
    simp only [List.cons_append, List.nil_append] at h ⊢
    rw [nextState_u32_fast] at h
    cases hp : parseU32 cfg { d with state := none } (.type len) t0 t1 t2 t3 with
    | error e => rw [hp] at h; cases h
    | ok r =>
      obtain ⟨ev1, d1⟩ := r
      rw [hp] at h
      simp only [Except.map, Except.ok.injEq, Prod.mk.injEq] at h
      obtain ⟨rfl, rfl, rfl⟩ := h
      exact ⟨by simp, track_type hty hbe hlen hp⟩
  | .u32 (.type len) [a0, a1, a2, a3], hT =>
    simp only [Track] at hT; obtain ⟨hlen, hty', rfl⟩ := hT
    rw [hty] at hty'
    simp only [List.cons.injEq, and_true] at hty'
    obtain ⟨rfl, rfl, rfl, rfl⟩ := hty'
    rw [nextState_u32_pending] at h
    cases hp : parseU32 cfg { d with state := none } (.type len) t0 t1 t2 t3 with
    | error e => rw [hp] at h; cases h
    | ok r =>
      obtain ⟨ev1, d1⟩ := r
      rw [hp] at h
      simp only [Except.map, Except.ok.injEq, Prod.mk.injEq] at h
      obtain ⟨rfl, rfl, rfl⟩ := h
      exact ⟨Nat.zero_le _, track_type hty hbe hlen hp⟩
  | .u32 .seqNo [], hT =>
    simp only [Track] at hT; obtain ⟨htf, hrem, h4, rfl, hcrc⟩ := hT
    match common, h4 with
    | s0 :: s1 :: s2 :: s3 :: rest, _ =>
      rw [nextState_u32_fast, parseU32_seqNo] at h
      simp only at h
      split at h
      · cases h
      · split at h
        · cases h
        · split at h
          · cases h
          · simp only [Except.map, Except.ok.injEq, Prod.mk.injEq] at h
            obtain ⟨rfl, rfl, rfl⟩ := h
            refine ⟨by simp, _, rfl, htf.symm, ?_, ?_⟩
            · simp only [List.drop_succ_cons, List.drop_zero, hrem, List.length_cons]; omega
            · intro hig
              simp only at hig
              have := hcrc hig
              simp only [hig, Bool.false_eq_true, if_false, this, List.drop_succ_cons, List.drop_zero]
              simp
  | .u32 (.crc t') [], hT => exact absurd rfl (hnc t')
  | .readChunkData t', hT =>
    simp only [Track, InBody] at hT; obtain ⟨rfl, hrem, hcrc⟩ := hT
    simp only [nextState, stepRead] at h
    split at h
    · rename_i h0
      simp only [Except.ok.injEq, Prod.mk.injEq] at h
      obtain ⟨rfl, rfl, rfl⟩ := h
      have hnil : common = [] := List.eq_nil_of_length_eq_zero (by omega)
      subst hnil
      exact ⟨Nat.zero_le _, _, rfl, rfl, rfl, fun hig => by simpa using hcrc hig⟩
    · rename_i h0
      split at h
      · simp only [Except.ok.injEq, Prod.mk.injEq] at h
        obtain ⟨rfl, rfl, rfl⟩ := h
        exact ⟨Nat.zero_le _, _, rfl, rfl, hrem, hcrc⟩
      · rename_i h1
        simp only [Except.ok.injEq, Prod.mk.injEq] at h
        obtain ⟨rfl, rfl, rfl⟩ := h
        refine ⟨by omega, ?_⟩
        have hk : ∀ (s : St), (s = .parseChunkData t' ∨ s = .readChunkData t') →
            Track ({ ({ d with state := none } : Dec).readPiece (min d.remaining (min common.length (d.cap - d.raw.length)))
                (common.take (min d.remaining (min common.length (d.cap - d.raw.length)))) with state := some s }) t' body s
              (common.drop (min d.remaining (min common.length (d.cap - d.raw.length)))) := by
          intro s hs
          have : InBody ({ ({ d with state := none } : Dec).readPiece (min d.remaining (min common.length (d.cap - d.raw.length)))
                (common.take (min d.remaining (min common.length (d.cap - d.raw.length)))) with state := some s }) t' body t'
              (common.drop (min d.remaining (min common.length (d.cap - d.raw.length)))) := by
            refine ⟨rfl, ?_, ?_⟩
            · simp only [Dec.readPiece, List.length_drop]; omega
            · intro hig
              simp only [Dec.readPiece] at hig ⊢
              simp only [hig, Bool.false_eq_true, if_false, List.append_assoc, List.take_append_drop]
              exact hcrc hig
          rcases hs with rfl | rfl <;> exact this
        split
        · exact ⟨_, rfl, hk _ (Or.inl rfl)⟩
        · exact ⟨_, rfl, hk _ (Or.inr rfl)⟩
  | .parseChunkData t', hT =>
    simp only [Track, InBody] at hT; obtain ⟨rfl, hrem, hcrc⟩ := hT
    simp only [nextState] at h
    by_cases h0 : d.remaining = 0
    · obtain ⟨rfl, hp, hst, _⟩ := stepParse_parse (d := { d with state := none }) h0 h
      have hnil : common = [] := List.eq_nil_of_length_eq_zero (by omega)
      subst hnil
      have hf := parseChunk_frame hp
      refine ⟨Nat.zero_le _, _, hst, rfl, rfl, ?_⟩
      intro hig
      rw [hf.opts] at hig
      rw [hf.crcAcc]
      show d.crcAcc = _
      simpa using hcrc hig
    · unfold stepParse at h
      rw [if_neg h0] at h
      cases hp : reserveCurrentChunk { d with state := none } with
      | error e => rw [hp] at h; cases h
      | ok d1 =>
        rw [hp] at h
        simp only [Except.map, Except.ok.injEq, Prod.mk.injEq] at h
        obtain ⟨rfl, rfl, rfl⟩ := h
        obtain ⟨r, _, _, rfl, _⟩ := reserveCurrentChunk_shape hp
        exact ⟨Nat.zero_le _, _, rfl, rfl, hrem, hcrc⟩
  | .imageData t', hT =>
    simp only [Track, InBody] at hT; obtain ⟨rfl, hrem, hcrc⟩ := hT
    simp only [nextState, stepImage] at h
    have hn : min common.length d.remaining = common.length := by omega
    rw [hn, List.take_length] at h
    split at h
    · cases h
    · rename_i o b hinf
      simp only [Except.ok.injEq, Prod.mk.injEq] at h
      obtain ⟨rfl, rfl, rfl⟩ := h
      refine ⟨Nat.le_refl _, ?_⟩
      have h0 : (({ d with state := none } : Dec).imagePiece common.length common o).remaining = 0 := by
        simp only [Dec.imagePiece]; omega
      rw [if_pos h0]
      refine ⟨_, rfl, rfl, by simp, ?_⟩
      intro hig
      simp only [Dec.imagePiece] at hig ⊢
      exact hcrc hig

end Png.Framing
