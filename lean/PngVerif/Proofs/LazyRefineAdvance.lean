import PngVerif.Proofs.LazyRefineFrame
import PngVerif.Proofs.ReaderGetters
import PngVerif.Proofs.ReaderResume
/-!
# `Reader` refines `Lazy`, part 5: the rest of the file (`Tail`) and `read_until_image_data`

`Tail cfg il fs d b`: with the stream decoder `d` and the input `b` standing right behind the `ImageDataFlushed` of a
frame, the file goes on with the frames `fs` (each given as the header of the (sub)frame, the `Lazy` frame and its
arrival): non-data events up to the begin of the frame's first data chunk, the `Info` the decoder then holds has the
frame's geometry, and — whatever is charged to the `Limits` budget for the row buffers — the data-chunk sequence is a
`DataEvs` trace inducing the arrival; behind its flush the rest of the frames follows.  After the last frame: non-data
events, then `ImageEnd`, and the input is used up.
-/
namespace Png.LazyRefine
open Png Png.Framing Png.WellFormed Png.Reader

/-- behind `(d, b)` the file goes on to `ImageEnd` and ends there -/
def ToEnd (cfg : Cfg) (d : Dec) (b : Bytes) : Prop :=
  ∃ evs dE, (∀ e ∈ evs, e.1 ≠ .imageEnd) ∧ Trace cfg (fun _ => True) d b (evs ++ [(.imageEnd, [])]) dE []

/-- the rest of the file behind the data of a frame; `L i'` = what `read_until_image_data` charges to the `Limits`
    budget for the row buffer of a frame whose `Info` is `i'` -/
def Tail (cfg : Cfg) (il : Bool) (L : Info → Nat) : List (Header × Lazy.Frame × Lazy.Arrival) → Dec → Bytes → Prop
  | [], d, b => ∃ pre dE, (∀ e ∈ pre, PreEv e) ∧ Trace cfg (fun _ => True) d b (pre ++ [(.imageEnd, [])]) dE []
  | (g, fr, a) :: rest, d, b =>
    ∃ pre len tD dM bM i', (tD = IDAT ∨ tD = fdAT) ∧ (∀ e ∈ pre, PreEv e) ∧
      Trace cfg (fun _ => True) d b (pre ++ [(.chunkBegin len tD, [])]) dM bM ∧ dM.info = some i' ∧ dM.out = [] ∧
      i'.interlaced = il ∧ g.width = (Sub.dims i').1 ∧ g.height = (Sub.dims i').2 ∧ g.interlaced = il ∧
      fr.rowlens = (scan il (Sub.dims i').1 (Sub.dims i').2).map (rlOf i') ∧ ToEnd cfg d b ∧
      (L i' ≤ dM.limit → ∃ pend dEnd bEnd, DataEvs pend ∧
        Trace cfg (fun d => d.info = some i') { dM with limit := dM.limit - L i' } bM pend dEnd bEnd ∧ arrOf pend = a ∧
        ToEnd cfg dEnd bEnd ∧ Tail cfg il L rest dEnd bEnd)

/-- the frames of the file behind frame `k` -/
def tailOf (G : List Header) (e : Lazy.Env) (k : Nat) : List (Header × Lazy.Frame × Lazy.Arrival) :=
  (G.drop (k + 1)).zip ((e.frames.drop (k + 1)).zip (e.arrs.drop (k + 1)))

theorem zip_cons_inv {α β : Type} {l1 : List α} {l2 : List β} {x : α × β} {rest : List (α × β)}
    (h : l1.zip l2 = x :: rest) : ∃ t1 t2, l1 = x.1 :: t1 ∧ l2 = x.2 :: t2 ∧ rest = t1.zip t2 := by
  cases l1 with
  | nil => simp at h
  | cons a t1 =>
    cases l2 with
    | nil => simp at h
    | cons b t2 =>
      simp only [List.zip_cons_cons, List.cons.injEq] at h
      obtain ⟨rfl, rfl⟩ := h
      exact ⟨t1, t2, rfl, rfl, rfl⟩

theorem drop_eq_cons {α : Type} {l : List α} {n : Nat} {x : α} {t : List α} (h : l.drop n = x :: t) :
    l[n]? = some x ∧ l.drop (n + 1) = t := by
  obtain ⟨h1, h2⟩ := drop_cons_facts h
  exact ⟨h1, h2.symm⟩

theorem tailOf_cons {G : List Header} {e : Lazy.Env} {k : Nat} {g : Header} {fr : Lazy.Frame} {a : Lazy.Arrival}
    {rest : List (Header × Lazy.Frame × Lazy.Arrival)} (h : tailOf G e k = (g, fr, a) :: rest) :
    G[k + 1]? = some g ∧ e.frames[k + 1]? = some fr ∧ e.arrs[k + 1]? = some a ∧ tailOf G e (k + 1) = rest := by
  unfold tailOf at h
  obtain ⟨t1, t2, h1, h2, h3⟩ := zip_cons_inv h
  obtain ⟨u1, u2, h4, h5, h6⟩ := zip_cons_inv h2
  obtain ⟨a1, a2⟩ := drop_eq_cons h1
  obtain ⟨b1, b2⟩ := drop_eq_cons h4
  obtain ⟨c1, c2⟩ := drop_eq_cons h5
  refine ⟨a1, b1, c1, ?_⟩
  unfold tailOf
  rw [a2, b2, c2, h3, h6]

theorem drop_eq_nil_get {α : Type} {l : List α} {n : Nat} (h : l.drop n = []) : l[n]? = none := by
  have := List.drop_eq_nil_iff.1 h
  simp; omega

/-- a file whose frame list and arrival list have the same length as its geometry list -/
theorem tailOf_nil {G : List Header} {e : Lazy.Env} {k : Nat} (hG : G.length = e.frames.length) (h : tailOf G e k = []) :
    e.frames[k + 1]? = none ∨ e.arrs[k + 1]? = none := by
  unfold tailOf at h
  rcases List.zip_eq_nil_iff.1 h with h1 | h1
  · left
    have := List.drop_eq_nil_iff.1 h1
    simp; omega
  · rcases List.zip_eq_nil_iff.1 h1 with h2 | h2
    · left; exact drop_eq_nil_get h2
    · right; exact drop_eq_nil_get h2

/-- `read_until_image_data` of the stream decoder along a trace that ends with `ImageEnd` -/
theorem rdReadUntilImageData_end {cfg : Cfg} {P : Dec → Prop} {d' : Dec} {b' : Bytes} :
    ∀ (pre : List (Ev × Bytes)) (r : R) (fuel : Nat), pre.length < fuel → r.dec.out = [] → (∀ e ∈ pre, PreEv e) →
      Trace cfg P r.dec (avail r) (pre ++ [(.imageEnd, [])]) d' b' →
      ∃ r', rdReadUntilImageData cfg fuel r = (r', .error (.err .format "MissingImageData")) ∧ After r d' b' r' ∧
        r'.dec.out = [] := by
  intro pre
  induction pre with
  | nil =>
    intro r fuel hf ho _ ht
    obtain ⟨r1, hn1, hf1, ho1, _, hr1⟩ := decodeNextNoData_head rfl rfl ho ht
    obtain ⟨hd1, hb1⟩ := trace_nil hr1
    refine ⟨r1, ?_, ⟨hf1, hd1.symm, hb1.symm⟩, ho1⟩
    cases fuel with
    | zero => omega
    | succ fuel => rw [rdReadUntilImageData, hn1]
  | cons x pre ih =>
    intro r fuel hf ho hpre ht
    obtain ⟨ev, data⟩ := x
    obtain ⟨hdat, hne, hcb⟩ := hpre (ev, data) (by simp)
    simp only at hdat hne hcb
    subst hdat
    obtain ⟨r1, hn1, hf1, ho1, _, hr1⟩ := decodeNextNoData_head rfl rfl ho ht
    cases fuel with
    | zero => omega
    | succ fuel =>
      obtain ⟨r', hr', ha', ho'⟩ := ih r1 fuel (by simp at hf; omega) ho1 (fun e he => hpre e (by simp [he])) hr1
      refine ⟨r', ?_, ⟨hf1.trans ha'.frame, ha'.dec, ha'.avail⟩, ho'⟩
      rw [rdReadUntilImageData, hn1]
      cases ev with
      | chunkBegin l t =>
        obtain ⟨h1, h2⟩ := hcb l t rfl
        simp only [h1, h2, or_self, if_false]; exact hr'
      | imageEnd => exact absurd rfl hne
      | _ => exact hr'

/-- where the reader stands in the file -/
inductive Where (cfg : Cfg) (G : List Header) (e : Lazy.Env) (L : Info → Nat) (i : Info) (r : R) (s : Lazy.St) : Prop
  | inFrame (dEnd : Dec) (bEnd : Bytes) (hend : s.atEnd = false) (hpos : Pos cfg i r s.src dEnd bEnd)
      (hto : ToEnd cfg dEnd bEnd) (htail : Tail cfg e.interlaced L (tailOf G e s.fi) dEnd bEnd)
  | atEnd (hend : s.atEnd = true) (hav : avail r = [])

/-- the geometry of the current (sub)frame is the one of frame `s.fi` of the file -/
def GeoAt (G : List Header) (i : Info) (r : R) (s : Lazy.St) : Prop :=
  ∃ g, G[s.fi]? = some g ∧ g.width = r.sub.width ∧ g.height = r.sub.height ∧ g.interlaced = i.interlaced

/-- **the simulation relation** between a reader of `Model/Reader.lean` and a state of `Model/LazyReader.lean` -/
structure SimI (cfg : Cfg) (G : List Header) (e : Lazy.Env) (L : Info → Nat) (f : Flags) (i : Info) (r : R) (s : Lazy.St) :
    Prop where
  il : i.interlaced = e.interlaced
  cnt : Cnt i r s
  cur : CurRel i r s
  wh : Where cfg G e L i r s
  geo : GeoAt G i r s
  fin : s.finished = r.finished
  rd : r.isReader = true
  flags : r.flags = f

theorem eof_of_avail_nil {cfg : Cfg} {r : R} (h : avail r = []) : decodeNext' cfg r = (r, .error (.err .eof "UnexpectedEof")) := by
  unfold decodeNext'
  have hav : (r.input.take r.visible).drop r.pos = avail r := rfl
  simp only [hav, h, List.isEmpty_nil, if_true]

theorem rlOf_same {i j : Info} (h2 : j.color = i.color) (h3 : j.depth = i.depth) : rlOf j = rlOf i := by
  funext x; simp only [rlOf, h2, h3]

/-- the cursor relation only depends on the `IHDR` fields of the `Info` -/
theorem CurRel.of_same {i j : Info} {r : R} {s : Lazy.St} (h1 : j.interlaced = i.interlaced) (h2 : j.color = i.color)
    (h3 : j.depth = i.depth) (h : CurRel i r s) : CurRel j r s := by
  obtain ⟨a, b, c, d, ls, e1, e2, e3, e4⟩ := h
  refine ⟨by rw [h1]; exact a, by rw [h1]; exact b, by rw [h2, h3]; exact c, by rw [h1, rlOf_same h2 h3]; exact d,
    ls, e1, e2, by rw [h1]; exact e3, e4⟩

/-- the stream decoder's `Info` exists and has the `IHDR` fields of `i0` -/
def CorePred (i0 : Info) (d : Dec) : Prop := DInv d ∧ ∃ j, d.info = some j ∧ j.core = i0.core

/-- `decode_next` keeps the decoder invariant `DInv` -/
theorem dinv_decPred (cfg : Cfg) : DecPred cfg DInv where
  dn := by
    intro r h
    rw [decodeNext'_eq]
    split
    · exact h
    · have h0 : DInv { r.dec with out := [] } := dinv_of_info h rfl rfl rfl rfl rfl
      have key : ∀ d' res, update cfg { r.dec with out := [] } (avail r) = (d', res) → DInv { d' with out := [] } := by
        intro d' res hu
        exact dinv_of_info (update_dinv h0 hu).1 rfl rfl rfl rfl rfl
      cases hu : update cfg { r.dec with out := [] } (avail r) with
      | mk d' res =>
        cases res with
        | error e => exact key d' _ hu
        | ok p => exact key d' _ hu
  limit := fun d l h => dinv_of_info h rfl rfl rfl rfl rfl

/-- ... and the `IHDR` fields of its `Info` -/
theorem corePred_decPred (cfg : Cfg) (i0 : Info) : DecPred cfg (CorePred i0) where
  dn := by
    intro r h
    rw [decodeNext'_eq]
    split
    · exact h
    · have h0 : CorePred i0 { r.dec with out := [] } := ⟨dinv_of_info h.1 rfl rfl rfl rfl rfl, h.2⟩
      have key : ∀ d' res, update cfg { r.dec with out := [] } (avail r) = (d', res) → CorePred i0 { d' with out := [] } := by
        intro d' res hu
        obtain ⟨hD', hS⟩ := update_dinv h0.1 hu
        obtain ⟨j, hj, hc⟩ := h0.2
        obtain ⟨j', hj', hc', _⟩ := hS.evo j hj
        exact ⟨dinv_of_info hD' rfl rfl rfl rfl rfl, j', hj', hc'.trans hc⟩
      cases hu : update cfg { r.dec with out := [] } (avail r) with
      | mk d' res =>
        cases res with
        | error e => exact key d' _ hu
        | ok p => exact key d' _ hu
  limit := fun d l h => ⟨dinv_of_info h.1 rfl rfl rfl rfl rfl, h.2⟩

/-- the `IHDR` fields of the decoder's `Info` are those of `i0` -/
theorem hdrPred_info {i0 i : Info} {d : Dec} (h : CorePred i0 d) (hi : d.info = some i) :
    i.interlaced = i0.interlaced ∧ i.color = i0.color ∧ i.depth = i0.depth := by
  obtain ⟨_, j, hj, hc⟩ := h
  rw [hi] at hj; cases hj
  simp only [Info.core, Prod.mk.injEq] at hc
  exact ⟨hc.2.2.2.2, hc.2.2.2.1, hc.2.2.1⟩

theorem hdrPred_some {i0 : Info} {d : Dec} (h : CorePred i0 d) : ∃ j, d.info = some j := by
  obtain ⟨_, j, hj, _⟩ := h
  exact ⟨j, hj⟩

/-- how the result of `read_until_image_data` corresponds -/
inductive AdvMatch : Except Reader.Res Unit → Option Lazy.Res → Prop
  | ok : AdvMatch (.ok ()) none
  | missing : AdvMatch (.error (.err .format "MissingImageData")) (some (.err .missingImageData))
  | eof : AdvMatch (.error (.err .eof "UnexpectedEof")) (some (.err .eof))

/-- **`Reader::read_until_image_data`** from behind the data of a frame (or behind `IEND`): on to the next frame, or
    `MissingImageData`, or `UnexpectedEof`.  `hH`: the decoder keeps the `IHDR` fields (`Proofs/ReaderGetters.CorePred`) -/
theorem readUntilImageData_sim (cfg : Cfg) (t : TCfg) (G : List Header) (e : Lazy.Env) (hG : G.length = e.frames.length)
    (L : Info → Nat) (f : Flags) (hL : ∀ i', L i' = outLineSize t i' f (Sub.new i').width)
    (i0 i : Info) (r : R) (s : Lazy.St) (hS : SimI cfg G e L f i r s) (hcaf : r.sub.caf = true) (hH : CorePred i0 r.dec)
    (r' : R) (x : Except Reader.Res Unit) (hx : readUntilImageData cfg t r = (r', x))
    (hok : ∀ e', x = .error e' → okRes e' = true) :
    ∃ s' lx i', Lazy.readUntilImageData e s = (s', lx) ∧ AdvMatch x lx ∧ SimI cfg G e L f i' r' s' ∧ s'.rem = s.rem ∧
      r'.flags = r.flags ∧
      (x = .ok () → s'.fi = s.fi + 1 ∧ s'.caf = false ∧ r'.sub = Sub.new i') ∧
      (x ≠ .ok () → s'.fi = s.fi ∧ s'.cur = s.cur ∧ s'.caf = s.caf ∧ r'.sub = r.sub) := by
  have hH' : CorePred i0 r'.dec := by
    have := readUntilImageData_decP (corePred_decPred cfg i0) t r hH
    rw [hx] at this; exact this
  obtain ⟨ci1, ci2, ci3⟩ := hdrPred_info hH hS.cnt.info
  have hsrc : s.src = none := hS.cnt.closed.2 hcaf
  cases hS.wh with
  | atEnd hend hav =>
    have hrd : rdReadUntilImageData cfg (fuelOf r) r = (r, .error (.err .eof "UnexpectedEof")) := by
      have : fuelOf r = (fuelOf r - 1) + 1 := by unfold fuelOf; omega
      rw [this, rdReadUntilImageData]
      unfold decodeNextNoData
      rw [eof_of_avail_nil hav]
    unfold readUntilImageData at hx
    rw [hrd] at hx
    simp only [Prod.mk.injEq] at hx
    obtain ⟨rfl, rfl⟩ := hx
    refine ⟨s, some (.err .eof), i, ?_, .eof, hS, rfl, rfl, (fun h => by cases h), (fun _ => ⟨rfl, rfl, rfl, rfl⟩)⟩
    unfold Lazy.readUntilImageData
    simp [hend]
  | inFrame dEnd bEnd hend hpos hto htail =>
    cases hpos with
    | inData pend hev htr hs => rw [hsrc] at hs; cases hs
    | after hd hb _ =>
      cases htl : tailOf G e s.fi with
      | nil =>
        rw [htl] at htail
        obtain ⟨pre, dE, hpre, htr⟩ := htail
        rw [← hd, ← hb] at htr
        obtain ⟨r1, hrun, ha, ho1⟩ := rdReadUntilImageData_end pre r (fuelOf r)
          (by have := trace_length_lt_fuel htr; simp at this; omega) hS.cnt.out hpre htr
        unfold readUntilImageData at hx
        rw [hrun] at hx
        simp only [Prod.mk.injEq] at hx
        obtain ⟨rfl, rfl⟩ := hx
        have hfr := ha.frame
        have hse := hfr.sameEnv
        unfold Reader.Frame at hfr
        obtain ⟨j, hj⟩ := hdrPred_some hH'
        obtain ⟨cj1, cj2, cj3⟩ := hdrPred_info hH' hj
        have hsub1 : r1.sub = r.sub := by rw [hfr]
        have hrem1 : r1.remaining = r.remaining := by rw [hfr]
        have hub1 : r1.ub = r.ub := by rw [hfr]
        refine ⟨{ s with atEnd := true }, some (.err .missingImageData), j, ?_, .missing, ?_, rfl, hse.flags,
          (fun h => by cases h), (fun _ => ⟨rfl, rfl, rfl, hsub1⟩)⟩
        · unfold Lazy.readUntilImageData
          have h1 : s.atEnd = false := hend
          simp only [h1, Bool.false_eq_true, if_false, hsrc, Option.isSome_none]
          rcases tailOf_nil hG htl with h | h
          · rw [h]
          · rw [h]; cases e.frames[s.fi + 1]? <;> rfl
        · refine ⟨by rw [cj1, ← ci1]; exact hS.il, ?_, ?_, .atEnd rfl ha.avail, ?_, ?_, hse.isReader.trans hS.rd,
            hse.flags.trans hS.flags⟩
          · exact ⟨hj, by rw [hrem1]; exact hS.cnt.rem, by rw [hsub1]; exact hS.cnt.caf, by rw [hub1]; exact hS.cnt.buf,
              by rw [hub1]; exact hS.cnt.ubInv, ho1, by rw [hsub1]; exact hS.cnt.closed⟩
          · exact CurRel.of_same (cj1.trans ci1.symm) (cj2.trans ci2.symm) (cj3.trans ci3.symm)
              (CurRel.congr hS.cur (by rw [hsub1]) rfl rfl)
          · obtain ⟨g, g1, g2, g3, g4⟩ := hS.geo
            exact ⟨g, g1, by rw [hsub1]; exact g2, by rw [hsub1]; exact g3, by rw [g4, cj1, ci1]⟩
          · show s.finished = r1.finished
            rw [hse.finished]; exact hS.fin
      | cons y rest =>
        obtain ⟨g, fr, a⟩ := y
        rw [htl] at htail
        obtain ⟨pre, len, tD, dM, bM, i', htD, hpre, htr, hiM, hoM, hil', hgw, hgh, hgi, hrl, _, hdata⟩ := htail
        obtain ⟨hGk, hfk, hak, hrest⟩ := tailOf_cons htl
        rw [← hd, ← hb] at htr
        obtain ⟨r1, hrun, ha, ho1⟩ := rdReadUntilImageData_trace htD pre r (fuelOf r)
          (by have := trace_length_lt_fuel htr; simp at this; omega) hS.cnt.out hpre htr
        have hfr := ha.frame
        have hse := hfr.sameEnv
        unfold Reader.Frame at hfr
        have hi1 : infoOf r1 = some i' := by show r1.dec.info = some i'; rw [ha.dec]; exact hiM
        unfold readUntilImageData at hx
        rw [hrun] at hx
        simp only [hi1] at hx
        unfold reserveBytes at hx
        by_cases hlim : r1.dec.limit ≥ outLineSize t i' r1.flags (Sub.new i').width
        · rw [if_pos hlim] at hx
          simp only at hx
          cases hbpp : bppFromUsize (bytesPerPixel i'.color i'.depth) with
          | none =>
            rw [hbpp] at hx
            simp only [Prod.mk.injEq] at hx
            have := hok _ hx.2.symm
            simp [okRes] at this
          | some bpp =>
            rw [hbpp] at hx
            simp only [Prod.mk.injEq] at hx
            obtain ⟨rfl, rfl⟩ := hx
            have hLe : outLineSize t i' r1.flags (Sub.new i').width = L i' := by
              rw [hL, hse.flags, hS.flags]
            rw [hLe] at hlim ⊢
            obtain ⟨pend, dEnd', bEnd', hev, htrD, harr, hto', htail'⟩ := hdata (by rw [← ha.dec]; exact hlim)
            obtain ⟨hsw, hsh, hsrl, hscaf⟩ := subNew_dims i'
            obtain ⟨hrows, _⟩ := rows_new i'
            obtain ⟨hiw, hcu⟩ := subNew_iter i'
            have hscan : (if i'.interlaced then Adam7.specRows (Sub.dims i').1 (Sub.dims i').2
                else (List.range (Sub.dims i').2).map fun l => (0, l, (Sub.dims i').1)) =
                scan i'.interlaced (Sub.dims i').1 (Sub.dims i').2 := rfl
            rw [hscan] at hrows
            generalize hs' : ({ s with fi := s.fi + 1, sub := fr.rowlens, cur := Lazy.firstRow fr.rowlens, caf := false,
                                       buf := 0, src := some a } : Lazy.St) = s'
            have hlz : Lazy.readUntilImageData e s = (s', none) := by
              rw [← hs']
              unfold Lazy.readUntilImageData
              have h1 : s.atEnd = false := hend
              simp only [h1, Bool.false_eq_true, if_false, hsrc, Option.isSome_none, hfk, hak]
            subst hs'
            refine ⟨_, none, i', hlz, .ok, ?_, rfl, hse.flags, (fun _ => ⟨rfl, rfl, rfl⟩), (fun h => absurd rfl h)⟩
            · refine ⟨by rw [hil'], ?_, ?_, ?_, ?_, ?_, hse.isReader.trans hS.rd, hse.flags.trans hS.flags⟩
              · have e1 : ({ r1.dec with limit := r1.dec.limit - L i' } : Dec).info = some i' := hi1
                have e2 : s.rem = r1.remaining := by rw [hfr]; exact hS.cnt.rem
                exact ⟨e1, e2, hscaf.symm, rfl, UB.inv_new, ho1,
                  ⟨(fun h => by cases h), (fun h => by rw [hscaf] at h; cases h)⟩⟩
              · refine ⟨hiw, hcu, by rw [hsrl, hsw], ?_, _, hrows, ?_, ?_, ?_⟩
                · show fr.rowlens = _
                  rw [hsw, hsh, hrl, hil']
                · show _ ≤ fr.rowlens.length
                  rw [hrl, hil']; simp
                · show _ = List.drop (fr.rowlens.length - _) _
                  rw [hsw, hsh, hrl, hil']; simp
                · show Lazy.firstRow fr.rowlens = _
                  rw [hrl, hil']
                  unfold Lazy.firstRow
                  simp only [List.length_map, Nat.sub_self]
                  cases hsc : scan e.interlaced (Sub.dims i').1 (Sub.dims i').2 with
                  | nil => simp
                  | cons y ys => simp
              · refine .inFrame dEnd' bEnd' hend (.inData pend hev ?_ (congrArg some harr.symm)) hto' (by rw [hrest]; exact htail')
                show Trace cfg _ ({ r1.dec with limit := r1.dec.limit - L i' } : Dec) (avail r1) pend dEnd' bEnd'
                rw [ha.dec, ha.avail]; exact htrD
              · exact ⟨g, hGk, by rw [hgw]; exact hsw.symm, by rw [hgh]; exact hsh.symm, by rw [hgi, hil']⟩
              · show s.finished = r1.finished
                rw [hse.finished]; exact hS.fin
        · rw [if_neg hlim] at hx
          simp only [Prod.mk.injEq] at hx
          have := hok _ hx.2.symm
          simp [okRes] at this

end Png.LazyRefine
