import PngVerif.Proofs.ReaderResume
/-!
# Decoding paths, part 1: fields of the reader that no result depends on (C13)

Two fields of the `Reader` model differ between decoding paths that deliver the same pixels:

* `scratchLen` — `next_row` / `next_interlaced_row` resize the library-owned scratch row, `read_row`
  and the non-interlaced loop of `next_frame` do not touch it; nothing ever reads it;
* `cached` — the `Info` the row transformation was created from: created lazily by the first row that
  is decoded, so a reader that skipped frames creates it from a later `Info` of the same stream.

`R.setSC` overwrites the two fields.  This file shows that every function of the model below the
row transformation commutes with `R.setSC` (as an equation, for all readers), using one generic
lemma about the `decode_next` loops (`gloop_map`).
-/
namespace Png.Reader
open Png Png.Framing

/-- apply a map of readers to the reader component of a result -/
def mapFst {α : Type} (φ : R → R) (x : R × α) : R × α := (φ x.1, x.2)

theorem mapFst_mk {α : Type} (φ : R → R) (r : R) (a : α) : mapFst φ (r, a) = (φ r, a) := rfl

/-- a map of readers that leaves the stream part (decoder, position, input, visible prefix) alone -/
structure Neutral (φ : R → R) : Prop where
  stream : ∀ r, SameStream r (φ r)
  comm : ∀ r s, withStream (φ r) s = φ (withStream r s)

theorem Neutral.fuelOf {φ : R → R} (h : Neutral φ) (r : R) : fuelOf (φ r) = fuelOf r := by
  unfold Reader.fuelOf; rw [(h.stream r).visible, (h.stream r).pos]

/-- `decode_next` commutes with a neutral map -/
theorem decodeNext'_map (cfg : Cfg) {φ : R → R} (hφ : Neutral φ) (r : R) :
    decodeNext' cfg (φ r) = mapFst φ (decodeNext' cfg r) := by
  rw [decodeNext'_stream cfg (hφ.stream r), hφ.comm]
  unfold mapFst
  rw [← decodeNext'_withStream]

/-- **a `decode_next` loop commutes with a neutral map** that its body commutes with -/
theorem gloop_map {α : Type} (cfg : Cfg) (B : Body α) {φ : R → R} (hφ : Neutral φ)
    (hpre : ∀ r, B.pre (φ r) = (B.pre r).map (mapFst φ))
    (hprep : ∀ r, B.prep (φ r) = φ (B.prep r))
    (hpost : ∀ r ev data, B.post (φ r) ev data =
      match B.post r ev data with
      | .inl x => .inl (mapFst φ x)
      | .inr r'' => .inr (φ r'')) :
    ∀ (f : Nat) (r : R), gloop cfg B f (φ r) = mapFst φ (gloop cfg B f r) := by
  intro f
  induction f with
  | zero => intro r; rfl
  | succ f ih =>
    intro r
    cases hp : B.pre r with
    | some x =>
      rw [gloop, gloop, hpre, hp]
      rfl
    | none =>
      rw [gloop_succ cfg B f r hp, gloop_succ cfg B f (φ r) (by rw [hpre, hp]; rfl), hprep, decodeNext'_map cfg hφ]
      cases decodeNext' cfg (B.prep r) with
      | mk r' res =>
        cases res with
        | error e => rfl
        | ok p =>
          obtain ⟨ev, data⟩ := p
          simp only [mapFst_mk]
          rw [hpost]
          cases B.post r' ev data with
          | inl x => rfl
          | inr r'' => exact ih r''

/-! ## the loops that only look at the stream part commute with every neutral map -/

theorem finishDecodingImageData_map (cfg : Cfg) {φ : R → R} (hφ : Neutral φ) (fuel : Nat) (r : R) :
    finishDecodingImageData cfg fuel (φ r) = mapFst φ (finishDecodingImageData cfg fuel r) := by
  rw [finishDecodingImageData_gloop, finishDecodingImageData_gloop]
  apply gloop_map cfg bodyFinish hφ
  · intro r; rfl
  · intro r; rfl
  · intro r ev data; cases ev <;> rfl

theorem rdReadUntilImageData_map (cfg : Cfg) {φ : R → R} (hφ : Neutral φ) (fuel : Nat) (r : R) :
    rdReadUntilImageData cfg fuel (φ r) = mapFst φ (rdReadUntilImageData cfg fuel r) := by
  rw [rdReadUntilImageData_gloop, rdReadUntilImageData_gloop]
  apply gloop_map cfg bodyUntil hφ
  · intro r; rfl
  · intro r; rfl
  · intro r ev data
    simp only [bodyUntil]
    split
    · cases ev with
      | chunkBegin len t => simp only; split <;> rfl
      | _ => rfl
    · rfl

theorem readUntilEndOfInput_map (cfg : Cfg) {φ : R → R} (hφ : Neutral φ) (fuel : Nat) (r : R) :
    readUntilEndOfInput cfg fuel (φ r) = mapFst φ (readUntilEndOfInput cfg fuel r) := by
  rw [readUntilEndOfInput_gloop, readUntilEndOfInput_gloop]
  apply gloop_map cfg bodyEnd hφ
  · intro r; rfl
  · intro r; rfl
  · intro r ev data; cases ev <;> rfl

/-! ## `setSC` -/

/-- overwrite the two fields no result depends on -/
def R.setSC (r : R) (s : Nat) (c : Option Info) : R := { r with scratchLen := s, cached := c }

theorem setSC_neutral (s : Nat) (c : Option Info) : Neutral (fun r => r.setSC s c) :=
  ⟨fun _ => ⟨rfl, rfl, rfl, rfl⟩, fun _ _ => rfl⟩

theorem setSC_setSC (r : R) (s s' : Nat) (c c' : Option Info) : (r.setSC s c).setSC s' c' = r.setSC s' c' := rfl
theorem setSC_self (r : R) : r.setSC r.scratchLen r.cached = r := rfl

theorem markFlushed_setSC (r : R) (s : Nat) (c : Option Info) :
    markFlushed (r.setSC s c) = (match markFlushed r with | .error e => .error e | .ok r3 => .ok (r3.setSC s c)) := by
  unfold markFlushed
  show (if r.remaining = 0 then _ else _) = _
  split <;> rfl

theorem nextRawRow_setSC (cfg : Cfg) (rowlen fuel : Nat) (r : R) (s : Nat) (c : Option Info) :
    nextRawRow cfg rowlen fuel (r.setSC s c) = mapFst (fun r => r.setSC s c) (nextRawRow cfg rowlen fuel r) := by
  rw [nextRawRow_gloop, nextRawRow_gloop]
  apply gloop_map cfg (bodyRaw rowlen) (setSC_neutral s c)
  · intro r
    simp only [bodyRaw]
    show (if r.ub.currLen < rowlen then (if r.sub.caf then _ else _) else _) = _
    split
    · split <;> rfl
    · simp only [Option.map]
      show some (match r.ub.unfilterCurr rowlen r.bpp with | .ok u => _ | .unknownFilter _ => _ | .panic => _) = _
      cases r.ub.unfilterCurr rowlen r.bpp <;> rfl
  · intro r; rfl
  · intro r ev data
    simp only [bodyRaw, rawPost]
    cases ev <;> simp only <;> first
      | rfl
      | (have := markFlushed_setSC { r with ub := r.ub.extend data } s c
         show (match markFlushed (R.setSC { r with ub := r.ub.extend data } s c) with | .error e => _ | .ok r3 => _) = _
         rw [this]
         cases markFlushed { r with ub := r.ub.extend data } <;> rfl)

theorem finishDecoding_setSC (cfg : Cfg) (r : R) (s : Nat) (c : Option Info) :
    finishDecoding cfg (r.setSC s c) = mapFst (fun r => r.setSC s c) (finishDecoding cfg r) := by
  unfold finishDecoding
  show (if r.sub.cur.isSome then _ else if r.sub.caf then _ else _) = _
  split
  · rfl
  · split
    · rfl
    · rw [(setSC_neutral s c).fuelOf r, finishDecodingImageData_map cfg (setSC_neutral s c)]
      cases finishDecodingImageData cfg (fuelOf r) r with
      | mk r' res =>
        cases res with
        | error e => rfl
        | ok u =>
          simp only [mapFst_mk]
          rw [markFlushed_setSC]
          cases markFlushed r' <;> rfl

theorem reserveBytes_setSC (r : R) (n : Nat) (s : Nat) (c : Option Info) :
    reserveBytes (r.setSC s c) n = (match reserveBytes r n with | .error e => .error e | .ok r3 => .ok (r3.setSC s c)) := by
  unfold reserveBytes
  show (if r.dec.limit ≥ n then _ else _) = _
  split <;> rfl

theorem readUntilImageData_setSC (cfg : Cfg) (t : TCfg) (r : R) (s : Nat) (c : Option Info) :
    readUntilImageData cfg t (r.setSC s c) = mapFst (fun r => r.setSC s c) (readUntilImageData cfg t r) := by
  unfold readUntilImageData
  rw [(setSC_neutral s c).fuelOf r, rdReadUntilImageData_map cfg (setSC_neutral s c)]
  cases rdReadUntilImageData cfg (fuelOf r) r with
  | mk r' res =>
    cases res with
    | error e => rfl
    | ok u =>
      simp only [mapFst_mk]
      show (match infoOf r' with | none => _ | some i => _) = _
      cases infoOf r' with
      | none => rfl
      | some i =>
        simp only
        have := reserveBytes_setSC r' (outLineSize t i r'.flags (Sub.new i).width) s c
        show (match reserveBytes (R.setSC r' s c) (outLineSize t i r'.flags (Sub.new i).width) with
          | .error e => _ | .ok r3 => _) = _
        rw [this]
        cases reserveBytes r' (outLineSize t i r'.flags (Sub.new i).width) with
        | error e => rfl
        | ok r3 =>
          simp only
          cases bppFromUsize (bytesPerPixel i.color i.depth) <;> rfl

theorem nextFrameInfo_setSC (cfg : Cfg) (t : TCfg) (r : R) (s : Nat) (c : Option Info) :
    nextFrameInfo cfg t (r.setSC s c) = mapFst (fun r => r.setSC s c) (nextFrameInfo cfg t r) := by
  unfold nextFrameInfo
  show (match (if r.sub.caf then Except.ok r.remaining else Except.ok (r.remaining - 1) : Except Res Nat) with
    | .error e => _ | .ok 0 => _ | .ok _ => _) = _
  cases (if r.sub.caf then Except.ok r.remaining else Except.ok (r.remaining - 1) : Except Res Nat) with
  | error e => rfl
  | ok n =>
    cases n with
    | zero => rfl
    | succ n =>
      simp only
      have hfin : (if (!(r.setSC s c).sub.caf) = true then
            finishDecoding cfg { r.setSC s c with sub := { (r.setSC s c).sub with cur := none } } else (r.setSC s c, .ok ())) =
          mapFst (fun r => r.setSC s c)
            (if (!r.sub.caf) = true then finishDecoding cfg { r with sub := { r.sub with cur := none } } else (r, .ok ())) := by
        show (if (!r.sub.caf) = true then _ else _) = _
        split
        · exact finishDecoding_setSC cfg { r with sub := { r.sub with cur := none } } s c
        · rfl
      rw [hfin]
      cases (if (!r.sub.caf) = true then finishDecoding cfg { r with sub := { r.sub with cur := none } } else (r, .ok ())) with
      | mk r1 res =>
        cases res with
        | error e => rfl
        | ok u =>
          simp only [mapFst_mk]
          rw [readUntilImageData_setSC]
          cases readUntilImageData cfg t r1 with
          | mk r2 res2 =>
            cases res2 with
            | error e => rfl
            | ok u =>
              simp only [mapFst_mk]
              show (match infoOf r2 >>= (·.fctl) with | some fc => _ | none => _) = _
              cases infoOf r2 >>= (·.fctl) <;> rfl

theorem finish_setSC (cfg : Cfg) (r : R) (s : Nat) (c : Option Info) :
    finish cfg (r.setSC s c) = mapFst (fun r => r.setSC s c) (finish cfg r) := by
  unfold finish
  show (if r.finished then _ else _) = _
  split
  · rfl
  · simp only
    have h1 : ({ r.setSC s c with remaining := 0, ub := UB.new, sub := { (r.setSC s c).sub with cur := none, caf := true } } : R) =
        R.setSC { r with remaining := 0, ub := UB.new, sub := { r.sub with cur := none, caf := true } } s c := rfl
    rw [h1, (setSC_neutral s c).fuelOf, readUntilEndOfInput_map cfg (setSC_neutral s c)]
    cases readUntilEndOfInput cfg
        (fuelOf { r with remaining := 0, ub := UB.new, sub := { r.sub with cur := none, caf := true } })
        { r with remaining := 0, ub := UB.new, sub := { r.sub with cur := none, caf := true } } with
    | mk r' res => cases res <;> rfl

end Png.Reader
