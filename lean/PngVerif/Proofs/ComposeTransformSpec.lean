import PngVerif.Proofs.ComposeSpec
/-!
# C08 end to end, specification side: the specification's pixels, converted scanline by scanline

`specPixelsT` is `specPixels` (`Model/WellFormed.lean`) with a row map: every reconstructed scanline of the
specification (`specScanlines`) is converted by `conv width row` (`width` = the scanline's width in pixels: the
image's, or the reduced image's for Adam7); without interlacing the converted scanlines are packed one after the
other; with Adam7 they are put in place by the specification's `Adam7.deinterlace` with the OUTPUT line size and the
OUTPUT bits per pixel.  With the identity map, the header's line size and bits per pixel it is `specPixels`
(`specPixelsT_id`).
-/
namespace Png.WellFormed
open Png Png.Framing

/-- the reconstructed scanlines of the image, each converted by `conv` (given the scanline's width in pixels) -/
def specScanlinesT (h : Header) (conv : Nat → Bytes → Bytes) (raw : Bytes) : List Bytes :=
  (h.scanlines.zip (specScanlines h raw)).map fun x => conv x.1.2.2 x.2

/-- the interlaced rows with their converted contents, as `Adam7.deinterlace` takes them -/
def specPassRowsT (h : Header) (conv : Nat → Bytes → Bytes) (raw : Bytes) : List (Adam7.Adam7Info × Bytes) :=
  (h.scanlines.zip (specScanlines h raw)).map fun x =>
    ({ pass := x.1.1, line := x.1.2.1, width := x.1.2.2 }, conv x.1.2.2 x.2)

/-- **the specification's pixels, converted scanline by scanline**: `specPixels` with the row map `conv`, rows of
    `outLine` bytes and pixels of `outBits` bits in the result -/
def specPixelsT (h : Header) (conv : Nat → Bytes → Bytes) (outLine outBits : Nat) (raw bg : Bytes) : Option Bytes :=
  if h.interlaced then Adam7.deinterlace bg outLine outBits (specPassRowsT h conv raw)
  else some (specScanlinesT h conv raw).flatten

/-- the same into a buffer that may be larger than the frame (`specFrame` with a row map) -/
def specFrameT (h : Header) (conv : Nat → Bytes → Bytes) (outLine outBits : Nat) (raw bg : Bytes) : Option Bytes :=
  if h.interlaced then Adam7.deinterlace bg outLine outBits (specPassRowsT h conv raw)
  else some ((specScanlinesT h conv raw).flatten ++ bg.drop (outLine * h.height))

theorem zip_map_snd_of_le {α β : Type} : ∀ (a : List α) (b : List β), b.length ≤ a.length → (a.zip b).map (·.2) = b := by
  intro a
  induction a with
  | nil => intro b hb; cases b with | nil => rfl | cons _ _ => simp at hb
  | cons x a ih =>
    intro b hb
    cases b with
    | nil => rfl
    | cons y b => simp only [List.zip_cons_cons, List.map_cons]; rw [ih b (by simpa using hb)]

theorem unfilterScanlines_length_le (unit : Nat) (rb : Nat → Nat) :
    ∀ (ls : List (Nat × Nat × Nat)) (prev S : Bytes), (unfilterScanlines unit rb ls prev S).length ≤ ls.length := by
  intro ls
  induction ls with
  | nil => intro prev S; simp [unfilterScanlines]
  | cons x rest ih =>
    intro prev S
    obtain ⟨p, l, w⟩ := x
    simp only [unfilterScanlines]
    split
    · simp
    · simp only [List.length_cons]; exact Nat.succ_le_succ (ih _ _)

/-- with the identity map the converted scanlines are the specification's scanlines -/
theorem specScanlinesT_id (h : Header) (raw : Bytes) : specScanlinesT h (fun _ r => r) raw = specScanlines h raw := by
  unfold specScanlinesT
  exact zip_map_snd_of_le _ _ (unfilterScanlines_length_le _ _ _ _ _)

theorem specPassRowsT_id (h : Header) (raw : Bytes) : specPassRowsT h (fun _ r => r) raw = specPassRows h raw := rfl

/-- **`specPixelsT` with the identity map (and the header's line size and bits per pixel) is `specPixels`** -/
theorem specPixelsT_id (h : Header) (raw bg : Bytes) :
    specPixelsT h (fun _ r => r) h.lineSize h.bitsPerPixel raw bg = specPixels h raw bg := by
  unfold specPixelsT specPixels
  rw [specScanlinesT_id, specPassRowsT_id]

theorem specFrameT_id (h : Header) (raw bg : Bytes) :
    specFrameT h (fun _ r => r) h.lineSize h.bitsPerPixel raw bg = specFrame h raw bg := by
  unfold specFrameT specFrame
  rw [specScanlinesT_id, specPassRowsT_id]; rfl

theorem specFrameT_eq_specPixelsT (h : Header) (conv : Nat → Bytes → Bytes) (outLine outBits : Nat) (raw bg : Bytes)
    (hl : bg.length = outLine * h.height) :
    specFrameT h conv outLine outBits raw bg = specPixelsT h conv outLine outBits raw bg := by
  unfold specFrameT specPixelsT
  cases h.interlaced with
  | true => rfl
  | false => simp only [Bool.false_eq_true, if_false]; rw [List.drop_of_length_le (by omega), List.append_nil]

/-- `specPixelsT` reads `conv` only on the specification's scanlines: each of width `w` (the image's, or a reduced
    image's) and of the `rowBytes w` bytes of a packed scanline of that width -/
theorem specPixelsT_congr (h : Header) (conv conv' : Nat → Bytes → Bytes) (outLine outBits : Nat) (raw bg : Bytes)
    (hraw : RawOk h raw)
    (hc : ∀ w row, (∃ p l, (p, l, w) ∈ h.scanlines) → row.length = h.rowBytes w → conv w row = conv' w row) :
    specPixelsT h conv outLine outBits raw bg = specPixelsT h conv' outLine outBits raw bg := by
  have hlen := Png.Reader.unfilterScanlines_rowlen h.filterUnit h.rowBytes h.scanlines [] raw hraw
  have key : ∀ x ∈ h.scanlines.zip (specScanlines h raw), conv x.1.2.2 x.2 = conv' x.1.2.2 x.2 := by
    intro x hx
    refine hc _ _ ⟨x.1.1, x.1.2.1, ?_⟩ (hlen x hx)
    exact (List.of_mem_zip hx).1
  unfold specPixelsT specScanlinesT specPassRowsT
  have e1 : ((h.scanlines.zip (specScanlines h raw)).map fun x => conv x.1.2.2 x.2) =
      ((h.scanlines.zip (specScanlines h raw)).map fun x => conv' x.1.2.2 x.2) :=
    List.map_congr_left key
  have e2 : ((h.scanlines.zip (specScanlines h raw)).map fun x =>
        (({ pass := x.1.1, line := x.1.2.1, width := x.1.2.2 } : Adam7.Adam7Info), conv x.1.2.2 x.2)) =
      ((h.scanlines.zip (specScanlines h raw)).map fun x =>
        (({ pass := x.1.1, line := x.1.2.1, width := x.1.2.2 } : Adam7.Adam7Info), conv' x.1.2.2 x.2)) :=
    List.map_congr_left fun x hx => by rw [key x hx]
  rw [e1, e2]

/-- without interlacing: the converted scanlines are `conv width` of the specification's scanlines -/
theorem specScanlinesT_noninterlaced (h : Header) (hil : h.interlaced = false) (conv : Nat → Bytes → Bytes) (raw : Bytes) :
    specScanlinesT h conv raw = (specScanlines h raw).map (conv h.width) := by
  unfold specScanlinesT
  have hs : h.scanlines = (List.range h.height).map fun l => (0, l, h.width) := by simp [Header.scanlines, hil]
  have hle := unfilterScanlines_length_le h.filterUnit h.rowBytes h.scanlines [] raw
  have gen : ∀ (ls : List (Nat × Nat × Nat)) (rows : List Bytes), (∀ x ∈ ls, x.2.2 = h.width) → rows.length ≤ ls.length →
      (ls.zip rows).map (fun x => conv x.1.2.2 x.2) = rows.map (conv h.width) := by
    intro ls
    induction ls with
    | nil => intro rows _ hr; cases rows with | nil => rfl | cons _ _ => simp at hr
    | cons a ls ih =>
      intro rows ha hr
      cases rows with
      | nil => rfl
      | cons b rows =>
        simp only [List.zip_cons_cons, List.map_cons]
        rw [ha a (by simp), ih rows (fun x hx => ha x (by simp [hx])) (by simpa using hr)]
  refine gen _ _ ?_ hle
  intro x hx
  rw [hs] at hx
  simp only [List.mem_map] at hx
  obtain ⟨l, _, rfl⟩ := hx
  rfl

end Png.WellFormed
