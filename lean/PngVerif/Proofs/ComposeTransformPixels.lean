import PngVerif.Proofs.ComposeTransformRows
/-!
# C08 end to end, specification side: `specPixelsT` of an interlaced image, pixel by pixel

`specPixelsT` of an interlaced image is `Adam7.deinterlace` — with the output line size and the output bits per
pixel — of the converted scanlines.  With `Adam7.deinterlace_spec` (C15) this says, pixel by pixel: the field of
output pixel `(x, y)` holds output pixel number `specSrc(x, y).index` of the CONVERTED scanline
`(specSrc(x, y).pass, specSrc(x, y).line)`; bits outside the pixel fields are the buffer's.
-/
namespace Png.Reader
open Png Png.Framing Png.WellFormed

theorem passRowsT_eq_map (conv : Nat → Bytes → Bytes) : ∀ (ls : List (Nat × Nat × Nat)) (rows : List Bytes),
    ls.Pairwise (fun a b => a.1 ≠ b.1 ∨ a.2.1 ≠ b.2.1) → rows.length = ls.length →
    passRowsT conv ls rows =
      ls.map fun r => ({ pass := r.1, line := r.2.1, width := r.2.2 }, conv r.2.2 (rowOf ls rows r.1 r.2.1)) := by
  intro ls
  induction ls with
  | nil => intro rows _ _; rfl
  | cons a ls ih =>
    intro rows hp hlen
    cases rows with
    | nil => simp at hlen
    | cons x rows =>
      obtain ⟨ha, hp'⟩ := List.pairwise_cons.mp hp
      simp only [passRowsT, List.zip_cons_cons, List.map_cons, rowOf_cons_self]
      congr 1
      have := ih rows hp' (by simpa using hlen)
      unfold passRowsT at this
      rw [this]
      apply List.map_congr_left
      intro r hr
      rw [rowOf_cons_ne a ls x rows r.1 r.2.1 (ha r hr)]

/-- the converted scanline `line` of pass `pass` (its width is the pass's, `Adam7.passW`) -/
def specPassRowT (h : Header) (conv : Nat → Bytes → Bytes) (raw : Bytes) (p l : Nat) : Bytes :=
  conv (Adam7.passW h.width p) (specPassRow h raw p l)

theorem specPassRowsT_eq_imageRows (h : Header) (hil : h.interlaced = true) (conv : Nat → Bytes → Bytes) (raw : Bytes)
    (hraw : RawOk h raw) :
    specPassRowsT h conv raw = Adam7.imageRows h.width h.height (specPassRowT h conv raw) := by
  have hsc : h.scanlines = Adam7.specRows h.width h.height := by simp [Header.scanlines, hil]
  have hlen := unfilterScanlines_length h.filterUnit h.rowBytes h.scanlines [] raw hraw
  have := passRowsT_eq_map conv h.scanlines (specScanlines h raw) (by rw [hsc]; exact Adam7.specRows_pairwise _ _) hlen
  unfold passRowsT at this
  unfold specPassRowsT Adam7.imageRows specPassRowT specPassRow
  rw [this, hsc]
  apply List.map_congr_left
  intro r hr
  obtain ⟨p, l, wd⟩ := r
  rw [((Adam7.mem_specRows _ _ _ _ _).mp hr).2.1]

/-- the specification's scanline `(p, l)` of an interlaced image has the bytes of a packed row of the pass's width -/
theorem specPassRow_length (h : Header) (hil : h.interlaced = true) (raw : Bytes) (hraw : RawOk h raw) (p l wd : Nat)
    (hm : (p, l, wd) ∈ Adam7.specRows h.width h.height) : (specPassRow h raw p l).length = h.rowBytes wd := by
  have hsc : h.scanlines = Adam7.specRows h.width h.height := by simp [Header.scanlines, hil]
  have hlenrows := unfilterScanlines_length h.filterUnit h.rowBytes h.scanlines [] raw hraw
  have hrl := unfilterScanlines_rowlen h.filterUnit h.rowBytes h.scanlines [] raw hraw
  exact rowOf_length h.rowBytes h.scanlines (specScanlines h raw)
    (by rw [hsc]; exact Adam7.specRows_pairwise _ _) hlenrows hrl (p, l, wd) (by rw [hsc]; exact hm)

/-- **`specPixelsT` of an interlaced image, pixel by pixel**: if every converted scanline holds its `width` output
    pixels and a line of the output holds `width` output pixels, then for a buffer `bg` of the output image's size
    the de-interlacing succeeds and keeps the length; the field of output pixel `(x, y)` holds output pixel number
    `specSrc(x, y).index` of the converted scanline `specSrc(x, y).(pass, line)`; every bit outside the pixel fields
    is the bit of `bg` -/
theorem specPixelsT_interlaced_pixels (h : Header) (hv : h.Valid) (hil : h.interlaced = true) (raw : Bytes)
    (hraw : RawOk h raw) (conv : Nat → Bytes → Bytes) (outLine outBits : Nat) (hvb : Adam7.validBits outBits)
    (hstride : h.width * outBits ≤ outLine * 8)
    (hconv : ∀ p l wd, (p, l, wd) ∈ Adam7.specRows h.width h.height →
      wd * outBits ≤ (conv wd (specPassRow h raw p l)).length * 8)
    (bg : Bytes) (hbg : bg.length = outLine * h.height) :
    ∃ buf, specPixelsT h conv outLine outBits raw bg = some buf ∧ buf.length = bg.length ∧
      (∀ x y t, x < h.width → y < h.height → t < outBits →
        Adam7.bitAt buf (Adam7.pixelBit outLine outBits x y + t) =
          Adam7.bitAt (specPassRowT h conv raw (Adam7.specSrc x y).1 (Adam7.specSrc x y).2.1)
            ((Adam7.specSrc x y).2.2 * outBits + t)) ∧
      (∀ k, (∀ x y, x < h.width → y < h.height →
          ¬ (Adam7.pixelBit outLine outBits x y ≤ k ∧ k < Adam7.pixelBit outLine outBits x y + outBits)) →
        Adam7.bitAt buf k = Adam7.bitAt bg k) := by
  obtain ⟨hw1, _, hh1, _, hleg⟩ := hv
  have hdata : ∀ p l wd, (p, l, wd) ∈ Adam7.specRows h.width h.height →
      wd * outBits ≤ (specPassRowT h conv raw p l).length * 8 := by
    intro p l wd hm
    unfold specPassRowT
    rw [← ((Adam7.mem_specRows _ _ _ _ _).mp hm).2.1]
    exact hconv p l wd hm
  have himg : ∀ x y, x < h.width → y < h.height →
      Adam7.pixelBit outLine outBits x y + outBits ≤ bg.length * 8 := by
    intro x y hx hy
    apply Adam7.fits_of_length _ x y hx hy
    rw [hbg]
    have : (h.height - 1) * outLine * 8 + outLine * 8 = outLine * h.height * 8 := by
      rw [← Nat.add_mul, ← Nat.succ_mul, Nat.succ_eq_add_one, Nat.sub_add_cancel hh1, Nat.mul_comm h.height]
    omega
  obtain ⟨img', h1, h2, h3, h4⟩ := Adam7.deinterlace_spec hvb h.width h.height outLine bg
    (specPassRowT h conv raw) hstride himg hdata
  refine ⟨img', ?_, h2, h3, h4⟩
  unfold specPixelsT
  rw [hil, specPassRowsT_eq_imageRows h hil conv raw hraw]
  exact h1

end Png.Reader
