import PngVerif.Proofs.ReaderEnd
import PngVerif.Proofs.ReaderSplit
/-!
# Truncation is resumable (C05): a call that ran out of input, retried after more input arrived,
  ends exactly as the same call on the longer input

* Part 1: `decode_next` on a longer visible prefix (`decodeNext'_grow`, from `update_prefix`).
* Part 2: a generic `decode_next` loop (`gloop`) and its resumability (`gloop_resume`).
* Part 3: the five loops of `ReadDecoder` / `Reader` as instances.
-/
namespace Png.Reader
open Png Png.Framing

/-! ## Part 1: `decode_next` on a longer visible prefix -/

/-- more of the input becomes visible -/
def growTo (r : R) (v : Nat) : R := { r with visible := v }

/-- the bytes that become visible -/
def ext (r : R) (v : Nat) : Bytes := (r.input.drop r.visible).take (v - r.visible)

theorem avail_growTo (r : R) (v : Nat) (hv : r.visible ≤ v) (hpos : r.pos ≤ min r.visible r.input.length) :
    avail (growTo r v) = avail r ++ ext r v := by
  unfold avail growTo ext
  simp only
  have h1 : r.input.take v = r.input.take r.visible ++ (r.input.drop r.visible).take (v - r.visible) := by
    have : v = r.visible + (v - r.visible) := by omega
    conv => lhs; rw [this, List.take_add]
  rw [h1, List.drop_append_of_le_length (by rw [List.length_take]; exact hpos)]

/-- the read position never passes the visible prefix -/
def PosOk (r : R) : Prop := r.pos ≤ min r.visible r.input.length

theorem decodeNext'_posOk (cfg : Cfg) (r : R) (h : PosOk r) : PosOk (decodeNext' cfg r).1 := by
  unfold decodeNext'
  simp only
  split
  · exact h
  · rename_i hne
    have hav : (r.input.take r.visible).drop r.pos = avail r := rfl
    rw [hav] at hne ⊢
    cases hu : update cfg { r.dec with out := [] } (avail r) with
    | mk d' res =>
      cases res with
      | error e => exact h
      | ok p =>
        obtain ⟨n, ev⟩ := p
        simp only
        have hnb : avail r ≠ [] := by intro hc; rw [hc] at hne; simp at hne
        have := (update_no_spin cfg _ _ _ _ _ hnb hu).1
        unfold PosOk at h ⊢
        simp only [avail, List.length_drop, List.length_take] at this
        simp only
        omega

/-- `decode_next` in terms of `avail` -/
theorem decodeNext'_eq (cfg : Cfg) (r : R) :
    decodeNext' cfg r =
      if avail r = [] then (r, .error (.err .eof "UnexpectedEof")) else
      match update cfg { r.dec with out := [] } (avail r) with
      | (d', .error e) => ({ r with dec := { d' with out := [] } }, .error (ofFraming e))
      | (d', .ok (n, ev)) => ({ r with dec := { d' with out := [] }, pos := r.pos + n }, .ok (ev, d'.out)) := by
  unfold decodeNext'
  simp only
  have hav : (r.input.take r.visible).drop r.pos = avail r := rfl
  rw [hav]
  cases h : avail r with
  | nil => simp
  | cons x xs =>
    simp only [List.isEmpty_cons, Bool.false_eq_true, if_false, reduceCtorEq]
    cases update cfg { r.dec with out := [] } (x :: xs) with
    | mk d' res => cases res <;> rfl

/-- how `decode_next` on the longer visible prefix relates to `decode_next` on the shorter one -/
def GrowRel (cfg : Cfg) (r : R) (v : Nat) : Prop :=
  match decodeNext' cfg r with
  | (r1, .ok (ev, data)) =>
    decodeNext' cfg (growTo r v) = (growTo r1 v, .ok (ev, data)) ∨
    (avail r1 = [] ∧ ((ev = .nothing ∧ data = []) ∨ ev = .imageData) ∧
      match decodeNext' cfg (growTo r1 v) with
      | (r2, .ok (ev2, data2)) =>
        decodeNext' cfg (growTo r v) = (r2, .ok (ev2, data ++ data2)) ∧ (ev = .imageData → ev2 = .imageData)
      | (_, .error e) => (∃ r2', decodeNext' cfg (growTo r v) = (r2', .error e)) ∧ ∀ w, e ≠ .err .eof w)
  | (_, .error e) => avail r = [] ∨ ∃ r1', decodeNext' cfg (growTo r v) = (r1', .error e)

/-- **`decode_next` with more input visible** (inflater contract `Cfg.InflateOk`): a call that failed
    (other than for lack of input) fails alike; a successful call either returns exactly the same,
    or it had consumed everything visible with `Nothing`/`ImageData`, and the call on the longer
    prefix is that call merged with the next one (image data concatenated) -/
theorem decodeNext'_grow (cfg : Cfg) (hI : cfg.InflateOk) (r : R) (v : Nat) (hv : r.visible ≤ v) (hpos : PosOk r) :
    GrowRel cfg r v := by
  unfold GrowRel
  have hg := avail_growTo r v hv hpos
  by_cases ha : avail r = []
  · rw [decodeNext'_eq cfg r, if_pos ha]; exact Or.inl ha
  · by_cases hb : ext r v = []
    · -- nothing new became visible
      have hav : avail (growTo r v) = avail r := by rw [hg, hb, List.append_nil]
      rw [decodeNext'_eq cfg (growTo r v), hav, decodeNext'_eq cfg r, if_neg ha, if_neg ha]
      have hgd : ({ (growTo r v).dec with out := [] } : Dec) = { r.dec with out := [] } := rfl
      rw [hgd]
      cases update cfg { r.dec with out := [] } (avail r) with
      | mk d' res =>
        cases res with
        | error e => exact Or.inr ⟨_, rfl⟩
        | ok p => obtain ⟨n, ev⟩ := p; exact Or.inl rfl
    · have hne : avail (growTo r v) ≠ [] := by rw [hg]; simp [ha]
      cases hs : r.dec.state with
      | none =>
        have hs0 : ({ r.dec with out := [] } : Dec).state = none := hs
        rw [decodeNext'_eq cfg r, if_neg ha, decodeNext'_eq cfg (growTo r v), if_neg hne]
        have e1 := poisoned_refuses cfg { r.dec with out := [] } (avail r) hs0
        have e2 := poisoned_refuses cfg { r.dec with out := [] } (avail (growTo r v)) hs0
        generalize update cfg { r.dec with out := [] } (avail r) = o1 at e1
        obtain ⟨d1, r1⟩ := o1
        simp only at e1
        obtain ⟨rfl, rfl⟩ := e1
        have hgd : ({ (growTo r v).dec with out := [] } : Dec) = { r.dec with out := [] } := rfl
        rw [hgd]
        generalize update cfg { r.dec with out := [] } (avail (growTo r v)) = o2 at e2
        obtain ⟨d2, r2⟩ := o2
        simp only at e2
        obtain ⟨rfl, rfl⟩ := e2
        exact Or.inr ⟨_, rfl⟩
      | some st =>
        have hs0 : ({ r.dec with out := [] } : Dec).state ≠ none := by show r.dec.state ≠ none; rw [hs]; simp
        have hpre := update_prefix cfg hI (avail r) { r.dec with out := [] } (ext r v) ha hb hs0 rfl
        unfold PrefixRel at hpre
        have hgd : ({ (growTo r v).dec with out := [] } : Dec) = { r.dec with out := [] } := rfl
        have hposr := decodeNext'_posOk cfg r hpos
        rw [decodeNext'_eq cfg r, if_neg ha] at hposr ⊢
        rw [decodeNext'_eq cfg (growTo r v), if_neg hne, hgd, hg]
        generalize update cfg { r.dec with out := [] } (avail r) = o1 at hpre hposr
        obtain ⟨d1, r1⟩ := o1
        cases r1 with
        | error e =>
          obtain ⟨d', hd'⟩ := hpre
          rw [hd']
          exact Or.inr ⟨_, rfl⟩
        | ok p =>
          obtain ⟨n, ev⟩ := p
          simp only at hpre hposr ⊢
          rcases hpre with hsame | ⟨hn, hst1, hev, hm⟩
          · rw [hsame]; exact Or.inl rfl
          · right
            have hav1 : avail ({ r with dec := { d1 with out := [] }, pos := r.pos + n } : R) = [] := by
              rw [avail_drop, hn, List.drop_length]
            have hg1 : avail (growTo { r with dec := { d1 with out := [] }, pos := r.pos + n } v) = ext r v := by
              rw [avail_growTo ({ r with dec := { d1 with out := [] }, pos := r.pos + n } : R) v hv hposr, hav1]; rfl
            refine ⟨hav1, ?_, ?_⟩
            · rcases hev with ⟨h1, h2⟩ | ⟨h1, _⟩
              · exact Or.inl ⟨h1, h2⟩
              · exact Or.inr h1
            · rw [decodeNext'_eq cfg (growTo { r with dec := { d1 with out := [] }, pos := r.pos + n } v), hg1, if_neg hb]
              unfold MergedN at hm
              have hdd : ({ (growTo { r with dec := { d1 with out := [] }, pos := r.pos + n } v).dec with out := [] } : Dec)
                  = { d1 with out := [] } := rfl
              rw [hdd]
              generalize hu2 : update cfg { d1 with out := [] } (ext r v) = o2 at hm
              obtain ⟨d2, r2⟩ := o2
              cases r2 with
              | error e =>
                obtain ⟨d2', hd2⟩ := hm
                rw [hd2]
                exact ⟨⟨_, rfl⟩, fun w => ofFraming_not_eof e w⟩
              | ok q =>
                obtain ⟨n2, ev2⟩ := q
                simp only at hm ⊢
                rw [hm]
                refine ⟨?_, fun hi => ?_⟩
                · simp only [growTo, Prod.mk.injEq, and_true]
                  congr 1
                  omega
                · rcases hev with ⟨h1, _⟩ | ⟨_, t, hst⟩
                  · rw [h1] at hi; cases hi
                  · exact update_in_imageData (d := { d1 with out := [] }) hst hb hu2

/-! ## Part 2: a generic `decode_next` loop -/

/-- same stream decoder, read position and input -/
structure SameStream (r r' : R) : Prop where
  dec : r'.dec = r.dec
  pos : r'.pos = r.pos
  input : r'.input = r.input
  visible : r'.visible = r.visible

theorem SameStream.refl (r : R) : SameStream r r := ⟨rfl, rfl, rfl, rfl⟩
theorem SameStream.trans {a b c : R} (h1 : SameStream a b) (h2 : SameStream b c) : SameStream a c :=
  ⟨h2.dec.trans h1.dec, h2.pos.trans h1.pos, h2.input.trans h1.input, h2.visible.trans h1.visible⟩
theorem SameStream.symm {a b : R} (h : SameStream a b) : SameStream b a :=
  ⟨h.dec.symm, h.pos.symm, h.input.symm, h.visible.symm⟩

theorem SameStream.avail {r r' : R} (h : SameStream r r') : avail r' = avail r := by
  unfold Reader.avail; rw [h.input, h.visible, h.pos]
theorem SameStream.M {r r' : R} (h : SameStream r r') : M r' = M r := by
  unfold Reader.M; rw [h.avail, h.dec]
theorem SameStream.posOk {r r' : R} (h : SameStream r r') (hp : PosOk r) : PosOk r' := by
  unfold PosOk at *; rw [h.pos, h.visible, h.input]; exact hp
theorem SameStream.grow {r r' : R} (h : SameStream r r') (v : Nat) : SameStream (growTo r v) (growTo r' v) :=
  ⟨h.dec, h.pos, h.input, rfl⟩

/-- `b` with the stream decoder and read position of `a` -/
def withStream (b a : R) : R := { b with dec := a.dec, pos := a.pos }

/-- `decode_next` only looks at the stream part of the reader and carries the rest along -/
theorem decodeNext'_stream (cfg : Cfg) {a b : R} (h : SameStream a b) :
    decodeNext' cfg b = (withStream b (decodeNext' cfg a).1, (decodeNext' cfg a).2) := by
  rw [decodeNext'_eq cfg b, decodeNext'_eq cfg a, h.avail, h.dec]
  by_cases ha : avail a = []
  · rw [if_pos ha, if_pos ha]
    simp only [withStream]
    cases b; simp only at h ⊢
    obtain ⟨h1, h2, _, _⟩ := h
    simp only at h1 h2
    subst h1; subst h2; rfl
  · rw [if_neg ha, if_neg ha]
    cases update cfg { a.dec with out := [] } (avail a) with
    | mk d' res =>
      cases res with
      | error e =>
        simp only [withStream]
        rw [← h.pos]
      | ok p =>
        obtain ⟨n, ev⟩ := p
        simp only [withStream]
        rw [h.pos]

/-- a successful `decode_next` decreases the potential -/
theorem decodeNext'_M (cfg : Cfg) {r r' : R} {x : Ev × Bytes} (h : decodeNext' cfg r = (r', .ok x)) : M r' < M r := by
  rw [decodeNext'_eq cfg r] at h
  by_cases ha : avail r = []
  · rw [if_pos ha] at h; cases h
  · rw [if_neg ha] at h
    cases hu : update cfg { r.dec with out := [] } (avail r) with
    | mk d' res =>
      rw [hu] at h
      cases res with
      | error e => cases h
      | ok p =>
        obtain ⟨n, ev⟩ := p
        simp only [Prod.mk.injEq] at h
        obtain ⟨rfl, _⟩ := h
        have := (update_no_spin cfg _ _ _ _ _ ha hu).2.2.1
        simp only [Reader.M, avail_drop]
        exact this

/-- `decode_next` changes only the stream part -/
theorem decodeNext'_withStream (cfg : Cfg) (r : R) : (decodeNext' cfg r).1 = withStream r (decodeNext' cfg r).1 := by
  rw [decodeNext'_eq cfg r]
  by_cases ha : avail r = []
  · rw [if_pos ha]; rfl
  · rw [if_neg ha]
    cases update cfg { r.dec with out := [] } (avail r) with
    | mk d' res => cases res <;> rfl

/-- the body of a loop around `decode_next` -/
structure Body (α : Type) where
  /-- the loop's exit before decoding -/
  pre : R → Option (R × Except Res α)
  /-- what is done to the reader before `decode_next` -/
  prep : R → R
  /-- after a successful `decode_next`: stop with a result, or go on -/
  post : R → Ev → Bytes → Sum (R × Except Res α) R

/-- the loop: `fuel` bounds the iterations -/
def gloop {α : Type} (cfg : Cfg) (B : Body α) : Nat → R → R × Except Res α
  | 0, r => (r, .error (.panic "fuel"))
  | f + 1, r =>
    match B.pre r with
    | some x => x
    | none =>
      match decodeNext' cfg (B.prep r) with
      | (r', .error e) => (r', .error e)
      | (r', .ok (ev, data)) =>
        match B.post r' ev data with
        | .inl x => x
        | .inr r'' => gloop cfg B f r''

/-- what resumability needs from a loop body; `I` is an invariant of the part of the reader the body
    works on -/
structure Body.Ok {α : Type} (B : Body α) (I : R → Prop) : Prop where
  inv_prep : ∀ r, I r → I (B.prep r)
  inv_post : ∀ r ev data r'', I r → B.post r ev data = .inr r'' → I r''
  inv_stream : ∀ r s, I r → I (withStream r s)
  inv_vis : ∀ r v, I r → I (growTo r v)
  /-- the body does not look at how much input is visible -/
  pre_vis : ∀ r v, B.pre (growTo r v) = (B.pre r).map fun x => (growTo x.1 v, x.2)
  prep_vis : ∀ r v, B.prep (growTo r v) = growTo (B.prep r) v
  post_vis : ∀ r ev data v, B.post (growTo r v) ev data =
    match B.post r ev data with
    | .inl x => .inl (growTo x.1 v, x.2)
    | .inr r'' => .inr (growTo r'' v)
  /-- the body does not touch the stream part -/
  prep_stream : ∀ r, SameStream r (B.prep r)
  post_stream : ∀ r ev data r'', B.post r ev data = .inr r'' → SameStream r r''
  /-- `UnexpectedEof` comes from `decode_next` only -/
  pre_noeof : ∀ r x w, B.pre r = some x → x.2 ≠ .error (.err .eof w)
  post_noeof : ∀ r ev data x w, B.post r ev data = .inl x → x.2 ≠ .error (.err .eof w)
  /-- preparing twice is preparing once, and does not change whether the loop exits -/
  prep_idem : ∀ r, B.prep (B.prep r) = B.prep r
  pre_prep : ∀ r, I r → B.pre r = none → B.pre (B.prep r) = none
  /-- a call that reported `Nothing` (no data) or `ImageData` and made the loop go on, followed by a
      second call, is treated like one call with the data of both -/
  merge : ∀ (r s1 r'' s2 : R) (ev ev2 : Ev) (data data2 : Bytes), I r → B.pre r = none →
    ((ev = .nothing ∧ data = []) ∨ ev = .imageData) → (ev = .imageData → ev2 = .imageData) →
    B.post (withStream (B.prep r) s1) ev data = .inr r'' → B.pre r'' = none →
    B.post (withStream (B.prep r'') s2) ev2 data2 = B.post (withStream (B.prep r) s2) ev2 (data ++ data2)

theorem gloop_fuel {α : Type} (cfg : Cfg) (B : Body α) {I : R → Prop} (hB : B.Ok I) : ∀ (f f' : Nat) (r : R), M r < f → M r < f' →
    gloop cfg B f r = gloop cfg B f' r := by
  intro f
  induction f with
  | zero => intro f' r h; omega
  | succ f ih =>
    intro f' r h1 h2
    cases f' with
    | zero => omega
    | succ f' =>
      unfold gloop
      cases B.pre r with
      | some x => rfl
      | none =>
        simp only
        cases hd : decodeNext' cfg (B.prep r) with
        | mk r' res =>
          cases res with
          | error e => rfl
          | ok p =>
            obtain ⟨ev, data⟩ := p
            simp only
            cases hp : B.post r' ev data with
            | inl x => rfl
            | inr r'' =>
              simp only
              have hM : M r'' < M r := by
                rw [(hB.post_stream r' ev data r'' hp).M, ← (hB.prep_stream r).M]
                exact decodeNext'_M cfg hd
              exact ih f' r'' (by omega) (by omega)

/-- two results are equal, or both are the same fatal error -/
def ResumeEq {α : Type} (x y : R × Except Res α) : Prop :=
  x = y ∨ ∃ ra rb e, x = (ra, .error e) ∧ y = (rb, .error e) ∧ ∀ w, e ≠ .err .eof w

theorem gloop_succ {α : Type} (cfg : Cfg) (B : Body α) (f : Nat) (r : R) (h : B.pre r = none) :
    gloop cfg B (f + 1) r =
      match decodeNext' cfg (B.prep r) with
      | (r', .error e) => (r', .error e)
      | (r', .ok (ev, data)) =>
        match B.post r' ev data with
        | .inl x => x
        | .inr r'' => gloop cfg B f r'' := by
  rw [gloop, h]

theorem pre_grow_none {α : Type} {B : Body α} {I : R → Prop} (hB : B.Ok I) {r : R} (h : B.pre r = none) (v : Nat) :
    B.pre (growTo r v) = none := by rw [hB.pre_vis, h]; rfl

/-- **resumability of a `decode_next` loop** (inflater contract `Cfg.InflateOk`): if the loop ran out
    of input on the visible prefix (state `r1`, `UnexpectedEof`), then running it again from `r1`
    after more input became visible ends exactly as running it from the original state on the longer
    prefix — the same final reader and the same result — unless both runs end in the same fatal
    error -/
theorem gloop_resume {α : Type} (cfg : Cfg) (hI : cfg.InflateOk) (B : Body α) {I : R → Prop} (hB : B.Ok I) :
    ∀ (f1 : Nat) (r r1 : R) (w : String), PosOk r → I r → gloop cfg B f1 r = (r1, .error (.err .eof w)) →
    ∀ (v f2 f3 : Nat), r.visible ≤ v → M (growTo r1 v) < f2 → M (growTo r v) < f3 →
    ResumeEq (gloop cfg B f2 (growTo r1 v)) (gloop cfg B f3 (growTo r v)) := by
  intro f1
  induction f1 with
  | zero => intro r r1 w _ _ h; simp only [gloop, Prod.mk.injEq, Except.error.injEq] at h; cases h.2
  | succ f1 ih =>
    intro r r1 w hpos hinv h v f2 f3 hv hf2 hf3
    cases hpre : B.pre r with
    | some x =>
      rw [gloop, hpre] at h
      simp only at h
      exact absurd (by rw [h]) (hB.pre_noeof r x w hpre)
    | none =>
      rw [gloop_succ cfg B f1 r hpre] at h
      have hsp := hB.prep_stream r
      have hposp : PosOk (B.prep r) := hsp.posOk hpos
      have hvp : (B.prep r).visible ≤ v := by rw [hsp.visible]; exact hv
      obtain ⟨f3', rfl⟩ : ∃ k, f3 = k + 1 := ⟨f3 - 1, by omega⟩
      obtain ⟨f2', rfl⟩ : ∃ k, f2 = k + 1 := ⟨f2 - 1, by omega⟩
      have hMg : M (growTo (B.prep r) v) = M (growTo r v) := (hsp.grow v).M
      -- the longer run, one iteration unfolded
      have hwhole : gloop cfg B (f3' + 1) (growTo r v) =
          match decodeNext' cfg (growTo (B.prep r) v) with
          | (r', .error e) => (r', .error e)
          | (r', .ok (ev, data)) =>
            match B.post r' ev data with
            | .inl x => x
            | .inr r'' => gloop cfg B f3' r'' := by
        rw [gloop_succ cfg B f3' _ (pre_grow_none hB hpre v), hB.prep_vis]
      cases hd : decodeNext' cfg (B.prep r) with
      | mk r' res =>
        rw [hd] at h
        cases res with
        | error e =>
          simp only [Prod.mk.injEq, Except.error.injEq] at h
          obtain ⟨rfl, rfl⟩ := h
          obtain ⟨rfl, _⟩ := decodeNext'_eof_iff cfg _ _ w hd
          -- the retry starts with the same `decode_next` call as the longer run
          left
          have hpp := hB.pre_prep r hinv hpre
          rw [gloop_fuel cfg B hB (f2' + 1) (f3' + 1) _ hf2 (by rw [hMg]; exact hf3)]
          rw [gloop_succ cfg B f3' _ (pre_grow_none hB hpp v), hB.prep_vis, hB.prep_idem, hwhole]
        | ok p =>
          obtain ⟨ev, data⟩ := p
          simp only at h
          cases hp : B.post r' ev data with
          | inl x =>
            rw [hp] at h; simp only at h
            exact absurd (by rw [h]) (hB.post_noeof r' ev data x w hp)
          | inr r'' =>
            rw [hp] at h; simp only at h
            have hss := hB.post_stream r' ev data r'' hp
            have hr' : r' = withStream (B.prep r) r' := by
              have := decodeNext'_withStream cfg (B.prep r); rw [hd] at this; exact this
            have hposr' : PosOk r' := by
              have := decodeNext'_posOk cfg (B.prep r) hposp; rw [hd] at this; exact this
            have hinv' : I r' := by rw [hr']; exact hB.inv_stream _ _ (hB.inv_prep r hinv)
            have hinv'' : I r'' := hB.inv_post r' ev data r'' hinv' hp
            have hgr := decodeNext'_grow cfg hI (B.prep r) v hvp hposp
            unfold GrowRel at hgr
            rw [hd] at hgr
            simp only at hgr
            rcases hgr with hsame | ⟨hav, hcont, hmerge⟩
            · -- the call did not need more input: the longer run makes the same call
              rw [hwhole, hsame]
              simp only
              rw [hB.post_vis, hp]
              simp only
              have hM1 : M (growTo r'' v) < M (growTo r v) := by
                rw [(hss.grow v).M, ← hMg]
                exact decodeNext'_M cfg hsame
              exact ih r'' r1 w (hss.posOk hposr') hinv'' h v (f2' + 1) f3'
                (by rw [hss.visible, hr']; exact hvp) hf2 (by omega)
            · -- the call consumed everything visible and the loop went on: it now stops for lack of input
              cases f1 with
              | zero => simp only [gloop, Prod.mk.injEq, Except.error.injEq] at h; cases h.2
              | succ f1 =>
                cases hpre2 : B.pre r'' with
                | some x =>
                  rw [gloop, hpre2] at h
                  simp only at h
                  exact absurd (by rw [h]) (hB.pre_noeof r'' x w hpre2)
                | none =>
                  rw [gloop_succ cfg B f1 r'' hpre2] at h
                  have hsp2 := hB.prep_stream r''
                  have hav2 : avail (B.prep r'') = [] := by rw [hsp2.avail, hss.avail]; exact hav
                  rw [eof_no_state_change cfg _ hav2] at h
                  simp only [Prod.mk.injEq] at h
                  obtain ⟨rfl, _⟩ := h
                  -- the retry's first call
                  have hpp2 := hB.pre_prep r'' hinv'' hpre2
                  rw [gloop_succ cfg B f2' _ (pre_grow_none hB hpp2 v), hB.prep_vis, hB.prep_idem, hwhole]
                  have hst : SameStream (growTo r' v) (growTo (B.prep r'') v) := (hss.trans hsp2).grow v
                  rw [decodeNext'_stream cfg hst]
                  have hws := decodeNext'_withStream cfg (growTo r' v)
                  generalize hd2 : decodeNext' cfg (growTo r' v) = o2 at hmerge hws
                  obtain ⟨r2, res2⟩ := o2
                  simp only at hws
                  cases res2 with
                  | error e =>
                    obtain ⟨⟨r2', hw⟩, hne⟩ := hmerge
                    rw [hw]
                    exact Or.inr ⟨_, _, e, rfl, rfl, hne⟩
                  | ok q =>
                    obtain ⟨ev2, data2⟩ := q
                    simp only at hmerge ⊢
                    obtain ⟨hw, hev2⟩ := hmerge
                    rw [hw]
                    simp only
                    -- both runs hand the same thing to `post`
                    have hr2 : r2 = withStream (B.prep (growTo r v)) r2 := by
                      rw [hB.prep_vis]
                      conv => lhs; rw [hws, hr']
                      rfl
                    have hpost1 : B.post (withStream (B.prep (growTo r v)) (growTo r' v)) ev data = .inr (growTo r'' v) := by
                      have : withStream (B.prep (growTo r v)) (growTo r' v) = growTo r' v := by
                        rw [hB.prep_vis]
                        conv => rhs; rw [hr']
                        rfl
                      rw [this, hB.post_vis, hp]
                    have hm := hB.merge (growTo r v) (growTo r' v) (growTo r'' v) r2 ev ev2 data data2
                      (hB.inv_vis r v hinv) (pre_grow_none hB hpre v) hcont hev2 hpost1 (pre_grow_none hB hpre2 v)
                    rw [hB.prep_vis (r := r'')] at hm
                    rw [hm, ← hr2]
                    cases hpo : B.post r2 ev2 (data ++ data2) with
                    | inl x => exact Or.inl rfl
                    | inr r3 =>
                      simp only
                      left
                      have hs3 := hB.post_stream r2 ev2 (data ++ data2) r3 hpo
                      have hMw : M r2 < M (growTo r v) := by
                        rw [← hMg]; exact decodeNext'_M cfg hw
                      have hMs : M r2 < M (growTo (B.prep r'') v) := by
                        rw [hst.M]; exact decodeNext'_M cfg hd2
                      exact gloop_fuel cfg B hB f2' f3' r3 (by rw [hs3.M]; omega) (by rw [hs3.M]; omega)

/-! ## Part 3: the loops of `ReadDecoder` and `Reader` as instances -/

theorem withStream_withStream (a b c : R) : withStream (withStream a b) c = withStream a c := rfl
theorem withStream_grow (a b : R) (v : Nat) : withStream (growTo a v) b = growTo (withStream a b) v := rfl

/-- `read_until_end_of_input` -/
def bodyEnd : Body Unit where
  pre := fun _ => none
  prep := id
  post := fun r' ev _ =>
    match ev with
    | .imageEnd => .inl (r', .ok ())
    | _ => .inr r'

theorem readUntilEndOfInput_gloop (cfg : Cfg) : ∀ (fuel : Nat) (r : R),
    readUntilEndOfInput cfg fuel r = gloop cfg bodyEnd fuel r := by
  intro fuel
  induction fuel with
  | zero => intro r; rfl
  | succ fuel ih =>
    intro r
    rw [readUntilEndOfInput, gloop]
    simp only [bodyEnd, id]
    cases decodeNext' cfg r with
    | mk r' res =>
      cases res with
      | error e => rfl
      | ok p =>
        obtain ⟨ev, data⟩ := p
        cases ev <;> first | rfl | exact ih r'

theorem bodyEnd_ok : bodyEnd.Ok (fun _ => True) where
  inv_prep := fun _ _ => trivial
  inv_post := fun _ _ _ _ _ _ => trivial
  inv_stream := fun _ _ _ => trivial
  inv_vis := fun _ _ _ => trivial
  pre_vis := fun _ _ => rfl
  prep_vis := fun _ _ => rfl
  post_vis := fun r ev data v => by cases ev <;> rfl
  prep_stream := fun r => SameStream.refl r
  post_stream := fun r ev data r'' h => by
    cases ev <;> simp only [bodyEnd, Sum.inr.injEq] at h <;> first | (subst h; exact SameStream.refl _) | cases h
  pre_noeof := fun r x w h => by cases h
  post_noeof := fun r ev data x w h => by
    cases ev <;> simp only [bodyEnd, Sum.inl.injEq] at h <;> first | (subst h; simp) | cases h
  prep_idem := fun _ => rfl
  pre_prep := fun _ _ _ => rfl
  merge := fun r s1 r'' s2 ev ev2 data data2 _ _ hc _ hp _ => by
    have hr'' : r'' = withStream r s1 := by
      rcases hc with ⟨rfl, _⟩ | rfl <;> (simp only [bodyEnd, id, Sum.inr.injEq] at hp; exact hp.symm)
    subst hr''
    cases ev2 <;> rfl

/-- `finish_decoding_image_data` -/
def bodyFinish : Body Unit where
  pre := fun _ => none
  prep := id
  post := fun r' ev _ =>
    match ev with
    | .imageData => .inr r'
    | .imageDataFlushed => .inl (r', .ok ())
    | .nothing | .chunkComplete _ _ | .chunkBegin _ _ | .partialChunk _ => .inr r'
    | _ => .inl (r', .error (.panic "unreachable!(unexpected event inside image data) (read_decoder.rs:141)"))

theorem finishDecodingImageData_gloop (cfg : Cfg) : ∀ (fuel : Nat) (r : R),
    finishDecodingImageData cfg fuel r = gloop cfg bodyFinish fuel r := by
  intro fuel
  induction fuel with
  | zero => intro r; rfl
  | succ fuel ih =>
    intro r
    rw [finishDecodingImageData, gloop]
    simp only [bodyFinish, id, decodeImageData, Bool.false_eq_true, if_false]
    cases decodeNext' cfg r with
    | mk r' res =>
      cases res with
      | error e => rfl
      | ok p =>
        obtain ⟨ev, data⟩ := p
        cases ev <;> first | rfl | exact ih r'

theorem bodyFinish_ok : bodyFinish.Ok (fun _ => True) where
  inv_prep := fun _ _ => trivial
  inv_post := fun _ _ _ _ _ _ => trivial
  inv_stream := fun _ _ _ => trivial
  inv_vis := fun _ _ _ => trivial
  pre_vis := fun _ _ => rfl
  prep_vis := fun _ _ => rfl
  post_vis := fun r ev data v => by cases ev <;> rfl
  prep_stream := fun r => SameStream.refl r
  post_stream := fun r ev data r'' h => by
    cases ev <;> simp only [bodyFinish, Sum.inr.injEq] at h <;> first | (subst h; exact SameStream.refl _) | cases h
  pre_noeof := fun r x w h => by cases h
  post_noeof := fun r ev data x w h => by
    cases ev <;> simp only [bodyFinish, Sum.inl.injEq] at h <;> first | (subst h; simp) | cases h
  prep_idem := fun _ => rfl
  pre_prep := fun _ _ _ => rfl
  merge := fun r s1 r'' s2 ev ev2 data data2 _ _ hc _ hp _ => by
    have hr'' : r'' = withStream r s1 := by
      rcases hc with ⟨rfl, _⟩ | rfl <;> (simp only [bodyFinish, id, Sum.inr.injEq] at hp; exact hp.symm)
    subst hr''
    cases ev2 <;> rfl

/-- `ReadDecoder::read_until_image_data` (with the assertion of `decode_next_without_image_data`) -/
def bodyUntil : Body Unit where
  pre := fun _ => none
  prep := id
  post := fun r' ev data =>
    if data.isEmpty then
      match ev with
      | .chunkBegin _ t => if t = IDAT ∨ t = fdAT then .inl (r', .ok ()) else .inr r'
      | .imageEnd => .inl (r', .error (.err .format "MissingImageData"))
      | _ => .inr r'
    else .inl (r', .error (.panic "assert!(buf.is_empty()) (read_decoder.rs:80)"))

theorem rdReadUntilImageData_gloop (cfg : Cfg) : ∀ (fuel : Nat) (r : R),
    rdReadUntilImageData cfg fuel r = gloop cfg bodyUntil fuel r := by
  intro fuel
  induction fuel with
  | zero => intro r; rfl
  | succ fuel ih =>
    intro r
    rw [rdReadUntilImageData, gloop]
    simp only [bodyUntil, id, decodeNextNoData]
    cases decodeNext' cfg r with
    | mk r' res =>
      cases res with
      | error e => rfl
      | ok p =>
        obtain ⟨ev, data⟩ := p
        simp only
        cases hd : data.isEmpty with
        | false => simp
        | true =>
          simp only [if_true]
          cases ev with
          | chunkBegin len t =>
            simp only
            split
            · rfl
            · exact ih r'
          | imageEnd => rfl
          | nothing => exact ih r'
          | header _ _ _ _ _ => exact ih r'
          | chunkComplete _ _ => exact ih r'
          | pixelDimensions _ _ _ => exact ih r'
          | animationControl _ _ => exact ih r'
          | frameControl _ => exact ih r'
          | imageData => exact ih r'
          | imageDataFlushed => exact ih r'
          | partialChunk _ => exact ih r'

theorem isEmpty_true {l : Bytes} (h : l.isEmpty = true) : l = [] := by simpa using h

theorem bodyUntil_ok : bodyUntil.Ok (fun _ => True) where
  inv_prep := fun _ _ => trivial
  inv_post := fun _ _ _ _ _ _ => trivial
  inv_stream := fun _ _ _ => trivial
  inv_vis := fun _ _ _ => trivial
  pre_vis := fun _ _ => rfl
  prep_vis := fun _ _ => rfl
  post_vis := fun r ev data v => by
    simp only [bodyUntil]
    split
    · cases ev <;> first | rfl | (simp only; split <;> rfl)
    · rfl
  prep_stream := fun r => SameStream.refl r
  post_stream := fun r ev data r'' h => by
    simp only [bodyUntil] at h
    split at h
    · cases ev <;> simp only at h <;> first
        | (simp only [Sum.inr.injEq] at h; subst h; exact SameStream.refl _)
        | (cases h; done)
        | (split at h
           · cases h
           · simp only [Sum.inr.injEq] at h; subst h; exact SameStream.refl _)
    · cases h
  pre_noeof := fun r x w h => by cases h
  post_noeof := fun r ev data x w h => by
    simp only [bodyUntil] at h
    split at h
    · cases ev <;> simp only at h <;> first
        | (simp only [Sum.inl.injEq] at h; subst h; simp; done)
        | (cases h; done)
        | (split at h
           · simp only [Sum.inl.injEq] at h; subst h; simp
           · cases h)
    · simp only [Sum.inl.injEq] at h; subst h; simp
  prep_idem := fun _ => rfl
  pre_prep := fun _ _ _ => rfl
  merge := fun r s1 r'' s2 ev ev2 data data2 _ _ hc _ hp _ => by
    simp only [bodyUntil, id] at hp
    have hd : data = [] ∧ r'' = withStream r s1 := by
      split at hp
      · rename_i he
        refine ⟨isEmpty_true he, ?_⟩
        rcases hc with ⟨rfl, _⟩ | rfl <;> (simp only [Sum.inr.injEq] at hp; exact hp.symm)
      · cases hp
    obtain ⟨rfl, rfl⟩ := hd
    rfl

/-- `read_header_info` -/
def bodyHeader : Body Unit where
  pre := fun r => if r.dec.info.isSome then some (r, .ok ()) else none
  prep := id
  post := fun r' ev data =>
    if data.isEmpty then
      match ev with
      | .imageEnd => .inl (r', .error (.panic "unreachable!() (read_decoder.rs:95)"))
      | _ => .inr r'
    else .inl (r', .error (.panic "assert!(buf.is_empty()) (read_decoder.rs:80)"))

theorem readHeaderInfo_gloop (cfg : Cfg) : ∀ (fuel : Nat) (r : R),
    readHeaderInfo cfg fuel r = gloop cfg bodyHeader fuel r := by
  intro fuel
  induction fuel with
  | zero => intro r; rfl
  | succ fuel ih =>
    intro r
    rw [readHeaderInfo, gloop]
    simp only [bodyHeader, id, decodeNextNoData]
    cases hi : r.dec.info.isSome with
    | true => simp
    | false =>
      simp only [Bool.false_eq_true, if_false]
      cases decodeNext' cfg r with
      | mk r' res =>
        cases res with
        | error e => rfl
        | ok p =>
          obtain ⟨ev, data⟩ := p
          simp only
          cases hd : data.isEmpty with
          | false => simp
          | true =>
            simp only [if_true]
            cases ev <;> first | rfl | exact ih r'

theorem bodyHeader_ok : bodyHeader.Ok (fun _ => True) where
  inv_prep := fun _ _ => trivial
  inv_post := fun _ _ _ _ _ _ => trivial
  inv_stream := fun _ _ _ => trivial
  inv_vis := fun _ _ _ => trivial
  pre_vis := fun r v => by
    simp only [bodyHeader]
    show (if r.dec.info.isSome = true then some (growTo r v, Except.ok ()) else none) = _
    split <;> rfl
  prep_vis := fun _ _ => rfl
  post_vis := fun r ev data v => by
    simp only [bodyHeader]
    split
    · cases ev <;> rfl
    · rfl
  prep_stream := fun r => SameStream.refl r
  post_stream := fun r ev data r'' h => by
    simp only [bodyHeader] at h
    split at h
    · cases ev <;> simp only at h <;> first
        | (simp only [Sum.inr.injEq] at h; subst h; exact SameStream.refl _)
        | (cases h; done)
    · cases h
  pre_noeof := fun r x w h => by
    simp only [bodyHeader] at h
    split at h
    · simp only [Option.some.injEq] at h; subst h; simp
    · cases h
  post_noeof := fun r ev data x w h => by
    simp only [bodyHeader] at h
    split at h
    · cases ev <;> simp only at h <;> first
        | (simp only [Sum.inl.injEq] at h; subst h; simp; done)
        | (cases h; done)
    · simp only [Sum.inl.injEq] at h; subst h; simp
  prep_idem := fun _ => rfl
  pre_prep := fun _ _ h => h
  merge := fun r s1 r'' s2 ev ev2 data data2 _ _ hc _ hp _ => by
    simp only [bodyHeader, id] at hp
    have hd : data = [] ∧ r'' = withStream r s1 := by
      split at hp
      · rename_i he
        refine ⟨isEmpty_true he, ?_⟩
        rcases hc with ⟨rfl, _⟩ | rfl <;> (simp only [Sum.inr.injEq] at hp; exact hp.symm)
      · cases hp
    obtain ⟨rfl, rfl⟩ := hd
    rfl

/-- what `next_raw_interlaced_row` does after `decode_image_data` appended the data -/
def rawPost (r2 : R) (ev : Ev) : Sum (R × Except Res Unit) R :=
  match ev with
  | .imageData => .inr r2
  | .imageDataFlushed =>
    match markFlushed r2 with
    | .error e => .inl (r2, .error e)
    | .ok r3 => .inr r3
  | .nothing | .chunkComplete _ _ | .chunkBegin _ _ | .partialChunk _ => .inr r2
  | _ => .inl (r2, .error (.panic "unreachable!(unexpected event inside image data) (read_decoder.rs:141)"))

/-- `next_raw_interlaced_row` -/
def bodyRaw (rowlen : Nat) : Body Unit where
  pre := fun r =>
    if r.ub.currLen < rowlen then
      (if r.sub.caf then some (r, .error (.err .format "NoMoreImageData")) else none)
    else some (match r.ub.unfilterCurr rowlen r.bpp with
      | .ok u => ({ r with ub := u }, .ok ())
      | .unknownFilter _ => (r, .error (.err .format "UnknownFilterMethod"))
      | .panic => (r, .error (.panic "unfilter_curr_row (unfiltering_buffer.rs:86-111)")))
  prep := fun r => { r with ub := r.ub.compact }
  post := fun r' ev data => rawPost { r' with ub := r'.ub.extend data } ev

theorem nextRawRow_gloop (cfg : Cfg) (rowlen : Nat) : ∀ (fuel : Nat) (r : R),
    nextRawRow cfg rowlen fuel r = gloop cfg (bodyRaw rowlen) fuel r := by
  intro fuel
  induction fuel with
  | zero => intro r; rfl
  | succ fuel ih =>
    intro r
    rw [nextRawRow, gloop]
    simp only [bodyRaw]
    by_cases hc : r.ub.currLen < rowlen
    · rw [if_pos hc, if_pos hc]
      cases hcaf : r.sub.caf with
      | true => simp
      | false =>
        simp only [Bool.false_eq_true, if_false, decodeImageData, if_true]
        cases decodeNext' cfg { r with ub := r.ub.compact } with
        | mk r' res =>
          cases res with
          | error e => rfl
          | ok p =>
            obtain ⟨ev, data⟩ := p
            simp only [rawPost]
            cases ev <;> simp only <;> first
              | rfl
              | exact ih _
              | (cases markFlushed { r' with ub := r'.ub.extend data } with
                 | error e => rfl
                 | ok r3 => exact ih r3)
    · rw [if_neg hc, if_neg hc]
      cases r.ub.unfilterCurr rowlen r.bpp <;> rfl

theorem compact_compact (u : UB) : u.compact.compact = u.compact := by
  have h := UB.compact_prevStart u
  generalize u.compact = c at h
  unfold UB.compact
  rw [if_neg (by omega)]

theorem compact_extend_compact (u : UB) (bs : Bytes) : (u.compact.extend bs).compact = u.compact.extend bs := by
  have h := UB.compact_prevStart u
  generalize u.compact = c at h
  unfold UB.compact
  rw [if_neg (by show ¬ (c.extend bs).prevStart > 0; unfold UB.extend; simp only; omega)]

theorem extend_extend (u : UB) (a b : Bytes) : (u.extend a).extend b = u.extend (a ++ b) := by
  unfold UB.extend; simp only [List.append_assoc]

theorem extend_nil (u : UB) : u.extend [] = u := by
  unfold UB.extend; simp only [List.append_nil]

theorem currLen_compact (u : UB) (h : u.Inv) : u.compact.currLen = u.currLen := by
  rw [← UB.abs_currLen, ← UB.abs_currLen, UB.abs_compact u h]

theorem markFlushed_grow (r : R) (v : Nat) :
    markFlushed (growTo r v) = (match markFlushed r with | .error e => .error e | .ok r3 => .ok (growTo r3 v)) := by
  unfold markFlushed
  show (if r.remaining = 0 then _ else _) = _
  split <;> rfl

theorem markFlushed_stream {r r3 : R} (h : markFlushed r = .ok r3) : SameStream r r3 := by
  unfold markFlushed at h
  split at h
  · cases h
  · cases h; exact ⟨rfl, rfl, rfl, rfl⟩

theorem markFlushed_err {r : R} {e : Res} (h : markFlushed r = .error e) : e.isPanic = true := by
  unfold markFlushed at h
  split at h
  · cases h; rfl
  · cases h

theorem rawPost_stream {r2 r'' : R} {ev : Ev} (h : rawPost r2 ev = .inr r'') : SameStream r2 r'' := by
  unfold rawPost at h
  cases ev <;> simp only at h <;> first
    | (simp only [Sum.inr.injEq] at h; subst h; exact SameStream.refl _)
    | (cases h; done)
    | (split at h
       · cases h
       · rename_i r3 hm
         simp only [Sum.inr.injEq] at h; subst h; exact markFlushed_stream hm)

theorem rawPost_ub {r2 r'' : R} {ev : Ev} (h : rawPost r2 ev = .inr r'') : r''.ub = r2.ub := by
  unfold rawPost at h
  cases ev <;> simp only at h <;> first
    | (simp only [Sum.inr.injEq] at h; subst h; rfl)
    | (cases h; done)
    | (split at h
       · cases h
       · rename_i r3 hm
         simp only [Sum.inr.injEq] at h; subst h; exact markFlushed_ub hm)

theorem bodyRaw_ok (rowlen : Nat) : (bodyRaw rowlen).Ok (fun r => r.ub.Inv) where
  inv_prep := fun r h => UB.inv_compact _ h
  inv_post := fun r ev data r'' h hp => by
    have := rawPost_ub hp
    rw [this]; exact UB.inv_extend _ _ h
  inv_stream := fun _ _ h => h
  inv_vis := fun _ _ h => h
  pre_vis := fun r v => by
    simp only [bodyRaw]
    show (if r.ub.currLen < rowlen then (if r.sub.caf = true then _ else _) else _) = _
    split
    · split <;> rfl
    · simp only [Option.map_some]
      show some (match r.ub.unfilterCurr rowlen r.bpp with
        | .ok u => (({ growTo r v with ub := u } : R), Except.ok ())
        | .unknownFilter _ => (growTo r v, _)
        | .panic => (growTo r v, _)) = _
      cases r.ub.unfilterCurr rowlen r.bpp <;> rfl
  prep_vis := fun _ _ => rfl
  post_vis := fun r ev data v => by
    simp only [bodyRaw]
    have : ({ growTo r v with ub := (growTo r v).ub.extend data } : R) = growTo { r with ub := r.ub.extend data } v := rfl
    rw [this]
    generalize ({ r with ub := r.ub.extend data } : R) = r2
    unfold rawPost
    cases ev <;> simp only <;> first
      | rfl
      | (rw [markFlushed_grow]; cases markFlushed r2 <;> rfl)
  prep_stream := fun r => ⟨rfl, rfl, rfl, rfl⟩
  post_stream := fun r ev data r'' h => by
    have := rawPost_stream h
    exact ⟨this.dec, this.pos, this.input, this.visible⟩
  pre_noeof := fun r x w h => by
    simp only [bodyRaw] at h
    split at h
    · split at h
      · simp only [Option.some.injEq] at h; subst h; simp
      · cases h
    · simp only [Option.some.injEq] at h; subst h
      cases r.ub.unfilterCurr rowlen r.bpp <;> simp
  post_noeof := fun r ev data x w h => by
    simp only [bodyRaw, rawPost] at h
    cases ev <;> simp only at h <;> first
      | (simp only [Sum.inl.injEq] at h; subst h; simp; done)
      | (cases h; done)
      | (split at h
         · rename_i e hm
           simp only [Sum.inl.injEq] at h; subst h
           have := markFlushed_err hm
           intro hc; simp only [Except.error.injEq] at hc; rw [hc] at this; cases this
         · cases h)
  prep_idem := fun r => by
    simp only [bodyRaw]; rw [compact_compact]
  pre_prep := fun r hi h => by
    simp only [bodyRaw] at h ⊢
    rw [currLen_compact _ hi]
    split at h
    · rename_i hc
      rw [if_pos hc]
      split at h
      · cases h
      · rename_i hcaf
        rw [if_neg hcaf]
    · cases h
  merge := fun r s1 r'' s2 ev ev2 data data2 hi _ hc _ hp hpre => by
    simp only [bodyRaw] at hp ⊢
    have hr'' : r'' = { withStream ({ r with ub := r.ub.compact } : R) s1 with ub := r.ub.compact.extend data } := by
      rcases hc with ⟨rfl, _⟩ | rfl <;> (simp only [rawPost, Sum.inr.injEq] at hp; exact hp.symm)
    subst hr''
    simp only [withStream]
    rw [compact_extend_compact, extend_extend]

/-! ### the five loops: truncation is resumable -/

theorem fuelOf_ge' (r : R) : M r < fuelOf r := fuelOf_ge r

/-- **`read_until_end_of_input`** (the loop of `finish`) -/
theorem readUntilEndOfInput_resumable (cfg : Cfg) (hI : cfg.InflateOk) (r r1 : R) (w : String) (v : Nat)
    (hpos : PosOk r) (hv : r.visible ≤ v)
    (h : readUntilEndOfInput cfg (fuelOf r) r = (r1, .error (.err .eof w))) :
    ResumeEq (readUntilEndOfInput cfg (fuelOf (growTo r1 v)) (growTo r1 v))
      (readUntilEndOfInput cfg (fuelOf (growTo r v)) (growTo r v)) := by
  rw [readUntilEndOfInput_gloop] at h ⊢
  rw [readUntilEndOfInput_gloop]
  exact gloop_resume cfg hI bodyEnd bodyEnd_ok _ r r1 w hpos trivial h v _ _ hv (fuelOf_ge _) (fuelOf_ge _)

/-- **`finish_decoding_image_data`** (the loop of `finish_decoding`) -/
theorem finishDecodingImageData_resumable (cfg : Cfg) (hI : cfg.InflateOk) (r r1 : R) (w : String) (v : Nat)
    (hpos : PosOk r) (hv : r.visible ≤ v)
    (h : finishDecodingImageData cfg (fuelOf r) r = (r1, .error (.err .eof w))) :
    ResumeEq (finishDecodingImageData cfg (fuelOf (growTo r1 v)) (growTo r1 v))
      (finishDecodingImageData cfg (fuelOf (growTo r v)) (growTo r v)) := by
  rw [finishDecodingImageData_gloop] at h ⊢
  rw [finishDecodingImageData_gloop]
  exact gloop_resume cfg hI bodyFinish bodyFinish_ok _ r r1 w hpos trivial h v _ _ hv (fuelOf_ge _) (fuelOf_ge _)

/-- **`ReadDecoder::read_until_image_data`** (the loop of `Reader::read_until_image_data`) -/
theorem rdReadUntilImageData_resumable (cfg : Cfg) (hI : cfg.InflateOk) (r r1 : R) (w : String) (v : Nat)
    (hpos : PosOk r) (hv : r.visible ≤ v)
    (h : rdReadUntilImageData cfg (fuelOf r) r = (r1, .error (.err .eof w))) :
    ResumeEq (rdReadUntilImageData cfg (fuelOf (growTo r1 v)) (growTo r1 v))
      (rdReadUntilImageData cfg (fuelOf (growTo r v)) (growTo r v)) := by
  rw [rdReadUntilImageData_gloop] at h ⊢
  rw [rdReadUntilImageData_gloop]
  exact gloop_resume cfg hI bodyUntil bodyUntil_ok _ r r1 w hpos trivial h v _ _ hv (fuelOf_ge _) (fuelOf_ge _)

/-- **`read_header_info`** -/
theorem readHeaderInfo_resumable (cfg : Cfg) (hI : cfg.InflateOk) (r r1 : R) (w : String) (v : Nat)
    (hpos : PosOk r) (hv : r.visible ≤ v)
    (h : readHeaderInfo cfg (fuelOf r) r = (r1, .error (.err .eof w))) :
    ResumeEq (readHeaderInfo cfg (fuelOf (growTo r1 v)) (growTo r1 v))
      (readHeaderInfo cfg (fuelOf (growTo r v)) (growTo r v)) := by
  rw [readHeaderInfo_gloop] at h ⊢
  rw [readHeaderInfo_gloop]
  exact gloop_resume cfg hI bodyHeader bodyHeader_ok _ r r1 w hpos trivial h v _ _ hv (fuelOf_ge _) (fuelOf_ge _)

/-- **`next_raw_interlaced_row`** (the loop under `next_row`, `read_row`, `next_frame`): the image data
    that arrived before the input ran out stays in the unfiltering buffer, and the retry continues
    from there -/
theorem nextRawRow_resumable (cfg : Cfg) (hI : cfg.InflateOk) (rowlen : Nat) (r r1 : R) (w : String) (v : Nat)
    (hpos : PosOk r) (hu : r.ub.Inv) (hv : r.visible ≤ v)
    (h : nextRawRow cfg rowlen (fuelOf r) r = (r1, .error (.err .eof w))) :
    ResumeEq (nextRawRow cfg rowlen (fuelOf (growTo r1 v)) (growTo r1 v))
      (nextRawRow cfg rowlen (fuelOf (growTo r v)) (growTo r v)) := by
  rw [nextRawRow_gloop] at h ⊢
  rw [nextRawRow_gloop]
  exact gloop_resume cfg hI (bodyRaw rowlen) (bodyRaw_ok rowlen) _ r r1 w hpos hu h v _ _ hv (fuelOf_ge _) (fuelOf_ge _)

/-! ### public calls -/

/-- two call results are equal, or both calls fail with the same fatal error -/
def OpResumeEq (x y : R × Res) : Prop :=
  x = y ∨ ∃ ra rb e, x = (ra, e) ∧ y = (rb, e) ∧ e.isErr = true ∧ ∀ w, e ≠ .err .eof w

/-- **`finish` is resumable**: a `finish` that ran out of input, called again after more input became
    visible, ends exactly as `finish` on the longer input -/
theorem finish_resumable (cfg : Cfg) (hI : cfg.InflateOk) {t : TCfg} (r r1 : R) (w : String) (v : Nat)
    (hInv : Inv t r) (hfin : r.finished = false) (hv : r.visible ≤ v)
    (h : finish cfg r = (r1, .err .eof w)) :
    OpResumeEq (finish cfg (growTo r1 v)) (finish cfg (growTo r v)) := by
  have hpos : PosOk r := hInv.base.pos
  obtain ⟨hf1, hid⟩ := finish_retry cfg r r1 (.err .eof w) hInv hfin h rfl
  have hwrap : ∀ x : R, x.finished = false → finish cfg x =
      (match readUntilEndOfInput cfg
          (fuelOf { x with remaining := 0, ub := UB.new, sub := { x.sub with cur := none, caf := true } })
          { x with remaining := 0, ub := UB.new, sub := { x.sub with cur := none, caf := true } } with
       | (r', .error e) => (r', e)
       | (r', .ok ()) => ({ r' with finished := true }, .done)) := by
    intro x hx
    unfold finish
    rw [if_neg (by rw [hx]; simp)]
    simp only
    cases readUntilEndOfInput cfg
        (fuelOf { x with remaining := 0, ub := UB.new, sub := { x.sub with cur := none, caf := true } })
        { x with remaining := 0, ub := UB.new, sub := { x.sub with cur := none, caf := true } } with
    | mk r' res => cases res <;> rfl
  rw [hwrap r hfin] at h
  rw [hwrap (growTo r1 v) hf1, hwrap (growTo r v) hfin]
  have hid' : ({ growTo r1 v with remaining := 0, ub := UB.new, sub := { (growTo r1 v).sub with cur := none, caf := true } } : R)
      = growTo r1 v := by
    show growTo { r1 with remaining := 0, ub := UB.new, sub := { r1.sub with cur := none, caf := true } } v = _
    rw [hid]
  rw [hid']
  have hg0 : ({ growTo r v with remaining := 0, ub := UB.new, sub := { (growTo r v).sub with cur := none, caf := true } } : R)
      = growTo { r with remaining := 0, ub := UB.new, sub := { r.sub with cur := none, caf := true } } v := rfl
  rw [hg0]
  have hB0 : Base (growTo { r with remaining := 0, ub := UB.new, sub := { r.sub with cur := none, caf := true } } v) :=
    hInv.base.congr rfl rfl rfl (by show min r.visible r.input.length ≤ min v r.input.length; omega)
  generalize hr0 : ({ r with remaining := 0, ub := UB.new, sub := { r.sub with cur := none, caf := true } } : R) = r0 at h hB0
  have hpos0 : PosOk r0 := by subst hr0; exact hpos
  have hv0 : r0.visible ≤ v := by subst hr0; exact hv
  have hloop : readUntilEndOfInput cfg (fuelOf r0) r0 = (r1, .error (.err .eof w)) := by
    generalize readUntilEndOfInput cfg (fuelOf r0) r0 = out at h
    obtain ⟨r', res⟩ := out
    cases res with
    | error e => simp only [Prod.mk.injEq] at h; rw [h.1, h.2]
    | ok u => simp only [Prod.mk.injEq] at h; cases h.2
  rcases readUntilEndOfInput_resumable cfg hI r0 r1 w v hpos0 hv0 hloop with heq | ⟨ra, rb, e, h1, h2, h3⟩
  · rw [heq]; exact Or.inl rfl
  · rw [h1, h2]
    refine Or.inr ⟨ra, rb, e, rfl, rfl, ?_, h3⟩
    have hsp := readUntilEndOfInput_spec cfg _ _ (fuelOf_ge (growTo r0 v)) hB0
    rw [h2] at hsp
    exact hsp.1

/-- `next_interlaced_row_impl` as a function of the result of `next_raw_interlaced_row` -/
def rowImplPost (t : TCfg) (rowlen outLen : Nat) (out : R × Except Res Unit) : R × Except Res Bytes :=
  match out with
  | (r', .error e) => (r', .error e)
  | (r', .ok ()) =>
    if r'.ub.prevRow.length ≠ rowlen - 1 then (r', .error (.panic "assert_eq!(row.len(), rowlen - 1) (mod.rs:576)")) else
    match infoOf r' with
    | none => (r', .error (.panic "info().unwrap()"))
    | some i =>
      match getTransform t r' i with
      | .error e => (r', .error e)
      | .ok (r2, snap) =>
        match t.apply snap r2.flags i r'.ub.prevRow outLen with
        | none => (r2, .error (.panic "transform_fn (transform.rs / palette.rs)"))
        | some o => ({ r2 with sub := r2.sub.advance }, .ok o)

theorem nextRowImpl_post (cfg : Cfg) (t : TCfg) (r : R) (rowlen outLen : Nat) :
    nextRowImpl cfg t r rowlen outLen = rowImplPost t rowlen outLen (nextRawRow cfg rowlen (fuelOf r) r) := by
  unfold nextRowImpl rowImplPost
  cases nextRawRow cfg rowlen (fuelOf r) r with
  | mk r' res =>
    cases res with
    | error e => rfl
    | ok u => rfl

/-- **`next_interlaced_row_impl` is resumable** -/
theorem nextRowImpl_resumable (cfg : Cfg) (hI : cfg.InflateOk) (t : TCfg) (r r1 : R) (rowlen outLen : Nat) (w : String)
    (v : Nat) (hpos : PosOk r) (hu : r.ub.Inv) (hv : r.visible ≤ v)
    (h : nextRowImpl cfg t r rowlen outLen = (r1, .error (.err .eof w))) :
    ResumeEq (nextRowImpl cfg t (growTo r1 v) rowlen outLen) (nextRowImpl cfg t (growTo r v) rowlen outLen) := by
  have hloop := nextRowImpl_eof cfg t r r1 rowlen outLen w h
  rw [nextRowImpl_post, nextRowImpl_post]
  rcases nextRawRow_resumable cfg hI rowlen r r1 w v hpos hu hv hloop with heq | ⟨ra, rb, e, h1, h2, h3⟩
  · rw [heq]; exact Or.inl rfl
  · rw [h1, h2]; exact Or.inr ⟨ra, rb, e, rfl, rfl, h3⟩

/-- **`read_row` is resumable**: a `read_row` that ran out of input, called again after more input
    became visible, returns exactly what `read_row` returns on the longer input (the same row, the
    same reader state) — unless both fail with the same fatal error -/
theorem readRow_resumable (cfg : Cfg) (hI : cfg.InflateOk) {t : TCfg} (ht : t.Ok) (r r1 : R) (bufLen : Nat) (i : Info)
    (w : String) (v : Nat) (hInv : Inv t r) (hi : r.dec.info = some i)
    (hbuf : outLineSize t i r.flags r.sub.width ≤ bufLen) (hv : r.visible ≤ v)
    (h : readRow cfg t r bufLen = (r1, .err .eof w)) :
    OpResumeEq (readRow cfg t (growTo r1 v) bufLen) (readRow cfg t (growTo r v) bufLen) := by
  have hpos : PosOk r := hInv.base.pos
  have hsp := readRow_spec cfg ht r bufLen i hInv hi hbuf
  rw [h] at hsp
  obtain ⟨_, hK, _, hrr⟩ := hsp
  have hs1 : r1.sub = { r.sub with caf := r1.sub.caf } := hrr
  cases hcur : r.sub.cur with
  | none =>
    -- `finish_decoding`
    have hcur1 : r1.sub.cur = none := by rw [hs1]; exact hcur
    have hrd : ∀ x : R, x.sub.cur = none → readRow cfg t x bufLen =
        (match finishDecoding cfg x with
         | (r', .error e) => (r', e)
         | (r', .ok ()) => (r', .noRow)) := by
      intro x hx; unfold readRow; rw [hx]; simp only
      cases finishDecoding cfg x with
      | mk r' res => cases res <;> rfl
    rw [hrd r hcur] at h
    rw [hrd (growTo r1 v) hcur1, hrd (growTo r v) hcur]
    have hfd : ∀ x : R, x.sub.cur = none → x.sub.caf = false → finishDecoding cfg x =
        (match finishDecodingImageData cfg (fuelOf x) x with
         | (r', .error e) => (r', .error e)
         | (r', .ok ()) =>
           match markFlushed r' with
           | .error e => (r', .error e)
           | .ok r2 => (r2, .ok ())) := by
      intro x hx hc; unfold finishDecoding; rw [hx, hc]
      simp only [Option.isSome_none, Bool.false_eq_true, if_false]
      cases finishDecodingImageData cfg (fuelOf x) x with
      | mk r' res =>
        cases res with
        | error e => rfl
        | ok u => simp only; cases markFlushed r' <;> rfl
    cases hcaf : r.sub.caf with
    | true =>
      exfalso
      unfold finishDecoding at h
      rw [hcur, hcaf] at h
      simp only [Option.isSome_none, Bool.false_eq_true, if_false, if_true] at h
      cases h
    | false =>
      rw [hfd r hcur hcaf] at h
      have hloop : finishDecodingImageData cfg (fuelOf r) r = (r1, .error (.err .eof w)) := by
        generalize finishDecodingImageData cfg (fuelOf r) r = out at h
        obtain ⟨r', res⟩ := out
        cases res with
        | error e => simp only [Prod.mk.injEq] at h; rw [h.1, h.2]
        | ok u =>
          exfalso
          simp only at h
          cases hm : markFlushed r' with
          | error e =>
            rw [hm] at h; simp only [Prod.mk.injEq] at h
            have := markFlushed_err hm; rw [h.2] at this; cases this
          | ok r2 => rw [hm] at h; cases h
      have hcaf1 : r1.sub.caf = false := by
        have hsp := finishDecodingImageData_spec cfg (fuelOf r) r (fuelOf_ge r) hInv.base (hInv.live hcaf).2 hInv.ub
        rw [hloop] at hsp
        obtain ⟨f1, _⟩ := hsp.2.1.frame.fields
        rw [f1]; exact hcaf
      rw [hfd (growTo r1 v) hcur1 hcaf1, hfd (growTo r v) hcur hcaf]
      rcases finishDecodingImageData_resumable cfg hI r r1 w v hpos hv hloop with heq | ⟨ra, rb, e, h1, h2, h3⟩
      · rw [heq]; exact Or.inl rfl
      · rw [h1, h2]
        refine Or.inr ⟨ra, rb, e, rfl, rfl, ?_, h3⟩
        have hB : Base (growTo r v) := hInv.base.congr rfl rfl rfl (by show min r.visible r.input.length ≤ min v r.input.length; omega)
        have hsp := finishDecodingImageData_spec cfg _ _ (fuelOf_ge (growTo r v)) hB (hInv.live hcaf).2 hInv.ub
        rw [h2] at hsp
        exact hsp.1
  | some ii =>
    obtain ⟨hcur1, hid⟩ := readRow_retry cfg ht r r1 bufLen i ii w hInv hi hbuf hcur h
    rw [readRow_some cfg t r bufLen ii hcur] at h
    rw [readRow_some cfg t (growTo r1 v) bufLen ii hcur1, readRow_some cfg t (growTo r v) bufLen ii hcur]
    have hid' : (if ii.line = 0 then { growTo r1 v with ub := (growTo r1 v).ub.resetPrev } else growTo r1 v) = growTo r1 v := by
      have : (if ii.line = 0 then { growTo r1 v with ub := (growTo r1 v).ub.resetPrev } else growTo r1 v) =
          growTo (if ii.line = 0 then { r1 with ub := r1.ub.resetPrev } else r1) v := by split <;> rfl
      rw [this, hid]
    have hg0 : (if ii.line = 0 then { growTo r v with ub := (growTo r v).ub.resetPrev } else growTo r v) =
        growTo (if ii.line = 0 then { r with ub := r.ub.resetPrev } else r) v := by split <;> rfl
    rw [hid', hg0]
    generalize hr0 : (if ii.line = 0 then { r with ub := r.ub.resetPrev } else r) = r0 at h
    have hK0 : r0.dec.info = some i ∧ r0.flags = r.flags ∧ r0.sub = r.sub ∧ PosOk r0 ∧ r0.ub.Inv ∧ r0.visible ≤ v := by
      subst hr0; split
      · exact ⟨hi, rfl, rfl, hpos, UB.inv_resetPrev _ hInv.ub, hv⟩
      · exact ⟨hi, rfl, rfl, hpos, hInv.ub, hv⟩
    obtain ⟨hi0, hf0, hs0, hpos0, hu0, hv0⟩ := hK0
    have hi1 : (growTo r1 v).dec.info = some i := hK.info.trans hi
    have hig : (growTo r0 v).dec.info = some i := hi0
    simp only [infoOf, hi0] at h
    simp only [infoOf, hi1, hig]
    have hls : lineSizeFor t (growTo r1 v) i ii = lineSizeFor t r0 i ii := by
      rw [lineSizeFor_eq, lineSizeFor_eq]
      show outLineSize t i r1.flags (widthOf r1.sub ii) = _
      rw [hK.flags, hf0, hs1, hs0]
      cases ii <;> rfl
    have hlsg : lineSizeFor t (growTo r0 v) i ii = lineSizeFor t r0 i ii := rfl
    have hrl : rowlenOf i.color i.depth (growTo r1 v).sub ii = rowlenOf i.color i.depth r0.sub ii := by
      show rowlenOf i.color i.depth r1.sub ii = _
      rw [hs1, hs0]; cases ii <;> rfl
    have hrlg : rowlenOf i.color i.depth (growTo r0 v).sub ii = rowlenOf i.color i.depth r0.sub ii := rfl
    rw [hls, hlsg, hrl, hrlg]
    by_cases hb : bufLen < lineSizeFor t r0 i ii
    · rw [if_pos hb] at h; cases h
    · rw [if_neg hb] at h
      rw [if_neg hb, if_neg hb]
      have himpl : nextRowImpl cfg t r0 (rowlenOf i.color i.depth r0.sub ii) (lineSizeFor t r0 i ii) =
          (r1, .error (.err .eof w)) := by
        generalize nextRowImpl cfg t r0 (rowlenOf i.color i.depth r0.sub ii) (lineSizeFor t r0 i ii) = out at h
        obtain ⟨r', res⟩ := out
        cases res with
        | error e => simp only [Prod.mk.injEq] at h; rw [h.1, h.2]
        | ok o => cases h
      rcases nextRowImpl_resumable cfg hI t r0 r1 _ _ w v hpos0 hu0 hv0 himpl with heq | ⟨ra, rb, e, h1, h2, h3⟩
      · rw [heq]; exact Or.inl rfl
      · rw [h1, h2]
        refine Or.inr ⟨ra, rb, e, rfl, rfl, ?_, h3⟩
        -- the error of the retry is an error result (`nextRowImpl_spec` on the state the failed call left)
        have hInv1 : Inv t (growTo r1 v) := by
          have := (readRow_spec cfg ht r bufLen i hInv hi hbuf)
          rw [readRow_some cfg t r bufLen ii hcur] at this
          exact (by assumption : Inv t r1).setVisible v (by rw [hK.visible]; omega)
        have hp1 : (growTo r1 v).ub.prevRow = [] ∨
            (growTo r1 v).ub.prevRow.length + 1 = rowlenOf i.color i.depth (growTo r1 v).sub ii := by
          show r1.ub.prevRow = [] ∨ r1.ub.prevRow.length + 1 = rowlenOf i.color i.depth r1.sub ii
          by_cases hl : ii.line = 0
          · left
            rw [if_pos hl] at hid
            have : r1.ub.resetPrev = r1.ub := congrArg R.ub hid
            rw [← this]; exact prevRow_resetPrev _
          · obtain ⟨j, hj, hg⟩ := (by assumption : Inv t r1).info
            have hji : j = i := by
              have := hK.info.trans hi; rw [hj] at this; exact (Option.some.inj this)
            subst hji
            have hpv := hg.prev
            unfold PrevOk at hpv
            rw [hcur1] at hpv
            cases ii with
            | null l => exact hpv
            | adam7 p l w' => exact hpv hl
        have hspec := nextRowImpl_spec cfg ht (growTo r1 v) i ii hInv1 hi1 hcur1 hp1
        rw [← lineSizeFor_eq, hls, hrl, h1] at hspec
        exact hspec.1

/-! ### `next_row` / `next_interlaced_row` -/

/-- a projection of the reader that a loop body and `decode_next` leave alone is left alone by the loop -/
theorem gloop_preserve {α β : Type} (cfg : Cfg) (B : Body α) (π : R → β)
    (hpre : ∀ r x, B.pre r = some x → π x.1 = π r) (hprep : ∀ r, π (B.prep r) = π r)
    (hdec : ∀ r, π (decodeNext' cfg r).1 = π r)
    (hpost : ∀ r ev data, match B.post r ev data with
      | .inl x => π x.1 = π r
      | .inr r'' => π r'' = π r) :
    ∀ (fuel : Nat) (r : R), π (gloop cfg B fuel r).1 = π r := by
  intro fuel
  induction fuel with
  | zero => intro r; rfl
  | succ fuel ih =>
    intro r
    rw [gloop]
    cases hp : B.pre r with
    | some x => exact hpre r x hp
    | none =>
      simp only
      have h1 := hdec (B.prep r)
      cases hd : decodeNext' cfg (B.prep r) with
      | mk r' res =>
        rw [hd] at h1; simp only at h1
        cases res with
        | error e => simp only; rw [h1, hprep]
        | ok p =>
          obtain ⟨ev, data⟩ := p
          simp only
          have h2 := hpost r' ev data
          cases hpo : B.post r' ev data with
          | inl x => rw [hpo] at h2; simp only at h2 ⊢; rw [h2, h1, hprep]
          | inr r'' => rw [hpo] at h2; simp only at h2 ⊢; rw [ih r'', h2, h1, hprep]

theorem decodeNext'_scratch (cfg : Cfg) (r : R) : (decodeNext' cfg r).1.scratchLen = r.scratchLen := by
  rw [decodeNext'_withStream]; rfl

theorem markFlushed_scratch {r r3 : R} (h : markFlushed r = .ok r3) : r3.scratchLen = r.scratchLen := by
  unfold markFlushed at h
  split at h
  · cases h
  · cases h; rfl

theorem nextRawRow_scratch (cfg : Cfg) (rowlen fuel : Nat) (r : R) :
    (nextRawRow cfg rowlen fuel r).1.scratchLen = r.scratchLen := by
  rw [nextRawRow_gloop]
  apply gloop_preserve cfg (bodyRaw rowlen) (fun r => r.scratchLen)
  · intro r x h
    simp only [bodyRaw] at h
    split at h
    · split at h
      · simp only [Option.some.injEq] at h; subst h; rfl
      · cases h
    · simp only [Option.some.injEq] at h; subst h
      cases r.ub.unfilterCurr rowlen r.bpp <;> rfl
  · intro r; rfl
  · exact decodeNext'_scratch cfg
  · intro r ev data
    simp only [bodyRaw, rawPost]
    cases ev <;> simp only <;> first
      | rfl
      | (cases hm : markFlushed { r with ub := r.ub.extend data } with
         | error e => rfl
         | ok r3 => exact (markFlushed_scratch hm).trans rfl)

theorem finishDecodingImageData_scratch (cfg : Cfg) (fuel : Nat) (r : R) :
    (finishDecodingImageData cfg fuel r).1.scratchLen = r.scratchLen := by
  rw [finishDecodingImageData_gloop]
  apply gloop_preserve cfg bodyFinish (fun r => r.scratchLen)
  · intro r x h; cases h
  · intro r; rfl
  · exact decodeNext'_scratch cfg
  · intro r ev data
    simp only [bodyFinish]
    cases ev <;> rfl

theorem nextRowImpl_scratch (cfg : Cfg) (t : TCfg) (r : R) (rowlen outLen : Nat) :
    (nextRowImpl cfg t r rowlen outLen).1.scratchLen = r.scratchLen := by
  rw [nextRowImpl_post]
  have h := nextRawRow_scratch cfg rowlen (fuelOf r) r
  generalize nextRawRow cfg rowlen (fuelOf r) r = out at h
  obtain ⟨r', res⟩ := out
  simp only at h
  unfold rowImplPost
  cases res with
  | error e => exact h
  | ok u =>
    simp only
    split
    · exact h
    · cases infoOf r' with
      | none => exact h
      | some i =>
        simp only
        cases hg : getTransform t r' i with
        | error e => exact h
        | ok p =>
          obtain ⟨r2, snap⟩ := p
          obtain ⟨c, hc⟩ := getTransform_cached t r' i r2 snap hg
          subst hc
          simp only
          split <;> exact h

theorem finishDecoding_scratch (cfg : Cfg) (r : R) : (finishDecoding cfg r).1.scratchLen = r.scratchLen := by
  unfold finishDecoding
  split
  · rfl
  · split
    · rfl
    · have h := finishDecodingImageData_scratch cfg (fuelOf r) r
      generalize finishDecodingImageData cfg (fuelOf r) r = out at h
      obtain ⟨r', res⟩ := out
      cases res with
      | error e => exact h
      | ok u =>
        simp only at h ⊢
        cases hm : markFlushed r' with
        | error e => exact h
        | ok r2 => simp only; rw [markFlushed_scratch hm]; exact h

theorem readRow_scratch (cfg : Cfg) (t : TCfg) (r : R) (bufLen : Nat) :
    (readRow cfg t r bufLen).1.scratchLen = r.scratchLen := by
  cases hcur : r.sub.cur with
  | none =>
    unfold readRow
    rw [hcur]
    simp only
    have h := finishDecoding_scratch cfg r
    generalize finishDecoding cfg r = out at h
    obtain ⟨r', res⟩ := out
    cases res <;> exact h
  | some ii =>
    rw [readRow_some cfg t r bufLen ii hcur]
    generalize hr0 : (if ii.line = 0 then { r with ub := r.ub.resetPrev } else r) = r0
    have h0 : r0.scratchLen = r.scratchLen := by subst hr0; split <;> rfl
    cases infoOf r0 with
    | none => exact h0
    | some i =>
      simp only
      split
      · exact h0
      · have h := nextRowImpl_scratch cfg t r0 (rowlenOf i.color i.depth r0.sub ii) (lineSizeFor t r0 i ii)
        generalize nextRowImpl cfg t r0 (rowlenOf i.color i.depth r0.sub ii) (lineSizeFor t r0 i ii) = out at h
        obtain ⟨r', res⟩ := out
        cases res <;> exact h.trans h0

/-- **`next_row` / `next_interlaced_row` is resumable**: a call that ran out of input, repeated after
    more input became visible, returns exactly what the call returns on the longer input — the same
    row (or `None`) and the same reader state — unless both fail with the same fatal error -/
theorem nextInterlacedRow_resumable (cfg : Cfg) (hI : cfg.InflateOk) {t : TCfg} (ht : t.Ok) (r r1 : R) (i : Info)
    (w : String) (v : Nat) (hInv : Inv t r) (hi : r.dec.info = some i) (hv : r.visible ≤ v)
    (h : nextInterlacedRow cfg t r = (r1, .err .eof w)) :
    OpResumeEq (nextInterlacedRow cfg t (growTo r1 v)) (nextInterlacedRow cfg t (growTo r v)) := by
  have hsp := nextInterlacedRow_spec cfg ht r i hInv hi
  rw [h] at hsp
  obtain ⟨_, hK, _, hrr⟩ := hsp
  have hs1 : r1.sub = { r.sub with caf := r1.sub.caf } := hrr
  unfold nextInterlacedRow at h ⊢
  have hi1 : (growTo r1 v).dec.info = some i := hK.info.trans hi
  have hig : (growTo r v).dec.info = some i := hi
  simp only [infoOf, hi] at h
  simp only [infoOf, hi1, hig]
  have hn : outLineSize t i (growTo r1 v).flags (growTo r1 v).sub.width = outLineSize t i r.flags r.sub.width := by
    show outLineSize t i r1.flags r1.sub.width = _
    rw [hK.flags, hs1]
  have hng : outLineSize t i (growTo r v).flags (growTo r v).sub.width = outLineSize t i r.flags r.sub.width := rfl
  rw [hn, hng]
  have hsc : r1.scratchLen = outLineSize t i r.flags r.sub.width := by
    have := readRow_scratch cfg t { r with scratchLen := outLineSize t i r.flags r.sub.width }
      (outLineSize t i r.flags r.sub.width)
    rw [h] at this
    exact this
  have e1 : ({ growTo r1 v with scratchLen := outLineSize t i r.flags r.sub.width } : R) = growTo r1 v := by
    rw [← hsc]; rfl
  have e2 : ({ growTo r v with scratchLen := outLineSize t i r.flags r.sub.width } : R) =
      growTo { r with scratchLen := outLineSize t i r.flags r.sub.width } v := rfl
  rw [e1, e2]
  exact readRow_resumable cfg hI ht { r with scratchLen := outLineSize t i r.flags r.sub.width } r1 _ i w v
    (hInv.setScratch _) hi (Nat.le_refl _) hv h

/-! ### `Decoder::read_header_info` -/

theorem readHeaderInfo_flags (cfg : Cfg) (fuel : Nat) (r : R) :
    ((readHeaderInfo cfg fuel r).1.isReader, (readHeaderInfo cfg fuel r).1.dead) = (r.isReader, r.dead) := by
  rw [readHeaderInfo_gloop]
  apply gloop_preserve cfg bodyHeader (fun r => (r.isReader, r.dead))
  · intro r x h
    simp only [bodyHeader] at h
    split at h
    · simp only [Option.some.injEq] at h; subst h; rfl
    · cases h
  · intro r; rfl
  · intro r; rw [decodeNext'_withStream]; rfl
  · intro r ev data
    simp only [bodyHeader]
    cases hd : data.isEmpty with
    | false => rfl
    | true => simp only [if_true]; cases ev <;> rfl

/-- **`Decoder::read_header_info` is resumable** (as a call of the model, `Op.readHeader`) -/
theorem readHeader_resumable (cfg : Cfg) (hI : cfg.InflateOk) (t : TCfg) (r r1 : R) (w : String) (v : Nat)
    (hpos : PosOk r) (hv : r.visible ≤ v) (h : step cfg t r .readHeader = (r1, .err .eof w)) :
    step cfg t (growTo r1 v) .readHeader = step cfg t (growTo r v) .readHeader ∨
    ∃ ra rb e, step cfg t (growTo r1 v) .readHeader = (ra, e) ∧ step cfg t (growTo r v) .readHeader = (rb, e) ∧
      ∀ w, e ≠ .err .eof w := by
  simp only [step] at h ⊢
  by_cases hc : r.isReader = true ∨ r.dead = true
  · rw [if_pos hc] at h; cases h
  · rw [if_neg hc] at h
    have hloop : readHeaderInfo cfg (fuelOf r) r = (r1, .error (.err .eof w)) := by
      generalize readHeaderInfo cfg (fuelOf r) r = out at h
      obtain ⟨r', res⟩ := out
      cases res with
      | error e => simp only [Prod.mk.injEq] at h; rw [h.1, h.2]
      | ok u => cases h
    have hfl := readHeaderInfo_flags cfg (fuelOf r) r
    rw [hloop] at hfl
    simp only [Prod.mk.injEq] at hfl
    have hc1 : ¬ ((growTo r1 v).isReader = true ∨ (growTo r1 v).dead = true) := by
      show ¬ (r1.isReader = true ∨ r1.dead = true); rw [hfl.1, hfl.2]; exact hc
    have hcg : ¬ ((growTo r v).isReader = true ∨ (growTo r v).dead = true) := hc
    rw [if_neg hc1, if_neg hcg]
    rcases readHeaderInfo_resumable cfg hI r r1 w v hpos hv hloop with heq | ⟨ra, rb, e, h1, h2, h3⟩
    · rw [heq]; exact Or.inl rfl
    · rw [h1, h2]; exact Or.inr ⟨ra, rb, e, rfl, rfl, h3⟩

/-! ### `next_frame_info` -/

/-- a loop that has no exit of its own (`pre` never fires) and never stops successfully at `Nothing` /
    `ImageData`: if it succeeded on the visible prefix, it succeeds in exactly the same way when
    more input is visible -/
theorem gloop_stable {α : Type} (cfg : Cfg) (hI : cfg.InflateOk) (B : Body α) {I : R → Prop} (hB : B.Ok I)
    (hnopre : ∀ r, B.pre r = none)
    (hcont : ∀ r ev data x a, ((ev = .nothing ∧ data = []) ∨ ev = .imageData) → B.post r ev data = .inl x → x.2 ≠ .ok a) :
    ∀ (f : Nat) (r r1 : R) (a : α), PosOk r → I r → gloop cfg B f r = (r1, .ok a) →
    ∀ (v f' : Nat), r.visible ≤ v → M (growTo r v) < f' → gloop cfg B f' (growTo r v) = (growTo r1 v, .ok a) := by
  intro f
  induction f with
  | zero => intro r r1 a _ _ h; simp only [gloop, Prod.mk.injEq] at h; cases h.2
  | succ f ih =>
    intro r r1 a hpos hinv h v f' hv hf'
    rw [gloop_succ cfg B f r (hnopre r)] at h
    obtain ⟨f'', rfl⟩ : ∃ k, f' = k + 1 := ⟨f' - 1, by omega⟩
    rw [gloop_succ cfg B f'' _ (hnopre _), hB.prep_vis]
    have hsp := hB.prep_stream r
    have hposp : PosOk (B.prep r) := hsp.posOk hpos
    have hvp : (B.prep r).visible ≤ v := by rw [hsp.visible]; exact hv
    have hMg : M (growTo (B.prep r) v) = M (growTo r v) := (hsp.grow v).M
    cases hd : decodeNext' cfg (B.prep r) with
    | mk r' res =>
      rw [hd] at h
      cases res with
      | error e => simp only [Prod.mk.injEq] at h; cases h.2
      | ok p =>
        obtain ⟨ev, data⟩ := p
        simp only at h
        have hr' : r' = withStream (B.prep r) r' := by
          have := decodeNext'_withStream cfg (B.prep r); rw [hd] at this; exact this
        have hposr' : PosOk r' := by
          have := decodeNext'_posOk cfg (B.prep r) hposp; rw [hd] at this; exact this
        have hinv' : I r' := by rw [hr']; exact hB.inv_stream _ _ (hB.inv_prep r hinv)
        have hgr := decodeNext'_grow cfg hI (B.prep r) v hvp hposp
        unfold GrowRel at hgr
        rw [hd] at hgr
        simp only at hgr
        rcases hgr with hsame | ⟨hav, hc, _⟩
        · rw [hsame]
          simp only
          rw [hB.post_vis]
          cases hp : B.post r' ev data with
          | inl x =>
            rw [hp] at h; simp only at h ⊢
            rw [h]
          | inr r'' =>
            rw [hp] at h; simp only at h ⊢
            have hss := hB.post_stream r' ev data r'' hp
            have hM1 : M (growTo r'' v) < M (growTo r v) := by
              rw [(hss.grow v).M, ← hMg]
              exact decodeNext'_M cfg hsame
            exact ih r'' r1 a (hss.posOk hposr') (hB.inv_post r' ev data r'' hinv' hp) h v f''
              (by rw [hss.visible, hr']; exact hvp) (by omega)
        · -- everything visible was consumed with `Nothing`/`ImageData`: the loop cannot have succeeded
          exfalso
          cases hp : B.post r' ev data with
          | inl x =>
            rw [hp] at h; simp only at h
            exact hcont r' ev data x a hc hp (by rw [h])
          | inr r'' =>
            rw [hp] at h; simp only at h
            have hss := hB.post_stream r' ev data r'' hp
            cases f with
            | zero => simp only [gloop, Prod.mk.injEq] at h; cases h.2
            | succ f =>
              rw [gloop_succ cfg B f r'' (hnopre r'')] at h
              have hav2 : avail (B.prep r'') = [] := by rw [(hB.prep_stream r'').avail, hss.avail]; exact hav
              rw [eof_no_state_change cfg _ hav2] at h
              simp only [Prod.mk.injEq] at h
              cases h.2

/-- `Reader::read_until_image_data` as a function of the result of its loop (reservation first, then
    `bpp_in_prediction`, then the installation of the new sub-frame; a refusal ends the reader) -/
def untilPost (t : TCfg) (out : R × Except Res Unit) : R × Except Res Unit :=
  match out with
  | (r', .error e) => (r', .error e)
  | (r', .ok ()) =>
    match infoOf r' with
    | none => (r', .error (.panic "info().unwrap()"))
    | some i =>
      match reserveBytes r' (outLineSize t i r'.flags (Sub.new i).width) with
      | .error e => ({ r' with sub := { r'.sub with cur := none, caf := true }, remaining := 0 }, .error e)
      | .ok r3 =>
        match bppFromUsize (bytesPerPixel i.color i.depth) with
        | none => (r3, .error (.panic "unreachable!(bpp) (common.rs:846)"))
        | some bpp => ({ r3 with sub := Sub.new i, bpp := bpp, ub := UB.new }, .ok ())

theorem readUntilImageData_post (cfg : Cfg) (t : TCfg) (x : R) :
    readUntilImageData cfg t x = untilPost t (rdReadUntilImageData cfg (fuelOf x) x) := by
  unfold readUntilImageData untilPost
  cases rdReadUntilImageData cfg (fuelOf x) x with
  | mk r' res =>
    cases res with
    | error e => rfl
    | ok u => rfl

theorem untilPost_eof {t : TCfg} {out : R × Except Res Unit} {r1 : R} {w : String}
    (h : untilPost t out = (r1, .error (.err .eof w))) : out = (r1, .error (.err .eof w)) := by
  unfold untilPost at h
  obtain ⟨r', res⟩ := out
  cases res with
  | error e => exact h
  | ok u =>
    exfalso
    simp only at h
    cases hi : infoOf r' with
    | none => rw [hi] at h; cases h
    | some i =>
      rw [hi] at h; simp only at h
      rcases reserveBytes_cases r' (outLineSize t i r'.flags (Sub.new i).width) with hr | hr
      · rw [hr] at h; cases h
      · rw [hr] at h; simp only at h
        cases hb : bppFromUsize (bytesPerPixel i.color i.depth) with
        | none => rw [hb] at h; cases h
        | some bpp => rw [hb] at h; cases h

/-- the part of `next_frame_info` after the current frame was skipped (mod.rs:350-355) -/
def nfiTail (cfg : Cfg) (t : TCfg) (x : R) : R × Res :=
  match readUntilImageData cfg t x with
  | (r2, .error e) => (r2, e)
  | (r2, .ok ()) =>
    match infoOf r2 >>= (·.fctl) with
    | some fc => (r2, .frameInfo fc)
    | none => (r2, .panic "frame_control.as_ref().unwrap() (mod.rs:352)")

/-- the advance to the next frame is resumable -/
theorem nfiTail_resumable (cfg : Cfg) (hI : cfg.InflateOk) {t : TCfg} (x r1 : R) (w : String) (v : Nat) (hInv : Inv t x)
    (hcaf : x.sub.caf = true) (hrem : x.remaining ≠ 0) (hv : x.visible ≤ v) (h : nfiTail cfg t x = (r1, .err .eof w)) :
    OpResumeEq (nfiTail cfg t (growTo r1 v)) (nfiTail cfg t (growTo x v)) ∧ r1.sub = x.sub ∧ r1.remaining = x.remaining := by
  have hru : readUntilImageData cfg t x = (r1, .error (.err .eof w)) := by
    unfold nfiTail at h
    generalize readUntilImageData cfg t x = out at h
    obtain ⟨r2, res⟩ := out
    cases res with
    | error e => simp only [Prod.mk.injEq] at h; rw [h.1, h.2]
    | ok u => simp only at h; split at h <;> cases h
  have hfl := (hInv.flushed hcaf).resolve_left hrem
  have hsp0 := readUntilImageData_spec cfg t x hInv.base hfl.2
  rw [hru] at hsp0
  have hfields : r1.sub = x.sub ∧ r1.remaining = x.remaining := by
    rcases hsp0.2 with ⟨a2, _⟩ | ⟨_, a3⟩
    · obtain ⟨f1, _, f3, _⟩ := a2.frame.fields
      exact ⟨f1, f3⟩
    · cases a3
  refine ⟨?_, hfields⟩
  have hloop := untilPost_eof (by rw [← readUntilImageData_post]; exact hru)
  unfold nfiTail
  rw [readUntilImageData_post, readUntilImageData_post]
  rcases rdReadUntilImageData_resumable cfg hI x r1 w v hInv.base.pos hv hloop with heq | ⟨ra, rb, e, h1, h2, h3⟩
  · rw [heq]; exact Or.inl rfl
  · rw [h1, h2]
    refine Or.inr ⟨ra, rb, e, rfl, rfl, ?_, h3⟩
    have hBg : Base (growTo x v) := hInv.base.congr rfl rfl rfl (by show min x.visible x.input.length ≤ min v x.input.length; omega)
    have hsp := rdReadUntilImageData_spec cfg (fuelOf (growTo x v)) (growTo x v) (fuelOf_ge _) hBg hfl.2
    rw [h2] at hsp
    exact hsp.1

theorem nextFrameInfo_caf (cfg : Cfg) (t : TCfg) (x : R) (hcaf : x.sub.caf = true) (hrem : x.remaining ≠ 0) :
    nextFrameInfo cfg t x = nfiTail cfg t x := by
  unfold nextFrameInfo nfiTail
  rw [hcaf]
  simp only [if_true, Bool.not_true, Bool.false_eq_true, if_false]
  cases hr : x.remaining with
  | zero => exact absurd hr hrem
  | succ n =>
    cases readUntilImageData cfg t x with
    | mk r2 res =>
      cases res with
      | error e => rfl
      | ok u => simp only; cases (infoOf r2 >>= (·.fctl)) <;> rfl

theorem nextFrameInfo_ncaf (cfg : Cfg) (t : TCfg) (x : R) (hcaf : x.sub.caf = false) (hrem : x.remaining - 1 ≠ 0) :
    nextFrameInfo cfg t x =
      (match finishDecoding cfg { x with sub := { x.sub with cur := none } } with
       | (r1, .error e) => (r1, e)
       | (r1, .ok ()) => nfiTail cfg t r1) := by
  unfold nextFrameInfo nfiTail
  rw [hcaf]
  simp only [Bool.false_eq_true, if_false, Bool.not_false, if_true]
  cases hr : x.remaining - 1 with
  | zero => exact absurd hr hrem
  | succ n =>
    cases finishDecoding cfg { x with sub := { x.sub with cur := none } } with
    | mk r1 res =>
      cases res with
      | error e => rfl
      | ok u =>
        simp only
        cases readUntilImageData cfg t r1 with
        | mk r2 res2 =>
          cases res2 with
          | error e => rfl
          | ok u => simp only; cases (infoOf r2 >>= (·.fctl)) <;> rfl

/-- `finish_decoding` of a frame that is not yet flushed, as a function of the result of its loop -/
def finishPost (out : R × Except Res Unit) : R × Except Res Unit :=
  match out with
  | (r', .error e) => (r', .error e)
  | (r', .ok ()) =>
    match markFlushed r' with
    | .error e => (r', .error e)
    | .ok r2 => (r2, .ok ())

theorem finishDecoding_post (cfg : Cfg) (x : R) (hx : x.sub.cur = none) (hc : x.sub.caf = false) :
    finishDecoding cfg x = finishPost (finishDecodingImageData cfg (fuelOf x) x) := by
  unfold finishDecoding finishPost
  rw [hx, hc]
  simp only [Option.isSome_none, Bool.false_eq_true, if_false]
  cases finishDecodingImageData cfg (fuelOf x) x with
  | mk r' res =>
    cases res with
    | error e => rfl
    | ok u => simp only; cases markFlushed r' <;> rfl

theorem clearCur_id (x : R) (h : x.sub.cur = none) : ({ x with sub := { x.sub with cur := none } } : R) = x := by
  obtain ⟨d, i, p, v, f, ir, b, s, rem, ub, c, sl, fi, de, pb⟩ := x
  obtain ⟨w, hh, rl, cur, it, caf⟩ := s
  simp only at h
  subst h
  rfl

/-- **`next_frame_info` is resumable**: wherever the input ran out — while the rest of the current
    frame was skipped, or on the way to the next `fcTL`/`fdAT` — repeating the call after the input
    grew ends exactly as the call on the grown input: the frame the failed call already flushed is
    not skipped twice, the frame counter is decremented once -/
theorem nextFrameInfo_resumable (cfg : Cfg) (hI : cfg.InflateOk) {t : TCfg} (r r1 : R) (w : String) (v : Nat)
    (hInv : Inv t r) (hv : r.visible ≤ v) (h : nextFrameInfo cfg t r = (r1, .err .eof w)) :
    OpResumeEq (nextFrameInfo cfg t (growTo r1 v)) (nextFrameInfo cfg t (growTo r v)) := by
  cases hcaf : r.sub.caf with
  | true =>
    have hrem : r.remaining ≠ 0 := by
      intro h0
      unfold nextFrameInfo at h
      rw [hcaf, h0] at h
      simp only [if_true] at h
      cases h
    rw [nextFrameInfo_caf cfg t r hcaf hrem] at h
    obtain ⟨hres, hs, hr⟩ := nfiTail_resumable cfg hI r r1 w v hInv hcaf hrem hv h
    rw [nextFrameInfo_caf cfg t (growTo r1 v) (by show r1.sub.caf = true; rw [hs]; exact hcaf)
        (by show r1.remaining ≠ 0; rw [hr]; exact hrem),
      nextFrameInfo_caf cfg t (growTo r v) hcaf hrem]
    exact hres
  | false =>
    have hrem : r.remaining - 1 ≠ 0 := by
      intro h0
      unfold nextFrameInfo at h
      rw [hcaf, h0] at h
      simp only [Bool.false_eq_true, if_false] at h
      cases h
    rw [nextFrameInfo_ncaf cfg t r hcaf hrem] at h
    rw [nextFrameInfo_ncaf cfg t (growTo r v) hcaf hrem]
    have hg0 : ({ growTo r v with sub := { (growTo r v).sub with cur := none } } : R) =
        growTo { r with sub := { r.sub with cur := none } } v := rfl
    rw [hg0]
    have hInv0 : Inv t { r with sub := { r.sub with cur := none } } := hInv.clearCur
    have hsp := finishDecoding_spec cfg { r with sub := { r.sub with cur := none } } hInv0 rfl
    have hpost0 := finishDecoding_post cfg { r with sub := { r.sub with cur := none } } rfl hcaf
    have hpostg := finishDecoding_post cfg (growTo { r with sub := { r.sub with cur := none } } v) rfl hcaf
    generalize hr0 : ({ r with sub := { r.sub with cur := none } } : R) = r0 at h hsp hpost0 hpostg hInv0
    have hv0 : r0.visible ≤ v := by subst hr0; exact hv
    have hrem0 : r0.remaining = r.remaining := by subst hr0; rfl
    have hcaf0 : r0.sub.caf = false := by subst hr0; exact hcaf
    have hcur0 : r0.sub.cur = none := by subst hr0; rfl
    have hBg : Base (growTo r0 v) :=
      hInv0.base.congr rfl rfl rfl (by show min r0.visible r0.input.length ≤ min v r0.input.length; omega)
    cases hfd : finishDecoding cfg r0 with
    | mk rA res =>
      rw [hfd] at h hsp hpost0
      cases res with
      | error e =>
        -- the input ran out while the rest of the frame was skipped
        simp only [Prod.mk.injEq] at h
        obtain ⟨rfl, rfl⟩ := h
        obtain ⟨_, _, _, b4, _, b6⟩ := hsp
        have hloop : finishDecodingImageData cfg (fuelOf r0) r0 = (rA, .error (.err .eof w)) := by
          generalize finishDecodingImageData cfg (fuelOf r0) r0 = out at hpost0
          obtain ⟨r', res⟩ := out
          unfold finishPost at hpost0
          cases res with
          | error e => exact hpost0.symm
          | ok u =>
            exfalso
            simp only at hpost0
            cases hm : markFlushed r' with
            | error e =>
              rw [hm] at hpost0; simp only [Prod.mk.injEq, Except.error.injEq] at hpost0
              have := markFlushed_err hm; rw [← hpost0.2] at this; cases this
            | ok r2 => rw [hm] at hpost0; cases hpost0
        have hcafA : rA.sub.caf = false := by rw [b4]; exact hcaf0
        have hcurA : rA.sub.cur = none := by rw [b4]; exact hcur0
        rw [nextFrameInfo_ncaf cfg t (growTo rA v) hcafA (by show rA.remaining - 1 ≠ 0; rw [b6, hrem0]; exact hrem)]
        have hidA : ({ growTo rA v with sub := { (growTo rA v).sub with cur := none } } : R) = growTo rA v :=
          clearCur_id (growTo rA v) hcurA
        rw [hidA, finishDecoding_post cfg (growTo rA v) hcurA hcafA, hpostg]
        rcases finishDecodingImageData_resumable cfg hI r0 rA w v hInv0.base.pos hv0 hloop with heq | ⟨ra, rb, e, h1, h2, h3⟩
        · rw [heq]; exact Or.inl rfl
        · rw [h1, h2]
          refine Or.inr ⟨ra, rb, e, rfl, rfl, ?_, h3⟩
          have hsp2 := finishDecodingImageData_spec cfg _ _ (fuelOf_ge (growTo r0 v)) hBg (hInv0.live hcaf0).2 hInv0.ub
          rw [h2] at hsp2
          exact hsp2.1
      | ok u =>
        -- the frame was skipped and flushed; the input ran out on the way to the next frame
        simp only at h
        obtain ⟨b1, _, b3, _, _, b6⟩ := hsp
        have hremA : rA.remaining + 1 = r0.remaining := b6 hcaf0
        have hcafA : rA.sub.caf = true := by rw [b3]
        have hremA' : rA.remaining ≠ 0 := by omega
        have hvA : rA.visible ≤ v := by
          have := (by assumption : Keep r0 rA).visible; rw [this]; exact hv0
        obtain ⟨hres, hs, hr⟩ := nfiTail_resumable cfg hI rA r1 w v b1 hcafA hremA' hvA h
        rw [nextFrameInfo_caf cfg t (growTo r1 v) (by show r1.sub.caf = true; rw [hs]; exact hcafA)
          (by show r1.remaining ≠ 0; rw [hr]; exact hremA')]
        -- on the longer input the skip succeeds in the same way
        have hloopA : ∃ rA', finishDecodingImageData cfg (fuelOf r0) r0 = (rA', .ok ()) ∧ markFlushed rA' = .ok rA := by
          generalize finishDecodingImageData cfg (fuelOf r0) r0 = out at hpost0
          obtain ⟨r', res⟩ := out
          unfold finishPost at hpost0
          cases res with
          | error e => cases hpost0
          | ok u =>
            simp only at hpost0
            cases hm : markFlushed r' with
            | error e => rw [hm] at hpost0; cases hpost0
            | ok r2 =>
              rw [hm] at hpost0; simp only [Prod.mk.injEq, and_true] at hpost0
              exact ⟨r', rfl, by rw [hpost0]; exact hm⟩
        obtain ⟨rA', hl1, hl2⟩ := hloopA
        rw [finishDecodingImageData_gloop] at hl1
        have hstab := gloop_stable cfg hI bodyFinish bodyFinish_ok (fun _ => rfl)
          (by
            intro r ev data x a hc hp
            rcases hc with ⟨rfl, _⟩ | rfl <;> simp [bodyFinish] at hp)
          _ r0 rA' () hInv0.base.pos trivial hl1 v (fuelOf (growTo r0 v)) hv0 (fuelOf_ge _)
        rw [hpostg, finishDecodingImageData_gloop, hstab]
        unfold finishPost
        simp only
        rw [markFlushed_grow, hl2]
        exact hres

end Png.Reader
