import PngVerif.Proofs.MetaBytesSim
/-!
# C17 at the byte level, part 4: the whole header `encode_header` writes, read by the byte-level machine

`EncodeMeta.encodeHeaderChunks z m = .ok cs`: `cs` is `IHDR` followed by chunks of the kinds `pHYs`, `sRGB`, `gAMA`, `cHRM`,
`iCCP`, `eXIf`, `acTL`, `PLTE`, `tRNS`, `tEXt`, `zTXt`, `iTXt` (`header_shape`), all of which may stand between `IHDR` and the
image data.  `EncodeMeta.header_roundtrip` (property C17, chunk level) says what `feedChunks` makes of them;
`MetaBytes.sim_chain` carries that over to the byte-level machine: `header_bytes`.
-/
namespace Png.MetaBytes
open Png Png.Framing Png.EncodeMeta Png.WellFormed Png.RoundTrip

/-! ## the bounded inflater of a `Cfg` that agrees with a codec -/

theorem boundedOk_of_agrees {cfg : Framing.Cfg} {z : ZCodec} (hz : z.Ok) (hc : CfgAgrees cfg z) : cfg.BoundedOk := by
  have key : ∀ zs n x, cfg.inflateBounded zs n = .ok x ↔ z.decompressBounded zs n = .ok x := by
    intro zs n x
    rw [hc.inflateBounded]
    cases z.decompressBounded zs n with
    | ok y => simp
    | error e => cases e <;> simp
  constructor
  · intro zs n x h
    exact ((hz.bounded_ok zs n x).mp ((key zs n x).mp h)).2
  · intro zs n m' x h hx
    have := (hz.bounded_ok zs n x).mp ((key zs n x).mp h)
    exact (key zs m' x).mpr ((hz.bounded_ok zs m' x).mpr ⟨this.1, hx⟩)

/-! ## the shape of the chunk list -/

/-- the chunks a step put into the sink -/
def stepChunks : Except EncErr (List Chunk) → List Chunk
  | .ok l => l
  | .error _ => []

theorem runSteps_flatten (steps : List (Except EncErr (List Chunk))) :
    ∀ (sink sink' : List Chunk), runSteps steps sink = (sink', .ok ()) →
      sink' = sink ++ (steps.map stepChunks).flatten := by
  induction steps with
  | nil => intro sink sink' h; simp only [runSteps, Prod.mk.injEq, and_true] at h; simp [h]
  | cons s rest ih =>
    intro sink sink' h
    cases s with
    | error e => simp [runSteps] at h
    | ok l =>
      simp only [runSteps] at h
      rw [ih _ _ h]
      simp [stepChunks]

/-- the chunk kinds `encode_header` writes after `IHDR` -/
def metaKinds : List ChunkType :=
  [pHYs, sRGB, gAMA, cHRM, iCCP, eXIf, acTL, PLTE, tRNS, Framing.tEXt, zTXt, iTXt]

theorem typeOk_metaKinds {t : ChunkType} (h : t ∈ metaKinds) : TypeOk t := by
  simp only [metaKinds, List.mem_cons, List.mem_nil_iff, or_false] at h
  rcases h with rfl | rfl | rfl | rfl | rfl | rfl | rfl | rfl | rfl | rfl | rfl | rfl <;>
    exact ⟨by decide +kernel, by decide +kernel, by decide +kernel, by decide +kernel, by decide +kernel, by decide +kernel⟩

/-- a step all of whose chunks are of one of these kinds -/
def StepKinds (s : Except EncErr (List Chunk)) : Prop := ∀ c ∈ stepChunks s, c.1 ∈ metaKinds

theorem stepKinds_optChunk (t : ChunkType) (ht : t ∈ metaKinds) (o : Option Bytes) : StepKinds (EncodeMeta.optChunk t o) := by
  intro c hc
  cases o with
  | none => simp [EncodeMeta.optChunk, stepChunks] at hc
  | some b =>
    simp only [EncodeMeta.optChunk, checkedChunk] at hc
    split at hc
    · simp [stepChunks] at hc
    · simp only [stepChunks, List.mem_singleton] at hc; rw [hc]; exact ht

theorem stepKinds_single (t : ChunkType) (ht : t ∈ metaKinds) (b : Bytes) : StepKinds (.ok [(t, b)]) := by
  intro c hc
  simp only [stepChunks, List.mem_singleton] at hc
  rw [hc]; exact ht

theorem stepKinds_nil : StepKinds (.ok []) := by
  intro c hc; simp [stepChunks] at hc

theorem stepKinds_textStep (t : ChunkType) (ht : t ∈ metaKinds) (r : Except TextEncErr Bytes) : StepKinds (textStep t r) := by
  cases r with
  | ok b => exact stepKinds_single t ht b
  | error e => intro c hc; simp [textStep, stepChunks] at hc

theorem stepKinds_colour (z : ZCodec) (m : MetaConfig) : ∀ s ∈ colourSteps z m, StepKinds s := by
  intro s hs
  unfold colourSteps at hs
  cases hsr : m.srgb with
  | some i =>
    simp only [hsr, List.mem_cons, List.mem_nil_iff, or_false] at hs
    rcases hs with rfl | rfl | rfl
    · exact stepKinds_single _ (by simp [metaKinds]) _
    · split
      · exact stepKinds_single _ (by simp [metaKinds]) _
      · exact stepKinds_nil
    · split
      · exact stepKinds_single _ (by simp [metaKinds]) _
      · exact stepKinds_nil
  | none =>
    simp only [hsr, List.mem_cons, List.mem_nil_iff, or_false] at hs
    rcases hs with rfl | rfl | rfl
    · cases m.gamma with
      | none => exact stepKinds_nil
      | some g => exact stepKinds_single _ (by simp [metaKinds]) _
    · cases m.chroma with
      | none => exact stepKinds_nil
      | some g => exact stepKinds_single _ (by simp [metaKinds]) _
    · exact stepKinds_optChunk _ (by simp [metaKinds]) _

/-- the steps of `encode_header` after `IHDR` -/
def tailSteps (z : ZCodec) (m : MetaConfig) : List (Except EncErr (List Chunk)) :=
  [EncodeMeta.optChunk Framing.pHYs (m.pixelDims.map encodePhys)] ++ colourSteps z m ++
  [EncodeMeta.optChunk Framing.eXIf m.exif,
   .ok (m.actl.map fun a => (Framing.acTL, encodeActl a)).toList,
   EncodeMeta.optChunk Framing.PLTE m.palette,
   EncodeMeta.optChunk Framing.tRNS m.trns]
  ++ m.tEXt.map tEXtStep ++ m.zTXt.map (zTXtStep z) ++ m.iTXt.map (iTXtStep z)

theorem headerSteps_eq (z : ZCodec) (m : MetaConfig) :
    headerSteps z m = checkedChunk Framing.IHDR (encodeIhdr m.width m.height m.depth m.color) :: tailSteps z m := by
  simp [headerSteps, tailSteps]

theorem stepKinds_tail (z : ZCodec) (m : MetaConfig) : ∀ s ∈ tailSteps z m, StepKinds s := by
  intro s hs
  simp only [tailSteps, List.mem_append, List.mem_cons, List.mem_nil_iff, or_false, List.mem_map] at hs
  rcases hs with ((((rfl | hs) | (rfl | rfl | rfl | rfl)) | ⟨c, _, rfl⟩) | ⟨c, _, rfl⟩) | ⟨c, _, rfl⟩
  · exact stepKinds_optChunk _ (by simp [metaKinds]) _
  · exact stepKinds_colour z m s hs
  · exact stepKinds_optChunk _ (by simp [metaKinds]) _
  · cases m.actl with
    | none => exact stepKinds_nil
    | some a => exact stepKinds_single _ (by simp [metaKinds]) _
  · exact stepKinds_optChunk _ (by simp [metaKinds]) _
  · exact stepKinds_optChunk _ (by simp [metaKinds]) _
  · exact stepKinds_textStep _ (by simp [metaKinds]) _
  · exact stepKinds_textStep _ (by simp [metaKinds]) _
  · exact stepKinds_textStep _ (by simp [metaKinds]) _

/-- **what `encode_header` leaves in the sink**: `IHDR`, then the chunks of the later steps, each of one of the twelve kinds -/
theorem header_shape (z : ZCodec) (m : MetaConfig) (cs : List Chunk) (h : encodeHeaderChunks z m = .ok cs) :
    cs = (Framing.IHDR, encodeIhdr m.width m.height m.depth m.color) :: ((tailSteps z m).map stepChunks).flatten ∧
    ∀ c ∈ ((tailSteps z m).map stepChunks).flatten, c.1 ∈ metaKinds := by
  obtain ⟨_, _, _, hrun⟩ := writeHeader_ok z m cs h
  rw [headerSteps_eq] at hrun
  constructor
  · cases hck : checkedChunk Framing.IHDR (encodeIhdr m.width m.height m.depth m.color) with
    | error e => rw [hck] at hrun; simp [runSteps] at hrun
    | ok l =>
      rw [hck] at hrun
      simp only [runSteps, List.nil_append] at hrun
      rw [runSteps_flatten _ _ _ hrun, checkedChunk_ok _ _ _ hck]
      rfl
  · intro c hc
    simp only [List.mem_flatten, List.mem_map] at hc
    obtain ⟨l, ⟨s, hs, rfl⟩, hcl⟩ := hc
    exact stepKinds_tail z m s hs c hcl

/-! ## the header through the byte-level machine -/

/-- the `IHDR` fields of a metadata configuration (the encoder never sets the interlace flag) -/
def hdrOf (m : MetaConfig) : Header :=
  { width := m.width, height := m.height, color := m.color, depth := m.depth, interlaced := false }

/-- **C17 at the stream level.**  For every configuration `m` the encoder accepts (`encodeHeaderChunks z m = .ok cs`, chunk
    bodies shorter than `2^32`), a codec that satisfies its contract and is the decoder's, a decoder that ignores neither
    text nor ICC chunks, and a limit that covers what the chunk parsers charge (`m.budget z`) and three times the bytes of
    the chunk bodies after `IHDR` (the chunk buffer grows by doubling and is charged to the limit): `cs` is `IHDR` followed by
    `rest`, and from the state after `IHDR` the byte-level machine reads `rest` chunk by chunk (`AncChunksG`) into a decoder
    `dA` whose `Info` is `expectedInfo m` with the text chunks `tcs`, presented as `expectedViews z m`; no image data seen;
    of the limit, `budget + 2·|bodies|` at most is used. -/
theorem header_bytes (cfg : Framing.Cfg) (z : ZCodec) (hz : z.Ok) (hc : CfgAgrees cfg z) (m : MetaConfig)
    (hr : m.InRange) (cs : List Chunk) (h : encodeHeaderChunks z m = .ok cs) (hlen : ∀ c ∈ cs, c.2.length < 2 ^ 32)
    (hpe : parseEmptyChunks = true) (opts : Options) (ho1 : opts.ignoreText = false) (ho2 : opts.ignoreIccp = false)
    (limit : Nat) (hl : m.budget z + 3 * bodyBytes cs.tail ≤ limit) :
    ∃ rest dA tcs, cs = (Framing.IHDR, (hdrOf m).body) :: rest ∧
      AncChunksG cfg (afterIhdr cfg opts limit (hdrOf m)) rest dA ∧
      dA.info = some { expectedInfo m with text := tcs } ∧ tcs.map viewText = expectedViews z m ∧
      dA.haveIdat = false ∧ dA.seqNo = none ∧ dA.opts = opts ∧
      limit ≤ dA.limit + (m.budget z + 2 * bodyBytes rest) ∧ dA.limit + m.budget z ≤ limit := by
  obtain ⟨hshape, hkinds⟩ := header_shape z m cs h
  generalize hrest : ((tailSteps z m).map stepChunks).flatten = rest at hshape hkinds
  have hbody : encodeIhdr m.width m.height m.depth m.color = (hdrOf m).body := by
    simp [encodeIhdr, Header.body, hdrOf]
  rw [hbody] at hshape
  have htail : cs.tail = rest := by rw [hshape]; rfl
  rw [htail] at hl
  obtain ⟨hw0, hh0, hcomb, _⟩ := writeHeader_ok z m cs h
  obtain ⟨rw_, rh, rd, rc, _⟩ := hr
  -- the chunk-level run
  obtain ⟨d, tcs, hfeed, hviews, hms⟩ := header_roundtrip cfg z hz hc m
    ⟨rw_, rh, rd, rc, by assumption⟩ cs h { opts := opts, limit := limit } limit opts none ho1 ho2 (by omega) rfl
  obtain ⟨d1, hf1, hms1⟩ := feed_ihdr cfg { opts := opts, limit := limit } false limit opts none m.width m.height m.depth
    m.color rw_ rh hw0 hh0 rd rc hcomb rfl
  rw [hbody] at hf1
  rw [hshape] at hfeed
  simp only [feedChunks, hf1] at hfeed
  -- the byte-level run
  have hrel : Rel 0 d1 (afterIhdr cfg opts limit (hdrOf m)) := by
    refine ⟨?_, ?_, ?_, ?_, ?_, ?_⟩
    · exact (congrArg MS.info hms1).symm
    · exact (congrArg MS.haveIdat hms1).symm
    · exact (congrArg MS.haveIccp hms1).symm
    · exact (congrArg MS.opts hms1).symm
    · exact (congrArg MS.seqNo hms1).symm
    · exact (congrArg MS.limit hms1).symm
  have hlimd : d.limit = limit - m.budget z := congrArg MS.limit hms
  obtain ⟨dA, K', hchain, hrelA, _, hK', _⟩ := sim_chain cfg (boundedOk_of_agrees hz hc) rest
    (fun c hc' => ⟨typeOk_metaKinds (hkinds c hc'), hlen c (by rw [hshape]; exact List.mem_cons_of_mem _ hc'),
      not_skipped _ (Or.inr hpe)⟩)
    d1 (afterIhdr cfg opts limit (hdrOf m)) d 0 hrel (by show 0 < Params.chunkBufferSize; decide) hfeed
    (by rw [hlimd]; omega)
  have hlimA := hrelA.limit
  refine ⟨rest, dA, tcs, hshape, hchain, ?_, hviews, ?_, ?_, ?_, by omega, by omega⟩
  · rw [hrelA.info]; exact congrArg MS.info hms
  · rw [hrelA.haveIdat]; exact congrArg MS.haveIdat hms
  · rw [hrelA.seqNo]; exact congrArg MS.seqNo hms
  · rw [hrelA.opts]; exact congrArg MS.opts hms

end Png.MetaBytes
