import PngVerif.Proofs.MetaBytesHeader
import PngVerif.Proofs.RoundTripKinds
/-!
# C17 at the byte level, part 5: the two models of `encode_header` write the same chunks

`Model/EncodeMeta.lean` models `encode_header` on VALUES (`MetaConfig`: pixel dimensions, gamma, chromaticities, ICC
profile, text chunk objects, …: property C17); `Model/Encoder.lean` models the whole writer with its sink on chunk
BODIES (`Enc.Cfg`: properties C03, C12, C19).  `encCfg z m` is the writer configuration that holds the bodies the
value-level model computes for `m`; `encCfg_headerChunks`: for every configuration the value-level model accepts, the
header chunks of the writer model (`Enc.headerChunks`) are the chunks of the value-level model, in the same order, and
every text chunk's `encode` succeeded.
-/
namespace Png.MetaBytes
open Png Png.Framing Png.EncodeMeta Png.WellFormed Png.RoundTrip Png.Val

/-- what `EncodableTextChunk::encode` built, as the writer model holds it (`none`: it failed) -/
def textItem (t : ChunkType) (r : Except TextEncErr Bytes) : Option RChunk :=
  match r with
  | .ok b => some ⟨t, b⟩
  | .error _ => none

/-- the text chunks of `m` in the order `encode_header` writes them, each with the result of its `encode` -/
def textResults (z : ZCodec) (m : MetaConfig) : List (ChunkType × Except TextEncErr Bytes) :=
  m.tEXt.map (fun c => (Framing.tEXt, c.encodeBody)) ++ m.zTXt.map (fun c => (Framing.zTXt, c.encodeBody z)) ++
  m.iTXt.map (fun c => (Framing.iTXt, c.encodeBody z))

/-- the chunk bodies of the metadata items before `acTL` -/
def encMeta (z : ZCodec) (m : MetaConfig) : Enc.Meta :=
  { phys := m.pixelDims.map encodePhys, srgb := m.srgb, gama := m.gamma, chrm := m.chroma.map encodeChrm,
    iccp := m.icc.map (encodeIccp z), exif := m.exif }

/-- **the writer model's configuration for the metadata configuration `m`**: same `IHDR` fields, animation control, palette
    and transparency; the other items by their chunk bodies; `fc`, `sepDefImg`, `validate`: what the value-level model does
    not look at -/
def encCfg (z : ZCodec) (m : MetaConfig) (fc : Option Enc.FC) (sepDefImg validate : Bool) : Enc.Cfg :=
  { width := m.width, height := m.height, color := m.color, depth := m.depth, actl := m.actl, fctl := fc,
    palette := m.palette, trns := m.trns, md := encMeta z m,
    texts := (textResults z m).map fun p => textItem p.1 p.2,
    sepDefImg := sepDefImg, validate := validate }

/-! ## pieces -/

theorem pairs_append' (a b : List RChunk) : pairs (a ++ b) = pairs a ++ pairs b := by simp [pairs]

theorem stepChunks_optChunk (t : ChunkType) (o : Option Bytes) (l : List Chunk) (h : EncodeMeta.optChunk t o = .ok l) :
    stepChunks (EncodeMeta.optChunk t o) = pairs (Enc.optChunk t o) := by
  cases o with
  | none => rfl
  | some b =>
    simp only [EncodeMeta.optChunk] at h ⊢
    rw [h, checkedChunk_ok _ _ _ h]
    rfl

theorem chroma_eq_of_toList {a b : Chromaticities} (h : a.toList = b.toList) : a = b := by
  cases a; cases b
  simp only [Chromaticities.toList, List.cons.injEq, and_true] at h
  obtain ⟨h1, h2, h3, h4, h5, h6, h7, h8⟩ := h
  subst_vars; rfl

/-- `SourceChromaticities::encode` is injective on `u32` values -/
theorem encodeChrm_inj {a b : Chromaticities} (ha : a.InRange) (hb : b.InRange) (h : encodeChrm a = encodeChrm b) : a = b := by
  have h1 := rdU32s_be32List a.toList ha []
  have h2 := rdU32s_be32List b.toList hb []
  have la : a.toList.length = 8 := rfl
  have lb : b.toList.length = 8 := rfl
  rw [la] at h1
  rw [lb] at h2
  unfold encodeChrm at h
  rw [h, h2] at h1
  simp only [Option.some.injEq, Prod.mk.injEq, and_true] at h1
  exact chroma_eq_of_toList h1.symm

theorem substChrm_eq : encodeChrm substituteChroma = Enc.substChrm := by decide

theorem chroma_subst_iff (o : Option Chromaticities) (ho : optAll Chromaticities.InRange o) :
    o.map encodeChrm = some Enc.substChrm ↔ o = some substituteChroma := by
  cases o with
  | none => simp
  | some c =>
    simp only [Option.map_some, Option.some.injEq]
    constructor
    · intro h
      exact encodeChrm_inj ho (by decide) (h.trans substChrm_eq.symm)
    · intro h; rw [h]; exact substChrm_eq

/-- the colour-space steps are the colour-space part of `Enc.preChunks` -/
theorem colour_chunks (z : ZCodec) (m : MetaConfig) (hr : m.InRange)
    (hall : ∀ s ∈ colourSteps z m, ∃ l, s = .ok l) :
    ((colourSteps z m).map stepChunks).flatten =
      pairs (match m.srgb with
        | some i =>
          [⟨tySRGB, [i.toUInt8]⟩] ++
          (if m.gamma = some Enc.substGamma then [⟨tyGAMA, be32Bytes Enc.substGamma⟩] else []) ++
          (if m.chroma.map encodeChrm = some Enc.substChrm then [⟨tyCHRM, Enc.substChrm⟩] else [])
        | none =>
          Enc.optChunk tyGAMA (m.gamma.map be32Bytes) ++ Enc.optChunk tyCHRM (m.chroma.map encodeChrm) ++
            Enc.optChunk tyICCP (m.icc.map (encodeIccp z))) := by
  obtain ⟨e1, e2, e3, e4, e5, e6, e7, e8, e9, e10, e11, _⟩ := ty_eqs
  obtain ⟨_, _, _, _, _, _, hc, _⟩ := hr
  unfold colourSteps at hall ⊢
  cases hs : m.srgb with
  | some i =>
    simp only [List.map_cons, List.map_nil, List.flatten_cons, List.flatten_nil, stepChunks, List.append_nil]
    have hg : Enc.substGamma = substituteGamma := rfl
    simp only [chroma_subst_iff m.chroma hc, e7, e8, e9, hg]
    by_cases h1 : m.gamma = some substituteGamma <;> by_cases h2 : m.chroma = some substituteChroma <;>
      simp [h1, h2, pairs, encodeSrgb, encodeGama, substChrm_eq]
  | none =>
    rw [hs] at hall
    obtain ⟨l, hl⟩ := hall (EncodeMeta.optChunk Framing.iCCP (m.icc.map (encodeIccp z))) (by simp)
    simp only [List.map_cons, List.map_nil, List.flatten_cons, List.flatten_nil, List.append_nil]
    rw [stepChunks_optChunk _ _ l hl, e8, e9, e10, pairs_append', pairs_append']
    cases m.gamma <;> cases m.chroma <;> simp [stepChunks, pairs, Enc.optChunk, encodeGama]

/-- the text chunks: when every `encode` succeeded, the writer holds them all -/
theorem text_chunks (rs : List (ChunkType × Except TextEncErr Bytes)) (hall : ∀ p ∈ rs, ∃ l, textStep p.1 p.2 = .ok l) :
    (rs.map fun p => stepChunks (textStep p.1 p.2)).flatten =
      pairs (Enc.textPrefix (rs.map fun p => textItem p.1 p.2)).1 ∧
    (Enc.textPrefix (rs.map fun p => textItem p.1 p.2)).2 = true := by
  induction rs with
  | nil => exact ⟨rfl, rfl⟩
  | cons p rs ih =>
    obtain ⟨t, r⟩ := p
    obtain ⟨l, hl⟩ := hall (t, r) (by simp)
    obtain ⟨b, rfl, rfl⟩ := textStep_ok _ _ _ hl
    obtain ⟨i1, i2⟩ := ih (fun q hq => hall q (by simp [hq]))
    simp only [List.map_cons, List.flatten_cons, textItem, Enc.textPrefix]
    refine ⟨?_, i2⟩
    rw [i1]
    rfl

theorem tail_text_steps (z : ZCodec) (m : MetaConfig) :
    (m.tEXt.map tEXtStep ++ m.zTXt.map (zTXtStep z) ++ m.iTXt.map (iTXtStep z)).map stepChunks =
      (textResults z m).map fun p => stepChunks (textStep p.1 p.2) := by
  simp only [textResults, List.map_append, List.map_map]
  rfl

/-! ## the header -/

/-- **the two models of `encode_header` agree**: for every configuration `m` in range that the value-level model accepts, the
    header chunks of the writer model for `encCfg z m …` are the value-level model's chunks `cs`, and no text chunk of the
    writer's configuration fails to encode -/
theorem encCfg_headerChunks (z : ZCodec) (m : MetaConfig) (fc : Option Enc.FC) (sep validate : Bool) (hr : m.InRange)
    (cs : List Chunk) (h : encodeHeaderChunks z m = .ok cs) :
    pairs (Enc.headerChunks (encCfg z m fc sep validate)) = cs ∧
    (Enc.textPrefix (encCfg z m fc sep validate).texts).2 = true := by
  obtain ⟨hshape, _⟩ := header_shape z m cs h
  obtain ⟨_, _, _, hrun⟩ := writeHeader_ok z m cs h
  have hall := runSteps_ok_all _ _ _ hrun
  rw [headerSteps_eq] at hall
  have hallT : ∀ s ∈ tailSteps z m, ∃ l, s = .ok l := fun s hs => hall s (List.mem_cons_of_mem _ hs)
  obtain ⟨e1, e2, e3, e4, e5, e6, e7, e8, e9, e10, e11, _⟩ := ty_eqs
  -- the text chunks
  have htx := text_chunks (textResults z m) (by
    intro p hp
    simp only [textResults, List.mem_append, List.mem_map] at hp
    rcases hp with (⟨c, hc, rfl⟩ | ⟨c, hc, rfl⟩) | ⟨c, hc, rfl⟩
    · exact hallT (tEXtStep c) (by simp only [tailSteps, List.mem_append, List.mem_map]; exact Or.inl (Or.inl (Or.inr ⟨c, hc, rfl⟩)))
    · exact hallT (zTXtStep z c) (by simp only [tailSteps, List.mem_append, List.mem_map]; exact Or.inl (Or.inr ⟨c, hc, rfl⟩))
    · exact hallT (iTXtStep z c) (by simp only [tailSteps, List.mem_append, List.mem_map]; exact Or.inr ⟨c, hc, rfl⟩))
  refine ⟨?_, htx.2⟩
  rw [hshape]
  -- the steps one by one
  obtain ⟨l1, hl1⟩ := hallT (EncodeMeta.optChunk Framing.pHYs (m.pixelDims.map encodePhys)) (by simp [tailSteps])
  obtain ⟨l2, hl2⟩ := hallT (EncodeMeta.optChunk Framing.eXIf m.exif) (by simp [tailSteps])
  obtain ⟨l3, hl3⟩ := hallT (EncodeMeta.optChunk Framing.PLTE m.palette) (by simp [tailSteps])
  obtain ⟨l4, hl4⟩ := hallT (EncodeMeta.optChunk Framing.tRNS m.trns) (by simp [tailSteps])
  have hcol := colour_chunks z m hr (fun s hs => hallT s (by simp only [tailSteps, List.mem_append]; exact Or.inl (Or.inl (Or.inl (Or.inl (Or.inr hs))))))
  have htail : ((tailSteps z m).map stepChunks).flatten =
      stepChunks (EncodeMeta.optChunk Framing.pHYs (m.pixelDims.map encodePhys)) ++
      ((colourSteps z m).map stepChunks).flatten ++
      stepChunks (EncodeMeta.optChunk Framing.eXIf m.exif) ++
      (m.actl.map fun a => (Framing.acTL, encodeActl a)).toList ++
      stepChunks (EncodeMeta.optChunk Framing.PLTE m.palette) ++
      stepChunks (EncodeMeta.optChunk Framing.tRNS m.trns) ++
      ((textResults z m).map fun p => stepChunks (textStep p.1 p.2)).flatten := by
    have : tailSteps z m = [EncodeMeta.optChunk Framing.pHYs (m.pixelDims.map encodePhys)] ++ colourSteps z m ++
        [EncodeMeta.optChunk Framing.eXIf m.exif, .ok (m.actl.map fun a => (Framing.acTL, encodeActl a)).toList,
         EncodeMeta.optChunk Framing.PLTE m.palette, EncodeMeta.optChunk Framing.tRNS m.trns] ++
        (m.tEXt.map tEXtStep ++ m.zTXt.map (zTXtStep z) ++ m.iTXt.map (iTXtStep z)) := by
      simp only [tailSteps, List.append_assoc]
    rw [this, List.map_append, tail_text_steps]
    simp only [List.map_append, List.map_cons, List.map_nil, List.flatten_append, List.flatten_cons, List.flatten_nil,
      List.append_nil, stepChunks, List.append_assoc]
  rw [htail, stepChunks_optChunk _ _ l1 hl1, stepChunks_optChunk _ _ l2 hl2, stepChunks_optChunk _ _ l3 hl3,
    stepChunks_optChunk _ _ l4 hl4, hcol, htx.1]
  -- the writer model's side
  have hbody : (Framing.IHDR, encodeIhdr m.width m.height m.depth m.color) =
      ((Enc.mkIhdr (encCfg z m fc sep validate)).ty, (Enc.mkIhdr (encCfg z m fc sep validate)).data) := by
    simp only [Enc.mkIhdr, encCfg, encodeIhdr, e1, List.append_assoc]
  have hactl : (m.actl.map fun a => (Framing.acTL, encodeActl a)).toList =
      pairs (match m.actl with | some (n, p) => [Enc.mkActl n p] | none => []) := by
    cases m.actl with
    | none => rfl
    | some a => obtain ⟨n, p⟩ := a; simp [pairs, Enc.mkActl, encodeActl]; decide +kernel
  rw [hactl]
  simp only [Enc.headerChunks, Enc.preChunks, encCfg, encMeta, pairs_append', e2, e5, e6, e11, List.append_assoc]
  rw [hbody]
  simp only [pairs, List.map_cons, List.map_nil, List.cons_append, List.nil_append, encCfg]
  rfl

end Png.MetaBytes
