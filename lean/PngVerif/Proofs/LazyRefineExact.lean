import PngVerif.Proofs.LazyRefineWf
/-!
# `Reader` refines `Lazy`, part 12: on well-formed files with exact image data every answer is one the `Lazy` model has

The simulation (`Proofs/LazyRefineRun.lean`) is conditional on the answers of the byte-level model being answers the
`Lazy` model speaks about (`okRes`).  For a well-formed still image or animation whose frames carry exactly the
scanlines of their size with valid filter bytes (`RawOk`), decoded with the identity transformation and a sufficient
`Limits` budget, EVERY call sequence of `next_frame`, `next_row` / `next_interlaced_row`, `next_frame_info` and
`finish` has only such answers.  The invariant `Exact` is the hypothesis bundle of the composition lemmas of
`Proofs/Compose*.lean` (where the reader stands in the frame's data, which scanlines are still to come, the unfiltering
buffer holds their bytes) together with the byte layout of the frames that follow (`BetweenD`).
-/
namespace Png.LazyRefine
open Png Png.Framing Png.WellFormed Png.Reader

/-- the previous row of the unfiltering buffer fits the row that comes next, as the row loop of `next_frame` needs it
    (`unfilter_curr_row` asserts it): no previous row at line 0 of a non-interlaced frame, a full row afterwards -/
def PrevFit (r : R) : Prop :=
  ∀ l, r.sub.cur = some (.null l) → (l = 0 → r.ub.prevRow = []) ∧ (l ≠ 0 → r.ub.prevRow.length + 1 = r.sub.rowlen)

/-- rows of the current frame are still to come: the hypotheses of the row lemmas of `Proofs/Compose*.lean` -/
structure RowsSt (i : Info) (r : R) (pend : List (Ev × Bytes)) (ls : List (Nat × Nat × Nat)) : Prop where
  ok : ScanlinesOk (fun w => rawRowLengthFromWidth i.color i.depth w - 1) ls (r.ub.abs.pending ++ dataOf pend)
  bpp : r.bpp = bytesPerPixel i.color i.depth
  ubInv : r.ub.Inv
  rowlen : r.sub.rowlen = rawRowLengthFromWidth i.color i.depth r.sub.width
  iterWf : IterWf i.interlaced r.sub
  curOk : CurOk i.interlaced r.sub
  prevOk : PrevOk i.color i.depth r.sub r.ub.prevRow
  prevFit : PrevFit r
  rows : Rows r.sub ls
  len : ls.length ≤ 7 * r.sub.height

/-- **inside the frames of the file**: the reader stands in the data of a frame (rows `ls` still to come, or the frame
    read to its end or closed), `frames` follow -/
structure OpenSt (cfg : Cfg) (t : TCfg) (f : Flags) (h : Header) (r : R) : Prop where
  ex : ∃ (i : Info) (N : Nat) (dEnd : Dec) (bEnd : Bytes) (pend : List (Ev × Bytes)) (ls : List (Nat × Nat × Nat))
      (s : Nat) (frames : List (FrameControl × List Bytes × Bytes)),
    Pending cfg i N r pend dEnd bEnd ∧ (r.sub.cur = none ∨ RowsSt i r pend ls) ∧
    CachedLegal r ∧ (i.color, i.depth) ∈ legalPairs ∧ 1 ≤ r.sub.width ∧ 1 ≤ r.sub.height ∧
    (r.sub.width, r.sub.height) = Sub.dims i ∧
    (hdrOf i).bufferSize ≤ outLineSize t i f i.width * i.height ∧
    N = frames.length + 1 ∧ BetweenD cfg h dEnd bEnd i s frames ∧
    (frames.map fun x => (h.frame x.1).lineSize).sum ≤ dEnd.limit ∧
    (∀ fr ∈ frames, FrameOk cfg h fr) ∧ s + (frames.map fun x => 1 + x.2.1.length).sum < 2 ^ 32
  flags : r.flags = f
  rd : r.isReader = true
  fin : r.finished = false

/-- **after `finish`** -/
structure FinSt (r : R) : Prop where
  finished : r.finished = true
  rem : r.remaining = 0
  cur : r.sub.cur = none
  caf : r.sub.caf = true
  rd : r.isReader = true

/-- the invariant of a run on a well-formed file with exact image data -/
def Exact (cfg : Cfg) (t : TCfg) (f : Flags) (h : Header) (r : R) : Prop := OpenSt cfg t f h r ∨ FinSt r

/-! ## after `finish` -/

theorem fin_step (cfg : Cfg) (t : TCfg) (r : R) (hF : FinSt r) (hinfo : ∃ i, r.dec.info = some i) (op : Reader.Op)
    (hop : isCall op = true) (hne : op ≠ .readRow) : okRes (step cfg t r op).2 = true ∧ FinSt (step cfg t r op).1 := by
  obtain ⟨hfin, hrem, hcur, hcaf, hrd⟩ := hF
  obtain ⟨i, hi⟩ := hinfo
  have hnr : (!r.isReader) = false := by rw [hrd]; rfl
  have hio : infoOf r = some i := hi
  cases op with
  | nextRow =>
    have hst : step cfg t r .nextRow = nextInterlacedRow cfg t { r with pendingBuf := none } := by
      show (if !r.isReader then _ else nextInterlacedRow cfg t { r with pendingBuf := none }) = _
      simp [hrd]
    rw [hst]
    unfold nextInterlacedRow
    have : infoOf ({ r with pendingBuf := none } : R) = some i := hi
    simp only [this]
    unfold readRow
    simp only [hcur]
    unfold finishDecoding
    simp only [hcur, Option.isSome_none, Bool.false_eq_true, if_false, hcaf, if_true]
    exact ⟨rfl, hfin, hrem, hcur, hcaf, hrd⟩
  | nextFrame p =>
    have hst : step cfg t r (.nextFrame p) = nextFrameOp cfg t r p := by
      show (if !r.isReader then _ else nextFrameOp cfg t r p) = _
      simp [hrd]
    rw [hst]
    unfold nextFrameOp
    simp only [hio]
    have hnb : ∀ buf, nextFrameBuf cfg t { r with pendingBuf := none } buf =
        ({ r with pendingBuf := none }, .err .parameter "PolledAfterEndOfImage", buf) := by
      intro buf
      rw [nextFrameBuf_none cfg t _ _ (show ({ r with pendingBuf := none } : R).sub.cur = none from hcur)]
      unfold nextFrameBuf0
      have : ({ r with pendingBuf := none } : R).remaining = 0 := hrem
      rw [if_pos this]
    rw [hnb]
    exact ⟨rfl, hfin, hrem, hcur, hcaf, hrd⟩
  | nextFrameInfo =>
    have hst : step cfg t r .nextFrameInfo = nextFrameInfo cfg t { r with pendingBuf := none } := by
      show (if !r.isReader then _ else nextFrameInfo cfg t { r with pendingBuf := none }) = _
      simp [hrd]
    rw [hst]
    generalize hr0 : ({ r with pendingBuf := none } : R) = r0
    have h1 : r0.sub.caf = true := by subst hr0; exact hcaf
    have h2 : r0.remaining = 0 := by subst hr0; exact hrem
    have hF0 : FinSt r0 := by subst hr0; exact ⟨hfin, hrem, hcur, hcaf, hrd⟩
    unfold nextFrameInfo
    simp only [h1, h2, if_true]
    exact ⟨rfl, hF0⟩
  | finish =>
    have hst : step cfg t r .finish = finish cfg { r with pendingBuf := none } := by
      show (if !r.isReader then _ else finish cfg { r with pendingBuf := none }) = _
      simp [hrd]
    rw [hst]
    generalize hr0 : ({ r with pendingBuf := none } : R) = r0
    have h1 : r0.finished = true := by subst hr0; exact hfin
    have hF0 : FinSt r0 := by subst hr0; exact ⟨hfin, hrem, hcur, hcaf, hrd⟩
    unfold finish
    simp only [h1, if_true]
    exact ⟨rfl, hF0⟩
  | readRow => exact absurd rfl hne
  | readHeader => cases hop
  | readInfo => cases hop
  | grow n => cases hop

/-! ## inside the frames -/

theorem pending_pb {cfg : Cfg} {i : Info} {N : Nat} {r : R} {pend : List (Ev × Bytes)} {dEnd : Dec} {bEnd : Bytes}
    (h : Pending cfg i N r pend dEnd bEnd) (pb : Option Bytes) : Pending cfg i N { r with pendingBuf := pb } pend dEnd bEnd :=
  ⟨h.out, h.info, h.trace, h.caf, h.hN⟩

/-- forgetting the buffer of an interrupted `next_frame` -/
theorem OpenSt.clearPending {cfg : Cfg} {t : TCfg} {f : Flags} {h : Header} {r : R} (hO : OpenSt cfg t f h r)
    (pb : Option Bytes) : OpenSt cfg t f h { r with pendingBuf := pb } := by
  obtain ⟨⟨i, N, dEnd, bEnd, pend, ls, s, frames, h1, h2, h3, h4, h5, h6, h7, h8, h9, h10, h11, h12, h13⟩, hf, hr, hfi⟩ := hO
  refine ⟨⟨i, N, dEnd, bEnd, pend, ls, s, frames, pending_pb h1 pb, ?_, fun s0 hs0 => h3 s0 hs0, h4, h5, h6, h7, h8, h9, h10,
    h11, h12, h13⟩, hf, hr, hfi⟩
  rcases h2 with h2 | ⟨a1, a2, a3, a4, a5, a6, a7, a8, a9, a10⟩
  · exact Or.inl h2
  · exact Or.inr ⟨a1, a2, a3, a4, a5, a6, a7, a8, a9, a10⟩

/-- in a non-interlaced frame the row after line `l` is line `l + 1` -/
theorem advance_null {s : Sub} {l l' : Nat} (hw : IterWf false s) (hc : CurOk false s) (hcur : s.cur = some (.null l))
    (h' : s.advance.cur = some (.null l')) : l' = l + 1 := by
  unfold IterWf at hw
  unfold CurOk at hc
  rw [hcur] at hc
  cases hi : s.iter with
  | adam7 a => rw [hi] at hw; exact hw.elim
  | none n stop =>
    rw [hi] at hc
    simp only at hc
    unfold Sub.advance at h'
    simp only [hi, IIter.next] at h'
    split at h'
    · rename_i c it heq
      split at heq
      · simp only [Option.some.injEq, Prod.mk.injEq] at heq
        obtain ⟨rfl, _⟩ := heq
        simp only [Option.some.injEq, IInfo.null.injEq] at h'
        omega
      · cases heq
    · cases h'

/-- **`next_row` inside the frames** -/
theorem open_nextRow (cfg : Cfg) {t : TCfg} {f : Flags} (ht : t.IsIdentity f) (h : Header) (r : R)
    (hO : OpenSt cfg t f h r) :
    okRes (step cfg t r .nextRow).2 = true ∧ OpenSt cfg t f h (step cfg t r .nextRow).1 := by
  have hst : step cfg t r .nextRow = nextInterlacedRow cfg t { r with pendingBuf := none } := by
    show (if !r.isReader then _ else nextInterlacedRow cfg t { r with pendingBuf := none }) = _
    simp [hO.rd]
  rw [hst]
  have hO0 := hO.clearPending none
  generalize ({ r with pendingBuf := none } : R) = r0 at hO0 ⊢
  obtain ⟨⟨i, N, dEnd, bEnd, pend, ls, s, frames, hP, hdat, hca, hleg, hw1, hh1, hdims, hfit, hN, hB, hlim, hfo, hseq⟩,
    hfl, hrd, hfin⟩ := hO0
  cases hcur : r0.sub.cur with
  | none =>
    obtain ⟨r', hrun, hP', hsub', hdec', hav', hrem', hse', hub', hca'⟩ := nextInterlacedRow_none (t := t) hP hcur
    rw [hrun]
    exact ⟨rfl, ⟨i, N, dEnd, bEnd, [], [], s, frames, hP', Or.inl (by rw [hsub']; exact hcur),
      fun s0 hs0 => hca s0 (hca' ▸ hs0), hleg, by rw [hsub']; exact hw1, by rw [hsub']; exact hh1,
      by rw [hsub']; exact hdims, hfit, hN, hB, hlim, hfo, hseq⟩, hse'.flags.trans hfl, hse'.isReader.trans hrd,
      hse'.finished.trans hfin⟩
  | some c =>
    obtain ⟨hok, hbpp, hinv, hrl, hiw, hcu, hpo, hpf, hrows, hlsl⟩ : RowsSt i r0 pend ls := by
      rcases hdat with h | h
      · rw [hcur] at h; cases h
      · exact h
    obtain ⟨ls', hls⟩ : ∃ ls', ls = c.desc r0.sub.width :: ls' := by
      rcases hrows with ⟨c', h1, h2⟩ | ⟨h1, _⟩
      · rw [hcur] at h1; cases h1; exact ⟨_, h2⟩
      · rw [hcur] at h1; cases h1
    subst hls
    generalize hx : c.desc r0.sub.width = x at hok hrows hlsl
    obtain ⟨p, l, w⟩ := x
    obtain ⟨hlen, hhead, hrest⟩ := hok
    simp only at hlen hrest
    obtain ⟨ft, hft⟩ := ofNat?_of_le hhead
    -- the row's `InterlaceInfo`, its width
    have hc : c.line = l ∧ widthOf r0.sub c = w ∧ 1 ≤ w ∧ w ≤ r0.sub.width ∧
        rowlenOf i.color i.depth r0.sub c = rawRowLengthFromWidth i.color i.depth w := by
      cases hil : i.interlaced with
      | true =>
        rw [hil] at hiw hcu
        obtain ⟨pc, lc, wc, rfl, hp1, hp7, hwp, hw1', _⟩ := curOk_adam7 hiw hcu hcur
        simp only [IInfo.desc, Prod.mk.injEq] at hx
        obtain ⟨rfl, rfl, rfl⟩ := hx
        exact ⟨rfl, rfl, hw1', by rw [hwp]; exact passW_le _ _ ⟨hp1, hp7⟩, rfl⟩
      | false =>
        rw [hil] at hiw hcu
        obtain ⟨lc, rfl, _⟩ := curOk_null hiw hcu hcur
        simp only [IInfo.desc, Prod.mk.injEq] at hx
        obtain ⟨rfl, rfl, rfl⟩ := hx
        exact ⟨rfl, rfl, hw1, Nat.le_refl _, hrl⟩
    obtain ⟨hcl, hcw, hw1', hwle, hrlc⟩ := hc
    have hrl2 := rowlen_ge2 hleg hw1'
    have hprev : l ≠ 0 → r0.ub.prevRow = [] ∨ r0.ub.prevRow.length + 1 = rawRowLengthFromWidth i.color i.depth w := by
      intro hl0
      unfold PrevOk at hpo
      rw [hcur] at hpo
      cases c with
      | null lc => simp only at hpo; rw [← hrlc]; exact hpo
      | adam7 pc lc wc =>
        simp only at hpo
        have : lc = l := hcl
        have : wc = w := hcw
        subst_vars
        exact hpo hl0
    obtain ⟨r1, pend1, hrun, hP1, hinv1, hrow1, hpend1, hsub1, hbpp1, hfl1, hca1, hse1⟩ :=
      nextInterlacedRow_row cfg ht i hleg N dEnd bEnd pend r0 _ c l w ft hcl hcw hrlc hfl hbpp hca hP rfl hinv hcur hw1' hwle
        hprev (by omega) hft
    generalize hrowv : reconRow ft (bytesPerPixel i.color i.depth) (if l = 0 then [] else r0.ub.prevRow)
      (((r0.ub.abs.pending ++ dataOf pend).drop 1).take (rawRowLengthFromWidth i.color i.depth w - 1)) = row at hrun hrow1
    have hrowlen : row.length = rawRowLengthFromWidth i.color i.depth w - 1 := by
      rw [← hrowv]; unfold reconRow; rw [recon_length]
      simp only [List.length_take, List.length_drop]; omega
    have hadv := advance_ok hiw
    have hpo1 : PrevOk i.color i.depth r0.sub.advance row :=
      advance_prev (color := i.color) (depth := i.depth) (prev := row) hiw hcu hcur (by rw [hrlc, hrowlen]; omega)
    have hone : 1 + (rawRowLengthFromWidth i.color i.depth w - 1) = rawRowLengthFromWidth i.color i.depth w := by omega
    rw [hrun]
    refine ⟨rfl, ⟨i, N, dEnd, bEnd, pend1, ls', s, frames, hP1, Or.inr ⟨by rw [hpend1, ← hone]; exact hrest, hbpp1.trans hbpp,
      hinv1, ?_, by rw [hsub1]; exact hadv.1, by rw [hsub1]; exact hadv.2, by rw [hsub1, hrow1]; exact hpo1, ?_,
      by rw [hsub1]; exact (hrows.advance hiw.subWf').caf _, ?_⟩, cachedLegal_after hleg hca hca1, hleg,
      by rw [hsub1]; exact (advance_width _).symm ▸ hw1, by rw [hsub1]; exact (advance_height _).symm ▸ hh1, ?_, hfit, hN,
      hB, hlim, hfo, hseq⟩, hfl1.trans hfl, hse1.isReader.trans hrd, hse1.finished.trans hfin⟩
    · rw [hsub1]
      show r0.sub.advance.rowlen = rawRowLengthFromWidth i.color i.depth r0.sub.advance.width
      rw [advance_rowlen, advance_width]; exact hrl
    · -- the previous row fits the next row of a non-interlaced frame
      intro l' hl'
      rw [hsub1] at hl'
      have hl'' : r0.sub.advance.cur = some (.null l') := hl'
      cases hil : i.interlaced with
      | true =>
        have := hadv.2
        rw [hil] at this
        unfold CurOk at this
        rw [hl''] at this
        cases hit : r0.sub.advance.iter <;> rw [hit] at this <;> exact this.elim
      | false =>
        rw [hil] at hiw hcu
        obtain ⟨lc, rfl, _⟩ := curOk_null hiw hcu hcur
        have hl1 := advance_null hiw hcu hcur hl''
        simp only [IInfo.desc, Prod.mk.injEq] at hx
        obtain ⟨_, _, rfl⟩ := hx
        refine ⟨fun h0 => by omega, fun _ => ?_⟩
        rw [hrow1, hrowlen, hsub1]
        show _ = r0.sub.advance.rowlen
        rw [advance_rowlen, hrl]; omega
    · rw [hsub1]
      show ls'.length ≤ 7 * r0.sub.advance.height
      rw [advance_height]
      simp only [List.length_cons] at hlsl; omega
    · rw [hsub1]
      show (r0.sub.advance.width, r0.sub.advance.height) = _
      rw [advance_width, advance_height]; exact hdims

/-- the rows still to come in a non-interlaced frame: lines `k ..` -/
theorem rows_null {s : Sub} {ls : List (Nat × Nat × Nat)} {k : Nat} (hw : IterWf false s) (hc : CurOk false s)
    (hcur : s.cur = some (.null k)) (hrows : Rows s ls) :
    k < s.height ∧ ls = (List.range' k (s.height - k)).map fun l => (0, l, s.width) := by
  unfold IterWf at hw
  unfold CurOk at hc
  rw [hcur] at hc
  cases hi : s.iter with
  | adam7 a => rw [hi] at hw; exact hw.elim
  | none n stop =>
    rw [hi] at hw hc
    simp only at hw hc
    obtain ⟨hn, hk⟩ := hc
    refine ⟨hk, ?_⟩
    rcases hrows with ⟨c, h1, h2⟩ | ⟨h1, _⟩
    · rw [hcur] at h1; cases h1
      rw [h2]
      simp only [IInfo.desc, iterPart, hi]
      subst hw hn
      have : s.height - k = (s.height - (k + 1)) + 1 := by omega
      rw [this, List.range'_succ, List.map_cons]
    · rw [hcur] at h1; cases h1

/-- **`next_frame` inside the frames, standing in a frame's data** (rows pending or not): the rest of the frame is
    decoded and the frame is closed -/
theorem frameInto_open (cfg : Cfg) {t : TCfg} {f : Flags} (ht : t.IsIdentity f) (h : Header) (r0 : R) (buf : Bytes)
    (hO : OpenSt cfg t f h r0)
    (hbuf : ∀ i, r0.dec.info = some i → outLineSize t i f i.width * i.height ≤ buf.length) :
    ∃ r' oi buf', frameInto cfg t r0 buf = (r', .frame oi buf', buf') ∧ OpenSt cfg t f h r' := by
  obtain ⟨⟨i, N, dEnd, bEnd, pend, ls, s, frames, hP, hdat, hca, hleg, hw1, hh1, hdims, hfit, hN, hB, hlim, hfo, hseq⟩,
    hfl, hrd, hfin⟩ := hO
  have hinfo : infoOf r0 = some i := hP.info
  have hneed := hbuf i hP.info
  have hd := (legal_pos hleg).2.2
  have hrl2 := rowlen_ge2 hleg hw1
  generalize hW : r0.sub.width = W at *
  generalize hH : r0.sub.height = H at *
  have hdW : (Sub.dims i).1 = W := by rw [← hdims]
  have hdH : (Sub.dims i).2 = H := by rw [← hdims]
  have hols : outLineSize t i r0.flags W = rawRowLengthFromWidth i.color i.depth W - 1 := by
    rw [hfl, outLineSize_id ht]
  have hrb : (hdrOf i).rowBytes = fun w => rawRowLengthFromWidth i.color i.depth w - 1 := rowBytes_fun (hdrOf i) hd
  have hbs : (hdrOf i).bufferSize = H * (rawRowLengthFromWidth i.color i.depth W - 1) := by
    show (hdrOf i).rowBytes (hdrOf i).width * (hdrOf i).height = _
    rw [hrb, Nat.mul_comm]
    show (Sub.dims i).2 * (rawRowLengthFromWidth i.color i.depth (Sub.dims i).1 - 1) = _
    rw [hdW, hdH]
  have hfitb : H * (rawRowLengthFromWidth i.color i.depth W - 1) ≤ buf.length := by rw [← hbs]; omega
  -- the row loop
  have hbody : ∃ r2 buf2 pend2, frameBody cfg t r0 i.interlaced (rawRowLengthFromWidth i.color i.depth W - 1)
        (samplesOf i.color * i.depth) buf = (r2, buf2, none) ∧
      Pending cfg i N r2 pend2 dEnd bEnd ∧ r2.sub.cur = none ∧ SameEnv r0 r2 ∧ CachedLegal r2 ∧
      r2.sub.width = W ∧ r2.sub.height = H := by
    -- no row left
    have hnone : r0.sub.cur = none → ∃ r2 buf2 pend2, frameBody cfg t r0 i.interlaced
          (rawRowLengthFromWidth i.color i.depth W - 1) (samplesOf i.color * i.depth) buf = (r2, buf2, none) ∧
        Pending cfg i N r2 pend2 dEnd bEnd ∧ r2.sub.cur = none ∧ SameEnv r0 r2 ∧ CachedLegal r2 ∧
        r2.sub.width = W ∧ r2.sub.height = H := by
      intro hcurN
      cases hil : i.interlaced with
      | false =>
        refine ⟨r0, buf, pend, ?_, hP, hcurN, SameEnv.refl _, hca, hW, hH⟩
        unfold frameBody
        simp only [Bool.false_eq_true, if_false, hcurN, hH, Nat.sub_self]
        rw [if_neg (by omega)]
        rfl
      | true =>
        obtain ⟨r', hrun, hP', hsub', _, _, _, hse', _, hca'⟩ := nextInterlacedRow_none (t := t) hP hcurN
        refine ⟨r', buf, [], ?_, hP', by rw [hsub']; exact hcurN, hse', fun s0 hs0 => hca s0 (hca' ▸ hs0),
          by rw [hsub']; exact hW, by rw [hsub']; exact hH⟩
        unfold frameBody
        simp only [if_true, hH]
        have : 7 * H + 8 = (7 * H + 7) + 1 := by omega
        rw [this, frameInterlaced, hrun]
    rcases hdat with hcurN | ⟨hok, hbpp, hinv, hrl, hiw, hcu, hpo, hpf, hrows, hlsl⟩
    · exact hnone hcurN
    · rw [hW] at hrl
      rw [hH] at hlsl
      cases hcur : r0.sub.cur with
      | none => exact hnone hcur
      | some c =>
        cases hil : i.interlaced with
        | false =>
          rw [hil] at hiw hcu
          obtain ⟨k, rfl, _⟩ := curOk_null hiw hcu hcur
          obtain ⟨hkH, hls⟩ := rows_null hiw hcu hcur hrows
          rw [hH] at hkH
          rw [hH, hW] at hls
          subst hls
          obtain ⟨hp0, hp1⟩ := hpf k hcur
          obtain ⟨r2, pend2, hrun, hP2, hcur2, hse2, hw2, hh2, hca2⟩ :=
            frameRows_trace cfg ht i hleg N dEnd bEnd (fun w => rawRowLengthFromWidth i.color i.depth w - 1)
              (bytesPerPixel i.color i.depth) W H (rawRowLengthFromWidth i.color i.depth W - 1) (by omega) rfl
              (bpp_total _ _ hleg).2 (rowlen_multiple _ _ _ hleg) (H - k) k r0 buf _ pend (by omega) hP rfl hinv hbpp hfl
              hca (by rw [hrl]; omega) hW hiw.subWf' hrows hok hp0 (fun hk0 => by have := hp1 hk0; rw [hrl] at this; omega)
              hfitb
          have hfb : frameBody cfg t r0 false (rawRowLengthFromWidth i.color i.depth W - 1) (samplesOf i.color * i.depth) buf =
              frameRows cfg t (rawRowLengthFromWidth i.color i.depth W - 1) (H - k) k r0 buf := by
            unfold frameBody
            simp only [Bool.false_eq_true, if_false, hcur, IInfo.line, hH]
            rw [if_neg (by omega)]
          rw [hfb]
          exact ⟨r2, _, pend2, hrun, hP2, hcur2, hse2, hca2, hw2.trans hW, hh2.trans hH⟩
        | true =>
          rw [hil] at hiw hcu
          obtain ⟨r2, buf2, hrun, _, _, hP2, hcur2, _, _, _, _, hse2, hw2, hh2, hca2⟩ :=
            frameInterlaced_trace cfg ht i hleg N dEnd bEnd W H hh1 ls r0 buf _ pend (7 * H + 8) (by omega) hP rfl
              hinv hbpp hfl hca hW hH hiw hcu hpo hrows hok hfitb
          refine ⟨r2, buf2, [], ?_, hP2, hcur2, hse2, hca2, hw2.trans hW, hh2.trans hH⟩
          unfold frameBody
          simp only [if_true, hH]
          exact hrun
  obtain ⟨r2, buf2, pend2, hrun2, hP2, hcur2, hse2, hca2, hw2, hh2⟩ := hbody
  obtain ⟨r3, hrun3, hP3, hsub3, hdec3, hav3, hrem3, hse3, _, hca3, _⟩ := finishDecoding_trace hP2 hcur2
  have key : ∃ oi, frameInto cfg t r0 buf = (r3, .frame oi buf2, buf2) := by
    unfold frameInto
    simp only [hinfo]
    rw [hfl, ht.out]
    rw [if_neg (by omega)]
    simp only
    rw [← hfl, hW, hols, hrun2]
    simp only [hrun3]
    exact ⟨_, rfl⟩
  obtain ⟨oi, hoi⟩ := key
  exact ⟨r3, oi, buf2, hoi, ⟨i, N, dEnd, bEnd, [], [], s, frames, hP3, Or.inl (by rw [hsub3]; exact hcur2),
    fun s0 hs0 => hca2 s0 (hca3 ▸ hs0), hleg, by rw [hsub3]; show 1 ≤ r2.sub.width; rw [hw2]; exact hw1,
    by rw [hsub3]; show 1 ≤ r2.sub.height; rw [hh2]; exact hh1,
    by rw [hsub3]; show (r2.sub.width, r2.sub.height) = _; rw [hw2, hh2]; exact hdims, hfit, hN, hB, hlim, hfo, hseq⟩,
    (hse2.trans hse3).flags.trans hfl, (hse2.trans hse3).isReader.trans hrd, (hse2.trans hse3).finished.trans hfin⟩

/-! ## a fresh frame -/

/-- at the begin of the data of a frame whose inflated stream consists of exactly its scanlines -/
theorem rowsSt_fresh (i : Info) (hleg : (i.color, i.depth) ∈ legalPairs) (r : R) (pend : List (Ev × Bytes)) (raw : Bytes)
    (hsub : r.sub = Sub.new i) (hub : r.ub = UB.new) (hbpp : r.bpp = bytesPerPixel i.color i.depth)
    (hdata : dataOf pend = raw) (hraw : RawOk (hdrOf i) raw) (hH : 1 ≤ (Sub.dims i).2) :
    RowsSt i r pend (hdrOf i).scanlines := by
  have hd := (legal_pos hleg).2.2
  obtain ⟨hsw, hsh, hsrl, _⟩ := subNew_dims i
  obtain ⟨hrows, _⟩ := rows_new i
  obtain ⟨hiw, hcu⟩ := subNew_iter i
  have hscan : (hdrOf i).scanlines = (if i.interlaced then Adam7.specRows (Sub.dims i).1 (Sub.dims i).2
      else (List.range (Sub.dims i).2).map fun l => (0, l, (Sub.dims i).1)) := rfl
  have hrb : (hdrOf i).rowBytes = fun w => rawRowLengthFromWidth i.color i.depth w - 1 := rowBytes_fun (hdrOf i) hd
  refine ⟨?_, hbpp, by rw [hub]; exact UB.inv_new, by rw [hsub, hsrl, hsw], by rw [hsub]; exact hiw, by rw [hsub]; exact hcu,
    by rw [hub, prevRow_new]; exact prevOk_nil _ _ _, ?_, by rw [hsub, hscan]; exact hrows, ?_⟩
  · rw [hub, UB.abs_new]
    simp only [List.nil_append, hdata]
    have := hraw; unfold RawOk at this; rw [hrb] at this; exact this
  · intro l hl
    refine ⟨fun _ => by rw [hub]; exact prevRow_new, fun hl0 => ?_⟩
    exfalso
    rw [hsub] at hl
    cases hil : i.interlaced with
    | true =>
      rw [hil] at hcu
      unfold CurOk at hcu
      rw [hl] at hcu
      cases hit : (Sub.new i).iter <;> rw [hit] at hcu <;> exact hcu.elim
    | false =>
      rw [hil] at hrows
      simp only [Bool.false_eq_true, if_false] at hrows
      rcases hrows with ⟨c, h1, h2⟩ | ⟨h1, _⟩
      · rw [hl] at h1; cases h1
        have hH' : (Sub.dims i).2 = ((Sub.dims i).2 - 1) + 1 := by omega
        rw [hH', List.range_succ_eq_map, List.map_cons] at h2
        have := (List.cons.inj h2).1
        simp only [IInfo.desc, Prod.mk.injEq] at this
        exact hl0 this.2.1.symm
      · rw [hl] at h1; cases h1
  · rw [hsub, hsh, hscan]
    cases hil : i.interlaced with
    | true => simp only [if_true]; exact Adam7.specRows_length_le _ _
    | false => simp; omega

/-- **on to the next frame**: `read_until_image_data` from a closed frame behind which a frame follows -/
theorem advance_open (cfg : Cfg) (hI : cfg.InflateOk) (hC : cfg.CrcOk) {t : TCfg} {f : Flags} (ht : t.IsIdentity f)
    (h : Header) (hv : h.Valid) (r : R) (hO : OpenSt cfg t f h r) (hcaf : r.sub.caf = true) (hrem : r.remaining ≠ 0) :
    ∃ r' fc', readUntilImageData cfg t r = (r', .ok ()) ∧ (infoOf r' >>= (·.fctl)) = some fc' ∧
      OpenSt cfg t f h r' ∧
      (∀ i i', r.dec.info = some i → r'.dec.info = some i' →
        outLineSize t i' f i'.width * i'.height = outLineSize t i f i.width * i.height) := by
  obtain ⟨⟨i, N, dEnd, bEnd, pend, ls, s, frames, hP, hdat, hca, hleg, hw1, hh1, hdims, hfit, hN, hB, hlim, hfo, hseq⟩,
    hfl, hrd, hfin⟩ := hO
  have hv' := hv
  obtain ⟨hvw1, hvw2, hvh1, hvh2, hvleg⟩ := hv
  have hd := (legal_pos hvleg).2.2
  -- the frame is closed: the reader stands behind its data
  obtain ⟨hpn, hremN⟩ : pend = [] ∧ r.remaining + 1 = N := by
    rcases hP.caf with ⟨h1, _, _⟩ | ⟨_, h2, h3⟩
    · rw [hcaf] at h1; cases h1
    · exact ⟨h2, h3⟩
  subst hpn
  obtain ⟨hdE, hbE⟩ := trace_nil hP.trace
  cases frames with
  | nil => simp only [List.length_nil] at hN; omega
  | cons fr rest =>
    obtain ⟨fc, zs, raw⟩ := fr
    have hfo1 := hfo (fc, zs, raw) (by simp)
    obtain ⟨hfc, hne, hlen, hinf, hraw⟩ := hfo1
    simp only at hfc hne hlen hinf hraw
    simp only [List.map_cons, List.sum_cons, List.length_cons] at hlim hseq hN
    have hcore' := hB.core
    simp only [Info.core, Header.info, Prod.mk.injEq] at hcore'
    obtain ⟨c1, c2, c3, c4, c5⟩ := hcore'
    obtain ⟨fc', len, dM, bM, i', hfw, hfh, hi', Thead, hiM, hoM, hlimM, hdata⟩ :=
      between_step cfg hI hC h hv' fc zs raw rest dEnd bEnd i s hB ⟨hfc, hne, hlen, hinf⟩ (by omega)
    have hframe : h.frame fc' = h.frame fc := by
      unfold Header.frame; rw [hfw, hfh]
    have hhdr : hdrOf i' = h.frame fc := by rw [hi', hdrOf_frame fc' hB.core, hframe]
    have hcorei : i'.core = i.core := by rw [hi']; rfl
    have hlegi : (i'.color, i'.depth) ∈ legalPairs := by rw [hi']; exact hleg
    have hdims' : Sub.dims i' = (fc.width, fc.height) := by rw [hi']; simp [Sub.dims, hfw, hfh]
    have hLS : (hdrOf i').lineSize ≤ dM.limit := by rw [hhdr, hlimM]; omega
    obtain ⟨r1, hru, hdec1, hav1, hsub1, hbpp1, hub1, hse1, hca1, hrem1⟩ :=
      readUntilImageData_trace cfg ht (P := fun _ => True) (r := r) (i := i') (Or.inr rfl) hP.out
        (preEv_fctl cfg fc') (by rw [hdE, hbE] at Thead; exact Thead) hiM hlegi hfl hLS
    obtain ⟨pend', dEnd', bEnd', hev', Tdata, hdat', hB', hlimE⟩ := hdata (dM.limit - (hdrOf i').lineSize)
    have hfcf : (infoOf r1 >>= (·.fctl)) = some fc' := by
      show (r1.dec.info >>= (·.fctl)) = some fc'
      rw [hdec1]
      show (dM.info >>= (·.fctl)) = some fc'
      rw [hiM, hi']; rfl
    obtain ⟨hfit1, hfit2⟩ := frame_fits h hd fc (by have := hfc.xw; omega) (by have := hfc.yh; omega)
    have hszI : outLineSize t i f i.width * i.height = h.bufferSize := by
      rw [outLineSize_id ht, c1, c2, c3, c4, ← rowBytes_eq h hd]; rfl
    have hsz : outLineSize t i' f i'.width * i'.height = outLineSize t i f i.width * i.height := by
      have e : i'.width = i.width ∧ i'.height = i.height ∧ i'.color = i.color ∧ i'.depth = i.depth := by
        rw [hi']; exact ⟨rfl, rfl, rfl, rfl⟩
      rw [outLineSize_id ht, outLineSize_id ht, e.1, e.2.1, e.2.2.1, e.2.2.2]
    obtain ⟨hsw, hsh, _, hscaf⟩ := subNew_dims i'
    refine ⟨r1, fc', hru, hfcf, ⟨⟨i', rest.length + 1, dEnd', bEnd', pend', (hdrOf i').scanlines, _, rest, ?_, Or.inr ?_,
      fun s0 hs0 => hca s0 (hca1 ▸ hs0), hlegi, ?_, ?_, ?_, ?_, rfl, hB', ?_, fun fr hfr => hfo fr (by simp [hfr]), by omega⟩,
      hse1.flags.trans hfl, hse1.isReader.trans hrd, hse1.finished.trans hfin⟩, ?_⟩
    · refine ⟨by rw [hdec1]; exact hoM, by rw [hdec1]; exact hiM, by rw [hdec1, hav1]; exact Tdata,
        Or.inl ⟨by rw [hsub1]; exact hscaf, hev', by rw [hrem1]; omega⟩, by omega⟩
    · exact rowsSt_fresh i' hlegi r1 pend' raw hsub1 hub1 hbpp1 hdat' (by rw [hhdr]; exact hraw)
        (by rw [hdims']; exact hfc.h1)
    · rw [hsub1, hsw, hdims']; exact hfc.w1
    · rw [hsub1, hsh, hdims']; exact hfc.h1
    · rw [hsub1, hsw, hsh]
    · rw [hsz, hszI, hhdr]; exact hfit2
    · rw [hlimE, hhdr]; omega
    · intro j j' hj hj'
      have e1 : j = i := by rw [hP.info] at hj; cases hj; rfl
      have e2 : j' = i' := by rw [hdec1] at hj'; rw [show ({ dM with limit := dM.limit - (hdrOf i').lineSize } : Dec).info = dM.info from rfl, hiM] at hj'; cases hj'; rfl
      rw [e1, e2]; exact hsz

/-! ## `next_frame`, `next_frame_info`, `finish` inside the frames -/

theorem callerBuf_length (r : R) (size : Nat) (p : UInt8) : (callerBuf r size p).length = size := by
  unfold callerBuf
  cases r.pendingBuf with
  | none => simp
  | some b =>
    simp only
    split
    · assumption
    · simp

/-- **`next_frame` into a buffer of the documented size** -/
theorem open_nextFrameBuf (cfg : Cfg) (hI : cfg.InflateOk) (hC : cfg.CrcOk) {t : TCfg} {f : Flags} (ht : t.IsIdentity f)
    (h : Header) (hv : h.Valid) (r0 : R) (buf : Bytes) (hO : OpenSt cfg t f h r0)
    (hbuf : ∀ i, r0.dec.info = some i → outLineSize t i f i.width * i.height = buf.length) :
    ∃ r' res buf', nextFrameBuf cfg t r0 buf = (r', res, buf') ∧ OpenSt cfg t f h r' ∧
      ((∃ oi b, res = .frame oi b) ∨ res = .err .parameter "PolledAfterEndOfImage") := by
  by_cases hc : r0.sub.cur.isSome = true
  · obtain ⟨r', oi, buf', hrun, hO'⟩ := frameInto_open cfg ht h r0 buf hO (fun i hi => by rw [hbuf i hi]; exact Nat.le_refl _)
    refine ⟨r', _, buf', ?_, hO', Or.inl ⟨oi, buf', rfl⟩⟩
    unfold nextFrameBuf
    rw [if_pos hc]; exact hrun
  · have hcurN : r0.sub.cur = none := by
      cases hcc : r0.sub.cur with
      | none => rfl
      | some c => rw [hcc] at hc; exact absurd rfl hc
    rw [nextFrameBuf_none cfg t r0 buf hcurN]
    unfold nextFrameBuf0
    by_cases hr : r0.remaining = 0
    · rw [if_pos hr]
      exact ⟨r0, _, buf, rfl, hO, Or.inr rfl⟩
    · rw [if_neg hr]
      cases hcaf : r0.sub.caf with
      | false =>
        simp only [Bool.false_eq_true, if_false]
        obtain ⟨r', oi, buf', hrun, hO'⟩ := frameInto_open cfg ht h r0 buf hO (fun i hi => by rw [hbuf i hi]; exact Nat.le_refl _)
        exact ⟨r', _, buf', hrun, hO', Or.inl ⟨oi, buf', rfl⟩⟩
      | true =>
        simp only [if_true]
        obtain ⟨r1, fc', hru, _, hO1, hsz⟩ := advance_open cfg hI hC ht h hv r0 hO hcaf hr
        rw [hru]
        simp only
        obtain ⟨i0, hi0⟩ : ∃ i0, r0.dec.info = some i0 := by
          obtain ⟨⟨i, N, dEnd, bEnd, pend, ls, s, frames, hP, _⟩, _⟩ := hO
          exact ⟨i, hP.info⟩
        obtain ⟨r', oi, buf', hrun, hO'⟩ := frameInto_open cfg ht h r1 buf hO1
          (fun i' hi' => by rw [hsz i0 i' hi0 hi', hbuf i0 hi0]; exact Nat.le_refl _)
        exact ⟨r', _, buf', hrun, hO', Or.inl ⟨oi, buf', rfl⟩⟩

/-- **`next_frame` inside the frames** -/
theorem open_nextFrame (cfg : Cfg) (hI : cfg.InflateOk) (hC : cfg.CrcOk) {t : TCfg} {f : Flags} (ht : t.IsIdentity f)
    (h : Header) (hv : h.Valid) (r : R) (p : UInt8) (hO : OpenSt cfg t f h r) :
    okRes (step cfg t r (.nextFrame p)).2 = true ∧ OpenSt cfg t f h (step cfg t r (.nextFrame p)).1 := by
  have hst : step cfg t r (.nextFrame p) = nextFrameOp cfg t r p := by
    show (if !r.isReader then _ else nextFrameOp cfg t r p) = _
    simp [hO.rd]
  rw [hst]
  obtain ⟨i0, hi0⟩ : ∃ i0, infoOf r = some i0 := by
    obtain ⟨⟨i, N, dEnd, bEnd, pend, ls, s, frames, hP, _⟩, _⟩ := hO
    exact ⟨i, hP.info⟩
  unfold nextFrameOp
  simp only [hi0]
  have hO0 := hO.clearPending none
  obtain ⟨r', res, buf', hrun, hO', hres⟩ := open_nextFrameBuf cfg hI hC ht h hv _
    (callerBuf r (outLineSize t i0 r.flags i0.width * i0.height) p) hO0
    (fun i hi => by
      have : i = i0 := by
        have h1 : r.dec.info = some i := hi
        have h2 : r.dec.info = some i0 := hi0
        rw [h1] at h2; cases h2; rfl
      rw [this, callerBuf_length, hO.flags])
  rw [hrun]
  simp only
  rcases hres with ⟨oi, b, rfl⟩ | rfl
  · exact ⟨rfl, hO'⟩
  · exact ⟨rfl, hO'⟩

/-- **`next_frame_info` inside the frames** -/
theorem open_nextFrameInfo (cfg : Cfg) (hI : cfg.InflateOk) (hC : cfg.CrcOk) {t : TCfg} {f : Flags} (ht : t.IsIdentity f)
    (h : Header) (hv : h.Valid) (r : R) (hO : OpenSt cfg t f h r) :
    okRes (step cfg t r .nextFrameInfo).2 = true ∧ OpenSt cfg t f h (step cfg t r .nextFrameInfo).1 := by
  have hst : step cfg t r .nextFrameInfo = nextFrameInfo cfg t { r with pendingBuf := none } := by
    show (if !r.isReader then _ else nextFrameInfo cfg t { r with pendingBuf := none }) = _
    simp [hO.rd]
  rw [hst]
  have hO0 := hO.clearPending none
  generalize ({ r with pendingBuf := none } : R) = r0 at hO0 ⊢
  unfold Reader.nextFrameInfo
  generalize hrc : ({ r0 with sub := { r0.sub with cur := none } } : R) = rc
  by_cases hcaf : r0.sub.caf = true
  · have hn : ¬ (!r0.sub.caf) = true := by simp [hcaf]
    simp only [if_pos hcaf, if_neg hn]
    cases hrem : r0.remaining with
    | zero => exact ⟨rfl, hO0⟩
    | succ n =>
      simp only
      obtain ⟨r2, fc', hru, hfc, hO2, _⟩ := advance_open cfg hI hC ht h hv r0 hO0 hcaf (by omega)
      rw [hru]
      simp only [hfc]
      exact ⟨rfl, hO2⟩
  · have hcafF : r0.sub.caf = false := by simpa using hcaf
    have hn : (!r0.sub.caf) = true := by simp [hcafF]
    simp only [if_neg hcaf, if_pos hn]
    cases hrem : r0.remaining - 1 with
    | zero => exact ⟨rfl, hO0⟩
    | succ n =>
      simp only
      obtain ⟨⟨i, N, dEnd, bEnd, pend, ls, s, frames, hP, hdat, hca, hleg, hw1, hh1, hdims, hfit, hN, hB, hlim, hfo, hseq⟩,
        hfl, hrd, hfin⟩ := hO0
      have hPc : Pending cfg i N rc pend dEnd bEnd := by
        subst hrc; exact ⟨hP.out, hP.info, hP.trace, hP.caf, hP.hN⟩
      have hcurc : rc.sub.cur = none := by subst hrc; rfl
      obtain ⟨r1, hrun1, hP1, hsub1, hdec1, hav1, hrem1, hse1, _, hca1, _⟩ := finishDecoding_trace hPc hcurc
      rw [hrun1]
      simp only
      have hremN : r0.remaining = N := by
        rcases hP.caf with ⟨_, _, h3⟩ | ⟨h1, _, _⟩
        · exact h3
        · rw [hcafF] at h1; cases h1
      have hsubc : rc.sub = { r0.sub with cur := none } := by subst hrc; rfl
      have hO1 : OpenSt cfg t f h r1 := by
        refine ⟨⟨i, N, dEnd, bEnd, [], [], s, frames, hP1, Or.inl (by rw [hsub1, hsubc]), ?_, hleg,
          by rw [hsub1, hsubc]; exact hw1, by rw [hsub1, hsubc]; exact hh1, by rw [hsub1, hsubc]; exact hdims, hfit, hN, hB, hlim,
          hfo, hseq⟩, ?_, ?_, ?_⟩
        · intro s0 hs0; rw [hca1] at hs0; subst hrc; exact hca s0 hs0
        · rw [hse1.flags]; subst hrc; exact hfl
        · rw [hse1.isReader]; subst hrc; exact hrd
        · rw [hse1.finished]; subst hrc; exact hfin
      obtain ⟨r2, fc', hru, hfc, hO2, _⟩ := advance_open cfg hI hC ht h hv r1 hO1 (by rw [hsub1]) (by omega)
      rw [hru]
      simp only [hfc]
      exact ⟨rfl, hO2⟩

/-- **`finish` inside the frames**: the rest of the file is read to `IEND` -/
theorem open_finish (cfg : Cfg) (hI : cfg.InflateOk) (hC : cfg.CrcOk) {t : TCfg} {f : Flags}
    (h : Header) (hv : h.Valid) (r : R) (hO : OpenSt cfg t f h r) :
    okRes (step cfg t r .finish).2 = true ∧ FinSt (step cfg t r .finish).1 := by
  have hst : step cfg t r .finish = finish cfg { r with pendingBuf := none } := by
    show (if !r.isReader then _ else finish cfg { r with pendingBuf := none }) = _
    simp [hO.rd]
  rw [hst]
  have hO0 := hO.clearPending none
  generalize ({ r with pendingBuf := none } : R) = r0 at hO0 ⊢
  obtain ⟨⟨i, N, dEnd, bEnd, pend, ls, s, frames, hP, hdat, hca, hleg, hw1, hh1, hdims, hfit, hN, hB, hlim, hfo, hseq⟩,
    hfl, hrd, hfin⟩ := hO0
  unfold Reader.finish
  generalize hrz : ({ r0 with remaining := 0, ub := UB.new, sub := { r0.sub with cur := none, caf := true } } : R) = rz
  have hfin' : ¬ r0.finished = true := by simp [hfin]
  rw [if_neg hfin']
  have hzd : rz.dec = r0.dec := by subst hrz; rfl
  have hza : avail rz = avail r0 := by subst hrz; rfl
  obtain ⟨evs, dE, hevs, htrE⟩ := toEnd_between cfg hI hC h hv frames dEnd bEnd i s
    (fun fr hfr => ⟨(hfo fr hfr).fc, (hfo fr hfr).ne, (hfo fr hfr).len, (hfo fr hfr).inf⟩) hseq hB
  have hpe : ∀ e ∈ pend, e.1 ≠ .imageEnd := by
    rcases hP.caf with ⟨_, hev, _⟩ | ⟨_, hnil, _⟩
    · exact dataEvs_not_end hev
    · subst hnil; intro e he; cases he
  have hfull : Trace cfg (fun _ => True) rz.dec (avail rz) ((pend ++ evs) ++ [(.imageEnd, [])]) dE [] := by
    rw [hzd, hza]
    have := (hP.trace.mono (fun _ _ => trivial)).append htrE
    simpa [List.append_assoc] using this
  obtain ⟨r1, hrun, ha, ho1⟩ := readUntilEndOfInput_trace (pend ++ evs) rz (fuelOf rz)
    (by have := trace_length_lt_fuel hfull; simp at this ⊢; omega) (by rw [hzd]; exact hP.out)
    (fun e he => by
      simp only [List.mem_append] at he
      rcases he with he | he
      · exact hpe e he
      · exact hevs e he) hfull
  simp only [hrun]
  have hfr := ha.frame
  have hse := hfr.sameEnv
  unfold Reader.Frame at hfr
  refine ⟨rfl, rfl, ?_, ?_, ?_, ?_⟩
  · show r1.remaining = 0; rw [hfr]; subst hrz; rfl
  · show r1.sub.cur = none; rw [hfr]; subst hrz; rfl
  · show r1.sub.caf = true; rw [hfr]; subst hrz; rfl
  · show r1.isReader = true; rw [hse.isReader]; subst hrz; exact hrd

/-! ## one call, any sequence of calls -/

/-- the invariant of a run on a well-formed file with exact image data, with the fact that the decoder keeps the `IHDR`
    fields of its `Info` -/
structure ExactI (cfg : Cfg) (t : TCfg) (f : Flags) (h : Header) (i0 : Info) (r : R) : Prop where
  st : Exact cfg t f h r
  core : CorePred i0 r.dec

/-- **one call**: `next_frame`, `next_row` / `next_interlaced_row`, `next_frame_info`, `finish` -/
theorem exact_step (cfg : Cfg) (hI : cfg.InflateOk) (hC : cfg.CrcOk) {t : TCfg} {f : Flags} (ht : t.IsIdentity f)
    (h : Header) (hv : h.Valid) (i0 : Info) (r : R) (hE : ExactI cfg t f h i0 r) (op : Reader.Op)
    (hop : isCall op = true) (hne : op ≠ .readRow) :
    okRes (step cfg t r op).2 = true ∧ ExactI cfg t f h i0 (step cfg t r op).1 := by
  have hcore' : CorePred i0 (step cfg t r op).1.dec := step_decP (corePred_decPred cfg i0) t r op hE.core
  rcases hE.st with hO | hF
  · cases op with
    | nextFrame p =>
      obtain ⟨h1, h2⟩ := open_nextFrame cfg hI hC ht h hv r p hO
      exact ⟨h1, Or.inl h2, hcore'⟩
    | nextRow =>
      obtain ⟨h1, h2⟩ := open_nextRow cfg ht h r hO
      exact ⟨h1, Or.inl h2, hcore'⟩
    | nextFrameInfo =>
      obtain ⟨h1, h2⟩ := open_nextFrameInfo cfg hI hC ht h hv r hO
      exact ⟨h1, Or.inl h2, hcore'⟩
    | finish =>
      obtain ⟨h1, h2⟩ := open_finish cfg hI hC h hv r hO
      exact ⟨h1, Or.inr h2, hcore'⟩
    | readRow => exact absurd rfl hne
    | readHeader => cases hop
    | readInfo => cases hop
    | grow n => cases hop
  · obtain ⟨h1, h2⟩ := fin_step cfg t r hF (hdrPred_some hE.core) op hop hne
    exact ⟨h1, Or.inr h2, hcore'⟩

/-- **any sequence of calls** has only answers the `Lazy` model speaks about -/
theorem exact_run (cfg : Cfg) (hI : cfg.InflateOk) (hC : cfg.CrcOk) {t : TCfg} {f : Flags} (ht : t.IsIdentity f)
    (h : Header) (hv : h.Valid) (i0 : Info) :
    ∀ (ops : List Reader.Op) (r : R), ExactI cfg t f h i0 r → (∀ op ∈ ops, isCall op = true ∧ op ≠ .readRow) →
      (∀ res ∈ (Reader.run cfg t r ops).2, okRes res = true) ∧ ExactI cfg t f h i0 (Reader.run cfg t r ops).1 := by
  intro ops
  induction ops with
  | nil => intro r hE _; exact ⟨fun res hres => by simp [Reader.run] at hres, hE⟩
  | cons op ops ih =>
    intro r hE hops
    obtain ⟨h1, h2⟩ := exact_step cfg hI hC ht h hv i0 r hE op (hops op (by simp)).1 (hops op (by simp)).2
    obtain ⟨h3, h4⟩ := ih (step cfg t r op).1 h2 (fun o ho => hops o (by simp [ho]))
    rw [run_cons_res]
    refine ⟨fun res hres => ?_, h4⟩
    simp only [List.mem_cons] at hres
    rcases hres with rfl | hres
    · exact h1
    · exact h3 res hres

/-- the reader `read_info` returns on a file whose first data sequence carries exactly its scanlines -/
theorem open_of_ready (cfg : Cfg) (t : TCfg) (f : Flags) (h : Header) (i : Info) (N : Nat) (r : R) (raw : Bytes)
    (dEnd : Dec) (bEnd : Bytes) (hR : Ready cfg f i N r raw dEnd bEnd) (hraw : RawOk (hdrOf i) raw)
    (hleg : (i.color, i.depth) ∈ legalPairs) (hrd : r.isReader = true) (hfin : r.finished = false)
    (hW : 1 ≤ (Sub.dims i).1) (hH : 1 ≤ (Sub.dims i).2)
    (hfit : (hdrOf i).bufferSize ≤ outLineSize t i f i.width * i.height)
    (frames : List (FrameControl × List Bytes × Bytes)) (s : Nat) (hN : N = frames.length + 1)
    (hB : BetweenD cfg h dEnd bEnd i s frames) (hlim : (frames.map fun x => (h.frame x.1).lineSize).sum ≤ dEnd.limit)
    (hfo : ∀ fr ∈ frames, FrameOk cfg h fr) (hseq : s + (frames.map fun x => 1 + x.2.1.length).sum < 2 ^ 32) :
    OpenSt cfg t f h r := by
  obtain ⟨pend, hP, hdata⟩ := hR.pend
  obtain ⟨hsw, hsh, _, _⟩ := subNew_dims i
  exact ⟨⟨i, N, dEnd, bEnd, pend, (hdrOf i).scanlines, s, frames, hP,
    Or.inr (rowsSt_fresh i hleg r pend raw hR.sub hR.ub hR.bpp hdata hraw hH), hR.cached, hleg,
    by rw [hR.sub, hsw]; exact hW, by rw [hR.sub, hsh]; exact hH, by rw [hR.sub, hsw, hsh], hfit, hN, hB, hlim, hfo, hseq⟩,
    hR.flags, hrd, hfin⟩

/-! ## `read_row`, through C13 (`read_row` delivers what `next_row` delivers) under the C02 invariant -/

theorem OpenSt.setScratch {cfg : Cfg} {t : TCfg} {f : Flags} {h : Header} {r : R} (hO : OpenSt cfg t f h r) (n : Nat) :
    OpenSt cfg t f h { r with scratchLen := n } := by
  obtain ⟨⟨i, N, dEnd, bEnd, pend, ls, s, frames, h1, h2, h3, h4, h5, h6, h7, h8, h9, h10, h11, h12, h13⟩, hf, hr, hfi⟩ := hO
  refine ⟨⟨i, N, dEnd, bEnd, pend, ls, s, frames, ⟨h1.out, h1.info, h1.trace, h1.caf, h1.hN⟩, ?_, fun s0 hs0 => h3 s0 hs0, h4,
    h5, h6, h7, h8, h9, h10, h11, h12, h13⟩, hf, hr, hfi⟩
  rcases h2 with h2 | ⟨a1, a2, a3, a4, a5, a6, a7, a8, a9, a10⟩
  · exact Or.inl h2
  · exact Or.inr ⟨a1, a2, a3, a4, a5, a6, a7, a8, a9, a10⟩

theorem inv_of_rinv {t : TCfg} {r : R} (h : RInv t r) (hrd : r.isReader = true) : Inv t r := by
  rcases h with ⟨_, k⟩ | ⟨_, _, k⟩ | ⟨_, k, _⟩
  · rw [hrd] at k; cases k
  · exact k
  · rw [hrd] at k; cases k

/-- **`read_row` with the documented buffer answers what `next_row` answers**, and leaves the same reader up to the
    length of the library's scratch row -/
theorem readRow_step_eq (cfg : Cfg) {t : TCfg} (ht : t.Ok) (r : R) (hI : Inv t r) (hrd : r.isReader = true) :
    (step cfg t r .readRow).2 = (step cfg t r .nextRow).2 ∧
      ∃ n, (step cfg t r .readRow).1 = { (step cfg t r .nextRow).1 with scratchLen := n } := by
  have hI0 := hI.setPending none
  obtain ⟨i, hi, hg⟩ := hI0.info
  have hio : infoOf r = some i := hi
  have h1 : step cfg t r .readRow = readRow cfg t { r with pendingBuf := none } (outLineSize t i r.flags i.width) := by
    show (if !r.isReader then _ else (match infoOf r with
      | none => (r, Res.panic "info().unwrap()")
      | some i => readRow cfg t { r with pendingBuf := none } (outLineSize t i r.flags i.width))) = _
    simp [hrd, hio]
  have h2 : step cfg t r .nextRow = nextInterlacedRow cfg t { r with pendingBuf := none } := by
    show (if !r.isReader then _ else nextInterlacedRow cfg t { r with pendingBuf := none }) = _
    simp [hrd]
  rw [h1, h2]
  have hbuf : outLineSize t i ({ r with pendingBuf := none } : R).flags ({ r with pendingBuf := none } : R).sub.width ≤
      outLineSize t i r.flags i.width :=
    outLineSize_mono ht (hI0.base.dinv.legal i hi) r.flags hg.wW
  obtain ⟨⟨n, c, hps, hc⟩, hres⟩ := readRow_eq_nextRow cfg ht (outLineSize t i r.flags i.width) hI0 hi hbuf
  refine ⟨hres, n, ?_⟩
  rcases hc with hc | hc
  · rw [hps, hc]; rfl
  · exact hc.elim

/-- the invariant with the C02 invariant of the byte-level model (for `read_row`) -/
structure ExactR (cfg : Cfg) (t : TCfg) (f : Flags) (h : Header) (i0 : Info) (r : R) : Prop where
  ex : ExactI cfg t f h i0 r
  rinv : RInv t r
  rd : r.isReader = true

/-- **one call**, `read_row` included -/
theorem exactR_step (cfg : Cfg) (hI : cfg.InflateOk) (hC : cfg.CrcOk) {t : TCfg} {f : Flags} (ht : t.IsIdentity f)
    (hto : t.Ok) (h : Header) (hv : h.Valid) (i0 : Info) (r : R) (hE : ExactR cfg t f h i0 r) (op : Reader.Op)
    (hop : isCall op = true) :
    okRes (step cfg t r op).2 = true ∧ ExactR cfg t f h i0 (step cfg t r op).1 := by
  have hne : op ≠ .readInfo := by intro h; subst h; cases hop
  obtain ⟨hR', _, hrd'⟩ := step_spec cfg hto r op hE.rinv (fun h => absurd h hne)
  have hrd'' : (step cfg t r op).1.isReader = true := (hrd' hne).trans hE.rd
  by_cases hrr : op = .readRow
  · subst hrr
    obtain ⟨h1, h2⟩ := exact_step cfg hI hC ht h hv i0 r hE.ex .nextRow rfl (by intro h; cases h)
    obtain ⟨e1, n, e2⟩ := readRow_step_eq cfg hto r (inv_of_rinv hE.rinv hE.rd) hE.rd
    refine ⟨by rw [e1]; exact h1, ⟨?_, ?_⟩, hR', hrd''⟩
    · rw [e2]
      rcases h2.st with hO | hF
      · exact Or.inl (hO.setScratch n)
      · exact Or.inr ⟨hF.finished, hF.rem, hF.cur, hF.caf, hF.rd⟩
    · exact step_decP (corePred_decPred cfg i0) t r .readRow hE.ex.core
  · obtain ⟨h1, h2⟩ := exact_step cfg hI hC ht h hv i0 r hE.ex op hop hrr
    exact ⟨h1, h2, hR', hrd''⟩

/-- **any sequence of calls**, `read_row` included -/
theorem exactR_run (cfg : Cfg) (hI : cfg.InflateOk) (hC : cfg.CrcOk) {t : TCfg} {f : Flags} (ht : t.IsIdentity f)
    (hto : t.Ok) (h : Header) (hv : h.Valid) (i0 : Info) :
    ∀ (ops : List Reader.Op) (r : R), ExactR cfg t f h i0 r → (∀ op ∈ ops, isCall op = true) →
      (∀ res ∈ (Reader.run cfg t r ops).2, okRes res = true) ∧ ExactR cfg t f h i0 (Reader.run cfg t r ops).1 := by
  intro ops
  induction ops with
  | nil => intro r hE _; exact ⟨fun res hres => by simp [Reader.run] at hres, hE⟩
  | cons op ops ih =>
    intro r hE hops
    obtain ⟨h1, h2⟩ := exactR_step cfg hI hC ht hto h hv i0 r hE op (hops op (by simp))
    obtain ⟨h3, h4⟩ := ih (step cfg t r op).1 h2 (fun o ho => hops o (by simp [ho]))
    rw [run_cons_res]
    refine ⟨fun res hres => ?_, h4⟩
    simp only [List.mem_cons] at hres
    rcases hres with rfl | hres
    · exact h1
    · exact h3 res hres

end Png.LazyRefine
