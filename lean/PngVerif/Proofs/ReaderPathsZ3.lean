import PngVerif.Proofs.ReaderPathsZ2
/-!
# Decoding paths, part 11: a delivered row has not seen the end of the frame's data (C13)

`next_frame` decides between "continue this frame" and "advance to the next frame" by looking at
`consumed_and_flushed` alone (mod.rs:396).  That is right because a row can only be delivered while
the flag is still clear: `next_raw_interlaced_row` asks the stream decoder for data only while the
current row is incomplete, the end of the data-chunk sequence delivers no data (`decodeNext'_flush`),
so once the flag is set the incomplete row stays incomplete and the call fails with
`NoMoreImageData`.  `nextRow_caf`: after a successful row-level call `consumed_and_flushed` is as before.
-/
namespace Png.Reader
open Png Png.Framing

theorem extend_nil' (u : UB) : u.extend [] = u := by unfold UB.extend; simp only [List.append_nil]

/-- `next_raw_interlaced_row` that succeeds from a frame whose data is not consumed yet has not seen the
    end of the data-chunk sequence -/
theorem nextRawRow_caf (cfg : Cfg) (rowlen : Nat) : ∀ (f : Nat) (a a1 : R),
    gloop cfg (bodyRaw rowlen) f a = (a1, .ok ()) → a.sub.caf = false → ZInv cfg a.dec → a.ub.Inv →
    a1.sub.caf = false := by
  intro f
  induction f with
  | zero => intro a a1 h; simp only [gloop, Prod.mk.injEq] at h; cases h.2
  | succ f ih =>
    intro a a1 h hcaf hz hu
    cases hp : (bodyRaw rowlen).pre a with
    | some x =>
      rw [gloop, hp] at h
      simp only at h
      subst h
      simp only [bodyRaw] at hp
      split at hp
      · split at hp
        · simp only [Option.some.injEq, Prod.mk.injEq] at hp; cases hp.2
        · cases hp
      · simp only [Option.some.injEq] at hp
        cases hun : a.ub.unfilterCurr rowlen a.bpp with
        | ok u =>
          rw [hun] at hp; simp only [Prod.mk.injEq] at hp
          obtain ⟨rfl, _⟩ := hp
          exact hcaf
        | unknownFilter b => rw [hun] at hp; simp only [Prod.mk.injEq] at hp; cases hp.2
        | panic => rw [hun] at hp; simp only [Prod.mk.injEq] at hp; cases hp.2
    | none =>
      have hlen : a.ub.currLen < rowlen := by
        simp only [bodyRaw] at hp
        split at hp
        · assumption
        · cases hp
      rw [gloop_succ cfg _ f a hp] at h
      simp only [bodyRaw] at h
      have hz0 : ZInv cfg ({ a with ub := a.ub.compact } : R).dec := hz
      have hdz := (zinv_decPred cfg).dn { a with ub := a.ub.compact } hz0
      cases hd : decodeNext' cfg { a with ub := a.ub.compact } with
      | mk r' res =>
        rw [hd] at h hdz
        simp only at hdz
        have hshape := decodeNext'_shape cfg hd
        have hub' : r'.ub = a.ub.compact := by rw [hshape]
        have hsub' : r'.sub = a.sub := by rw [hshape]
        cases res with
        | error e => simp only [Prod.mk.injEq] at h; cases h.2
        | ok p =>
          obtain ⟨ev, data⟩ := p
          simp only at h
          have go : ∀ {a'' : R}, a'' = { r' with ub := r'.ub.extend data } → gloop cfg (bodyRaw rowlen) f a'' = (a1, .ok ()) →
              a1.sub.caf = false := by
            intro a'' e hg
            subst e
            exact ih _ a1 hg (by show r'.sub.caf = false; rw [hsub']; exact hcaf) hdz
              (by show (r'.ub.extend data).Inv; rw [hub']; exact UB.inv_extend _ _ (UB.inv_compact _ hu))
          cases ev with
          | imageDataFlushed =>
            exfalso
            have hdata := decodeNext'_flush cfg hz0 hd
            subst hdata
            simp only [rawPost] at h
            cases hm : markFlushed { r' with ub := r'.ub.extend [] } with
            | error e => rw [hm] at h; simp only [Prod.mk.injEq] at h; cases h.2
            | ok r3 =>
              rw [hm] at h
              simp only at h
              -- the flag is set, the row is still incomplete: the next iteration fails
              unfold markFlushed at hm
              split at hm
              · cases hm
              · simp only [Except.ok.injEq] at hm
                subst hm
                cases f with
                | zero => simp only [gloop, Prod.mk.injEq] at h; cases h.2
                | succ f =>
                  rw [gloop] at h
                  simp only at h
                  rw [extend_nil', hub', currLen_compact _ hu, if_pos hlen] at h
                  simp only [if_true, Prod.mk.injEq] at h
                  cases h.2
          | imageData => exact go rfl h
          | nothing => exact go rfl h
          | chunkComplete _ _ => exact go rfl h
          | chunkBegin _ _ => exact go rfl h
          | partialChunk _ => exact go rfl h
          | header _ _ _ _ _ => simp only [rawPost, Prod.mk.injEq] at h; cases h.2
          | imageEnd => simp only [rawPost, Prod.mk.injEq] at h; cases h.2
          | pixelDimensions _ _ _ => simp only [rawPost, Prod.mk.injEq] at h; cases h.2
          | animationControl _ _ => simp only [rawPost, Prod.mk.injEq] at h; cases h.2
          | frameControl _ => simp only [rawPost, Prod.mk.injEq] at h; cases h.2

/-- a decoded row leaves `consumed_and_flushed` clear -/
theorem nextRowImpl_caf (cfg : Cfg) (t : TCfg) {a a' : R} {rl ol : Nat} {out : Bytes}
    (h : nextRowImpl cfg t a rl ol = (a', .ok out)) (hcaf : a.sub.caf = false) (hz : ZInv cfg a.dec) (hu : a.ub.Inv) :
    a'.sub.caf = false := by
  rw [nextRowImpl_post] at h
  cases hx : nextRawRow cfg rl (fuelOf a) a with
  | mk a1 x =>
    rw [hx] at h
    obtain ⟨rfl, c, rfl⟩ := rowImplPost_ok h
    have h1 := nextRawRow_caf cfg rl (fuelOf a) a a1 (by rw [← nextRawRow_gloop]; exact hx) hcaf hz hu
    show a1.sub.advance.caf = false
    rw [(advance_dims a1.sub).2.2.2]; exact h1

/-- **a delivered row leaves `consumed_and_flushed` clear** -/
theorem nextRow_caf (cfg : Cfg) {t : TCfg} (ht : t.Ok) {r r1 : R} {i : Info} {ii : IInfo} {data : Bytes} (hI : Inv t r)
    (hi : r.dec.info = some i) (hz : ZInv cfg r.dec) (hcaf : r.sub.caf = false)
    (hx : nextInterlacedRow cfg t r = (r1, .row ii data)) : r1.sub.caf = false := by
  obtain ⟨_, _, _, hcur, _, _, _⟩ := nextRow_keeps cfg ht hI hi hx
  have h1 : nextInterlacedRow cfg t r =
      readRow cfg t { r with scratchLen := outLineSize t i r.flags r.sub.width } (outLineSize t i r.flags r.sub.width) := by
    unfold nextInterlacedRow; simp only [infoOf, hi]
  have hIs := hI.setScratch (outLineSize t i r.flags r.sub.width)
  rw [h1, readRow_row cfg ht _ hIs hi hcur (Nat.le_refl _)] at hx
  have hP := rowStart_pre hIs hi hcur
  have hsp := nextRowImpl_spec cfg ht _ i ii hP.inv hP.info hP.cur hP.prev
  rw [rowStart_sub, (rowStart_keep _ ii).flags] at hsp
  cases hn : nextRowImpl cfg t (rowStart { r with scratchLen := outLineSize t i r.flags r.sub.width } ii)
      (rowlenOf i.color i.depth r.sub ii) (outLineSize t i r.flags (widthOf r.sub ii)) with
  | mk a' res =>
    have hx' := hx
    rw [show ({ r with scratchLen := outLineSize t i r.flags r.sub.width } : R).sub = r.sub from rfl,
      show ({ r with scratchLen := outLineSize t i r.flags r.sub.width } : R).flags = r.flags from rfl, hn] at hx'
    rw [show ({ r with scratchLen := outLineSize t i r.flags r.sub.width } : R).sub = r.sub from rfl,
      show ({ r with scratchLen := outLineSize t i r.flags r.sub.width } : R).flags = r.flags from rfl, hn] at hsp
    cases res with
    | error e =>
      simp only [Prod.mk.injEq] at hx'
      obtain ⟨_, rfl⟩ := hx'
      exact absurd hsp.1 (by simp [Res.isErr])
    | ok out =>
      simp only [Prod.mk.injEq] at hx'
      obtain ⟨rfl, _⟩ := hx'
      refine nextRowImpl_caf cfg t hn ?_ ?_ hP.inv.ub
      · rw [rowStart_sub]; exact hcaf
      · have : (rowStart { r with scratchLen := outLineSize t i r.flags r.sub.width } ii).dec = r.dec := by
          unfold rowStart; split <;> rfl
        rw [this]; exact hz

end Png.Reader
