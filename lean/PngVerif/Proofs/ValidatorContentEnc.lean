import PngVerif.Proofs.ValidatorContent
/-!
# The payloads the typed encoders build satisfy the validator's payload rules

`Cfg` (Model/Encoder.lean) carries the metadata of a configuration as RAW payloads; `Cfg.PayloadsOk`
(Proofs/ValidatorContent.lean) says what these payloads must satisfy.  Here: the payloads built by the typed
encoders of `Model/EncodeMeta.lean` and `Model/Text.lean` — the only way the public API of the crate can
produce them — always do:

* `phys_payload_ok` (`PixelDimensions`: two `u32` and a `Unit`), `srgb_payload_ok` (`SrgbRenderingIntent`),
  `chrm_payload_ok` (`SourceChromaticities`), `iccp_payload_ok` (`write_iccp_chunk`),
* `tEXt_payload_ok`, `zTXt_payload_ok`, `iTXt_payload_ok` (`EncodableTextChunk::encode`: keyword of 1..79
  Latin-1 bytes without NUL — the repair of D16 —, separators, compression flag/method),

where the compressed parts need what the validator checks of them: a compressor whose output is one whole
zlib stream for the Lean inflater (`hz`), and — for a text chunk that is written from its `Compressed` state,
i.e. one that came out of `compress_text()` or out of the DECODER — that the stored bytes are such a stream
(`ZTXt.StreamOk`, `ITXt.StreamOk`; `ZTXtChunk::encode` copies them unchecked).
-/
namespace Png.Enc
open Png Png.Val Png.EncodeMeta

theorem nulIndex_append (a rest : Bytes) (h : (0 : UInt8) ∉ a) : nulIndex (a ++ 0 :: rest) = some a.length := by
  unfold nulIndex
  rw [List.findIdx?_append]
  have : a.findIdx? (· == 0) = none := by
    rw [List.findIdx?_eq_none_iff]
    intro x hx
    rw [beq_eq_false_iff_ne]
    intro h0; subst h0; exact h hx
  rw [this]
  simp [List.findIdx?_cons]

theorem splitKeywordStrict_keyword (kw rest : Bytes) (h : KeywordBytes kw) :
    splitKeywordStrict (kw ++ 0 :: rest) = some rest := by
  obtain ⟨h1, h2, h3⟩ := h
  unfold splitKeywordStrict
  rw [nulIndex_append kw rest h3]
  simp only [h1, h2, and_self, if_true]
  have : kw ++ 0 :: rest = (kw ++ [0]) ++ rest := by simp
  rw [this, List.drop_left' (by simp)]

/-! ## typed metadata -/

theorem phys_payload_ok (p : PixelDims) : (encodePhys p).length = 9 ∧ ((encodePhys p).getD 8 0).toNat ≤ 1 := by
  cases hm : p.meter <;> simp [encodePhys, be32Bytes, hm]

theorem srgb_payload_ok (i : Nat) (h : i ≤ 3) : encodeSrgb i = [i.toUInt8] ∧ i ≤ 3 := ⟨rfl, h⟩

theorem chrm_payload_ok (c : Chromaticities) : (encodeChrm c).length = 32 := by
  simp [encodeChrm, be32List, Chromaticities.toList, be32Bytes]

/-- iCCP as `write_iccp_chunk` builds it: name `_`, NUL, method 0, the compressed profile -/
theorem iccp_payload_ok (z : Png.ZCodec) (profile : Bytes) (hz : zlibWhole (z.compress profile) = true) :
    payloadRule ⟨tyICCP, encodeIccp z profile⟩ = .ok () := by
  have hk : KeywordBytes [0x5F] := ⟨by decide, by decide, by decide⟩
  have e : encodeIccp z profile = [0x5F] ++ 0 :: (0 :: z.compress profile) := rfl
  unfold payloadRule
  simp (config := { decide := true }) only [contentOk, if_false, if_true]
  rw [e, splitKeywordStrict_keyword _ _ hk]
  simp [hz]

/-! ## text chunks -/

theorem tEXt_payload_ok (c : TEXt) (body : Bytes) (h : c.encodeBody = .ok body) :
    payloadRule ⟨tyTEXT, body⟩ = .ok () := by
  unfold TEXt.encodeBody at h
  cases hk : encodeKeyword c.keyword with
  | error e => rw [hk] at h; cases h
  | ok data =>
    rw [hk] at h
    simp only at h
    cases ht : encodeLatin1 c.text with
    | error e => rw [ht] at h; cases h
    | ok t =>
      rw [ht] at h
      simp only [Except.ok.injEq] at h
      subst h
      obtain ⟨hkb, _⟩ := encodeKeyword_keywordBytes _ _ hk
      unfold payloadRule
      simp (config := { decide := true }) only [contentOk, if_false, if_true]
      rw [splitKeywordStrict_keyword _ _ hkb]

/-- a zTXt chunk in the `Compressed` state holds one whole zlib stream -/
def _root_.Png.ZTXt.StreamOk (c : ZTXt) : Prop :=
  match c.text with
  | .compressed v => zlibWhole v = true
  | .uncompressed _ => True

theorem zTXt_payload_ok (z : Png.ZCodec) (hz : ∀ x, zlibWhole (z.compress x) = true) (c : ZTXt) (hs : c.StreamOk)
    (body : Bytes) (h : c.encodeBody z = .ok body) : payloadRule ⟨tyZTXT, body⟩ = .ok () := by
  unfold ZTXt.encodeBody at h
  cases hk : encodeKeyword c.keyword with
  | error e => rw [hk] at h; cases h
  | ok data =>
    rw [hk] at h
    simp only at h
    obtain ⟨hkb, _⟩ := encodeKeyword_keywordBytes _ _ hk
    have key : ∀ v, zlibWhole v = true → payloadRule ⟨tyZTXT, data ++ 0 :: 0 :: v⟩ = .ok () := by
      intro v hv
      unfold payloadRule
      simp (config := { decide := true }) only [contentOk, if_false, if_true]
      rw [splitKeywordStrict_keyword _ _ hkb]
      simp [hv]
    unfold ZTXt.StreamOk at hs
    cases htx : c.text with
    | compressed v =>
      rw [htx] at h hs
      simp only [Except.ok.injEq] at h
      subst h
      exact key v hs
    | uncompressed s =>
      rw [htx] at h
      simp only at h
      cases hl : encodeLatin1 s with
      | error e => rw [hl] at h; cases h
      | ok raw =>
        rw [hl] at h
        simp only [Except.ok.injEq] at h
        subst h
        exact key _ (hz raw)

/-- an iTXt chunk with the compression flag set whose text is in the `Compressed` state holds one whole zlib stream -/
def _root_.Png.ITXt.StreamOk (c : ITXt) : Prop :=
  c.compressed = true →
  match c.text with
  | .compressed v => zlibWhole v = true
  | .uncompressed _ => True

theorem iTXt_payload_ok (z : Png.ZCodec) (hz : ∀ x, zlibWhole (z.compress x) = true) (c : ITXt) (hs : c.StreamOk)
    (body : Bytes) (h : c.encodeBody z = .ok body) : payloadRule ⟨tyITXT, body⟩ = .ok () := by
  obtain ⟨data, p, hk, _, hl, ht, hp, hb⟩ := ITXt.encodeBody_ok z c body h
  obtain ⟨hkb, _⟩ := encodeKeyword_keywordBytes _ _ hk
  have n1 := (nul_mem_utf8Encode c.languageTag).mpr hl
  have n2 := (nul_mem_utf8Encode c.translatedKeyword).mpr ht
  subst hb
  unfold payloadRule
  simp (config := { decide := true }) only [contentOk, if_false, if_true]
  rw [splitKeywordStrict_keyword _ _ hkb]
  simp only
  rw [nulIndex_append _ _ n1]
  simp only
  rw [show utf8Encode c.languageTag ++ 0 :: (utf8Encode c.translatedKeyword ++ 0 :: p) =
      (utf8Encode c.languageTag ++ [0]) ++ (utf8Encode c.translatedKeyword ++ 0 :: p) by simp,
    List.drop_left' (by simp), nulIndex_append _ _ n2]
  simp only
  rw [show utf8Encode c.translatedKeyword ++ 0 :: p = (utf8Encode c.translatedKeyword ++ [0]) ++ p by simp,
    List.drop_left' (by simp)]
  cases hc : c.compressed with
  | false => simp
  | true =>
    have hpz : zlibWhole p = true := by
      have hs' := hs hc
      simp only [ITXt.payload, hc, if_true] at hp
      cases htx : c.text with
      | compressed v =>
        rw [htx] at hp hs'
        simp only [Option.some.injEq] at hp
        subst hp; exact hs'
      | uncompressed s =>
        rw [htx] at hp
        simp only [Option.some.injEq] at hp
        subst hp; exact hz _
    simp [hpz]

end Png.Enc
