import PngVerif.Proofs.LazyRefineExact
import PngVerif.Proofs.LazyRefineEager
/-!
# `Reader` refines `Lazy`, part 13: well-formed files with exact image data — every call sequence

The simulation (`run_sim`) and the fact that every answer is one the `Lazy` model speaks about (`exact_run`), put
together for a well-formed animation / still image whose frames carry exactly their scanlines (`RawOk`).
-/
namespace Png.LazyRefine
open Png Png.Framing Png.WellFormed Png.Reader

theorem frameD_of_ok {cfg : Cfg} {h : Header} {fr : FrameControl × List Bytes × Bytes} (hf : FrameOk cfg h fr) :
    FrameD cfg h fr := ⟨hf.fc, hf.ne, hf.len, hf.inf⟩

/-- the calls of a `Reader` other than `read_row` -/
def isCall' (op : Reader.Op) : Bool := isCall op && op != .readRow

theorem isCall'_iff {op : Reader.Op} (h : isCall' op = true) : isCall op = true ∧ op ≠ .readRow := by
  unfold isCall' at h
  simp only [Bool.and_eq_true, bne_iff_ne, ne_eq] at h
  exact h

/-- `read_info` on a well-formed animation whose frames carry exactly their scanlines: the simulation relation and the
    invariant `OpenSt` hold for the reader it returns -/
theorem apng_exact_core (cfg : Cfg) (hI : cfg.InflateOk) (hC : cfg.CrcOk) {t : TCfg} {f : Flags} (ht : t.IsIdentity f)
    (opts : Options) (limit : Nat) (h : Header) (hv : h.Valid) (plays : Nat) (hplays : plays < 2 ^ 32)
    (anc : List (ChunkType × Bytes)) (dAnc : Dec)
    (frames : List (FrameControl × List Bytes × Bytes)) (hnf : frames.length + 1 < 2 ^ 32)
    (hanc : AncChunksG cfg (actlAfter (afterIhdr cfg opts limit h) (frames.length + 1) plays) anc dAnc) (hna : NoActl anc)
    (fc0 : FrameControl) (zs0 : List Bytes) (raw0 : Bytes) (hfc0 : FcOk h fc0)
    (hzs0 : zs0 ≠ []) (hlen0 : ∀ z ∈ zs0, z.length < 2 ^ 32) (hinf0 : cfg.inflate zs0.flatten = some (raw0, true))
    (hraw0 : RawOk (h.frame fc0) raw0) (hframes : ∀ fr ∈ frames, FrameOk cfg h fr)
    (hseq : 1 + (frames.map fun x => 1 + x.2.1.length).sum < 2 ^ 32)
    (hsize : h.lineSize * h.height < 2 ^ 64)
    (hlimit : (h.frame fc0).lineSize + (frames.map fun x => (h.frame x.1).lineSize).sum ≤ dAnc.limit) :
    ∃ (r0 : R) (arrs : List Lazy.Arrival) (s0 : Lazy.St),
      step cfg t (R.init opts limit f (wellFormedApng cfg h plays anc fc0 zs0 (framesOf frames))
        (wellFormedApng cfg h plays anc fc0 zs0 (framesOf frames)).length) .readInfo = (r0, .header) ∧
      r0.remaining = frames.length + 1 ∧
      (absEnv h (h.frame fc0) raw0 frames arrs).Valid ∧ (∀ a ∈ arrs, a.last = 0) ∧
      Lazy.init (absEnv h (h.frame fc0) raw0 frames arrs) r0.remaining = some s0 ∧
      ∃ i0, Sim cfg (geomOf h (h.frame fc0) frames) (absEnv h (h.frame fc0) raw0 frames arrs)
          (fun i' => outLineSize t i' f (Sub.new i').width) f i0 r0 s0 ∧
        OpenSt cfg t f h r0 ∧ CorePred i0 r0.dec := by
  have hfd : ∀ fr ∈ frames, FrameD cfg h fr := fun fr hfr => frameD_of_ok (hframes fr hfr)
  obtain ⟨r, i, N, dEnd, restN, hri, hR, hcore, hhdr, hrd, hfin, hremN, hNv, hB, hcp, hzr, hlimE⟩ :=
    apng_ready cfg hI hC ht opts limit h hv plays hplays anc dAnc frames hnf hanc hna fc0 zs0 raw0 hfc0 hzs0 hlen0 hinf0
      hsize (by omega)
  obtain ⟨arrs, s0, hvalid, _, hl0, hinit, hsim⟩ :=
    sim_of_ready cfg hI hC t f h hv i i N r raw0 dEnd _ hR hrd hfin hcore hcp frames 1 hB hfd hseq hzr
  have hv' := hv
  obtain ⟨hw1, hw2, hh1, hh2, hleg⟩ := hv'
  have hd := (legal_pos hleg).2.2
  have hcore' := hcore
  simp only [Info.core, Header.info, Prod.mk.injEq] at hcore'
  obtain ⟨c1, c2, c3, c4, c5⟩ := hcore'
  have hlegi : (i.color, i.depth) ∈ legalPairs := by rw [c3, c4]; exact hleg
  obtain ⟨hfit1, hfit2⟩ := frame_fits h hd fc0 (by have := hfc0.xw; omega) (by have := hfc0.yh; omega)
  have hszI : outLineSize t i f i.width * i.height = h.bufferSize := by
    rw [outLineSize_id ht, c1, c2, c3, c4, ← rowBytes_eq h hd]; rfl
  have hdW : (Sub.dims i).1 = fc0.width := by
    have : (hdrOf i).width = (h.frame fc0).width := by rw [hhdr]
    exact this
  have hdH : (Sub.dims i).2 = fc0.height := by
    have : (hdrOf i).height = (h.frame fc0).height := by rw [hhdr]
    exact this
  have hO : OpenSt cfg t f h r :=
    open_of_ready cfg t f h i N r raw0 dEnd restN hR (by rw [hhdr]; exact hraw0) hlegi hrd hfin
      (by rw [hdW]; exact hfc0.w1) (by rw [hdH]; exact hfc0.h1) (by rw [hhdr, hszI]; exact hfit2) frames 1 hNv hB
      (by rw [hlimE]; omega) hframes hseq
  rw [hhdr] at hvalid hinit hsim
  exact ⟨r, arrs, s0, hri, hremN.trans hNv, hvalid, hl0, hinit, i, hsim, hO, hcp⟩

/-- **a well-formed animation whose frames carry exactly their scanlines**: every sequence of `next_frame`, `next_row`,
    `next_frame_info`, `finish` calls is answered by the `Lazy` model, call by call, with the skeletons of the byte-level
    model's answers -/
theorem apng_exact (cfg : Cfg) (hI : cfg.InflateOk) (hC : cfg.CrcOk) {t : TCfg} {f : Flags} (ht : t.IsIdentity f)
    (hts : CreateSafe t) (opts : Options) (limit : Nat) (h : Header) (hv : h.Valid) (plays : Nat) (hplays : plays < 2 ^ 32)
    (anc : List (ChunkType × Bytes)) (dAnc : Dec)
    (frames : List (FrameControl × List Bytes × Bytes)) (hnf : frames.length + 1 < 2 ^ 32)
    (hanc : AncChunksG cfg (actlAfter (afterIhdr cfg opts limit h) (frames.length + 1) plays) anc dAnc) (hna : NoActl anc)
    (fc0 : FrameControl) (zs0 : List Bytes) (raw0 : Bytes) (hfc0 : FcOk h fc0)
    (hzs0 : zs0 ≠ []) (hlen0 : ∀ z ∈ zs0, z.length < 2 ^ 32) (hinf0 : cfg.inflate zs0.flatten = some (raw0, true))
    (hraw0 : RawOk (h.frame fc0) raw0) (hframes : ∀ fr ∈ frames, FrameOk cfg h fr)
    (hseq : 1 + (frames.map fun x => 1 + x.2.1.length).sum < 2 ^ 32)
    (hsize : h.lineSize * h.height < 2 ^ 64)
    (hlimit : (h.frame fc0).lineSize + (frames.map fun x => (h.frame x.1).lineSize).sum ≤ dAnc.limit) :
    ∃ (r0 : R) (arrs : List Lazy.Arrival) (s0 : Lazy.St),
      step cfg t (R.init opts limit f (wellFormedApng cfg h plays anc fc0 zs0 (framesOf frames))
        (wellFormedApng cfg h plays anc fc0 zs0 (framesOf frames)).length) .readInfo = (r0, .header) ∧
      r0.remaining = frames.length + 1 ∧
      (absEnv h (h.frame fc0) raw0 frames arrs).Valid ∧ (∀ a ∈ arrs, a.last = 0) ∧
      Lazy.init (absEnv h (h.frame fc0) raw0 frames arrs) r0.remaining = some s0 ∧
      ∀ ops : List Reader.Op, (∀ op ∈ ops, isCall' op = true) →
        (∀ res ∈ (Reader.run cfg t r0 ops).2, okRes res = true) ∧
        resMatchAll (geomOf h (h.frame fc0) frames) (Reader.run cfg t r0 ops).2
          (Lazy.run (absEnv h (h.frame fc0) raw0 frames arrs) s0 (absOps ops)).2 = true := by
  obtain ⟨r, arrs, s0, hri, hrem, hvalid, hl0, hinit, i, hsim, hO, hcp⟩ :=
    apng_exact_core cfg hI hC ht opts limit h hv plays hplays anc dAnc frames hnf hanc hna fc0 zs0 raw0 hfc0 hzs0 hlen0
      hinf0 hraw0 hframes hseq hsize hlimit
  refine ⟨r, arrs, s0, hri, hrem, hvalid, hl0, hinit, fun ops hops => ?_⟩
  have hok := (exact_run cfg hI hC ht h hv i ops r ⟨Or.inl hO, hcp⟩ (fun op hop => isCall'_iff (hops op hop))).1
  exact ⟨hok, (run_sim cfg t hts _ _ hvalid (by simp [geomOf, absEnv, absFile]) _ f (fun _ => rfl) i ops r s0 hsim
    (fun op hop => (isCall'_iff (hops op hop)).1) hok).1⟩

/-- the reader `read_info` returns satisfies the C02 invariant -/
theorem rinv_after_readInfo (cfg : Cfg) {t : TCfg} (hto : t.Ok) (opts : Options) (limit : Nat) (f : Flags) (file : Bytes)
    (hlen : file.length < 2 ^ 32) (r0 : R) (h : step cfg t (R.init opts limit f file file.length) .readInfo = (r0, .header)) :
    RInv t r0 := by
  have hR0 := rinv_init t opts limit f file file.length hlen
  have hR := (step_spec cfg hto (R.init opts limit f file file.length) .readInfo hR0 (fun _ => rfl)).1
  rw [h] at hR
  exact hR

/-- ... with `read_row` among the calls (needs the contract `TCfg.Ok` and a file shorter than 4 GiB: C02, C13) -/
theorem apng_exact_all (cfg : Cfg) (hI : cfg.InflateOk) (hC : cfg.CrcOk) {t : TCfg} {f : Flags} (ht : t.IsIdentity f)
    (hto : t.Ok) (hts : CreateSafe t) (opts : Options) (limit : Nat) (h : Header) (hv : h.Valid) (plays : Nat)
    (hplays : plays < 2 ^ 32) (anc : List (ChunkType × Bytes)) (dAnc : Dec)
    (frames : List (FrameControl × List Bytes × Bytes)) (hnf : frames.length + 1 < 2 ^ 32)
    (hanc : AncChunksG cfg (actlAfter (afterIhdr cfg opts limit h) (frames.length + 1) plays) anc dAnc) (hna : NoActl anc)
    (fc0 : FrameControl) (zs0 : List Bytes) (raw0 : Bytes) (hfc0 : FcOk h fc0)
    (hzs0 : zs0 ≠ []) (hlen0 : ∀ z ∈ zs0, z.length < 2 ^ 32) (hinf0 : cfg.inflate zs0.flatten = some (raw0, true))
    (hraw0 : RawOk (h.frame fc0) raw0) (hframes : ∀ fr ∈ frames, FrameOk cfg h fr)
    (hseq : 1 + (frames.map fun x => 1 + x.2.1.length).sum < 2 ^ 32)
    (hsize : h.lineSize * h.height < 2 ^ 64)
    (hlimit : (h.frame fc0).lineSize + (frames.map fun x => (h.frame x.1).lineSize).sum ≤ dAnc.limit)
    (hfl : (wellFormedApng cfg h plays anc fc0 zs0 (framesOf frames)).length < 2 ^ 32) :
    ∃ (r0 : R) (arrs : List Lazy.Arrival) (s0 : Lazy.St),
      step cfg t (R.init opts limit f (wellFormedApng cfg h plays anc fc0 zs0 (framesOf frames))
        (wellFormedApng cfg h plays anc fc0 zs0 (framesOf frames)).length) .readInfo = (r0, .header) ∧
      r0.remaining = frames.length + 1 ∧
      (absEnv h (h.frame fc0) raw0 frames arrs).Valid ∧ (∀ a ∈ arrs, a.last = 0) ∧
      Lazy.init (absEnv h (h.frame fc0) raw0 frames arrs) r0.remaining = some s0 ∧
      ∀ ops : List Reader.Op, (∀ op ∈ ops, isCall op = true) →
        (∀ res ∈ (Reader.run cfg t r0 ops).2, okRes res = true) ∧
        resMatchAll (geomOf h (h.frame fc0) frames) (Reader.run cfg t r0 ops).2
          (Lazy.run (absEnv h (h.frame fc0) raw0 frames arrs) s0 (absOps ops)).2 = true := by
  obtain ⟨r, arrs, s0, hri, hrem, hvalid, hl0, hinit, i, hsim, hO, hcp⟩ :=
    apng_exact_core cfg hI hC ht opts limit h hv plays hplays anc dAnc frames hnf hanc hna fc0 zs0 raw0 hfc0 hzs0 hlen0
      hinf0 hraw0 hframes hseq hsize hlimit
  have hR := rinv_after_readInfo cfg hto opts limit f _ hfl r hri
  refine ⟨r, arrs, s0, hri, hrem, hvalid, hl0, hinit, fun ops hops => ?_⟩
  have hok := (exactR_run cfg hI hC ht hto h hv i ops r ⟨⟨Or.inl hO, hcp⟩, hR, hO.rd⟩ hops).1
  exact ⟨hok, (run_sim cfg t hts _ _ hvalid (by simp [geomOf, absEnv, absFile]) _ f (fun _ => rfl) i ops r s0 hsim hops hok).1⟩

/-- `read_info` on a well-formed still image that carries exactly its scanlines -/
theorem still_exact_core (cfg : Cfg) (hI : cfg.InflateOk) (hC : cfg.CrcOk) {t : TCfg} {f : Flags} (ht : t.IsIdentity f)
    (opts : Options) (limit : Nat) (h : Header) (hv : h.Valid) (cs : List (ChunkType × Bytes)) (dA : Dec)
    (hcs : AncChunksG cfg (afterIhdr cfg opts limit h) cs dA) (hna : NoActl cs)
    (zs : List Bytes) (raw : Bytes) (hzs : zs ≠ []) (hlen : ∀ z ∈ zs, z.length < 2 ^ 32)
    (hinf : cfg.inflate zs.flatten = some (raw, true)) (hraw : RawOk h raw)
    (hsize : h.lineSize * h.height < 2 ^ 64) (hlimit : h.lineSize ≤ dA.limit) :
    ∃ (r0 : R) (arrs : List Lazy.Arrival) (s0 : Lazy.St),
      step cfg t (R.init opts limit f (wellFormedStill cfg h cs zs []) (wellFormedStill cfg h cs zs []).length) .readInfo =
        (r0, .header) ∧
      r0.remaining = 1 ∧
      (absEnv h h raw [] arrs).Valid ∧ (∀ a ∈ arrs, a.last = 0) ∧
      Lazy.init (absEnv h h raw [] arrs) r0.remaining = some s0 ∧
      ∃ i0, Sim cfg (geomOf h h []) (absEnv h h raw [] arrs) (fun i' => outLineSize t i' f (Sub.new i').width) f i0 r0 s0 ∧
        OpenSt cfg t f h r0 ∧ CorePred i0 r0.dec := by
  obtain ⟨r, i, N, dEnd, restN, hri, hR, hcore, hhdr, hrd, hfin, hremN, hNv, hB, hcp, hzr⟩ :=
    still_ready cfg hI hC ht opts limit h hv cs dA hcs hna zs raw hzs hlen hinf hsize hlimit
  obtain ⟨arrs, s0, hvalid, _, hl0, hinit, hsim⟩ :=
    sim_of_ready cfg hI hC t f h hv i i N r raw dEnd _ hR hrd hfin hcore hcp [] 0 hB
      (fun fr hfr => by cases hfr) (by simp) hzr
  have hv' := hv
  obtain ⟨hw1, hw2, hh1, hh2, hleg⟩ := hv'
  have hd := (legal_pos hleg).2.2
  have hcore' := hcore
  simp only [Info.core, Header.info, Prod.mk.injEq] at hcore'
  obtain ⟨c1, c2, c3, c4, c5⟩ := hcore'
  have hlegi : (i.color, i.depth) ∈ legalPairs := by rw [c3, c4]; exact hleg
  have hszI : outLineSize t i f i.width * i.height = h.bufferSize := by
    rw [outLineSize_id ht, c1, c2, c3, c4, ← rowBytes_eq h hd]; rfl
  have hdW : (Sub.dims i).1 = h.width := by
    have : (hdrOf i).width = h.width := by rw [hhdr]
    exact this
  have hdH : (Sub.dims i).2 = h.height := by
    have : (hdrOf i).height = h.height := by rw [hhdr]
    exact this
  have hO : OpenSt cfg t f h r :=
    open_of_ready cfg t f h i N r raw dEnd restN hR (by rw [hhdr]; exact hraw) hlegi hrd hfin
      (by rw [hdW]; exact hw1) (by rw [hdH]; exact hh1) (by rw [hhdr, hszI]; exact Nat.le_refl _) [] 0 hNv hB
      (by simp) (fun fr hfr => by cases hfr) (by simp)
  rw [hhdr] at hvalid hinit hsim
  exact ⟨r, arrs, s0, hri, hremN.trans hNv, hvalid, hl0, hinit, i, hsim, hO, hcp⟩

/-- **a well-formed still image that carries exactly its scanlines** -/
theorem still_exact (cfg : Cfg) (hI : cfg.InflateOk) (hC : cfg.CrcOk) {t : TCfg} {f : Flags} (ht : t.IsIdentity f)
    (hts : CreateSafe t) (opts : Options) (limit : Nat) (h : Header) (hv : h.Valid) (cs : List (ChunkType × Bytes)) (dA : Dec)
    (hcs : AncChunksG cfg (afterIhdr cfg opts limit h) cs dA) (hna : NoActl cs)
    (zs : List Bytes) (raw : Bytes) (hzs : zs ≠ []) (hlen : ∀ z ∈ zs, z.length < 2 ^ 32)
    (hinf : cfg.inflate zs.flatten = some (raw, true)) (hraw : RawOk h raw)
    (hsize : h.lineSize * h.height < 2 ^ 64) (hlimit : h.lineSize ≤ dA.limit) :
    ∃ (r0 : R) (arrs : List Lazy.Arrival) (s0 : Lazy.St),
      step cfg t (R.init opts limit f (wellFormedStill cfg h cs zs []) (wellFormedStill cfg h cs zs []).length) .readInfo =
        (r0, .header) ∧
      r0.remaining = 1 ∧
      (absEnv h h raw [] arrs).Valid ∧ (∀ a ∈ arrs, a.last = 0) ∧
      Lazy.init (absEnv h h raw [] arrs) r0.remaining = some s0 ∧
      ∀ ops : List Reader.Op, (∀ op ∈ ops, isCall' op = true) →
        (∀ res ∈ (Reader.run cfg t r0 ops).2, okRes res = true) ∧
        resMatchAll (geomOf h h []) (Reader.run cfg t r0 ops).2 (Lazy.run (absEnv h h raw [] arrs) s0 (absOps ops)).2 = true := by
  obtain ⟨r, arrs, s0, hri, hrem, hvalid, hl0, hinit, i, hsim, hO, hcp⟩ :=
    still_exact_core cfg hI hC ht opts limit h hv cs dA hcs hna zs raw hzs hlen hinf hraw hsize hlimit
  refine ⟨r, arrs, s0, hri, hrem, hvalid, hl0, hinit, fun ops hops => ?_⟩
  have hok := (exact_run cfg hI hC ht h hv i ops r ⟨Or.inl hO, hcp⟩ (fun op hop => isCall'_iff (hops op hop))).1
  exact ⟨hok, (run_sim cfg t hts _ _ hvalid (by simp [geomOf, absEnv, absFile]) _ f (fun _ => rfl) i ops r s0 hsim
    (fun op hop => (isCall'_iff (hops op hop)).1) hok).1⟩

/-- ... with `read_row` among the calls (needs the contract `TCfg.Ok` and a file shorter than 4 GiB: C02, C13) -/
theorem still_exact_all (cfg : Cfg) (hI : cfg.InflateOk) (hC : cfg.CrcOk) {t : TCfg} {f : Flags} (ht : t.IsIdentity f)
    (hto : t.Ok) (hts : CreateSafe t) (opts : Options) (limit : Nat) (h : Header) (hv : h.Valid)
    (cs : List (ChunkType × Bytes)) (dA : Dec)
    (hcs : AncChunksG cfg (afterIhdr cfg opts limit h) cs dA) (hna : NoActl cs)
    (zs : List Bytes) (raw : Bytes) (hzs : zs ≠ []) (hlen : ∀ z ∈ zs, z.length < 2 ^ 32)
    (hinf : cfg.inflate zs.flatten = some (raw, true)) (hraw : RawOk h raw)
    (hsize : h.lineSize * h.height < 2 ^ 64) (hlimit : h.lineSize ≤ dA.limit)
    (hfl : (wellFormedStill cfg h cs zs []).length < 2 ^ 32) :
    ∃ (r0 : R) (arrs : List Lazy.Arrival) (s0 : Lazy.St),
      step cfg t (R.init opts limit f (wellFormedStill cfg h cs zs []) (wellFormedStill cfg h cs zs []).length) .readInfo =
        (r0, .header) ∧
      r0.remaining = 1 ∧
      (absEnv h h raw [] arrs).Valid ∧ (∀ a ∈ arrs, a.last = 0) ∧
      Lazy.init (absEnv h h raw [] arrs) r0.remaining = some s0 ∧
      ∀ ops : List Reader.Op, (∀ op ∈ ops, isCall op = true) →
        (∀ res ∈ (Reader.run cfg t r0 ops).2, okRes res = true) ∧
        resMatchAll (geomOf h h []) (Reader.run cfg t r0 ops).2 (Lazy.run (absEnv h h raw [] arrs) s0 (absOps ops)).2 = true := by
  obtain ⟨r, arrs, s0, hri, hrem, hvalid, hl0, hinit, i, hsim, hO, hcp⟩ :=
    still_exact_core cfg hI hC ht opts limit h hv cs dA hcs hna zs raw hzs hlen hinf hraw hsize hlimit
  have hR := rinv_after_readInfo cfg hto opts limit f _ hfl r hri
  refine ⟨r, arrs, s0, hri, hrem, hvalid, hl0, hinit, fun ops hops => ?_⟩
  have hok := (exactR_run cfg hI hC ht hto h hv i ops r ⟨⟨Or.inl hO, hcp⟩, hR, hO.rd⟩ hops).1
  exact ⟨hok, (run_sim cfg t hts _ _ hvalid (by simp [geomOf, absEnv, absFile]) _ f (fun _ => rfl) i ops r s0 hsim hops hok).1⟩

/-- the eager environment of a file: every frame's data with the first pull, nothing with `Done` -/
def eagerAbsEnv (h h0 : Header) (raw0 : Bytes) (frames : List (FrameControl × List Bytes × Bytes)) : Lazy.Env :=
  absEnv h h0 raw0 frames (eagerArrs (absFile h h0 raw0 frames))

/-- from the arrivals the byte-level model induces to the EAGER arrival -/
theorem to_eager (h h0 : Header) (raw0 : Bytes) (frames : List (FrameControl × List Bytes × Bytes))
    (arrs : List Lazy.Arrival) (rem0 : Nat) (s0 : Lazy.St) (hv : (absEnv h h0 raw0 frames arrs).Valid) (hr : 1 ≤ rem0)
    (hl0 : ∀ a ∈ arrs, a.last = 0) (hi : Lazy.init (absEnv h h0 raw0 frames arrs) rem0 = some s0) :
    ∃ s0', Lazy.init (eagerAbsEnv h h0 raw0 frames) rem0 = some s0' ∧
      ∀ lops, (Lazy.run (absEnv h h0 raw0 frames arrs) s0 lops).2 = (Lazy.run (eagerAbsEnv h h0 raw0 frames) s0' lops).2 := by
  obtain ⟨s0', h1, _⟩ := eager_results (absEnv h h0 raw0 frames arrs) hv hl0 rem0 hr s0 hi []
  refine ⟨s0', h1, fun lops => ?_⟩
  obtain ⟨s0'', h1', h2'⟩ := eager_results (absEnv h h0 raw0 frames arrs) hv hl0 rem0 hr s0 hi lops
  have : s0'' = s0' := by
    have e : Lazy.init (eagerEnv (absEnv h h0 raw0 frames arrs)) rem0 = some s0'' := h1'
    rw [h1] at e; cases e; rfl
  rw [this] at h2'; exact h2'

end Png.LazyRefine
