import PngVerif.Proofs.ComposeReader
import PngVerif.Driver.Reader
/-!
# The row transformation of `Model/Transform.lean` (as the driver instantiates it) is the identity when no
transformation flag is set

`Png.Driver.realT` wires `Model/Transform.lean` (`output_color_type`, `create_transform_fn`, the row functions)
into the `Reader` model.  For `Transformations::IDENTITY` and an `Info` with a legal colour type / bit depth pair it
satisfies the contract `TCfg.IsIdentity` that C01 assumes of the row transformation: the output type is the image's,
`create_transform_fn` selects `copy_row`, which copies the row into a buffer of the row's length.
-/
namespace Png.Driver
open Png Png.Framing Png.Reader

theorem tInfo_of_legal {i : Framing.Info} (h : (i.color, i.depth) ∈ legalPairs) :
    ∃ ct bd, tInfo i = some { colorType := ct, bitDepth := bd, palette := i.palette, trns := i.trns } ∧
      ct.toNat = i.color ∧ bd.toNat = i.depth := by
  simp only [legalPairs, List.mem_cons, Prod.mk.injEq, List.mem_nil_iff, or_false] at h
  rcases h with ⟨h1, h2⟩ | ⟨h1, h2⟩ | ⟨h1, h2⟩ | ⟨h1, h2⟩ | ⟨h1, h2⟩ | ⟨h1, h2⟩ | ⟨h1, h2⟩ |
    ⟨h1, h2⟩ | ⟨h1, h2⟩ | ⟨h1, h2⟩ | ⟨h1, h2⟩ | ⟨h1, h2⟩ | ⟨h1, h2⟩ | ⟨h1, h2⟩ | ⟨h1, h2⟩ <;>
    (simp only [tInfo, h1, h2]; exact ⟨_, _, rfl, rfl, rfl⟩)

theorem select_identity (ti : Transform.Info) : Transform.selectTransform ti (tFlags {}) = .ok .copy := by
  simp [Transform.selectTransform, tFlags]

/-- **the transformation model is the identity for `Transformations::IDENTITY`** -/
theorem realT_isIdentity : realT.IsIdentity {} where
  out := by
    intro i
    show (match tInfo i with
      | some ti =>
        match Transform.outputColorType ti (tFlags {}) with
        | .ok (c, d) => (c.toNat, d.toNat)
        | .error _ => (i.color, i.depth)
      | none => (i.color, i.depth)) = _
    cases h : tInfo i with
    | none => rfl
    | some ti =>
      have hi : (tFlags {}).isIdentity = true := rfl
      simp only [Transform.outputColorType, hi, if_true]
      simp only [tInfo] at h
      cases hc : Transform.ColorType.ofNat? i.color with
      | none => simp [hc] at h
      | some ct =>
        cases hd : Transform.BitDepth.ofNat? i.depth with
        | none => simp [hc, hd] at h
        | some bd =>
          simp only [hc, hd, Option.bind_eq_bind, Option.bind_some, Option.some.injEq] at h
          subst h
          simp only
          have e1 : ct.toNat = i.color := by
            unfold Transform.ColorType.ofNat? at hc; split at hc <;> first | (cases hc; rename_i hq; rw [hq]; rfl) | cases hc
          have e2 : bd.toNat = i.depth := by
            unfold Transform.BitDepth.ofNat? at hd; split at hd <;> first | (cases hd; rename_i hq; rw [hq]; rfl) | cases hd
          rw [e1, e2]
  create := by
    intro i hleg
    obtain ⟨ct, bd, hti, _, _⟩ := tInfo_of_legal hleg
    show (match tInfo i with
      | none => Except.error "panic: illegal colour type / depth in Info"
      | some ti => _) = _
    rw [hti]
    simp only [select_identity, isPaletteKind, Bool.false_eq_true, if_false]
  apply := by
    intro snap cur row hs hc
    obtain ⟨_, _, hts, _, _⟩ := tInfo_of_legal hs
    obtain ⟨_, _, htc, _, _⟩ := tInfo_of_legal hc
    show (match tInfo snap, tInfo cur with
      | some ts, some tc => _
      | _, _ => none) = _
    rw [hts, htc]
    simp only [select_identity, Transform.applyKind,
      Transform.applyKindWith, Transform.copyRow, List.length_replicate, if_true]

end Png.Driver
