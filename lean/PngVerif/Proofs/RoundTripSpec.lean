import PngVerif.Proofs.RoundTripEnc
import PngVerif.Proofs.Basic
import PngVerif.Model.WellFormed
import PngVerif.Proofs.ComposeRows
/-!
# C03 end to end, the joint between the two models

* `headerOf c`: the `WellFormed.Header` of an encoder configuration; `mkIhdr c` carries its body, it is valid, its
  geometry is the encoder's (`headerOf_*`);
* `chunkBytes` / `fileBytes` of the validator's serialisation = `WellFormed.chunk` / `chunks` when the CRC parameter
  of the decoder model is `crcOfList` (`chunkBytes_eq`, `fileBytes_stillChunks`);
* the scanline stream `encodeScanlines choose bpp [] rows` of `height` rows satisfies `RawOk` and the specification's
  pixels of it are the rows (`rawOk_encode`, `specPixels_encode`): C03 at the scanline level (`reconRow_filtRow`),
  restated for `WellFormed.unfilterScanlines`.
-/
namespace Png.RoundTrip
open Png Png.Val Png.Enc Png.Framing Png.WellFormed

/-! ## rows -/

theorem rowsOf_flatten (rl : Nat) : ∀ (h : Nat) (d : Bytes), d.length = rl * h → (rowsOf rl h d).flatten = d := by
  intro h
  induction h with
  | zero => intro d hd; simp only [Nat.mul_zero] at hd; simp [rowsOf, List.length_eq_zero_iff.mp hd]
  | succ k ih =>
    intro d hd
    simp only [rowsOf, List.flatten_cons]
    rw [ih (d.drop rl) (by simp only [List.length_drop, hd, Nat.mul_succ]; omega), List.take_append_drop]

/-! ## the scanline stream of an image that is not interlaced -/

/-- the scanlines `k, k+1, …` of an image of width `w` that is not interlaced -/
def lines (w k n : Nat) : List (Nat × Nat × Nat) := (List.range' k n).map fun l => (0, l, w)

theorem lines_succ (w k n : Nat) : lines w k (n + 1) = (0, k, w) :: lines w (k + 1) n := by
  simp [lines, List.range'_succ]

theorem drop_cons_append (a : UInt8) (x y : Bytes) (n : Nat) (h : x.length = n) : (a :: (x ++ y)).drop (1 + n) = y := by
  show ((a :: x) ++ y).drop (1 + n) = y
  exact List.drop_left' (by simp only [List.length_cons]; omega)

theorem headD_ftByte (ft : FilterType) (rest : Bytes) : ((ftByte ft :: rest).headD 0).toNat = ft.toNat := by
  cases ft <;> rfl

theorem ft_le (ft : FilterType) : ft.toNat ≤ 4 := by cases ft <;> decide

/-- every filter choice yields a stream of exactly the scanlines, with filter types `≤ 4` -/
theorem scanlinesOk_encode (choose : Bytes → Bytes → FilterType) (bpp : Nat) (rb : Nat → Nat) (w : Nat) :
    ∀ (rows : List Bytes) (k : Nat) (prev : Bytes), (∀ r ∈ rows, r.length = rb w) →
      ScanlinesOk rb (lines w k rows.length) (encodeScanlines choose bpp prev rows) := by
  intro rows
  induction rows with
  | nil => intro k prev _; rfl
  | cons r rs ih =>
    intro k prev hlen
    have hr : r.length = rb w := hlen r (by simp)
    have hfl : (filtRow (choose prev r) bpp prev r).length = rb w := by rw [filtRow_length, hr]
    rw [List.length_cons, lines_succ]
    simp only [encodeScanlines, List.cons_append]
    refine ⟨?_, ?_, ?_⟩
    · simp only [List.length_cons, List.length_append, hfl]; omega
    · rw [headD_ftByte]; exact ft_le _
    · have : (ftByte (choose prev r) :: (filtRow (choose prev r) bpp prev r ++ encodeScanlines choose bpp r rs)).drop (1 + rb w) =
          encodeScanlines choose bpp r rs := by
        exact drop_cons_append _ _ _ _ hfl
      rw [this]
      exact ih (k + 1) r (fun x hx => hlen x (by simp [hx]))

/-- reverse filtering (`WellFormed.unfilterScanlines`: the specification's `reconRow` against the previous
    reconstructed line) of the encoder's stream returns the rows — for every choice of filter types -/
theorem unfilter_encode (choose : Bytes → Bytes → FilterType) (bpp : Nat) (rb : Nat → Nat) (w : Nat) :
    ∀ (rows : List Bytes) (k : Nat) (prev : Bytes), (∀ r ∈ rows, r.length = rb w) → (k = 0 → prev = []) →
      unfilterScanlines bpp rb (lines w k rows.length) prev (encodeScanlines choose bpp prev rows) = rows := by
  intro rows
  induction rows with
  | nil => intro k prev _ _; rfl
  | cons r rs ih =>
    intro k prev hlen hk
    have hr : r.length = rb w := hlen r (by simp)
    have hfl : (filtRow (choose prev r) bpp prev r).length = rb w := by rw [filtRow_length, hr]
    rw [List.length_cons, lines_succ]
    simp only [encodeScanlines, List.cons_append]
    have hprev : (if k = 0 then [] else prev) = prev := by
      by_cases h0 : k = 0
      · rw [if_pos h0, hk h0]
      · rw [if_neg h0]
    have hdrop : (ftByte (choose prev r) :: (filtRow (choose prev r) bpp prev r ++ encodeScanlines choose bpp r rs)).drop (1 + rb w) =
        encodeScanlines choose bpp r rs := by
      exact drop_cons_append _ _ _ _ hfl
    have htake : ((ftByte (choose prev r) :: (filtRow (choose prev r) bpp prev r ++ encodeScanlines choose bpp r rs)).drop 1).take (rb w) =
        filtRow (choose prev r) bpp prev r := by
      show (filtRow (choose prev r) bpp prev r ++ encodeScanlines choose bpp r rs).take (rb w) = _
      rw [← hfl]; simp
    unfold unfilterScanlines
    simp only [headD_ftByte]
    rw [show FilterType.ofNat? (choose prev r).toNat = some (choose prev r) by cases choose prev r <;> rfl]
    simp only [hprev, htake, hdrop, reconRow_filtRow]
    rw [ih (k + 1) r (fun x hx => hlen x (by simp [hx])) (fun h => by omega)]

/-! ## the header -/

/-- the `IHDR` fields of an encoder configuration (the encoder never interlaces) -/
def headerOf (c : Enc.Cfg) : Header :=
  { width := c.width, height := c.height, color := c.color, depth := c.depth, interlaced := false }

theorem mkIhdr_eq (c : Enc.Cfg) : mkIhdr c = ⟨tyIHDR, (headerOf c).body⟩ := rfl

theorem headerOf_valid {c : Enc.Cfg} (hs : c.Still) : (headerOf c).Valid :=
  ⟨Nat.pos_of_ne_zero hs.wpos, hs.wlt, Nat.pos_of_ne_zero hs.hpos, hs.hlt,
    (legal_iff c.color c.depth).mpr ⟨hs.color, hs.depth, hs.comb⟩⟩

theorem headerOf_filterUnit (c : Enc.Cfg) : (headerOf c).filterUnit = bytesPerPixel c.color c.depth := rfl

theorem headerOf_rowBytes {c : Enc.Cfg} (hd : depthOk c.depth = true) :
    (headerOf c).rowBytes c.width = c.rowLen := by
  simp only [Header.rowBytes, Header.bitsPerPixel, headerOf, Enc.Cfg.rowLen, rowlen_spec c.color c.depth c.width hd]
  rw [Nat.mul_assoc]; omega

theorem headerOf_lineSize {c : Enc.Cfg} (hd : depthOk c.depth = true) : (headerOf c).lineSize = c.rowLen :=
  headerOf_rowBytes hd

theorem headerOf_scanlines (c : Enc.Cfg) : (headerOf c).scanlines = lines c.width 0 c.height := by
  simp [Header.scanlines, headerOf, lines, List.range_eq_range']

/-- the rows `write_image_data` cuts the image into -/
def rowsOfCfg (c : Enc.Cfg) (data : Bytes) : List Bytes := rowsOf c.rowLen c.height data

/-- the inflated stream of the file: every row filtered with the type `choose` picks -/
def rawOf (choose : Bytes → Bytes → FilterType) (c : Enc.Cfg) (data : Bytes) : Bytes :=
  encodeScanlines choose (bytesPerPixel c.color c.depth) [] (rowsOfCfg c data)

theorem zstream_scanCodec (compress : Bytes → Bytes) (choose : Bytes → Bytes → FilterType) (c : Enc.Cfg) (data : Bytes) :
    c.zstream (scanCodec compress choose) data = compress (rawOf choose c data) := rfl

/-- **the encoder's scanline stream is a legal one for the header** -/
theorem rawOk_encode (choose : Bytes → Bytes → FilterType) (c : Enc.Cfg) (hd : depthOk c.depth = true) (data : Bytes)
    (hlen : data.length = c.rowLen * c.height) : RawOk (headerOf c) (rawOf choose c data) := by
  obtain ⟨h1, h2⟩ := rowsOf_spec c.rowLen c.height data hlen
  unfold RawOk rawOf
  rw [headerOf_scanlines]
  have := scanlinesOk_encode choose (bytesPerPixel c.color c.depth) (headerOf c).rowBytes c.width (rowsOfCfg c data) 0 []
    (fun r hr => by rw [headerOf_rowBytes hd]; exact h2 r hr)
  rw [show (rowsOfCfg c data).length = c.height from h1] at this
  exact this

/-- **the specification's pixels of the encoder's scanline stream are the image** (any buffer contents `bg`) -/
theorem specPixels_encode (choose : Bytes → Bytes → FilterType) (c : Enc.Cfg) (hd : depthOk c.depth = true) (data : Bytes)
    (hlen : data.length = c.rowLen * c.height) (bg : Bytes) :
    specPixels (headerOf c) (rawOf choose c data) bg = some data := by
  obtain ⟨h1, h2⟩ := rowsOf_spec c.rowLen c.height data hlen
  have hil : (headerOf c).interlaced = false := rfl
  unfold specPixels specScanlines rawOf
  rw [hil, headerOf_scanlines, headerOf_filterUnit]
  simp only [Bool.false_eq_true, if_false]
  have := unfilter_encode choose (bytesPerPixel c.color c.depth) (headerOf c).rowBytes c.width (rowsOfCfg c data) 0 []
    (fun r hr => by rw [headerOf_rowBytes hd]; exact h2 r hr) (fun _ => rfl)
  rw [show (rowsOfCfg c data).length = c.height from h1] at this
  rw [this]
  exact congrArg some (rowsOf_flatten c.rowLen c.height data hlen)

/-! ## bytes: the validator's serialisation is the specification's chunk layout -/

theorem signature_eq : signatureBytes = WellFormed.signature := by decide

theorem chunkBytes_eq (cfg : Framing.Cfg) (hcrc : ∀ b, cfg.crc b = crcOfList b) (c : RChunk) :
    chunkBytes c = chunk cfg c.ty c.data := by
  simp only [chunkBytes, chunk, tyBytes, typeBytes, hcrc]

/-- chunks of the validator as (type, body) pairs of the specification side -/
def pairs (cs : List RChunk) : List (ChunkType × Bytes) := cs.map fun c => (c.ty, c.data)

theorem chunks_eq (cfg : Framing.Cfg) (hcrc : ∀ b, cfg.crc b = crcOfList b) (cs : List RChunk) :
    (cs.map chunkBytes).flatten = chunks cfg (pairs cs) := by
  simp only [chunks, pairs, List.map_map]
  congr 1
  apply List.map_congr_left
  intro c _
  exact chunkBytes_eq cfg hcrc c

theorem idats_eq (cfg : Framing.Cfg) (zs : List Bytes) : chunks cfg (pairs (zs.map mkIdat)) = idats cfg zs := by
  simp only [idats, pairs, List.map_map]
  rfl

/-- the chunks `encode_header` writes after `IHDR`: metadata, `PLTE`, `tRNS`, text chunks (no `acTL` in a still image) -/
def metaChunks (c : Enc.Cfg) : List RChunk :=
  preChunks c.md ++ optChunk tyPLTE c.palette ++ optChunk tyTRNS c.trns ++ (textPrefix c.texts).1

theorem headerChunks_still {c : Enc.Cfg} (ha : c.actl = none) : headerChunks c = mkIhdr c :: metaChunks c := by
  simp [headerChunks, metaChunks, ha]

/-- the chunks of a still image whose zlib stream is cut into the `IDAT` payloads `zs` -/
def stillChunks (c : Enc.Cfg) (zs : List Bytes) : List RChunk :=
  mkIhdr c :: metaChunks c ++ zs.map mkIdat ++ [iendChunk]

/-- **the file as the specification lays it out**: signature, `IHDR`, the metadata chunks, the `IDAT` chunks, `IEND` -/
theorem fileBytes_stillChunks (cfg : Framing.Cfg) (hcrc : ∀ b, cfg.crc b = crcOfList b) (c : Enc.Cfg) (zs : List Bytes) :
    fileBytes (stillChunks c zs) = wellFormedStill cfg (headerOf c) (pairs (metaChunks c)) zs [] := by
  simp only [fileBytes, stillChunks, wellFormedStill, List.map_append, List.map_cons, List.map_nil,
    List.flatten_append, List.flatten_cons, List.flatten_nil, List.append_nil, chunks_eq cfg hcrc, idats_eq,
    chunkBytes_eq cfg hcrc, signature_eq, List.append_assoc, List.cons_append]
  rfl

theorem fileChunks_eq (E : Codec) (c : Enc.Cfg) (ha : c.actl = none) (data : Bytes) :
    c.fileChunks E data = stillChunks c (chunksOf maxIdatChunkLen (c.zstream E data)) := by
  simp only [Enc.Cfg.fileChunks, stillChunks, headerChunks_still ha, List.cons_append]

/-! ## rows as `next_row` reports them -/

/-- the results of `next_row` for the rows `rows`, the first being line `l` -/
def rowResults : Nat → List Bytes → List Reader.Res
  | _, [] => []
  | l, r :: rs => .row (.null l) r :: rowResults (l + 1) rs

theorem rowResults_eq (w : Nat) : ∀ (rows : List Bytes) (k : Nat),
    ((lines w k rows.length).zip rows).map (fun x => Reader.Res.row (Reader.iinfoOf false x.1) x.2) = rowResults k rows := by
  intro rows
  induction rows with
  | nil => intro k; rfl
  | cons r rs ih =>
    intro k
    rw [List.length_cons, lines_succ]
    simp only [List.zip_cons_cons, List.map_cons, rowResults, ih (k + 1)]
    rfl

/-- the reconstructed scanlines of the encoder's stream are the rows -/
theorem specScanlines_encode (choose : Bytes → Bytes → FilterType) (c : Enc.Cfg) (hd : depthOk c.depth = true) (data : Bytes)
    (hlen : data.length = c.rowLen * c.height) :
    specScanlines (headerOf c) (rawOf choose c data) = rowsOfCfg c data ∧ (rowsOfCfg c data).length = c.height := by
  obtain ⟨h1, h2⟩ := rowsOf_spec c.rowLen c.height data hlen
  refine ⟨?_, h1⟩
  unfold specScanlines rawOf
  rw [headerOf_scanlines, headerOf_filterUnit]
  have := unfilter_encode choose (bytesPerPixel c.color c.depth) (headerOf c).rowBytes c.width (rowsOfCfg c data) 0 []
    (fun r hr => by rw [headerOf_rowBytes hd]; exact h2 r hr) (fun _ => rfl)
  rw [show (rowsOfCfg c data).length = c.height from h1] at this
  exact this

end Png.RoundTrip
