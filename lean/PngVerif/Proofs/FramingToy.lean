import PngVerif.Proofs.Framing
/-!
# A small concrete `Cfg` for the non-vacuity examples of C04 / C07

`toyInflate`: a "stored" stream — the first byte is the length `L` of the payload (255 = corrupt
header), the output is the payload seen so far, the stream is complete when `L` payload bytes have
been seen; later bytes are ignored.  It satisfies the contract `Cfg.InflateOk`.
-/
deriving instance DecidableEq for Except

namespace Png.Framing.Toy
open Png Png.Framing

def toyInflate : Bytes → Option (Bytes × Bool)
  | [] => some ([], false)
  | l :: rest => if l = 255 then none else some (rest.take l.toNat, decide (l.toNat ≤ rest.length))

def toyCfg : Cfg where
  crc := fun _ => 0
  inflate := toyInflate
  inflateBounded := fun z _ => .ok z
  utf8Ok := fun _ => true

theorem toy_inflateOk : toyCfg.InflateOk where
  mono := by
    intro a b o2 d2 h
    cases a with
    | nil => exact ⟨[], false, rfl, List.nil_prefix⟩
    | cons l r =>
      simp only [toyCfg, List.cons_append, toyInflate] at h ⊢
      split at h
      · cases h
      · rename_i hl
        cases h
        refine ⟨_, _, by rw [if_neg hl], ?_⟩
        rw [List.take_append]
        exact List.prefix_append _ _
  done := by
    intro a b o h
    cases a with
    | nil => simp [toyCfg, toyInflate] at h
    | cons l r =>
      simp only [toyCfg, List.cons_append, toyInflate] at h ⊢
      split at h
      · cases h
      · rename_i hl
        rw [if_neg hl]
        simp only [Option.some.injEq, Prod.mk.injEq, decide_eq_true_eq] at h
        obtain ⟨h1, h2⟩ := h
        subst h1
        simp only [List.length_append, Option.some.injEq, Prod.mk.injEq, decide_eq_true_eq]
        exact ⟨List.take_append_of_le_length h2, by omega⟩

def sig : Bytes := [137, 80, 78, 71, 13, 10, 26, 10]
/-- `IHDR` of a 1×1 8-bit grayscale image; the toy CRC of everything is 0 -/
def ihdr : Bytes := [0, 0, 0, 13, 73, 72, 68, 82,  0, 0, 0, 1,  0, 0, 0, 1,  8, 0, 0, 0, 0,  0, 0, 0, 0]
/-- `IDAT` with the toy stream `[2, 7, 9]` (payload `[7, 9]`) -/
def idat : Bytes := [0, 0, 0, 3, 73, 68, 65, 84,  2, 7, 9,  0, 0, 0, 0]
/-- `IDAT` whose toy stream has a corrupt header -/
def idatBad : Bytes := [0, 0, 0, 3, 73, 68, 65, 84,  255, 7, 9,  0, 0, 0, 0]
def iend : Bytes := [0, 0, 0, 0, 73, 69, 78, 68,  0, 0, 0, 0]
def good : Bytes := sig ++ ihdr ++ idat ++ iend
def bad : Bytes := sig ++ ihdr ++ idatBad ++ iend
def d0 : Dec := {}

end Png.Framing.Toy
