import PngVerif.Proofs.LazyEofCore
/-!
# Lazy reader with input that temporarily ends: `next_frame` restarted in the middle of a frame
-/
namespace Png.LazyEof
open Png.Lazy (Frame Arrival ErrC Site Res Op)

/-- a result with the rows of earlier attempts added, on a (state, result) pair -/
def addWp (w : List Nat) (p : Png.Lazy.St × Res) : Png.Lazy.St × Res := (p.1, addW w p.2)

theorem addW_nil (r : Res) : addW [] r = r := by cases r <;> simp [addW]

theorem addW_append (a b : List Nat) (r : Res) : addW (a ++ b) r = addW a (addW b r) := by
  cases r <;> simp [addW, List.append_assoc]

theorem addWp_nil (p : Png.Lazy.St × Res) : addWp [] p = p := by simp [addWp, addW_nil]

theorem addWp_append (a b : List Nat) (p : Png.Lazy.St × Res) : addWp (a ++ b) p = addWp a (addWp b p) := by
  simp [addWp, addW_append]

/-! ## `Png.Lazy`: facts about a delivered row, accumulators, fuel -/

theorem L_row_ok (e : Png.Lazy.Env) (c c' : Png.Lazy.St) (j : Nat) (hg : Png.Lazy.Good e c) (hc : c.cur = some j)
    (h : Png.Lazy.rowImpl c j = (c', none)) :
    Png.Lazy.Good e c' ∧ c'.fi = c.fi ∧ c'.sub = c.sub ∧
    c'.cur = (if j + 1 < c.sub.length then some (j + 1) else none) ∧
    Png.Lazy.covers c.sub (Png.Lazy.Spec.availOf e.frames c.fi) j = true := by
  obtain ⟨h1, h2, h3⟩ := Png.Lazy.rowImpl_spec e c j hg hc
  rw [h] at h1 h2 h3
  simp only at h1 h2 h3
  by_cases hcov : Png.Lazy.covers c.sub (Png.Lazy.Spec.availOf e.frames c.fi) j = true
  · obtain ⟨_, ha⟩ := h2 hcov
    have f1 := congrArg Png.Lazy.Spec.A.fi ha
    have f2 := congrArg Png.Lazy.Spec.A.sub ha
    have f3 := congrArg Png.Lazy.Spec.A.cur ha
    refine ⟨h1, ?_, ?_, ?_, hcov⟩
    · by_cases x : c'.caf = true <;> by_cases y : c.caf = true <;>
        simp_all [Png.Lazy.St.abs, Png.Lazy.Spec.close]
    · by_cases x : c'.caf = true <;> by_cases y : c.caf = true <;>
        simp_all [Png.Lazy.St.abs, Png.Lazy.Spec.close]
    · simp only [Png.Lazy.St.abs, Png.Lazy.Spec.advance, hc] at f3
      exact f3
  · have : Png.Lazy.covers c.sub (Png.Lazy.Spec.availOf e.frames c.fi) j = false := by simpa using hcov
    have := (h3 this).1
    simp at this

theorem L_frameRows_acc : ∀ (n j : Nat) (c : Png.Lazy.St) (w0 w : List Nat),
    Png.Lazy.frameRows n j c (w0 ++ w) =
      ((Png.Lazy.frameRows n j c w).1, w0 ++ (Png.Lazy.frameRows n j c w).2.1, (Png.Lazy.frameRows n j c w).2.2) := by
  intro n
  induction n with
  | zero => intro j c w0 w; simp [Png.Lazy.frameRows]
  | succ n ih =>
    intro j c w0 w
    simp only [Png.Lazy.frameRows]
    rcases Png.Lazy.rowImpl c j with ⟨c1, _ | r⟩
    · simp only []
      rw [List.append_assoc]
      exact ih _ _ _ _
    · rfl

theorem L_frameInterlaced_acc : ∀ (f : Nat) (c : Png.Lazy.St) (w0 w : List Nat),
    Png.Lazy.frameInterlaced f c (w0 ++ w) =
      ((Png.Lazy.frameInterlaced f c w).1, w0 ++ (Png.Lazy.frameInterlaced f c w).2.1,
        (Png.Lazy.frameInterlaced f c w).2.2) := by
  intro f
  induction f with
  | zero => intro c w0 w; simp [Png.Lazy.frameInterlaced]
  | succ f ih =>
    intro c w0 w
    simp only [Png.Lazy.frameInterlaced]
    rcases Png.Lazy.nextRow c with ⟨c1, r⟩
    cases r <;> simp only []
    rw [List.append_assoc]
    exact ih _ _ _

/-- the rows still to come -/
def remRows (c : Png.Lazy.St) : Nat := c.sub.length - c.cur.getD c.sub.length

/-- what a row call does in the row loop of an interlaced `next_frame` -/
theorem L_nextRow_cases (e : Png.Lazy.Env) (c : Png.Lazy.St) (hg : Png.Lazy.Good e c) :
    (∃ j c', c.cur = some j ∧ Png.Lazy.rowImpl c j = (c', none) ∧ Png.Lazy.nextRow c = (c', .row c.fi j)) ∨
    (∀ k i, (Png.Lazy.nextRow c).2 ≠ .row k i) := by
  cases hc : c.cur with
  | none =>
    right
    intro k i
    rw [Png.Lazy.nextRow_none hc, (Png.Lazy.finishDecoding_spec c hg.inv hc).1]
    simp
  | some j =>
    rcases hres : Png.Lazy.rowImpl c j with ⟨c', _ | r⟩
    · left; exact ⟨j, c', rfl, hres, by rw [Png.Lazy.nextRow_some hc, hres]⟩
    · right
      intro k i
      rw [Png.Lazy.nextRow_some hc, hres]
      obtain ⟨_, h2, h3⟩ := Png.Lazy.rowImpl_spec e c j hg hc
      rw [hres] at h2 h3
      by_cases hcov : Png.Lazy.covers c.sub (Png.Lazy.Spec.availOf e.frames c.fi) j = true
      · have := (h2 hcov).1; simp at this
      · have := (h3 (by simpa using hcov)).1
        simp only [Option.some.injEq] at this
        subst this; simp

theorem L_frameInterlaced_fuel (e : Png.Lazy.Env) : ∀ (f1 f2 : Nat) (c : Png.Lazy.St) (w : List Nat),
    Png.Lazy.Good e c → remRows c + 1 ≤ f1 → remRows c + 1 ≤ f2 →
    Png.Lazy.frameInterlaced f1 c w = Png.Lazy.frameInterlaced f2 c w := by
  intro f1
  induction f1 with
  | zero => intro f2 c w _ h; omega
  | succ f1 ih =>
    intro f2 c w hg h1 h2
    cases f2 with
    | zero => omega
    | succ f2 =>
      simp only [Png.Lazy.frameInterlaced]
      rcases L_nextRow_cases e c hg with ⟨j, c', hc, hrow, hnr⟩ | hno
      · rw [hnr]
        simp only []
        obtain ⟨hg', _, hsub, hcur, _⟩ := L_row_ok e c c' j hg hc hrow
        have hj := hg.inv.cur_lt j hc
        have hrem : remRows c' + 1 ≤ remRows c := by
          simp only [remRows, hsub, hcur, hc, Option.getD_some]
          split <;> simp <;> omega
        exact ih f2 c' _ hg' (by omega) (by omega)
      · rcases hres : Png.Lazy.nextRow c with ⟨c1, r⟩
        have := hno
        rw [hres] at this
        cases r <;> simp only []
        exact absurd rfl (this _ _)

/-- the row loop of `Png.Lazy.frameInto` -/
def Lbody (e : Png.Lazy.Env) (c : Png.Lazy.St) : Png.Lazy.St × List Nat × Option Res :=
  if e.interlaced then Png.Lazy.frameInterlaced (c.sub.length + 2) c []
  else Png.Lazy.frameRows (c.sub.length - c.cur.getD c.sub.length) (c.cur.getD c.sub.length) c []

/-- what `Png.Lazy.frameInto` does after the row loop -/
def Ltail (fi : Nat) (b : Png.Lazy.St × List Nat × Option Res) : Png.Lazy.St × Res :=
  match b.2.2 with
  | some r => (b.1, r)
  | none =>
    match (Png.Lazy.finishDecoding b.1).2 with
    | some r => ((Png.Lazy.finishDecoding b.1).1, r)
    | none => ((Png.Lazy.finishDecoding b.1).1, .frame fi b.2.1)

theorem L_frameInto_eq (e : Png.Lazy.Env) (c : Png.Lazy.St) :
    Png.Lazy.frameInto e c = Ltail c.fi (Lbody e c) := by
  unfold Png.Lazy.frameInto Ltail Lbody
  simp only []
  generalize (if e.interlaced then Png.Lazy.frameInterlaced (c.sub.length + 2) c []
       else Png.Lazy.frameRows (c.sub.length - c.cur.getD c.sub.length) (c.cur.getD c.sub.length) c []) = b
  rcases b with ⟨s2, w, _ | r⟩
  · simp only []
    rcases Png.Lazy.finishDecoding s2 with ⟨s3, _ | r3⟩ <;> rfl
  · rfl

/-- the tail of `frameInto` with the rows of an earlier attempt in front -/
theorem Ltail_acc (e : Png.Lazy.Env) (c' : Png.Lazy.St) (fi : Nat) (w0 : List Nat) (hg : Png.Lazy.Good e c') :
    Ltail fi ((Lbody e c').1, w0 ++ (Lbody e c').2.1, (Lbody e c').2.2) = addWp w0 (Ltail fi (Lbody e c')) := by
  have hpost := Png.Lazy.body_post e c' hg
  change Png.Lazy.BodyPost e c' _ [] (Lbody e c') at hpost
  generalize Lbody e c' = X at hpost ⊢
  unfold Png.Lazy.BodyPost at hpost
  obtain ⟨hgX, hif⟩ := hpost
  split at hif
  · simp [Ltail, hif.1, addWp, addW]
  · obtain ⟨h1, _, h3, _⟩ := hif
    have := (Png.Lazy.finishDecoding_spec X.1 hgX.inv h3).1
    simp [Ltail, h1, this, addWp, addW]

/-- **`next_frame` restarted after a row**: the call on the state in which row `j` of the frame has just been
    delivered answers what the call before that row answers, except that row `j` is already in the buffer -/
theorem L_restart (e : Png.Lazy.Env) (c c' : Png.Lazy.St) (j : Nat) (hg : Png.Lazy.Good e c) (hc : c.cur = some j)
    (h : Png.Lazy.rowImpl c j = (c', none)) :
    Png.Lazy.frameInto e c = addWp [j] (Png.Lazy.frameInto e c') := by
  obtain ⟨hg', hfi, hsub, hcur, _⟩ := L_row_ok e c c' j hg hc h
  have hj := hg.inv.cur_lt j hc
  rw [L_frameInto_eq, L_frameInto_eq, hfi, ← Ltail_acc e c' c.fi [j] hg']
  congr 1
  unfold Lbody
  by_cases hil : e.interlaced = true
  · simp only [hil, if_true, hsub]
    have hnr : Png.Lazy.nextRow c = (c', .row c.fi j) := by rw [Png.Lazy.nextRow_some hc, h]
    rw [show Png.Lazy.frameInterlaced (c.sub.length + 2) c [] = Png.Lazy.frameInterlaced (c.sub.length + 1) c' ([] ++ [j]) by
      simp only [Png.Lazy.frameInterlaced, hnr]]
    have hrem : remRows c' + 1 ≤ c.sub.length + 1 := by simp only [remRows, hsub]; omega
    rw [L_frameInterlaced_fuel e _ (c.sub.length + 2) c' _ hg' hrem (by omega)]
    simpa using L_frameInterlaced_acc (c.sub.length + 2) c' [j] []
  · simp only [hil, Bool.false_eq_true, if_false, hsub, hcur, hc, Option.getD_some]
    have hn : c.sub.length - j = (c.sub.length - (j + 1)) + 1 := by omega
    rw [hn]
    simp only [Png.Lazy.frameRows, h]
    by_cases hlt : j + 1 < c.sub.length
    · simp only [hlt, if_true, Option.getD_some]
      simpa using L_frameRows_acc (c.sub.length - (j + 1)) (j + 1) c' [j] []
    · simp only [hlt, if_false, Option.getD_none, Nat.sub_self]
      have : c.sub.length - (j + 1) = 0 := by omega
      simp [this, Png.Lazy.frameRows]

theorem L_frameInto_congr_row (e : Png.Lazy.Env) (c c' : Png.Lazy.St) (j : Nat) (hil : e.interlaced = false)
    (hc : c.cur = some j) (hc' : c'.cur = some j) (hsub : c'.sub = c.sub) (hfi : c'.fi = c.fi)
    (hj : j < c.sub.length) (h : Png.Lazy.rowImpl c' j = Png.Lazy.rowImpl c j) :
    Png.Lazy.frameInto e c' = Png.Lazy.frameInto e c := by
  rw [L_frameInto_eq, L_frameInto_eq, hfi]
  congr 1
  unfold Lbody
  simp only [hil, Bool.false_eq_true, if_false, hsub, hc, hc', Option.getD_some]
  have hn : c.sub.length - j = (c.sub.length - (j + 1)) + 1 := by omega
  rw [hn]
  simp only [Png.Lazy.frameRows, h]

theorem L_frameInto_congr_nextRow (e : Png.Lazy.Env) (c c' : Png.Lazy.St) (hil : e.interlaced = true)
    (hsub : c'.sub = c.sub) (hfi : c'.fi = c.fi) (h : Png.Lazy.nextRow c' = Png.Lazy.nextRow c) :
    Png.Lazy.frameInto e c' = Png.Lazy.frameInto e c := by
  rw [L_frameInto_eq, L_frameInto_eq, hfi]
  congr 1
  unfold Lbody
  simp only [hil, if_true, hsub, Png.Lazy.frameInterlaced, h]

/-- an attempt of `next_frame` that was interrupted inside the frame: `w1` = the rows it wrote -/
structure TempF (e : Env) (s s' : St) (w1 : List Nat) : Prop where
  good : Png.Lazy.Good e.base s'.core
  caf : s'.core.caf = false
  ahead : ahead e s' < ahead e s
  tail : s'.tail = s.tail
  eq : Png.Lazy.frameInto e.base s.core = addWp w1 (Png.Lazy.frameInto e.base s'.core)
  fi : s'.core.fi = s.core.fi
  sub : s'.core.sub = s.core.sub
  /-- the rows written are covered by the data of the frame -/
  cov : ∀ i ∈ w1, Png.Lazy.covers s.core.sub (Png.Lazy.Spec.availOf e.base.frames s.core.fi) i = true

theorem TempF.cons {e : Env} {s s1 s' : St} {j : Nat} {w1 : List Nat} (hk : Keep s s1)
    (hr : Png.Lazy.frameInto e.base s.core = addWp [j] (Png.Lazy.frameInto e.base s1.core))
    (hsub : s1.core.sub = s.core.sub)
    (hcov : Png.Lazy.covers s.core.sub (Png.Lazy.Spec.availOf e.base.frames s.core.fi) j = true)
    (h : TempF e s1 s' w1) : TempF e s s' ([j] ++ w1) :=
  ⟨h.good, h.caf, Nat.lt_of_lt_of_le h.ahead hk.ahead, h.tail.trans hk.2.2.1, by rw [hr, h.eq, addWp_append],
    h.fi.trans hk.1, h.sub.trans hsub, by
      intro i hi
      simp only [List.cons_append, List.nil_append, List.mem_cons] at hi
      rcases hi with rfl | hi
      · exact hcov
      · have := h.cov i hi
        rw [hsub, hk.1] at this; exact this⟩

theorem frameRows_sim (e : Env) (hil : e.base.interlaced = false) : ∀ (n j : Nat) (s : St) (w : List Nat) (s' : St)
    (w' : List Nat) (o : Option Res), Png.Lazy.Good e.base s.core → (n ≠ 0 → s.core.cur = some j) →
    j + n = s.core.sub.length → frameRows n j s w = (s', w', o) →
    (o = some (.err .eof) ∧ ∃ w1, w' = w ++ w1 ∧ TempF e s s' w1) ∨
    (Png.Lazy.frameRows n j s.core w = (s'.core, w', o) ∧ Keep s s') := by
  intro n
  induction n with
  | zero =>
    intro j s w s' w' o _ _ _ h
    simp only [frameRows, Prod.mk.injEq] at h
    obtain ⟨rfl, rfl, rfl⟩ := h
    right; exact ⟨rfl, Keep.refl _⟩
  | succ n ih =>
    intro j s w s' w' o hg hcur hlen h
    have hc := hcur (by simp)
    simp only [frameRows] at h
    rcases hres : rowImpl s j with ⟨s1, o1⟩
    rw [hres] at h
    rcases rowImpl_sim e.base s s1 j o1 hg hres with h1 | h1
    · obtain ⟨rfl, hm, hg1, heq⟩ := h1
      simp only [Prod.mk.injEq] at h
      obtain ⟨rfl, rfl, rfl⟩ := h
      left
      refine ⟨rfl, [], by simp, hg1, hm.caf, hm.ahead, hm.tail, ?_, hm.fi, hm.sub, by simp⟩
      rw [addWp_nil]
      exact (L_frameInto_congr_row e.base s.core s1.core j hil hc (hm.cur.trans hc) hm.sub hm.fi (by omega) heq).symm
    · obtain ⟨hL, hk⟩ := h1
      cases o1 with
      | some r =>
        simp only [Prod.mk.injEq] at h
        obtain ⟨rfl, rfl, rfl⟩ := h
        right; exact ⟨by simp only [Png.Lazy.frameRows, hL], hk⟩
      | none =>
        simp only [] at h
        obtain ⟨hg1, hfi1, hsub1, hcur1, hcov1⟩ := L_row_ok e.base s.core s1.core j hg hc hL
        have hr := L_restart e.base s.core s1.core j hg hc hL
        rcases ih (j + 1) s1 (w ++ [j]) s' w' o hg1
            (by intro hn; rw [hcur1, if_pos (by omega)]) (by rw [hsub1]; omega) h with h2 | h2
        · obtain ⟨rfl, w1, rfl, ht⟩ := h2
          left
          exact ⟨rfl, [j] ++ w1, by simp, ht.cons hk hr hsub1 hcov1⟩
        · right
          exact ⟨by simp only [Png.Lazy.frameRows, hL]; exact h2.1, hk.trans h2.2⟩

theorem frameInterlaced_sim (e : Env) (hil : e.base.interlaced = true) : ∀ (fuel : Nat) (s : St) (w : List Nat)
    (s' : St) (w' : List Nat) (o : Option Res), Png.Lazy.Good e.base s.core → remRows s.core + 1 ≤ fuel →
    frameInterlaced fuel s w = (s', w', o) →
    (o = some (.err .eof) ∧ ∃ w1, w' = w ++ w1 ∧ TempF e s s' w1) ∨
    (Png.Lazy.frameInterlaced fuel s.core w = (s'.core, w', o) ∧ Keep s s') := by
  intro fuel
  induction fuel with
  | zero => intro s w s' w' o _ h; omega
  | succ fuel ih =>
    intro s w s' w' o hg hf h
    simp only [frameInterlaced] at h
    rcases hres : nextRow s with ⟨s1, r⟩
    rw [hres] at h
    rcases nextRow_sim e.base s s1 r hg hres with h1 | h1
    · obtain ⟨rfl, hm, hg1, heq⟩ := h1
      simp only [Prod.mk.injEq] at h
      obtain ⟨rfl, rfl, rfl⟩ := h
      left
      refine ⟨rfl, [], by simp, hg1, hm.caf, hm.ahead, hm.tail, ?_, hm.fi, hm.sub, by simp⟩
      rw [addWp_nil]
      exact (L_frameInto_congr_nextRow e.base s.core s1.core hil hm.sub hm.fi heq).symm
    · obtain ⟨hL, hk⟩ := h1
      rcases L_nextRow_cases e.base s.core hg with ⟨j, c', hc, hrow, hnr⟩ | hno
      · rw [hnr] at hL
        simp only [Prod.mk.injEq] at hL
        obtain ⟨rfl, rfl⟩ := hL
        simp only [] at h
        obtain ⟨hg1, hfi1, hsub1, hcur1, hcov1⟩ := L_row_ok e.base s.core s1.core j hg hc hrow
        have hr := L_restart e.base s.core s1.core j hg hc hrow
        have hj := hg.inv.cur_lt j hc
        have hrem : remRows s1.core + 1 ≤ remRows s.core := by
          simp only [remRows, hsub1, hcur1, hc, Option.getD_some]
          split <;> simp <;> omega
        rcases ih s1 (w ++ [j]) s' w' o hg1 (by omega) h with h2 | h2
        · obtain ⟨rfl, w1, rfl, ht⟩ := h2
          left
          exact ⟨rfl, [j] ++ w1, by simp, ht.cons hk hr hsub1 hcov1⟩
        · right
          exact ⟨by simp only [Png.Lazy.frameInterlaced, hnr]; exact h2.1, hk.trans h2.2⟩
      · have hno' := hno
        rw [hL] at hno'
        right
        cases r with
        | row k i => exact absurd rfl (hno' k i)
        | none =>
          simp only [Prod.mk.injEq] at h
          obtain ⟨rfl, rfl, rfl⟩ := h
          exact ⟨by simp only [Png.Lazy.frameInterlaced, hL], hk⟩
        | frame k ww =>
          simp only [Prod.mk.injEq] at h
          obtain ⟨rfl, rfl, rfl⟩ := h
          exact ⟨by simp only [Png.Lazy.frameInterlaced, hL], hk⟩
        | fctl k =>
          simp only [Prod.mk.injEq] at h
          obtain ⟨rfl, rfl, rfl⟩ := h
          exact ⟨by simp only [Png.Lazy.frameInterlaced, hL], hk⟩
        | ok =>
          simp only [Prod.mk.injEq] at h
          obtain ⟨rfl, rfl, rfl⟩ := h
          exact ⟨by simp only [Png.Lazy.frameInterlaced, hL], hk⟩
        | err c =>
          simp only [Prod.mk.injEq] at h
          obtain ⟨rfl, rfl, rfl⟩ := h
          exact ⟨by simp only [Png.Lazy.frameInterlaced, hL], hk⟩
        | panic c =>
          simp only [Prod.mk.injEq] at h
          obtain ⟨rfl, rfl, rfl⟩ := h
          exact ⟨by simp only [Png.Lazy.frameInterlaced, hL], hk⟩

/-- a row loop that ran to its end has written rows the data covers, and left the subframe alone -/
theorem L_body_done (e : Png.Lazy.Env) (c c2 : Png.Lazy.St) (w2 : List Nat) (hg : Png.Lazy.Good e c)
    (h : Lbody e c = (c2, w2, none)) :
    c2.sub = c.sub ∧ ∀ i ∈ w2, Png.Lazy.covers c.sub (Png.Lazy.Spec.availOf e.frames c.fi) i = true := by
  have hpost := Png.Lazy.body_post e c hg
  change Png.Lazy.BodyPost e c _ [] (Lbody e c) at hpost
  rw [h] at hpost
  unfold Png.Lazy.BodyPost at hpost
  obtain ⟨_, hif⟩ := hpost
  split at hif
  · have := hif.1; simp at this
  · rename_i hneg
    obtain ⟨_, hw, _, hcl⟩ := hif
    simp only [List.nil_append] at hw
    constructor
    · have := congrArg Png.Lazy.Spec.A.sub hcl
      by_cases x : c2.caf = true <;> by_cases y : c.caf = true <;>
        simp_all [Png.Lazy.St.abs, Png.Lazy.Spec.close]
    · intro i hi
      rw [hw, List.mem_range'_1] at hi
      have hlt : i < c.sub.length := by omega
      exact (Png.Lazy.covers_iff_lt_nDeliv c.sub _ i hlt).2 (by omega)

end Png.LazyEof
