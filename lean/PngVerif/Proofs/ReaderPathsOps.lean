import PngVerif.Proofs.ReaderPathsSim
/-!
# Decoding paths, part 4: every public call maps related readers to related readers (C13)

The row loops of `next_frame`, `next_frame`, `next_frame_info`, `finish`, and finally `step` / `run`:
readers related by `PSim` return the same results and stay related.
-/
namespace Png.Reader
open Png Png.Framing

/-- a function that commutes with `setSC` keeps `cached` -/
theorem comm_cached {α : Type} (f : R → R × α)
    (hf : ∀ r s c, f (r.setSC s c) = mapFst (fun r => r.setSC s c) (f r)) (r : R) : (f r).1.cached = r.cached := by
  have := hf r r.scratchLen r.cached
  rw [setSC_self] at this
  have h2 := congrArg (fun x => x.1.cached) this
  exact h2

/-- a function that commutes with `setSC` maps related readers to related results -/
theorem simRes_of_comm' {α : Type} {b : Prop} (f : R → R × α)
    (hf : ∀ r s c, f (r.setSC s c) = mapFst (fun r => r.setSC s c) (f r)) {r r' : R} (h : PSim b r r') :
    SimRes b (f r) (f r') := simRes_of_comm f hf (comm_cached f hf) h

theorem PSim.setPending {b : Prop} {r r' : R} (h : PSim b r r') (x : Option Bytes) :
    PSim b { r with pendingBuf := x } { r' with pendingBuf := x } := by
  obtain ⟨s, c, rfl, hc⟩ := h; exact ⟨s, c, rfl, hc⟩

/-! ## the row loops of `next_frame` -/

/-- **the non-interlaced row loop on related readers** -/
theorem frameRows_sim (cfg : Cfg) {t : TCfg} (ht : t.Ok) {b : Prop} (hb : b → t.SnapIndep) {i : Info} {ls : Nat} :
    ∀ (n k : Nat) (r r' : R) (buf : Bytes), PSim b r r' → FRPre t i ls n k r buf → Inv t r' →
    SimRes b (frameRows cfg t ls n k r buf) (frameRows cfg t ls n k r' buf) := by
  intro n
  induction n with
  | zero => intro k r r' buf h _ _; exact ⟨h, rfl⟩
  | succ n ih =>
    intro k r r' buf h hP hI'
    have hP' : FRPre t i ls (n + 1) k r' buf := by
      obtain ⟨s, c, rfl, _⟩ := h; exact hP.setSC s c hI'
    rw [hP.unfold cfg, hP'.unfold cfg, h.sub]
    have hs := nextRowImpl_sim cfg hb ls h hP.rowPre hI'
    have e1 : rowlenOf i.color i.depth r.sub (.null k) = r.sub.rowlen := rfl
    rw [e1] at hs
    cases hx : nextRowImpl cfg t r r.sub.rowlen ls with
    | mk a1 res =>
      cases hx' : nextRowImpl cfg t r' r.sub.rowlen ls with
      | mk b1 res' =>
        rw [hx, hx'] at hs
        obtain ⟨k1, k2⟩ := hs
        simp only at k1 k2
        subst k2
        cases res' with
        | error e => exact ⟨k1, rfl⟩
        | ok out =>
          simp only
          have hx2 : nextRowImpl cfg t r' r'.sub.rowlen ls = (b1, .ok out) := by rw [h.sub]; exact hx'
          exact ih (k + 1) a1 b1 _ k1 (hP.next cfg ht hx).1 (hP'.next cfg ht hx2).1.inv

/-- **the interlaced row loop on related readers** -/
theorem frameInterlaced_sim (cfg : Cfg) {t : TCfg} (ht : t.Ok) {b : Prop} (hb : b → t.SnapIndep) {i : Info}
    {stride : Nat} (bits : Nat) :
    ∀ (fuel : Nat) (r r' : R) (buf : Bytes), PSim b r r' → FIPre t i stride fuel r buf → Inv t r' → bits = outBits t i r.flags →
    SimRes b (frameInterlaced cfg t stride bits fuel r buf) (frameInterlaced cfg t stride bits fuel r' buf) := by
  intro fuel
  induction fuel with
  | zero => intro r r' buf _ hP _ _; have := hP.fuel; omega
  | succ fuel ih =>
    intro r r' buf h hP hI' hbits
    have hP' : FIPre t i stride (fuel + 1) r' buf := by
      obtain ⟨s, c, rfl, _⟩ := h; exact hP.setSC s c hI'
    have hs := nextInterlacedRow_sim cfg ht hb h hP.inv hI'
    have hr := hP.row cfg ht
    have hr' := hP'.row cfg ht
    rw [frameInterlaced, frameInterlaced]
    cases hx : nextInterlacedRow cfg t r with
    | mk a1 res =>
      cases hx' : nextInterlacedRow cfg t r' with
      | mk b1 res' =>
        rw [hx, hx'] at hs
        rw [hx] at hr
        rw [hx'] at hr'
        obtain ⟨k1, k2⟩ := hs
        simp only at k1 k2
        subst k2
        cases res' with
        | row ii data =>
          simp only at hr hr'
          obtain ⟨_, hk, _, p, l, w, buf', rfl, hex, _, hn⟩ := hr
          obtain ⟨_, _, _, p', l', w', buf'', hii, hex', _, hn'⟩ := hr'
          cases hii
          simp only
          rw [hbits, hex]
          simp only
          rw [← hbits]
          exact ih a1 b1 buf' k1 hn hn'.inv (by rw [hk.flags]; exact hbits)
        | noRow => exact ⟨k1, rfl⟩
        | err c w => exact ⟨k1, rfl⟩
        | panic s => exact hr.elim
        | header => exact hr.elim
        | frame _ _ => exact hr.elim
        | frameInfo _ => exact hr.elim
        | done => exact hr.elim

/-! ## `next_frame` -/

/-- **`next_frame` inside the frame's data, on related readers** -/
theorem frameInto_sim (cfg : Cfg) {t : TCfg} (ht : t.Ok) {b : Prop} (hb : b → t.SnapIndep) {r r' : R} (buf : Bytes)
    (h : PSim b r r') (hI : Inv t r) (hI' : Inv t r') : SimRes b (frameInto cfg t r buf) (frameInto cfg t r' buf) := by
  obtain ⟨i, hi, hg⟩ := hI.info
  obtain ⟨s, c, rfl, hc⟩ := h
  have hsim : PSim b r (r.setSC s c) := ⟨s, c, rfl, hc⟩
  have hi' : (r.setSC s c).dec.info = some i := hi
  by_cases hbuf : needOf t r i ≤ buf.length
  · have e1 := frameInto_peq cfg t buf hi hbuf
    have e2 := frameInto_peq cfg t (r := r.setSC s c) buf hi' hbuf
    rw [e1, e2]
    have hbody : SimRes b (frameBody cfg t r i.interlaced (outLineSize t i r.flags r.sub.width) (outBits t i r.flags) buf)
        (frameBody cfg t (r.setSC s c) i.interlaced (outLineSize t i r.flags r.sub.width) (outBits t i r.flags) buf) := by
      cases hil : i.interlaced with
      | false =>
        obtain ⟨f1, f2⟩ := frameBody_null cfg ht hI hi hil hbuf
        obtain ⟨g1, _⟩ := frameBody_null cfg ht hI' hi' hil hbuf
        rw [f1]
        refine Eq.subst (motive := fun x => SimRes b _ x) g1.symm ?_
        exact frameRows_sim cfg ht hb _ _ r _ buf hsim f2 hI'
      | true =>
        obtain ⟨f1, f2⟩ := frameBody_adam7 cfg ht hI hi hil hbuf
        obtain ⟨g1, _⟩ := frameBody_adam7 cfg ht hI' hi' hil hbuf
        rw [f1]
        refine Eq.subst (motive := fun x => SimRes b _ x) g1.symm ?_
        exact frameInterlaced_sim cfg ht hb _ _ r _ buf hsim f2 hI' rfl
    show SimRes b
      (match frameBody cfg t r i.interlaced (outLineSize t i r.flags r.sub.width) (outBits t i r.flags) buf with
       | (r2, buf', some e) => (r2, e, buf')
       | (r2, buf', none) =>
         match finishDecoding cfg r2 with
         | (r3, .error e) => (r3, e, buf')
         | (r3, .ok ()) => (r3, .frame (outInfoOf t r i) buf', buf'))
      (match frameBody cfg t (r.setSC s c) i.interlaced (outLineSize t i r.flags r.sub.width) (outBits t i r.flags) buf with
       | (r2, buf', some e) => (r2, e, buf')
       | (r2, buf', none) =>
         match finishDecoding cfg r2 with
         | (r3, .error e) => (r3, e, buf')
         | (r3, .ok ()) => (r3, .frame (outInfoOf t r i) buf', buf'))
    generalize frameBody cfg t r i.interlaced (outLineSize t i r.flags r.sub.width) (outBits t i r.flags) buf = x at hbody
    generalize frameBody cfg t (r.setSC s c) i.interlaced (outLineSize t i r.flags r.sub.width) (outBits t i r.flags) buf = x'
      at hbody
    obtain ⟨a2, buf2, oe⟩ := x
    obtain ⟨b2, y⟩ := x'
    obtain ⟨k1, k2⟩ := hbody
    simp only at k1 k2
    subst k2
    cases oe with
    | some e => exact ⟨k1, rfl⟩
    | none =>
      simp only
      have hf := simRes_of_comm' (b := b) (finishDecoding cfg) (finishDecoding_setSC cfg) k1
      generalize finishDecoding cfg a2 = z at hf
      generalize finishDecoding cfg b2 = z' at hf
      obtain ⟨a3, w⟩ := z
      obtain ⟨b3, w'⟩ := z'
      obtain ⟨m1, m2⟩ := hf
      simp only at m1 m2
      subst m2
      cases w' with
      | error e => exact ⟨m1, rfl⟩
      | ok u => exact ⟨m1, rfl⟩
  · have hlt : buf.length < outLineSize t i r.flags i.width * i.height := by unfold needOf at hbuf; omega
    unfold frameInto
    simp only [infoOf, hi, hi']
    show SimRes b (if buf.length < outLineSize t i r.flags i.width * i.height then _ else _)
      (if buf.length < outLineSize t i r.flags i.width * i.height then _ else _)
    rw [if_pos hlt, if_pos hlt]
    exact ⟨hsim, rfl⟩

/-- **`next_frame` on related readers** -/
theorem nextFrameBuf_sim (cfg : Cfg) {t : TCfg} (ht : t.Ok) {b : Prop} (hb : b → t.SnapIndep) {r r' : R} (buf : Bytes)
    (h : PSim b r r') (hI : Inv t r) (hI' : Inv t r') : SimRes b (nextFrameBuf cfg t r buf) (nextFrameBuf cfg t r' buf) := by
  rw [nextFrameBuf_eq, nextFrameBuf_eq, h.sub]
  by_cases hc : r.sub.cur.isSome = true
  · rw [if_pos hc, if_pos hc]; exact frameInto_sim cfg ht hb buf h hI hI'
  rw [if_neg hc, if_neg hc]
  unfold nextFrameBuf0
  rw [h.remaining, h.sub]
  by_cases hrem : r.remaining = 0
  · rw [if_pos hrem, if_pos hrem]; exact ⟨h, rfl⟩
  · rw [if_neg hrem, if_neg hrem]
    cases hcaf : r.sub.caf with
    | false =>
      simp only [Bool.false_eq_true, if_false]
      exact frameInto_sim cfg ht hb buf h hI hI'
    | true =>
      simp only [if_true]
      have hs := simRes_of_comm' (b := b) (readUntilImageData cfg t) (readUntilImageData_setSC cfg t) h
      have h1 := advanceFrame_spec cfg r hI hcaf hrem
      have h2 := advanceFrame_spec cfg r' hI' (by rw [h.sub]; exact hcaf) (by rw [h.remaining]; exact hrem)
      generalize readUntilImageData cfg t r = z at hs h1
      generalize readUntilImageData cfg t r' = z' at hs h2
      obtain ⟨a3, w⟩ := z
      obtain ⟨b3, w'⟩ := z'
      obtain ⟨m1, m2⟩ := hs
      simp only at m1 m2
      subst m2
      cases w' with
      | error e => exact ⟨m1, rfl⟩
      | ok u => exact frameInto_sim cfg ht hb buf m1 h1.1 h2.1

theorem callerBuf_sim {b : Prop} {r r' : R} (h : PSim b r r') (size : Nat) (p : UInt8) :
    callerBuf r' size p = callerBuf r size p := by unfold callerBuf; rw [h.pending]

/-- what `nextFrameOp` does with the result of `next_frame`: a call that ran out of input leaves its buffer -/
def opPost (out : R × Res × Bytes) : R × Res :=
  match out.2.1 with
  | .err .eof _ => ({ out.1 with pendingBuf := some out.2.2 }, out.2.1)
  | _ => (out.1, out.2.1)

theorem nextFrameOp_eq (cfg : Cfg) (t : TCfg) {r : R} {i : Info} (p : UInt8) (hi : r.dec.info = some i) :
    nextFrameOp cfg t r p =
      opPost (nextFrameBuf cfg t { r with pendingBuf := none } (callerBuf r (needOf t r i) p)) := by
  unfold nextFrameOp opPost
  simp only [infoOf, hi]
  rfl

theorem opPost_sim {b : Prop} {x x' : R × Res × Bytes} (h : SimRes b x x') : SimRes b (opPost x) (opPost x') := by
  obtain ⟨a3, w, bu⟩ := x
  obtain ⟨b3, w'⟩ := x'
  obtain ⟨m1, m2⟩ := h
  simp only at m1 m2
  subst m2
  unfold opPost
  cases w with
  | err c s =>
    cases c with
    | eof => exact ⟨m1.setPending _, rfl⟩
    | _ => exact ⟨m1, rfl⟩
  | _ => exact ⟨m1, rfl⟩

/-- **`next_frame` as an operation of the model, on related readers** -/
theorem nextFrameOp_sim (cfg : Cfg) {t : TCfg} (ht : t.Ok) {b : Prop} (hb : b → t.SnapIndep) {r r' : R} (p : UInt8)
    (h : PSim b r r') (hI : Inv t r) (hI' : Inv t r') : SimRes b (nextFrameOp cfg t r p) (nextFrameOp cfg t r' p) := by
  obtain ⟨i, hi, _⟩ := hI.info
  have hcb := callerBuf_sim h (needOf t r i) p
  have hs := nextFrameBuf_sim cfg ht hb (callerBuf r (needOf t r i) p) (h.setPending none)
    (hI.setPending none) (hI'.setPending none)
  obtain ⟨s, c, rfl, hc⟩ := h
  have hi' : (r.setSC s c).dec.info = some i := hi
  rw [nextFrameOp_eq cfg t p hi, nextFrameOp_eq cfg t p hi']
  have e : needOf t (r.setSC s c) i = needOf t r i := rfl
  rw [e, hcb]
  exact opPost_sim hs

/-! ## `step`, `run` -/

/-- the calls of a `Reader` (everything except the two calls of a `Decoder`) -/
def Op.onReader : Op → Bool
  | .readHeader => false
  | .readInfo => false
  | _ => true

/-- a live `Reader` with its invariant -/
structure Live (t : TCfg) (r : R) : Prop where
  dead : r.dead = false
  isReader : r.isReader = true
  inv : Inv t r

theorem Live.rinv {t : TCfg} {r : R} (h : Live t r) : RInv t r := Or.inr (Or.inl ⟨h.dead, h.isReader, h.inv⟩)

/-- a `Reader` call keeps the reader live -/
theorem Live.step (cfg : Cfg) {t : TCfg} (ht : t.Ok) {r : R} (h : Live t r) (op : Op) (hop : op.onReader = true) :
    Live t (step cfg t r op).1 := by
  have hne : op ≠ .readInfo := by intro e; subst e; cases hop
  obtain ⟨h1, _, h3⟩ := step_spec cfg ht r op h.rinv (fun e => absurd e hne)
  have hr := (h3 hne).trans h.isReader
  rcases h1 with ⟨_, k⟩ | ⟨k1, k2, k3⟩ | ⟨_, k, _⟩
  · rw [hr] at k; cases k
  · exact ⟨k1, k2, k3⟩
  · rw [hr] at k; cases k

theorem step_nextFrame (cfg : Cfg) (t : TCfg) (r : R) (p : UInt8) (h : r.isReader = true) :
    step cfg t r (.nextFrame p) = nextFrameOp cfg t r p := by
  simp only [step]; rw [if_neg (by rw [h]; simp)]

theorem step_nextRow (cfg : Cfg) (t : TCfg) (r : R) (h : r.isReader = true) :
    step cfg t r .nextRow = nextInterlacedRow cfg t { r with pendingBuf := none } := by
  simp only [step]; rw [if_neg (by rw [h]; simp)]

theorem step_readRow (cfg : Cfg) (t : TCfg) (r : R) (i : Info) (h : r.isReader = true) (hi : r.dec.info = some i) :
    step cfg t r .readRow = readRow cfg t { r with pendingBuf := none } (outLineSize t i r.flags i.width) := by
  simp only [step]; rw [if_neg (by rw [h]; simp)]; simp only [infoOf, hi]

theorem step_nextFrameInfo (cfg : Cfg) (t : TCfg) (r : R) (h : r.isReader = true) :
    step cfg t r .nextFrameInfo = nextFrameInfo cfg t { r with pendingBuf := none } := by
  simp only [step]; rw [if_neg (by rw [h]; simp)]

theorem step_finish (cfg : Cfg) (t : TCfg) (r : R) (h : r.isReader = true) :
    step cfg t r .finish = finish cfg { r with pendingBuf := none } := by
  simp only [step]; rw [if_neg (by rw [h]; simp)]

/-- **every `Reader` call on related readers**: the same result, related readers -/
theorem step_psim (cfg : Cfg) {t : TCfg} (ht : t.Ok) {b : Prop} (hb : b → t.SnapIndep) {r r' : R} (op : Op)
    (hop : op.onReader = true) (h : PSim b r r') (hL : Live t r) (hL' : Live t r') :
    SimRes b (step cfg t r op) (step cfg t r' op) := by
  have hr := hL.isReader
  have hr' := hL'.isReader
  cases op with
  | readHeader => cases hop
  | readInfo => cases hop
  | grow n =>
    simp only [step]
    obtain ⟨s, c, rfl, hc⟩ := h
    exact ⟨⟨s, c, rfl, hc⟩, rfl⟩
  | nextFrame p =>
    rw [step_nextFrame cfg t r p hr, step_nextFrame cfg t r' p hr']
    exact nextFrameOp_sim cfg ht hb p h hL.inv hL'.inv
  | nextRow =>
    rw [step_nextRow cfg t r hr, step_nextRow cfg t r' hr']
    exact nextInterlacedRow_sim cfg ht hb (h.setPending none) (hL.inv.setPending none) (hL'.inv.setPending none)
  | readRow =>
    obtain ⟨i, hi, hg⟩ := hL.inv.info
    have hK := h.keep
    have e : outLineSize t i r'.flags i.width = outLineSize t i r.flags i.width := by rw [hK.flags]
    rw [step_readRow cfg t r i hr hi, step_readRow cfg t r' i hr' (hK.info.trans hi), e]
    exact readRow_sim cfg ht hb (outLineSize t i r.flags i.width) (h.setPending none) (hL.inv.setPending none)
      (hL'.inv.setPending none) hi (outLineSize_mono ht (hL.inv.base.dinv.legal i hi) r.flags hg.wW)
  | nextFrameInfo =>
    rw [step_nextFrameInfo cfg t r hr, step_nextFrameInfo cfg t r' hr']
    exact simRes_of_comm' (nextFrameInfo cfg t) (nextFrameInfo_setSC cfg t) (h.setPending none)
  | finish =>
    rw [step_finish cfg t r hr, step_finish cfg t r' hr']
    exact simRes_of_comm' (finish cfg) (finish_setSC cfg) (h.setPending none)

theorem prun_cons (cfg : Cfg) (t : TCfg) (r : R) (op : Op) (ops : List Op) :
    run cfg t r (op :: ops) =
      ((run cfg t (step cfg t r op).1 ops).1, (step cfg t r op).2 :: (run cfg t (step cfg t r op).1 ops).2) := by
  simp only [run, List.foldl_cons, List.nil_append]
  rw [run_acc]
  simp [run]

theorem run_nil (cfg : Cfg) (t : TCfg) (r : R) : run cfg t r [] = (r, []) := rfl

/-- **any sequence of `Reader` calls on related readers returns the same results** -/
theorem run_psim (cfg : Cfg) {t : TCfg} (ht : t.Ok) {b : Prop} (hb : b → t.SnapIndep) :
    ∀ (ops : List Op) (r r' : R), (∀ op ∈ ops, op.onReader = true) → PSim b r r' → Live t r → Live t r' →
    SimRes b (run cfg t r ops) (run cfg t r' ops) := by
  intro ops
  induction ops with
  | nil => intro r r' _ h _ _; exact ⟨h, rfl⟩
  | cons op ops ih =>
    intro r r' hops h hL hL'
    have hop := hops op List.mem_cons_self
    obtain ⟨k1, k2⟩ := step_psim cfg ht hb op hop h hL hL'
    obtain ⟨m1, m2⟩ := ih _ _ (fun o ho => hops o (List.mem_cons_of_mem _ ho)) k1 (hL.step cfg ht op hop) (hL'.step cfg ht op hop)
    rw [prun_cons, prun_cons]
    exact ⟨m1, by simp only; rw [k2, m2]⟩

end Png.Reader
