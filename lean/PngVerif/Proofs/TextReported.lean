import PngVerif.Proofs.FramingLogic
import PngVerif.Proofs.Text
/-!
# C16/C20 glue, part 1: what the stream decoder stores for a text chunk IS what the text codecs decode

`Model/Framing.lean` (`parseText` / `parseZtxt` / `parseItxt`, stream.rs:1719-1800) stores the FIELDS of a text chunk as
byte strings (`Framing.TextChunk`); `Model/Text.lean` (`parseTEXt` / `parseZTXt` / `parseITXt`, `TEXt.decode` …,
text_metadata.rs) builds the chunk VALUES the crate reports (`TEXtChunk { keyword: String, text: String }` …).  The two
models were written independently.  Here:

* `reportedText` — the composition the crate performs: the `decode` function of the chunk kind applied to the stored
  fields;
* `splitKeyword_tie` — the two models of `split_keyword` agree on EVERY byte string (result and error);
* `parseText_tie`, `parseZtxt_tie`, `parseItxt_tie` — for EVERY chunk body (any decoder that has seen IHDR and whose
  `Limits` cover the body) the framing parser succeeds exactly when the text model's parser does, the record it stores
  is reported (`reportedText`) as exactly the chunk value the text model computes, and when it fails the `Format` error
  names the text model's `TextDecodingError` (`errName`).  For iTXt the abstract UTF-8 test of the framing model must be
  the real one (`∀ b, cfg.utf8Ok b = (utf8Decode b).isSome`), as in `RoundTrip.textBodyOk_iTXt`.

No corner disagrees: keyword length 0 / 79 / 80, missing NUL, empty body, empty text, missing flag / method, flag ≥ 2,
method ≠ 0 with either flag, non-ASCII language tag, ill-formed UTF-8 — all covered by the three `_tie` theorems.
-/
namespace Png.C16
open Png Png.Framing

/-! ## splitting at the first NUL: `position(|&b| b == 0)` in the two models -/

theorem findIdx_cons_zero (b : UInt8) (bs : Bytes) :
    (b :: bs).findIdx? (· = 0) = if b = 0 then some 0 else (bs.findIdx? (· = 0)).map (· + 1) := by
  rw [List.findIdx?_cons]
  by_cases h : b = 0
  · simp [h]
  · simp [h]

/-- `Model/Text.splitNul` (takeWhile / dropWhile) is `Model/Framing`'s `findIdx?` + `take` / `drop` -/
theorem splitNul_eq_findIdx (bs : Bytes) :
    splitNul bs = (bs.findIdx? (· = 0)).map (fun k => (bs.take k, bs.drop (k + 1))) := by
  induction bs with
  | nil => rfl
  | cons b bs ih =>
    rw [splitNul_cons, findIdx_cons_zero]
    by_cases h : b = 0
    · simp [h]
    · rw [if_neg h, if_neg h, ih]
      cases bs.findIdx? (· = 0) with
      | none => rfl
      | some k => simp

/-- the `Format` error text the framing model uses for a `TextDecodingError` (text_metadata.rs:121-140;
    `DecodingError::from(TextDecodingError)` is `Format(BadTextEncoding(..))`) -/
def errName : TextDecErr → String
  | .unrepresentable => "Unrepresentable"
  | .invalidKeywordSize => "InvalidKeywordSize"
  | .missingNullSeparator => "MissingNullSeparator"
  | .inflationError => "InflationError"
  | .outOfDecompressionSpace => "OutOfDecompressionSpace"
  | .invalidCompressionMethod => "InvalidCompressionMethod"
  | .invalidCompressionFlag => "InvalidCompressionFlag"
  | .missingCompressionFlag => "MissingCompressionFlag"

/-- the names are pairwise different: the `Format` error determines the `TextDecodingError` -/
theorem errName_injective (a b : TextDecErr) (h : errName a = errName b) : a = b := by
  cases a <;> cases b <;> first | rfl | (exact absurd h (by decide))

/-- a `TextDecodingError` as the framing model's parser error -/
def textErr (e : TextDecErr) : PErr := .format (errName e)

/-- **`split_keyword`: the two models agree on every byte string** -/
theorem splitKeyword_tie (b : Bytes) :
    Framing.splitKeyword b = match Png.splitKeyword b with
      | .ok p => .ok p
      | .error e => .error (textErr e) := by
  unfold Framing.splitKeyword Png.splitKeyword
  rw [splitNul_eq_findIdx]
  cases hk : b.findIdx? (· = 0) with
  | none => rfl
  | some k =>
    simp only [Option.map_some]
    have hlen : (b.take k).length = k := by
      have := (List.findIdx?_eq_some_iff_getElem.mp hk).1
      rw [List.length_take]; omega
    rw [hlen]
    by_cases hc : k = 0 ∨ k > 79
    · rw [if_pos hc, if_pos (by unfold maxKeywordLen; rcases hc with h | h <;> simp [h])]
      rfl
    · rw [if_neg hc, if_neg (by unfold maxKeywordLen; simp; omega)]


/-! ## the reported chunk values -/

/-- an entry of one of the three text vectors of `png::Info` (common.rs: `uncompressed_latin1_text`,
    `compressed_latin1_text`, `utf8_text`) -/
inductive Reported
  | tEXt (c : TEXt)
  | zTXt (c : ZTXt)
  | iTXt (c : ITXt)
  deriving DecidableEq

/-- outcome of the crate's `decode` call on the fields of a text chunk; `panic` is the `expect("unreachable")` of
    `decode_ascii` (`C20.ascii_no_panic`: it cannot fire) -/
inductive ReportOut
  | ok (r : Reported)
  | err (e : TextDecErr)
  | panic
  deriving DecidableEq

/-- **the composition the crate performs** (stream.rs:1729, 1747, 1788): the record of fields that `Model/Framing`
    keeps for a text chunk, handed to `TEXtChunk::decode` / `ZTXtChunk::decode` / `ITXtChunk::decode` of
    `Model/Text`.  (The framing record keeps the compression flag of an iTXt chunk as a `Bool` and does not keep the
    compression method: a stored zTXt / compressed iTXt had method 0, and `ITXtChunk::decode` does not read the
    method of an uncompressed chunk — `ITXt_decode_method`.) -/
def reportedText : TextChunk → ReportOut
  | .tEXt kw text =>
    match TEXt.decode kw text with
    | .ok c => .ok (.tEXt c)
    | .error e => .err e
  | .zTXt kw z =>
    match ZTXt.decode kw 0 z with
    | .ok c => .ok (.zTXt c)
    | .error e => .err e
  | .iTXt kw compressed lang trans text =>
    match ITXt.decode kw (if compressed then 1 else 0) 0 lang trans text with
    | .ok c => .ok (.iTXt c)
    | .err e => .err e
    | .panic => .panic

/-- the decoder after `limits.reserve_bytes(buf.len())` -/
def charged (d : Dec) : Dec := { d with limit := d.limit - d.raw.length }

theorem reserve_charged (d : Dec) (hlim : d.raw.length ≤ d.limit) : reserve d d.raw.length = .ok (charged d) :=
  reserve_ok d _ hlim

theorem charged_raw (d : Dec) : (charged d).raw = d.raw := rfl

theorem withInfo_charged (d : Dec) (i : Info) (hi : d.info = some i) (k : Info → PRes) : withInfo (charged d) k = k i := by
  unfold withInfo
  rw [show (charged d).info = some i from hi]

theorem keywordBytes_of_split {b kw v : Bytes} (h : Png.splitKeyword b = .ok (kw, v)) :
    b = kw ++ 0 :: v ∧ KeywordBytes kw := (splitKeyword_ok_iff b kw v).mp h

theorem badKeywordLen_of_split {b kw v : Bytes} (h : Png.splitKeyword b = .ok (kw, v)) : badKeywordLen kw = false := by
  obtain ⟨_, h1, h2, _⟩ := keywordBytes_of_split h
  exact (badKeywordLen_eq_false kw).mpr ⟨h1, h2⟩

/-! ## tEXt -/

/-- **`parse_text`: for EVERY body** the framing parser and the text model agree — success, stored record and its
    reported value, or the error -/
theorem parseText_tie (d : Dec) (i : Info) (hi : d.info = some i) (hlim : d.raw.length ≤ d.limit) :
    match Png.parseTEXt d.raw with
    | .ok c => ∃ rec, parseText d = .ok (addText (charged d) rec, .nothing) ∧ reportedText rec = .ok (.tEXt c)
    | .error e => parseText d = .error (textErr e) := by
  unfold parseText
  rw [reserve_charged d hlim]
  simp only [bind, Except.bind, charged_raw]
  rw [splitKeyword_tie]
  unfold Png.parseTEXt
  cases hs : Png.splitKeyword d.raw with
  | error e => rfl
  | ok p =>
    obtain ⟨kw, v⟩ := p
    have hb := badKeywordLen_of_split hs
    simp only [TEXt.decode, hb, Bool.false_eq_true, if_false, withInfo_charged d i hi]
    exact ⟨.tEXt kw v, rfl, by simp only [reportedText, TEXt.decode, hb, Bool.false_eq_true, if_false]⟩

/-! ## zTXt -/

theorem parseZtxt_tie (d : Dec) (i : Info) (hi : d.info = some i) (hlim : d.raw.length ≤ d.limit) :
    match Png.parseZTXt d.raw with
    | .ok c => ∃ rec, parseZtxt d = .ok (addText (charged d) rec, .nothing) ∧ reportedText rec = .ok (.zTXt c)
    | .error e => parseZtxt d = .error (textErr e) := by
  unfold parseZtxt
  rw [reserve_charged d hlim]
  simp only [bind, Except.bind, charged_raw]
  rw [splitKeyword_tie]
  unfold Png.parseZTXt
  cases hs : Png.splitKeyword d.raw with
  | error e => rfl
  | ok p =>
    obtain ⟨kw, v⟩ := p
    have hb := badKeywordLen_of_split hs
    cases v with
    | nil => rfl
    | cons m z =>
      simp only [ZTXt.decode, hb, Bool.false_eq_true, if_false]
      by_cases hm : m = 0
      · subst hm
        simp only [ne_eq, not_true_eq_false, if_false, bne_self_eq_false, Bool.false_eq_true, withInfo_charged d i hi]
        exact ⟨.zTXt kw z, rfl, by
          simp only [reportedText, ZTXt.decode, hb, Bool.false_eq_true, if_false, bne_self_eq_false]⟩
      · have hm' : (m != 0) = true := by simpa using hm
        simp only [ne_eq, hm, not_false_eq_true, if_true, hm']
        rfl

/-! ## iTXt -/

theorem flag_bad_iff (flag : UInt8) : ((flag != 0 && flag != 1) = true) ↔ flag.toNat > 1 := by
  simp only [Bool.and_eq_true, bne_iff_ne, ne_eq, ← UInt8.toNat_inj]
  show (¬ flag.toNat = 0 ∧ ¬ flag.toNat = 1) ↔ _
  omega

theorem any_ge_eq (lang : Bytes) : lang.any (fun b => decide (b.toNat ≥ 128)) = !isAsciiBytes lang := by
  unfold isAsciiBytes
  induction lang with
  | nil => rfl
  | cons b bs ih =>
    simp only [List.any_cons, List.all_cons, ih, Bool.not_and]
    congr 1
    simp only [UInt8.lt_iff_toNat_lt]
    show decide (128 ≤ b.toNat) = !decide (b.toNat < 128)
    by_cases h : b.toNat < 128
    · have : ¬ 128 ≤ b.toNat := by omega
      simp [h, this]
    · have : 128 ≤ b.toNat := by omega
      simp [h, this]

/-- `ITXtChunk::decode` does not read the compression method of an uncompressed chunk -/
theorem ITXt_decode_method (kw lang tk text : Bytes) (m : UInt8) :
    ITXt.decode kw 0 m lang tk text = ITXt.decode kw 0 0 lang tk text := by
  unfold ITXt.decode
  simp

/-- the checks of `ITXtChunk::decode` as the framing model makes them after the three separators were found, written as a
    flat chain (`parseItxt_tail` shows that this is the tail of `Framing.parseItxt`) -/
def itxtTail (cfg : Cfg) (D : Dec) (k : Bytes) (flag method : UInt8) (lang trans text : Bytes) : PRes :=
  if flag.toNat > 1 then .error (.format "InvalidCompressionFlag")
  else if flag = 1 ∧ method ≠ 0 then .error (.format "InvalidCompressionMethod")
  else if lang.any (fun b => b.toNat ≥ 128) then .error (.format "Unrepresentable")
  else if !cfg.utf8Ok trans then .error (.format "Unrepresentable")
  else if !decide (flag = 1) ∧ !cfg.utf8Ok text then .error (.format "Unrepresentable")
  else withInfo D fun _ => .ok (addText D (.iTXt k (flag = 1) lang trans text), .nothing)

theorem flag_cases (flag : UInt8) (h : ¬ flag.toNat > 1) : flag = 0 ∨ flag = 1 := by
  have : flag.toNat = 0 ∨ flag.toNat = 1 := by omega
  rcases this with h | h
  · exact Or.inl (UInt8.toNat_inj.mp h)
  · exact Or.inr (UInt8.toNat_inj.mp h)

theorem itxt_core (cfg : Cfg) (hu : ∀ b, cfg.utf8Ok b = (utf8Decode b).isSome) (D : Dec) (i : Info)
    (hi : D.info = some i) (kw : Bytes) (flag method : UInt8) (lang trans text : Bytes) (hb : badKeywordLen kw = false) :
    match ITXt.decode kw flag method lang trans text with
    | .ok c => ∃ rec, itxtTail cfg D kw flag method lang trans text = .ok (addText D rec, .nothing) ∧
        reportedText rec = .ok (.iTXt c)
    | .err e => itxtTail cfg D kw flag method lang trans text = .error (textErr e)
    | .panic => False := by
  have hw : ∀ k : Info → PRes, withInfo D k = k i := fun k => by unfold withInfo; rw [hi]
  unfold itxtTail
  rw [hw, any_ge_eq, hu, hu]
  by_cases h1 : flag.toNat > 1
  · rw [if_pos h1]
    unfold ITXt.decode
    rw [hb, if_neg (by simp), if_pos ((flag_bad_iff flag).mpr h1)]
    rfl
  · rw [if_neg h1]
    rcases flag_cases flag h1 with rfl | rfl
    · -- not compressed
      rw [ITXt_decode_method]
      unfold ITXt.decode
      rw [hb, decodeAscii_eq]
      by_cases ha : isAsciiBytes lang = true
      · cases ht : utf8Decode trans with
        | none => simp [ha]; rfl
        | some tks =>
          cases hx : utf8Decode text with
          | none => simp [ha]; rfl
          | some s =>
            simp [ha]
            refine ⟨_, rfl, ?_⟩
            simp [reportedText, ITXt.decode, hb, decodeAscii_eq, ha, ht, hx]
      · simp [ha]; rfl
    · -- compressed
      by_cases hm : method = 0
      · subst hm
        unfold ITXt.decode
        rw [hb, decodeAscii_eq]
        by_cases ha : isAsciiBytes lang = true
        · cases ht : utf8Decode trans with
          | none => simp [ha]; rfl
          | some tks =>
            simp [ha]
            refine ⟨_, rfl, ?_⟩
            simp [reportedText, ITXt.decode, hb, decodeAscii_eq, ha, ht]
        · simp [ha]; rfl
      · unfold ITXt.decode
        have hm' : (method != 0) = true := by simpa using hm
        simp [hb, hm, hm']
        rfl

theorem parseItxt_tie_aux (cfg : Cfg) (hu : ∀ b, cfg.utf8Ok b = (utf8Decode b).isSome) (d : Dec) (i : Info)
    (hi : d.info = some i) (hlim : d.raw.length ≤ d.limit) :
    ∃ r, parseItxt cfg d = r ∧
    match Png.parseITXt d.raw with
    | .ok c => ∃ rec, r = .ok (addText (charged d) rec, .nothing) ∧ reportedText rec = .ok (.iTXt c)
    | .err e => r = .error (textErr e)
    | .panic => False := by
  unfold parseItxt
  rw [reserve_charged d hlim]
  simp only [bind, Except.bind, charged_raw]
  rw [splitKeyword_tie]
  unfold Png.parseITXt
  cases hs : Png.splitKeyword d.raw with
  | error e => exact ⟨_, rfl, rfl⟩
  | ok p =>
    obtain ⟨kw, v⟩ := p
    have hb := badKeywordLen_of_split hs
    match v with
    | [] => exact ⟨_, rfl, rfl⟩
    | [_] => exact ⟨_, rfl, rfl⟩
    | flag :: method :: rest =>
      simp only []
      rw [splitNul_eq_findIdx rest]
      cases h2 : rest.findIdx? (· = 0) with
      | none => exact ⟨_, rfl, rfl⟩
      | some i2 =>
        simp only [Option.map_some]
        rw [splitNul_eq_findIdx (rest.drop (i2 + 1))]
        cases h3 : (rest.drop (i2 + 1)).findIdx? (· = 0) with
        | none => exact ⟨_, rfl, rfl⟩
        | some i3 =>
          simp only [Option.map_some]
          generalize rest.take i2 = lang
          generalize (rest.drop (i2 + 1)).take i3 = trans
          generalize (rest.drop (i2 + 1)).drop (i3 + 1) = text
          refine ⟨itxtTail cfg (charged d) kw flag method lang trans text, ?_, ?_⟩
          · unfold itxtTail
            simp only [throw, throwThe, MonadExceptOf.throw]
            repeat' split
            all_goals rfl
          · exact itxt_core cfg hu (charged d) i hi kw flag method lang trans text hb

/-- **`parse_itxt` + `ITXtChunk::decode`: for EVERY body** the framing parser (with the real UTF-8 test) and the text
    model agree — success, stored record and its reported value, or the error; and the text model's `panic` outcome
    (the `expect` in `decode_ascii`) does not occur -/
theorem parseItxt_tie (cfg : Cfg) (hu : ∀ b, cfg.utf8Ok b = (utf8Decode b).isSome) (d : Dec) (i : Info)
    (hi : d.info = some i) (hlim : d.raw.length ≤ d.limit) :
    match Png.parseITXt d.raw with
    | .ok c => ∃ rec, parseItxt cfg d = .ok (addText (charged d) rec, .nothing) ∧ reportedText rec = .ok (.iTXt c)
    | .err e => parseItxt cfg d = .error (textErr e)
    | .panic => False := by
  obtain ⟨r, h1, h2⟩ := parseItxt_tie_aux cfg hu d i hi hlim
  rw [h1]; exact h2

/-! ## `ITXtChunk::decode` characterised -/

/-- **`ITXtChunk::decode`: the accepted field values, for every flag and method** -/
theorem ITXt_decode_accept_iff (kw lang tk text : Bytes) (flag method : UInt8) :
    (∃ c, ITXt.decode kw flag method lang tk text = .ok c) ↔
      badKeywordLen kw = false ∧ flag.toNat ≤ 1 ∧ (flag = 1 → method = 0) ∧ isAsciiBytes lang = true ∧
      (utf8Decode tk).isSome = true ∧ (flag = 0 → (utf8Decode text).isSome = true) := by
  cases hb : badKeywordLen kw with
  | true => simp [ITXt.decode, hb]
  | false =>
    by_cases h1 : flag.toNat > 1
    · have : ¬ flag.toNat ≤ 1 := by omega
      simp [ITXt.decode, hb, (flag_bad_iff flag).mpr h1, this]
    · have hle : flag.toNat ≤ 1 := by omega
      rcases flag_cases flag h1 with rfl | rfl
      · rw [ITXt_decode_method]
        unfold ITXt.decode
        rw [hb, decodeAscii_eq]
        cases ha : isAsciiBytes lang <;> cases ht : utf8Decode tk <;> cases hx : utf8Decode text <;> simp
      · by_cases hm : method = 0
        · subst hm
          unfold ITXt.decode
          rw [hb, decodeAscii_eq]
          cases ha : isAsciiBytes lang <;> cases ht : utf8Decode tk <;> simp
        · have hm' : (method != 0) = true := by simpa using hm
          simp [ITXt.decode, hb, hm, hm']

/-- **what an accepted iTXt chunk holds**: keyword and language tag code point for byte, the translated keyword and (if
    not compressed) the text as the strings with exactly the bytes of the field, the compressed payload untouched -/
theorem ITXt_decode_fields (kw lang tk text : Bytes) (flag method : UInt8) (c : ITXt)
    (h : ITXt.decode kw flag method lang tk text = .ok c) :
    c.keyword = decodeLatin1 kw ∧ c.languageTag = decodeLatin1 lang ∧ utf8Encode c.translatedKeyword = tk ∧
    ((flag = 0 ∧ c.compressed = false ∧ ∃ s, c.text = .uncompressed s ∧ utf8Encode s = text) ∨
     (flag = 1 ∧ method = 0 ∧ c.compressed = true ∧ c.text = .compressed text)) := by
  obtain ⟨hb, hle, hm, ha, ht, hx⟩ := (ITXt_decode_accept_iff kw lang tk text flag method).mp ⟨c, h⟩
  rcases flag_cases flag (by omega) with rfl | rfl
  · rw [ITXt_decode_method] at h
    unfold ITXt.decode at h
    rw [hb, decodeAscii_eq, ha] at h
    cases ht' : utf8Decode tk with
    | none => rw [ht'] at ht; cases ht
    | some tks =>
      cases hx' : utf8Decode text with
      | none => rw [hx'] at hx; exact absurd (hx rfl) (by simp)
      | some s =>
        simp [ht', hx'] at h
        subst h
        exact ⟨rfl, rfl, utf8Encode_of_utf8Decode _ _ ht', Or.inl ⟨rfl, rfl, s, rfl, utf8Encode_of_utf8Decode _ _ hx'⟩⟩
  · have hm0 := hm rfl
    subst hm0
    unfold ITXt.decode at h
    rw [hb, decodeAscii_eq, ha] at h
    cases ht' : utf8Decode tk with
    | none => rw [ht'] at ht; cases ht
    | some tks =>
      simp [ht'] at h
      subst h
      exact ⟨rfl, rfl, utf8Encode_of_utf8Decode _ _ ht', Or.inr ⟨rfl, rfl, rfl, rfl⟩⟩
end Png.C16
