import PngVerif.Proofs.ReaderInv
import PngVerif.Proofs.FramingToy
/-!
# A small concrete `TCfg` and tiny streams for the non-vacuity examples of C02 / C05 / C18

`idT` is the identity transformation (output type = image type, the row is copied into a buffer of
exactly its length); it satisfies the contract `TCfg.Ok`.  The streams use the toy inflater and the
constant-zero CRC of `Proofs/FramingToy.lean`.
-/
deriving instance DecidableEq for Png.Reader.OutputInfo
deriving instance DecidableEq for Png.Reader.Res

namespace Png.Reader.Toy
open Png Png.Framing Png.Reader Png.Framing.Toy

/-- the identity row transformation -/
def idT : TCfg where
  outColorDepth := fun i _ => (i.color, i.depth)
  create := fun _ _ => .ok ()
  apply := fun _ _ _ row outLen => if row.length = outLen then some row else none

theorem idT_ok : idT.Ok where
  outLegal := fun i _ h => h.pair
  createOk := fun i f w _ h => by cases h
  applyOk := fun snap f cur row w _ _ _ _ hrow => by
    refine ⟨row, ?_, ?_⟩
    · show (if row.length = outLineSize idT cur f w then some row else none) = some row
      rw [if_pos]
      show row.length = rawRowLengthFromWidth cur.color cur.depth w - 1
      omega
    · show row.length = rawRowLengthFromWidth cur.color cur.depth w - 1
      omega

/-- `IDAT` with the toy stream `[2, 0, 9]`: one row, filter type 0, pixel 9 -/
def idat1 : Bytes := [0, 0, 0, 3, 73, 68, 65, 84,  2, 0, 9,  0, 0, 0, 0]
/-- a complete 1×1 8-bit grayscale image (toy inflater, toy CRC) -/
def img : Bytes := sig ++ ihdr ++ idat1 ++ iend

def actl : Bytes := [0, 0, 0, 8, 97, 99, 84, 76,  0, 0, 0, 2,  0, 0, 0, 0,  0, 0, 0, 0]
/-- `fcTL` with sequence number `s` for a 1×1 frame at (0, 0) -/
def fctl (s : UInt8) : Bytes :=
  [0, 0, 0, 26, 102, 99, 84, 76,  0, 0, 0, s,  0, 0, 0, 1,  0, 0, 0, 1,  0, 0, 0, 0,  0, 0, 0, 0,  0, 1, 0, 1, 0, 0,  0, 0, 0, 0]
/-- `fdAT` with sequence number `s` and the toy stream `[2, 0, 5]` -/
def fdat (s : UInt8) : Bytes := [0, 0, 0, 7, 102, 100, 65, 84,  0, 0, 0, s,  2, 0, 5,  0, 0, 0, 0]
/-- a two-frame APNG: `IDAT` is frame 0, one `fdAT` frame -/
def apng : Bytes := sig ++ ihdr ++ actl ++ fctl 0 ++ idat1 ++ fctl 1 ++ fdat 2 ++ iend

/-- observable summary of a result -/
def code : Res → Nat
  | .header => 1
  | .frame _ buf => 100 + buf.length
  | .row _ d => 200 + d.length
  | .noRow => 3
  | .frameInfo _ => 4
  | .done => 5
  | .err .eof _ => 10
  | .err .format _ => 11
  | .err .parameter _ => 12
  | .err .limits _ => 13
  | .panic _ => 99

def r0 (visible : Nat) : R := R.init {} (2 ^ 64 - 1) {} img visible
def a0 (visible : Nat) : R := R.init {} (2 ^ 64 - 1) {} apng visible

/-- the reader after `read_info` on the first 100 bytes of the toy APNG: one byte of `IDAT` data visible -/
def afterInfo : R := (run toyCfg idT (a0 100) [.readInfo]).1
/-- … and after a `next_row` that ran out of input -/
def afterEof : R := (nextInterlacedRow toyCfg idT afterInfo).1

theorem next_row_hits_eof : nextInterlacedRow toyCfg idT afterInfo = (afterEof, .err .eof "UnexpectedEof") :=
  Prod.ext rfl (by decide +kernel)

end Png.Reader.Toy
