import PngVerif.Proofs.ChecksumRun
/-!
# Whole chunk records through the framing state machine (C11, run level) — part 2: one record, many records

The run `runF` here is the caller-level semantics of `Proofs/Framing.lean` handed the WHOLE rest of the stream in one buffer
(every other delivery gives the same observable result: `Framing.runPieces_flatten`, C04).

* `reach_crc`: from a tracked state the run either fails before the CRC field — in the same way whatever follows the body — or
  arrives at the start of the CRC field with a decoder and events that do not depend on what follows.
* `record_run`: the normal form of the run over one chunk record `length ++ type ++ body ++ crc` from a chunk boundary.
* `runF_record_append`, `runF_recs_append`: runs split EXACTLY at record boundaries (no `InflateOk`, no projection).
* `recsWith crcs cs`, `streamWith crcs cs`: the chunk records `cs` with the stored CRC fields `crcs`.

No assumption about the ORDER or the kinds of the chunks: errors are part of the statements.
-/
namespace Png.Framing
open Png

/-! ## results with events in front -/

/-- prepend events to a result -/
def Res.pre (evs : List Ev) (r : Res) : Res := (r.1, evs ++ r.2.1, r.2.2)

/-- prepend an event unless it is `Nothing` -/
def consEv (ev : Ev) (evs : List Ev) : List Ev := if ev = .nothing then evs else ev :: evs

theorem Res.pre_nil (r : Res) : Res.pre [] r = r := by simp [Res.pre]

theorem Res.cons_pre (ev : Ev) (evs : List Ev) (r : Res) : Res.cons ev (Res.pre evs r) = Res.pre (consEv ev evs) r := by
  simp only [Res.cons, Res.pre, consEv]; split <;> simp

theorem Res.cons_error (ev : Ev) (d : Dec) (evs : List Ev) (e : Option Err) :
    Res.cons ev (d, evs, e) = (d, consEv ev evs, e) := rfl

theorem Res.pre_bind (evs : List Ev) (r : Res) (k : Dec → Res) : (Res.pre evs r).bind k = Res.pre evs (r.bind k) := by
  obtain ⟨d, es, e⟩ := r
  cases e <;> simp [Res.bind, Res.pre]

theorem Res.cons_eq_pre (ev : Ev) (r : Res) : Res.cons ev r = Res.pre (consEv ev []) r := by
  simp only [Res.cons, Res.pre, consEv]; split <;> simp

theorem not_mem_consEv {ev : Ev} {evs : List Ev} (h1 : ev ≠ .imageEnd) (h2 : .imageEnd ∉ evs) : .imageEnd ∉ consEv ev evs := by
  unfold consEv
  split
  · exact h2
  · simp only [List.mem_cons, not_or]; exact ⟨fun h => h1 h.symm, h2⟩

/-! ## from a tracked state to the CRC field -/

/-- what `Track` says at the start of the CRC field of the chunk `(t, body)` -/
def AtCrc (d : Dec) (t : ChunkType) (body : Bytes) : Prop :=
  d.state = some (.u32 (.crc t) []) ∧ (d.opts.ignoreCrc = false → d.crcAcc = typeBytes t ++ body)

/-- **From anywhere inside a chunk record to its CRC field.**  Either the run fails before the CRC field, in the same
    way whatever follows the body (`Z`), or it arrives at the CRC field: decoder `dC` and events `evs` do not depend on `Z`,
    no `ImageEnd` among them, and with CRC checking enabled the running CRC covers exactly `type bytes ++ body`. -/
theorem reach_crc (cfg : Cfg) {t : ChunkType} {body : Bytes} (ht : t < 2 ^ 32) (hb : body.length < 2 ^ 32) :
    ∀ (m : Nat) (d : Dec) (st : St) (common : Bytes), mu d common < m → d.state = some st → Track d t body st common →
    (∃ dE evs e, dE.state = none ∧ .imageEnd ∉ evs ∧ ∀ Z, Z ≠ [] → runF cfg d (common ++ Z) = (dE, evs, some e)) ∨
    (∃ dC evs, AtCrc dC t body ∧ dC.opts = d.opts ∧ .imageEnd ∉ evs ∧
      ∀ Z, Z ≠ [] → runF cfg d (common ++ Z) = Res.pre evs (runF cfg dC Z)) := by
  intro m
  induction m with
  | zero => intro d st common hm; omega
  | succ m ih =>
    intro d st common hm hs hT
    by_cases hc : ∃ t', st = .u32 (.crc t') []
    · obtain ⟨t', rfl⟩ := hc
      simp only [Track] at hT
      obtain ⟨rfl, rfl, hcrc⟩ := hT
      exact Or.inr ⟨d, [], ⟨hs, hcrc⟩, rfl, by simp, fun Z _ => by rw [List.nil_append, Res.pre_nil]⟩
    · have hnc : ∀ t', st ≠ .u32 (.crc t') [] := fun t' h => hc ⟨t', h⟩
      have hloc : ∀ Z, nextState cfg d st (common ++ Z) = nextState cfg d st common :=
        fun Z => nextState_local cfg d st common Z (track_look hT hnc)
      have hne : ∀ Z : Bytes, Z ≠ [] → common ++ Z ≠ [] := fun Z hZ h => hZ (List.append_eq_nil_iff.1 h).2
      cases hr : nextState cfg d st common with
      | error e =>
        exact Or.inl ⟨d.withState none, [], e, rfl, by simp, fun Z hZ => runF_error cfg hs (hne Z hZ) ((hloc Z).trans hr)⟩
      | ok r =>
        obtain ⟨n, ev, d'⟩ := r
        obtain ⟨hn, st', hs', hT'⟩ := track_step ht hb hT hnc hr
        have hone : common ++ [(0 : UInt8)] ≠ [] := hne _ (by simp)
        have hmu := step_mu hs hone ((hloc _).trans hr)
        have hev : ev ≠ .imageEnd := by
          intro he
          have := (nextState_progress hone ((hloc _).trans hr)).2.2.2 he
          rw [hs'] at this; cases this
        have hopts : d'.opts = d.opts := (nextState_stepFrame hr).opts
        have hdrop : ∀ Z : Bytes, (common ++ Z).drop n = common.drop n ++ Z := fun Z => List.drop_append_of_le_length hn
        have hstep : ∀ Z, Z ≠ [] → runF cfg d (common ++ Z) = Res.cons ev (runF cfg d' (common.drop n ++ Z)) := by
          intro Z hZ
          rw [runF_ok cfg hs (hne Z hZ) ((hloc Z).trans hr), hdrop]
        have hm' : mu d' (common.drop n) < m := by
          rw [hdrop] at hmu
          simp only [mu, List.length_append, List.length_cons, List.length_nil] at hmu hm ⊢
          omega
        rcases ih d' st' (common.drop n) hm' hs' hT' with ⟨dE, evs, e, hpo, hie, hrun⟩ | ⟨dC, evs, hat, ho, hie, hrun⟩
        · refine Or.inl ⟨dE, consEv ev evs, e, hpo, not_mem_consEv hev hie, fun Z hZ => ?_⟩
          rw [hstep Z hZ, hrun Z hZ, Res.cons_error]
        · refine Or.inr ⟨dC, consEv ev evs, hat, ho.trans hopts, not_mem_consEv hev hie, fun Z hZ => ?_⟩
          rw [hstep Z hZ, hrun Z hZ, Res.cons_pre]

/-! ## the CRC field -/

/-- a complete four-byte field at the head of the buffer: one `parse_u32`, then on with the rest -/
theorem runF_u32_field (cfg : Cfg) {d : Dec} {kind : U32Kind} (hs : d.state = some (.u32 kind [])) (c0 c1 c2 c3 : UInt8)
    (Y : Bytes) :
    runF cfg d (c0 :: c1 :: c2 :: c3 :: Y) =
      match parseU32 cfg { d with state := none } kind c0 c1 c2 c3 with
      | .error e => (d.withState none, [], some e)
      | .ok (ev, d') => Res.cons ev (runF cfg d' Y) := by
  cases hp : parseU32 cfg { d with state := none } kind c0 c1 c2 c3 with
  | error e =>
    refine runF_error cfg hs (by simp) ?_
    rw [nextState_u32_fast, hp]; rfl
  | ok r =>
    obtain ⟨ev, d'⟩ := r
    have : nextState cfg d (.u32 kind []) (c0 :: c1 :: c2 :: c3 :: Y) = .ok (4, ev, d') := by
      rw [nextState_u32_fast, hp]; rfl
    rw [runF_ok cfg hs (by simp) this]
    rfl

/-- a successful CRC step leaves the decoder at the next length field, or finished -/
theorem parseU32_crc_state {cfg : Cfg} {D d' : Dec} {t : ChunkType} {c0 c1 c2 c3 : UInt8} {ev : Ev} (hD : D.state = none)
    (h : parseU32 cfg D (.crc t) c0 c1 c2 c3 = .ok (ev, d')) :
    d'.state = some (.u32 .length []) ∨ d'.state = none := by
  rw [parseU32_crc] at h
  repeat' split at h
  all_goals first
    | (cases h; done)
    | (cases h; exact Or.inr hD)
    | (cases h; exact Or.inl rfl)

/-! ## chunk records -/

/-- four stored CRC bytes -/
abbrev Crc4 := UInt8 × UInt8 × UInt8 × UInt8

def Crc4.bytes (c : Crc4) : Bytes := [c.1, c.2.1, c.2.2.1, c.2.2.2]
/-- the stored value -/
def Crc4.val (c : Crc4) : Nat := be32 c.1 c.2.1 c.2.2.1 c.2.2.2
/-- the four bytes of a number (big-endian, as the encoder writes a CRC) -/
def Crc4.ofNat (n : Nat) : Crc4 :=
  ((n / 16777216 % 256).toUInt8, (n / 65536 % 256).toUInt8, (n / 256 % 256).toUInt8, (n % 256).toUInt8)

theorem Crc4.bytes_ofNat (n : Nat) : (Crc4.ofNat n).bytes = be32Bytes n := rfl
theorem Crc4.val_ofNat {n : Nat} (h : n < 2 ^ 32) : (Crc4.ofNat n).val = n := by
  obtain ⟨a, b, c, d, h1, h2⟩ := be32Bytes_eq h
  simp only [be32Bytes, List.cons.injEq, and_true] at h1
  obtain ⟨rfl, rfl, rfl, rfl⟩ := h1
  exact h2

/-- one chunk record: length, type, body, the stored CRC bytes `c` (whatever they are) -/
def record (t : ChunkType) (body : Bytes) (c : Crc4) : Bytes :=
  be32Bytes body.length ++ typeBytes t ++ body ++ c.bytes

theorem record_ne_nil (t : ChunkType) (body : Bytes) (c : Crc4) : record t body c ≠ [] := by
  simp [record, be32Bytes]

theorem record_append (t : ChunkType) (body : Bytes) (c : Crc4) (Y : Bytes) :
    record t body c ++ Y =
      (be32Bytes body.length ++ (typeBytes t ++ body)) ++ (c.1 :: c.2.1 :: c.2.2.1 :: c.2.2.2 :: Y) := by
  simp [record, Crc4.bytes, List.append_assoc]

/-- a chunk boundary: the decoder expects a length field, or it has finished (`ImageEnd`; more input is refused) -/
def ChunkBoundary (d : Dec) : Prop := d.state = some (.u32 .length []) ∨ d.state = none

/-- **The run over one chunk record**, from a chunk boundary, as a normal form.  Either the run fails before the CRC
    field, in the same way for all stored CRC bytes and whatever follows; or the CRC step is taken from a decoder `dC`
    and after events `evs` that depend neither on the stored CRC bytes nor on what follows the record. -/
theorem record_run (cfg : Cfg) {t : ChunkType} {body : Bytes} (ht : t < 2 ^ 32) (hb : body.length < 2 ^ 32) (d : Dec)
    (hs : d.state = some (.u32 .length [])) :
    (∃ dE evs e, dE.state = none ∧ .imageEnd ∉ evs ∧
      ∀ (c : Crc4) (Y : Bytes), runF cfg d (record t body c ++ Y) = (dE, evs, some e)) ∨
    (∃ dC evs, AtCrc dC t body ∧ dC.opts = d.opts ∧ .imageEnd ∉ evs ∧
      ∀ (c : Crc4) (Y : Bytes), runF cfg d (record t body c ++ Y) =
        Res.pre evs (match parseU32 cfg { dC with state := none } (.crc t) c.1 c.2.1 c.2.2.1 c.2.2.2 with
          | .error e => (dC.withState none, [], some e)
          | .ok (ev, d') => Res.cons ev (runF cfg d' Y))) := by
  have hT : Track d t body (.u32 .length []) (be32Bytes body.length ++ (typeBytes t ++ body)) := rfl
  rcases reach_crc cfg ht hb _ d _ _ (Nat.lt_succ_self _) hs hT with ⟨dE, evs, e, hpo, hie, hrun⟩ | ⟨dC, evs, hat, ho, hie, hrun⟩
  · refine Or.inl ⟨dE, evs, e, hpo, hie, fun c Y => ?_⟩
    rw [record_append]
    exact hrun _ (by simp)
  · refine Or.inr ⟨dC, evs, hat, ho, hie, fun c Y => ?_⟩
    rw [record_append, hrun _ (by simp), runF_u32_field cfg hat.1]

/-- **Runs split exactly at the end of a chunk record**: the run over `record ++ Y` from a chunk boundary is the run over
    the record followed (unless it failed) by the run over `Y`; without an error it ends at a chunk boundary again. -/
theorem runF_record_append (cfg : Cfg) {t : ChunkType} {body : Bytes} (ht : t < 2 ^ 32) (hb : body.length < 2 ^ 32)
    (d : Dec) (hd : ChunkBoundary d) (c : Crc4) (Y : Bytes) :
    runF cfg d (record t body c ++ Y) = (runF cfg d (record t body c)).bind (fun d1 => runF cfg d1 Y) ∧
    ((runF cfg d (record t body c)).2.2 = none → ChunkBoundary (runF cfg d (record t body c)).1) := by
  rcases hd with hs | hs
  · rcases record_run cfg ht hb d hs with ⟨dE, evs, e, _, _, hrun⟩ | ⟨dC, evs, hat, _, _, hrun⟩
    · have h1 := hrun c []
      rw [List.append_nil] at h1
      rw [hrun c Y, h1]
      exact ⟨rfl, fun h => by cases h⟩
    · have h1 := hrun c []
      rw [List.append_nil] at h1
      rw [hrun c Y, h1, Res.pre_bind]
      cases hp : parseU32 cfg { dC with state := none } (.crc t) c.1 c.2.1 c.2.2.1 c.2.2.2 with
      | error e => exact ⟨rfl, fun h => by cases h⟩
      | ok r =>
        obtain ⟨ev, d'⟩ := r
        simp only [runF_nil, Res.cons_bind, Res.pure_bind]
        refine ⟨trivial, fun _ => ?_⟩
        have := parseU32_crc_state (D := { dC with state := none }) rfl hp
        simpa [Res.pre, Res.cons, ChunkBoundary] using this
  · have hne := record_ne_nil t body c
    have hne' : record t body c ++ Y ≠ [] := fun h => hne (List.append_eq_nil_iff.1 h).1
    rw [runF_none cfg hs hne, runF_none cfg hs hne']
    exact ⟨rfl, fun h => by cases h⟩

/-! ## sequences of chunk records with arbitrary stored CRC fields -/

/-- the chunk records `cs` (type, body), the `i`-th with the stored CRC bytes `crcs[i]` (zeros if the list is shorter) -/
def recsWith : List Crc4 → List (ChunkType × Bytes) → Bytes
  | _, [] => []
  | crcs, c :: cs => record c.1 c.2 (crcs.headD (0, 0, 0, 0)) ++ recsWith crcs.tail cs

/-- a PNG datastream: the signature and the chunk records `cs` with the stored CRC fields `crcs` -/
def streamWith (crcs : List Crc4) (cs : List (ChunkType × Bytes)) : Bytes := WellFormed.signature ++ recsWith crcs cs

/-- type and length fit their four-byte fields -/
def FieldsOk (cs : List (ChunkType × Bytes)) : Prop := ∀ c ∈ cs, c.1 < 2 ^ 32 ∧ c.2.length < 2 ^ 32

instance (cs : List (ChunkType × Bytes)) : Decidable (FieldsOk cs) := by unfold FieldsOk; infer_instance

theorem recsWith_nil (crcs : List Crc4) : recsWith crcs [] = [] := by cases crcs <;> rfl

theorem recsWith_cons (crcs : List Crc4) (c : ChunkType × Bytes) (cs : List (ChunkType × Bytes)) :
    recsWith crcs (c :: cs) = record c.1 c.2 (crcs.headD (0, 0, 0, 0)) ++ recsWith crcs.tail cs := by
  cases crcs <;> rfl

theorem recsWith_append (crcs : List Crc4) (cs₁ cs₂ : List (ChunkType × Bytes)) :
    recsWith crcs (cs₁ ++ cs₂) = recsWith crcs cs₁ ++ recsWith (crcs.drop cs₁.length) cs₂ := by
  induction cs₁ generalizing crcs with
  | nil => simp [recsWith_nil]
  | cons c cs₁ ih =>
    rw [List.cons_append, recsWith_cons, recsWith_cons, ih, List.append_assoc]
    cases crcs <;> simp

theorem recsWith_append_left (crcs₁ more : List Crc4) (cs₁ : List (ChunkType × Bytes)) (h : crcs₁.length = cs₁.length) :
    recsWith (crcs₁ ++ more) cs₁ = recsWith crcs₁ cs₁ := by
  induction cs₁ generalizing crcs₁ with
  | nil => simp [recsWith_nil]
  | cons c cs₁ ih =>
    match crcs₁, h with
    | x :: crcs₁, h =>
      rw [List.cons_append, recsWith_cons, recsWith_cons]
      simp only [List.headD_cons, List.tail_cons]
      rw [ih crcs₁ (by simpa using h)]

/-- the records with stored CRC fields `crcs₁ ++ c :: crcs₂`, when `crcs₁` are the fields of the chunks `cs₁` -/
theorem recsWith_split (crcs₁ crcs₂ : List Crc4) (c : Crc4) (cs₁ cs₂ : List (ChunkType × Bytes)) (t : ChunkType)
    (body : Bytes) (h : crcs₁.length = cs₁.length) :
    recsWith (crcs₁ ++ c :: crcs₂) (cs₁ ++ (t, body) :: cs₂) =
      recsWith crcs₁ cs₁ ++ (record t body c ++ recsWith crcs₂ cs₂) := by
  rw [recsWith_append, recsWith_append_left _ _ _ h, ← h, List.drop_left, recsWith_cons]
  rfl

theorem recsWith_eq_nil_iff (crcs : List Crc4) (cs : List (ChunkType × Bytes)) : recsWith crcs cs = [] ↔ cs = [] := by
  cases cs with
  | nil => simp [recsWith_nil]
  | cons c cs =>
    rw [recsWith_cons]
    simp only [List.append_eq_nil_iff, reduceCtorEq, iff_false, not_and]
    intro h; exact absurd h (record_ne_nil _ _ _)

/-- with the right CRC in every record this is the specification's chunk sequence (`WellFormed.chunks`) -/
theorem chunks_eq_recsWith (cfg : Cfg) (cs : List (ChunkType × Bytes)) :
    WellFormed.chunks cfg cs = recsWith (cs.map fun c => Crc4.ofNat (cfg.crc (typeBytes c.1 ++ c.2))) cs := by
  induction cs with
  | nil => rfl
  | cons c cs ih =>
    rw [List.map_cons, recsWith_cons]
    simp only [List.headD_cons, List.tail_cons]
    rw [← ih]
    simp [WellFormed.chunks, WellFormed.chunk, record, Crc4.bytes_ofNat]

/-- **Runs split exactly at record boundaries** -/
theorem runF_recs_append (cfg : Cfg) (crcs : List Crc4) (cs : List (ChunkType × Bytes)) (hcs : FieldsOk cs) :
    ∀ (d : Dec), ChunkBoundary d → ∀ (Y : Bytes),
    runF cfg d (recsWith crcs cs ++ Y) = (runF cfg d (recsWith crcs cs)).bind (fun d1 => runF cfg d1 Y) ∧
    ((runF cfg d (recsWith crcs cs)).2.2 = none → ChunkBoundary (runF cfg d (recsWith crcs cs)).1) := by
  induction cs generalizing crcs with
  | nil =>
    intro d hd Y
    simp only [recsWith_nil, List.nil_append, runF_nil, Res.pure_bind]
    exact ⟨trivial, fun _ => hd⟩
  | cons c cs ih =>
    intro d hd Y
    have hc := hcs c (by simp)
    have hcs' : FieldsOk cs := fun x hx => hcs x (by simp [hx])
    rw [recsWith_cons, List.append_assoc]
    obtain ⟨h1, h2⟩ := runF_record_append cfg hc.1 hc.2 d hd (crcs.headD (0, 0, 0, 0)) (recsWith crcs.tail cs ++ Y)
    obtain ⟨h3, h4⟩ := runF_record_append cfg hc.1 hc.2 d hd (crcs.headD (0, 0, 0, 0)) (recsWith crcs.tail cs)
    rw [h1, h3, Res.bind_assoc]
    generalize runF cfg d (record c.1 c.2 (crcs.headD (0, 0, 0, 0))) = r1 at h2 h4 ⊢
    obtain ⟨d1, es1, e1⟩ := r1
    cases e1 with
    | some e => simp only [Res.error_bind]; exact ⟨trivial, fun h => by cases h⟩
    | none =>
      have hb1 : ChunkBoundary d1 := h2 rfl
      obtain ⟨h5, h6⟩ := ih crcs.tail hcs' d1 hb1 Y
      refine ⟨?_, ?_⟩
      · simp only [Res.bind, h5]
      · simpa only [Res.bind] using h6

/-! ## the signature -/

theorem wf_signature_eq : WellFormed.signature = [137, 80, 78, 71, 13, 10, 26, 10] := by decide

/-- the decoder after the signature: a new decoder waiting for the first length field -/
def Dec.afterSignature (opts : Options) : Dec := { Dec.new opts with state := some (.u32 .length []) }

theorem afterSignature_boundary (opts : Options) : ChunkBoundary (Dec.afterSignature opts) := Or.inl rfl

/-- the eight signature bytes: two four-byte fields, no events -/
theorem runF_signature (cfg : Cfg) (opts : Options) (Y : Bytes) :
    runF cfg (Dec.new opts) (WellFormed.signature ++ Y) = runF cfg (Dec.afterSignature opts) Y := by
  rw [wf_signature_eq]
  simp only [List.cons_append, List.nil_append]
  rw [runF_u32_field cfg (d := Dec.new opts) (kind := .sig1) rfl, parseU32_sig1]
  rw [if_pos (by decide)]
  simp only [Res.cons_nothing]
  rw [runF_u32_field cfg (kind := .sig2) rfl, parseU32_sig2]
  rw [if_pos (by decide)]
  simp only [Res.cons_nothing]
  rfl

end Png.Framing
