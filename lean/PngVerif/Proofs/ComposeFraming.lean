import PngVerif.Proofs.FramingLogic
import PngVerif.Model.WellFormed
/-!
# Layer L1 of the C01 composition, part 1: forward lemmas for single `update` calls

`Proofs/FramingLogic.lean` analyses a successful call ("if the call returned this, then …").  The composition
needs the other direction: on these bytes, in this state, the call returns exactly this.  All lemmas are for
an arbitrary `cfg` and an arbitrary decoder value satisfying the stated field conditions.
-/
namespace Png.Framing
open Png

/-! ## chaining `next_state` calls inside one `update` call -/

theorem updateLoop_acc (cfg : Cfg) : ∀ (f : Nat) (d : Dec) (buf : Bytes) (c : Nat),
    updateLoop cfg f d buf c =
      ((updateLoop cfg f d buf 0).1, (updateLoop cfg f d buf 0).2.map fun x => (c + x.1, x.2)) := by
  intro f
  induction f with
  | zero => intro d buf c; simp [updateLoop, Except.map]
  | succ f ih =>
    intro d buf c
    unfold updateLoop
    cases hb : buf.isEmpty with
    | true => simp [Except.map]
    | false =>
      simp only [Bool.false_eq_true, if_false]
      cases hs : d.state with
      | none => simp [Except.map]
      | some st =>
        simp only
        cases hr : nextState cfg d st buf with
        | error e => simp [Except.map]
        | ok r =>
          obtain ⟨n, ev, d'⟩ := r
          cases ev <;> first | (simp [Except.map]; done) | skip
          simp only
          rw [ih d' (buf.drop n) (c + n), ih d' (buf.drop n) (0 + n)]
          cases (updateLoop cfg f d' (buf.drop n) 0).2 with
          | error e => simp [Except.map]
          | ok x => simp [Except.map]; omega

/-- a first `next_state` call that reports `Nothing`: the `update` call goes on with the rest of the buffer -/
theorem update_of_nothing {cfg : Cfg} {d d' d'' : Dec} {st : St} {buf : Bytes} {n m : Nat} {ev : Ev}
    (hs : d.state = some st) (hbuf : buf ≠ []) (h : nextState cfg d st buf = .ok (n, .nothing, d'))
    (h2 : update cfg d' (buf.drop n) = (d'', .ok (m, ev))) :
    update cfg d buf = (d'', .ok (n + m, ev)) := by
  obtain ⟨_, _, hne, _⟩ := nextState_progress hbuf h
  have hst' : d'.state ≠ none := hne (by simp)
  have hmu := step_mu hs hbuf h
  unfold update at h2 ⊢
  rw [hs]
  simp only
  have : updateFuel buf = (5 * buf.length + 4) + 1 := by simp [updateFuel]
  rw [this, updateLoop]
  have hb : buf.isEmpty = false := by cases buf with | nil => exact absurd rfl hbuf | cons _ _ => rfl
  simp only [hb, Bool.false_eq_true, if_false, hs, h]
  cases hs' : d'.state with
  | none => exact absurd hs' hst'
  | some st' =>
    rw [hs'] at h2
    simp only at h2
    have hrk := rank_le d
    have hf : mu d' (buf.drop n) + 1 ≤ 5 * buf.length + 4 := by simp only [mu] at hmu ⊢; omega
    rw [updateLoop_acc, updateLoop_fuel cfg _ (updateFuel (buf.drop n)) d' (buf.drop n) 0 hf (updateFuel_ge _ _), h2]
    simp [Except.map]


/-! ## single `U32` fields -/

theorem nextState_u32_fast' (cfg : Cfg) (d : Dec) (kind : U32Kind) (b0 b1 b2 b3 : UInt8) (rest : Bytes) :
    nextState cfg d (.u32 kind []) (b0 :: b1 :: b2 :: b3 :: rest) =
      (parseU32 cfg (d.withState none) kind b0 b1 b2 b3).map fun (ev, d) => (4, ev, d) :=
  nextState_u32_fast cfg d kind b0 b1 b2 b3 rest

theorem nextState_u32_pending' (cfg : Cfg) (d : Dec) (kind : U32Kind) (b0 b1 b2 b3 : UInt8) (buf : Bytes) :
    nextState cfg d (.u32 kind [b0, b1, b2, b3]) buf =
      (parseU32 cfg (d.withState none) kind b0 b1 b2 b3).map fun (ev, d) => (0, ev, d) :=
  nextState_u32_pending cfg d kind b0 b1 b2 b3 buf

/-- a four-byte field whose `parse_u32` reports `Nothing`: the call goes on behind it -/
theorem update_u32_nothing {cfg : Cfg} {d d1 d'' : Dec} {kind : U32Kind} {b0 b1 b2 b3 : UInt8} {rest : Bytes}
    {m : Nat} {ev : Ev} (hs : d.state = some (.u32 kind []))
    (hp : parseU32 cfg (d.withState none) kind b0 b1 b2 b3 = .ok (.nothing, d1))
    (h2 : update cfg d1 rest = (d'', .ok (m, ev))) :
    update cfg d (b0 :: b1 :: b2 :: b3 :: rest) = (d'', .ok (4 + m, ev)) := by
  refine update_of_nothing (d' := d1) hs (by simp) ?_ (by simpa using h2)
  rw [nextState_u32_fast', hp]; rfl

/-- a four-byte field whose `parse_u32` reports an event -/
theorem update_u32_event {cfg : Cfg} {d d1 : Dec} {kind : U32Kind} {b0 b1 b2 b3 : UInt8} {rest : Bytes} {ev : Ev}
    (hs : d.state = some (.u32 kind []))
    (hp : parseU32 cfg (d.withState none) kind b0 b1 b2 b3 = .ok (ev, d1)) (hev : ev ≠ .nothing) :
    update cfg d (b0 :: b1 :: b2 :: b3 :: rest) = (d1, .ok (4, ev)) := by
  refine update_ok_of_step hs (by simp) ?_ hev
  rw [nextState_u32_fast', hp]; rfl

/-- the pending re-parse of a chunk type after `ImageDataFlushed` -/
theorem update_pending_event {cfg : Cfg} {d d1 : Dec} {kind : U32Kind} {b0 b1 b2 b3 : UInt8} {buf : Bytes} {ev : Ev}
    (hs : d.state = some (.u32 kind [b0, b1, b2, b3])) (hbuf : buf ≠ [])
    (hp : parseU32 cfg (d.withState none) kind b0 b1 b2 b3 = .ok (ev, d1)) (hev : ev ≠ .nothing) :
    update cfg d buf = (d1, .ok (0, ev)) := by
  refine update_ok_of_step hs hbuf ?_ hev
  rw [nextState_u32_pending', hp]; rfl

/-! ## the begin of a chunk: length and type -/

theorem typeBytes_eq {t : Nat} (h : t < 2 ^ 32) : ∃ a b c e, typeBytes t = [a, b, c, e] ∧ be32 a b c e = t :=
  be32Bytes_eq h

theorem IDAT_lt : IDAT < 2 ^ 32 := by decide +kernel
theorem IHDR_lt : IHDR < 2 ^ 32 := by decide +kernel
theorem IEND_lt : IEND < 2 ^ 32 := by decide +kernel
theorem IDAT_ne_IEND' : IDAT ≠ IEND := by decide +kernel
theorem IHDR_ne_IEND' : IHDR ≠ IEND := by decide +kernel

theorem parseU32_type_other (cfg : Cfg) (D : Dec) (len : Nat) (b0 b1 b2 b3 : UInt8)
    (hi : D.info.isSome = true ∨ be32 b0 b1 b2 b3 = IHDR) (hnf : ¬ IsFlush D (be32 b0 b1 b2 b3))
    (h1 : be32 b0 b1 b2 b3 ≠ fdAT) (h2 : be32 b0 b1 b2 b3 ≠ IDAT) :
    parseU32 cfg D (.type len) b0 b1 b2 b3 =
      .ok (.chunkBegin len (be32 b0 b1 b2 b3),
        { D with state := some (if len = 0 then .parseChunkData (be32 b0 b1 b2 b3) else .readChunkData (be32 b0 b1 b2 b3)),
                 curType := be32 b0 b1 b2 b3,
                 crcAcc := if D.opts.ignoreCrc then D.crcAcc else typeBytes (be32 b0 b1 b2 b3),
                 remaining := len, raw := [] }) := by
  rw [parseU32_type]
  have c0 : ¬ (D.info.isNone = true ∧ be32 b0 b1 b2 b3 ≠ IHDR) := by
    rintro ⟨x, y⟩
    rcases hi with hi | hi
    · cases h : D.info <;> simp [h] at hi x
    · exact y hi
  have hnf' : ¬ (be32 b0 b1 b2 b3 ≠ D.curType ∧ (D.curType = IDAT ∨ D.curType = fdAT)) := hnf
  rw [if_neg c0, if_neg hnf', afterType_other _ _ h1 h2]

theorem parseU32_type_IDAT (cfg : Cfg) (D : Dec) (len : Nat) (b0 b1 b2 b3 : UInt8) (ht : be32 b0 b1 b2 b3 = IDAT)
    (hi : D.info.isSome = true) (hnf : ¬ IsFlush D IDAT) (hr : D.readyIdat = true) :
    parseU32 cfg D (.type len) b0 b1 b2 b3 =
      .ok (.chunkBegin len IDAT,
        { D with haveIdat := true, state := some (.imageData IDAT), curType := IDAT,
                 crcAcc := if D.opts.ignoreCrc then D.crcAcc else typeBytes IDAT, remaining := len, raw := [] }) := by
  rw [parseU32_type, ht]
  have c0 : ¬ (D.info.isNone = true ∧ IDAT ≠ IHDR) := by
    rintro ⟨x, _⟩
    cases h : D.info <;> simp [h] at hi x
  have hnf' : ¬ (IDAT ≠ D.curType ∧ (D.curType = IDAT ∨ D.curType = fdAT)) := hnf
  rw [if_neg c0, if_neg hnf', afterType_IDAT]
  simp only [hr, Bool.not_true, Bool.false_eq_true, if_false]

theorem parseU32_length' (cfg : Cfg) (D : Dec) (b0 b1 b2 b3 : UInt8) :
    parseU32 cfg D .length b0 b1 b2 b3 = .ok (.nothing, D.withState (some (.u32 (.type (be32 b0 b1 b2 b3)) []))) := rfl

/-- length and type of a buffered chunk (anything but `IDAT` / `fdAT`) that does not end a data-chunk sequence -/
theorem update_chunkBegin_other {cfg : Cfg} {d : Dec} {len t : Nat} {rest : Bytes}
    (hs : d.state = some (.u32 .length [])) (hlen : len < 2 ^ 32) (ht : t < 2 ^ 32)
    (hi : d.info.isSome = true ∨ t = IHDR) (hnf : ¬ IsFlush d t) (h1 : t ≠ fdAT) (h2 : t ≠ IDAT) :
    update cfg d (be32Bytes len ++ typeBytes t ++ rest) =
      ({ d with state := some (if len = 0 then .parseChunkData t else .readChunkData t), curType := t,
                crcAcc := if d.opts.ignoreCrc then d.crcAcc else typeBytes t, remaining := len, raw := [] },
       .ok (8, .chunkBegin len t)) := by
  obtain ⟨a0, a1, a2, a3, ha, rfl⟩ := be32Bytes_eq hlen
  obtain ⟨t0, t1, t2, t3, htb, rfl⟩ := typeBytes_eq ht
  have hb : be32Bytes (be32 a0 a1 a2 a3) ++ typeBytes (be32 t0 t1 t2 t3) ++ rest =
      a0 :: a1 :: a2 :: a3 :: t0 :: t1 :: t2 :: t3 :: rest := by rw [ha, htb]; rfl
  rw [hb]
  refine update_u32_nothing (m := 4) hs (parseU32_length' cfg _ a0 a1 a2 a3) ?_
  refine update_u32_event rfl ?_ (by simp)
  exact parseU32_type_other cfg (d.withState none) _ t0 t1 t2 t3 hi hnf h1 h2

/-- length and type of an `IDAT` chunk (the first one, or one that continues the sequence) -/
theorem update_chunkBegin_IDAT {cfg : Cfg} {d : Dec} {len : Nat} {rest : Bytes}
    (hs : d.state = some (.u32 .length [])) (hlen : len < 2 ^ 32)
    (hi : d.info.isSome = true) (hnf : ¬ IsFlush d IDAT) (hr : d.readyIdat = true) :
    update cfg d (be32Bytes len ++ typeBytes IDAT ++ rest) =
      ({ d with haveIdat := true, state := some (.imageData IDAT), curType := IDAT,
                crcAcc := if d.opts.ignoreCrc then d.crcAcc else typeBytes IDAT, remaining := len, raw := [] },
       .ok (8, .chunkBegin len IDAT)) := by
  obtain ⟨a0, a1, a2, a3, ha, rfl⟩ := be32Bytes_eq hlen
  obtain ⟨t0, t1, t2, t3, htb, hte⟩ := typeBytes_eq IDAT_lt
  have hb : be32Bytes (be32 a0 a1 a2 a3) ++ typeBytes IDAT ++ rest =
      a0 :: a1 :: a2 :: a3 :: t0 :: t1 :: t2 :: t3 :: rest := by rw [ha, htb]; rfl
  rw [hb]
  refine update_u32_nothing (m := 4) hs (parseU32_length' cfg _ a0 a1 a2 a3) ?_
  refine update_u32_event rfl ?_ (by simp)
  exact parseU32_type_IDAT cfg (d.withState none) _ t0 t1 t2 t3 hte hi hnf hr


/-! ## the body of a buffered chunk -/

/-- the decoder after the whole body `body` of the current chunk went to the CRC and to `raw_bytes` -/
def Dec.collect (d : Dec) (body : Bytes) : Dec := (d.withState none).readPiece body.length body

theorem stepRead_whole (D : Dec) (t : ChunkType) (body rest : Bytes) (hrem : D.remaining = body.length)
    (hb : body ≠ []) (hcap : body.length ≤ D.cap - D.raw.length) :
    stepRead D t (body ++ rest) =
      .ok (body.length, .nothing, (D.readPiece body.length body).withState (some (.parseChunkData t))) := by
  have hlen : 0 < body.length := by cases body with | nil => exact absurd rfl hb | cons _ _ => simp
  unfold stepRead
  rw [if_neg (by omega)]
  simp only
  rw [if_neg (by omega)]
  have hn : min D.remaining (min (body ++ rest).length (D.cap - D.raw.length)) = body.length := by
    simp only [List.length_append]; omega
  rw [hn, List.take_left']
  · have : (D.readPiece body.length body).remaining = 0 := by simp only [Dec.readPiece]; omega
    rw [if_pos this]; rfl
  · rfl

theorem stepParse_done (cfg : Cfg) (D : Dec) (t : ChunkType) (hrem : D.remaining = 0) :
    stepParse cfg D t = (parseChunk cfg D t).map fun (ev, d) => (0, ev, d) := by
  unfold stepParse; rw [if_pos hrem]

/-- `parse_chunk` sets the state itself: the state it is entered with does not matter -/
theorem parseChunk_withState (cfg : Cfg) (D : Dec) (s : Option St) (t : ChunkType) :
    parseChunk cfg (D.withState s) t = parseChunk cfg D t := rfl

theorem collect_remaining (d : Dec) (body : Bytes) (h : d.remaining = body.length) : (d.collect body).remaining = 0 := by
  simp only [Dec.collect, Dec.readPiece, Dec.withState]; omega

/-- body of a buffered chunk whose parser reports an event -/
theorem update_body_event {cfg : Cfg} {d d2 : Dec} {t : ChunkType} {body rest : Bytes} {ev : Ev}
    (hs : d.state = some (.readChunkData t)) (hrem : d.remaining = body.length) (hb : body ≠ [])
    (hcap : body.length ≤ d.cap - d.raw.length) (hrest : rest ≠ [])
    (hp : parseChunk cfg (d.collect body) t = .ok (ev, d2)) (hev : ev ≠ .nothing) :
    update cfg d (body ++ rest) = (d2, .ok (body.length, ev)) := by
  have h1 : nextState cfg d (.readChunkData t) (body ++ rest) =
      .ok (body.length, .nothing, (d.collect body).withState (some (.parseChunkData t))) :=
    stepRead_whole (d.withState none) t body rest hrem hb hcap
  refine update_of_nothing (m := 0) hs (by simp [hb]) h1 ?_
  rw [List.drop_left']
  · refine update_ok_of_step rfl hrest ?_ hev
    show stepParse cfg (((d.collect body).withState (some (.parseChunkData t))).withState none) t = _
    have hr : (((d.collect body).withState (some (.parseChunkData t))).withState none).remaining = 0 :=
      collect_remaining d body hrem
    rw [stepParse_done _ _ _ hr, parseChunk_withState, parseChunk_withState, hp]; rfl
  · rfl

/-- the CRC field of a chunk other than `IEND` when the checksum is right (or not checked) -/
theorem parseU32_crc_ok (cfg : Cfg) (D : Dec) (t : ChunkType) (b0 b1 b2 b3 : UInt8) (ht : t ≠ IEND)
    (hc : D.opts.ignoreCrc = false → cfg.crc D.crcAcc = be32 b0 b1 b2 b3) :
    parseU32 cfg D (.crc t) b0 b1 b2 b3 =
      .ok (.chunkComplete (be32 b0 b1 b2 b3) t, D.withState (some (.u32 .length []))) := by
  rw [parseU32_crc]
  have : be32 b0 b1 b2 b3 = (if D.opts.ignoreCrc then be32 b0 b1 b2 b3 else cfg.crc D.crcAcc) := by
    cases h : D.opts.ignoreCrc with
    | true => simp
    | false => simp [hc h]
  rw [if_pos this, if_neg ht]; rfl

theorem parseU32_crc_end (cfg : Cfg) (D : Dec) (b0 b1 b2 b3 : UInt8)
    (hc : D.opts.ignoreCrc = false → cfg.crc D.crcAcc = be32 b0 b1 b2 b3) :
    parseU32 cfg D (.crc IEND) b0 b1 b2 b3 = .ok (.imageEnd, D) := by
  rw [parseU32_crc]
  have : be32 b0 b1 b2 b3 = (if D.opts.ignoreCrc then be32 b0 b1 b2 b3 else cfg.crc D.crcAcc) := by
    cases h : D.opts.ignoreCrc with
    | true => simp
    | false => simp [hc h]
  rw [if_pos this, if_pos rfl]

theorem update_crc {cfg : Cfg} {d : Dec} {t : ChunkType} {c : Nat} {rest : Bytes}
    (hs : d.state = some (.u32 (.crc t) [])) (hc32 : c < 2 ^ 32) (ht : t ≠ IEND)
    (hc : d.opts.ignoreCrc = false → cfg.crc d.crcAcc = c) :
    update cfg d (be32Bytes c ++ rest) = (d.withState (some (.u32 .length [])), .ok (4, .chunkComplete c t)) := by
  obtain ⟨a0, a1, a2, a3, ha, rfl⟩ := be32Bytes_eq hc32
  have hb : be32Bytes (be32 a0 a1 a2 a3) ++ rest = a0 :: a1 :: a2 :: a3 :: rest := by rw [ha]; rfl
  rw [hb]
  refine update_u32_event hs ?_ (by simp)
  exact parseU32_crc_ok cfg (d.withState none) t a0 a1 a2 a3 ht hc

theorem update_crc_end {cfg : Cfg} {d : Dec} {c : Nat} {rest : Bytes}
    (hs : d.state = some (.u32 (.crc IEND) [])) (hc32 : c < 2 ^ 32)
    (hc : d.opts.ignoreCrc = false → cfg.crc d.crcAcc = c) :
    update cfg d (be32Bytes c ++ rest) = (d.withState none, .ok (4, .imageEnd)) := by
  obtain ⟨a0, a1, a2, a3, ha, rfl⟩ := be32Bytes_eq hc32
  have hb : be32Bytes (be32 a0 a1 a2 a3) ++ rest = a0 :: a1 :: a2 :: a3 :: rest := by rw [ha]; rfl
  rw [hb]
  refine update_u32_event hs ?_ (by simp)
  exact parseU32_crc_end cfg (d.withState none) a0 a1 a2 a3 hc

/-- body of a buffered chunk whose parser reports nothing, followed by its CRC -/
theorem update_body_crc {cfg : Cfg} {d d2 : Dec} {t : ChunkType} {body rest : Bytes} {c : Nat}
    (hs : d.state = some (.readChunkData t)) (hrem : d.remaining = body.length) (hb : body ≠ [])
    (hcap : body.length ≤ d.cap - d.raw.length)
    (hp : parseChunk cfg (d.collect body) t = .ok (.nothing, d2))
    (hc32 : c < 2 ^ 32) (ht : t ≠ IEND) (hc : d2.opts.ignoreCrc = false → cfg.crc d2.crcAcc = c) :
    update cfg d (body ++ (be32Bytes c ++ rest)) =
      (d2.withState (some (.u32 .length [])), .ok (body.length + 4, .chunkComplete c t)) := by
  have h1 : nextState cfg d (.readChunkData t) (body ++ (be32Bytes c ++ rest)) =
      .ok (body.length, .nothing, (d.collect body).withState (some (.parseChunkData t))) :=
    stepRead_whole (d.withState none) t body _ hrem hb hcap
  refine update_of_nothing hs (by simp [hb]) h1 ?_
  rw [List.drop_left']
  · have hne : be32Bytes c ++ rest ≠ [] := by simp [be32Bytes]
    have h2 : nextState cfg ((d.collect body).withState (some (.parseChunkData t))) (.parseChunkData t) (be32Bytes c ++ rest) =
        .ok (0, .nothing, d2) := by
      show stepParse cfg (((d.collect body).withState (some (.parseChunkData t))).withState none) t = _
      have hr : (((d.collect body).withState (some (.parseChunkData t))).withState none).remaining = 0 :=
        collect_remaining d body hrem
      rw [stepParse_done _ _ _ hr, parseChunk_withState, parseChunk_withState, hp]; rfl
    have := update_of_nothing (m := 4) rfl hne h2 (by
      rw [List.drop_zero]; exact update_crc (parseChunk_ok hp).1 hc32 ht hc)
    simpa using this
  · rfl

/-- an empty body: `ParseChunkData` right after the type -/
theorem update_parse_event' {cfg : Cfg} {d d2 : Dec} {t : ChunkType} {rest : Bytes} {ev : Ev}
    (hs : d.state = some (.parseChunkData t)) (hrem : d.remaining = 0) (hrest : rest ≠ [])
    (hp : parseChunk cfg d t = .ok (ev, d2)) (hev : ev ≠ .nothing) :
    update cfg d rest = (d2, .ok (0, ev)) := by
  refine update_ok_of_step hs hrest ?_ hev
  show stepParse cfg (d.withState none) t = _
  rw [stepParse_done _ _ _ (by exact hrem), parseChunk_withState, hp]; rfl

/-! ## image data -/

theorem stepImage_whole (cfg : Cfg) (D : Dec) (t : ChunkType) (z rest o : Bytes) (b : Bool)
    (hrem : D.remaining = z.length) (hi : cfg.inflate (D.zin ++ z) = some (o, b)) :
    stepImage cfg D t (z ++ rest) =
      .ok (z.length, .imageData, (D.imagePiece z.length z o).withState (some (.u32 (.crc t) []))) := by
  unfold stepImage
  have hn : min (z ++ rest).length D.remaining = z.length := by simp only [List.length_append]; omega
  simp only [hn]
  rw [List.take_left' rfl, hi]
  simp only
  have : (D.imagePiece z.length z o).remaining = 0 := by simp only [Dec.imagePiece]; omega
  rw [if_pos this]; rfl

/-- the whole body `z` of a data chunk in one call -/
theorem update_imageData {cfg : Cfg} {d : Dec} {t : ChunkType} {z rest o : Bytes} {b : Bool}
    (hs : d.state = some (.imageData t)) (hrem : d.remaining = z.length) (hne : z ++ rest ≠ [])
    (hi : cfg.inflate (d.zin ++ z) = some (o, b)) :
    update cfg d (z ++ rest) =
      (((d.withState none).imagePiece z.length z o).withState (some (.u32 (.crc t) [])), .ok (z.length, .imageData)) := by
  refine update_ok_of_step hs hne ?_ (by simp)
  exact stepImage_whole cfg (d.withState none) t z rest o b hrem hi

/-! ## the end of a data-chunk sequence -/

theorem parseU32_type_flush (cfg : Cfg) (D : Dec) (len : Nat) (b0 b1 b2 b3 : UInt8) (o : Bytes)
    (hi : D.info.isSome = true) (hf : IsFlush D (be32 b0 b1 b2 b3)) (hz : D.zstarted = true)
    (hinf : cfg.inflate D.zin = some (o, true)) :
    parseU32 cfg D (.type len) b0 b1 b2 b3 =
      .ok (.imageDataFlushed,
        { D with curType := be32 b0 b1 b2 b3, out := D.out ++ o.drop D.zemitted, zin := [], zstarted := false,
                 zemitted := 0, readyIdat := false, readyFdat := false,
                 state := some (.u32 (.type len) [b0, b1, b2, b3]) }) := by
  rw [parseU32_type]
  have c0 : ¬ (D.info.isNone = true ∧ be32 b0 b1 b2 b3 ≠ IHDR) := by
    rintro ⟨x, _⟩
    cases h : D.info <;> simp [h] at hi x
  have hf' : be32 b0 b1 b2 b3 ≠ D.curType ∧ (D.curType = IDAT ∨ D.curType = fdAT) := hf
  rw [if_neg c0, if_pos hf', flushData_eq]
  simp only [hz, Bool.true_eq_false, if_false, hinf]

/-- length and type of the chunk that follows a data-chunk sequence: the inflater is flushed; the type is
    kept for the next call -/
theorem update_flush {cfg : Cfg} {d : Dec} {len t : Nat} {rest o : Bytes}
    (hs : d.state = some (.u32 .length [])) (hlen : len < 2 ^ 32) (ht : t < 2 ^ 32)
    (hi : d.info.isSome = true) (hf : IsFlush d t) (hz : d.zstarted = true)
    (hinf : cfg.inflate d.zin = some (o, true)) :
    ∃ t0 t1 t2 t3, typeBytes t = [t0, t1, t2, t3] ∧ be32 t0 t1 t2 t3 = t ∧
    update cfg d (be32Bytes len ++ typeBytes t ++ rest) =
      ({ d with curType := t, out := d.out ++ o.drop d.zemitted, zin := [], zstarted := false,
                zemitted := 0, readyIdat := false, readyFdat := false,
                state := some (.u32 (.type len) [t0, t1, t2, t3]) },
       .ok (8, .imageDataFlushed)) := by
  obtain ⟨a0, a1, a2, a3, ha, rfl⟩ := be32Bytes_eq hlen
  obtain ⟨t0, t1, t2, t3, htb, rfl⟩ := typeBytes_eq ht
  refine ⟨t0, t1, t2, t3, htb, rfl, ?_⟩
  have hb : be32Bytes (be32 a0 a1 a2 a3) ++ typeBytes (be32 t0 t1 t2 t3) ++ rest =
      a0 :: a1 :: a2 :: a3 :: t0 :: t1 :: t2 :: t3 :: rest := by rw [ha, htb]; rfl
  rw [hb]
  refine update_u32_nothing (m := 4) hs (parseU32_length' cfg _ a0 a1 a2 a3) ?_
  refine update_u32_event rfl ?_ (by simp)
  exact parseU32_type_flush cfg (d.withState none) _ t0 t1 t2 t3 o hi hf hz hinf

end Png.Framing
