import PngVerif.Model.LazyReaderEof
import PngVerif.Proofs.LazyCore
/-!
# Lazy reader with input that temporarily ends: every attempt of a call either is the call of `Png.Lazy` on the
state without markers, or consumes one `Eof` marker and leaves a state from which the same call answers the same
-/
namespace Png.LazyEof
open Png.Lazy (Frame Arrival ErrC Site Res Op)

/-! ## `Png.Lazy`: enough fuel is enough -/

theorem L_nextRaw_fuel (rl : Nat) : ∀ (f1 f2 : Nat) (c : Png.Lazy.St),
    Png.Lazy.srcLen c.src + 1 ≤ f1 → Png.Lazy.srcLen c.src + 1 ≤ f2 →
    Png.Lazy.nextRaw rl f1 c = Png.Lazy.nextRaw rl f2 c := by
  intro f1
  induction f1 with
  | zero => intro f2 c h; omega
  | succ f1 ih =>
    intro f2 c h1 h2
    cases f2 with
    | zero => omega
    | succ f2 =>
      simp only [Png.Lazy.nextRaw]
      by_cases hb : c.buf < rl
      · simp only [hb, if_true]
        by_cases hc : c.caf = true
        · simp only [hc, if_true]
        · simp only [hc, Bool.false_eq_true, if_false]
          match hsrc : c.src with
          | none => simp [Png.Lazy.pull, hsrc]
          | some ⟨[], m⟩ =>
            simp only [Png.Lazy.pull, hsrc, Png.Lazy.mark]
            by_cases hr : c.rem = 0
            · simp [hr]
            · simp only [hr, if_false]
              exact ih _ _ (by simp [Png.Lazy.srcLen]; simp [hsrc, Png.Lazy.srcLen] at h1; omega)
                (by simp [Png.Lazy.srcLen]; simp [hsrc, Png.Lazy.srcLen] at h2; omega)
          | some ⟨n :: ns, m⟩ =>
            simp only [Png.Lazy.pull, hsrc]
            exact ih _ _ (by simp [hsrc, Png.Lazy.srcLen] at h1 ⊢; omega)
                (by simp [hsrc, Png.Lazy.srcLen] at h2 ⊢; omega)
      · simp only [hb, if_false]

/-! ## what an interrupted attempt leaves behind -/

/-- `s'` is what an attempt that met an `Eof` marker inside the image data leaves of `s`: only the buffer, the
    position in the data sequence and the marker count have moved -/
structure Mid (s s' : St) : Prop where
  rem : s'.core.rem = s.core.rem
  fi : s'.core.fi = s.core.fi
  sub : s'.core.sub = s.core.sub
  cur : s'.core.cur = s.core.cur
  caf : s'.core.caf = false
  caf0 : s.core.caf = false
  finished : s'.core.finished = s.core.finished
  atEnd : s'.core.atEnd = s.core.atEnd
  src : s'.core.src.isSome = true
  gap : s'.gap = s.gap
  tail : s'.tail = s.tail
  eofs : s'.eofs.sum + 1 ≤ s.eofs.sum

/-- an attempt that was not interrupted touches neither the stretch markers nor `tail` -/
def Keep (s s' : St) : Prop := s'.core.fi = s.core.fi ∧ s'.gap = s.gap ∧ s'.tail = s.tail ∧ s'.eofs.sum ≤ s.eofs.sum

theorem headD_tail_sum (l : List Nat) : l.headD 0 + l.tail.sum = l.sum := by cases l <;> simp

theorem L_nextRaw_caf {rl f : Nat} {c : Png.Lazy.St} (hb : c.buf < rl) (hc : c.caf = true) :
    Png.Lazy.nextRaw rl (f + 1) c = (c, some (.err .noMoreImageData)) := by
  simp [Png.Lazy.nextRaw, hb, hc]

theorem L_nextRaw_enough {rl f : Nat} {c : Png.Lazy.St} (hb : ¬ c.buf < rl) :
    Png.Lazy.nextRaw rl (f + 1) c = ({ c with buf := c.buf - rl }, none) := by
  simp [Png.Lazy.nextRaw, hb]

theorem L_nextRaw_outside {rl f : Nat} {c : Png.Lazy.St} (hb : c.buf < rl) (hc : c.caf = false) (hs : c.src = none) :
    Png.Lazy.nextRaw rl (f + 1) c = (c, some (.panic .pullOutside)) := by
  simp [Png.Lazy.nextRaw, hb, hc, Png.Lazy.pull, hs]

theorem L_nextRaw_more {rl f n m : Nat} {ns : List Nat} {c : Png.Lazy.St} (hb : c.buf < rl) (hc : c.caf = false)
    (hs : c.src = some ⟨n :: ns, m⟩) :
    Png.Lazy.nextRaw rl (f + 1) c = Png.Lazy.nextRaw rl f { c with src := some ⟨ns, m⟩, buf := c.buf + n } := by
  simp [Png.Lazy.nextRaw, hb, hc, Png.Lazy.pull, hs]

theorem L_nextRaw_done_err {rl f m : Nat} {c : Png.Lazy.St} (hb : c.buf < rl) (hc : c.caf = false)
    (hs : c.src = some ⟨[], m⟩) (hr : c.rem = 0) :
    Png.Lazy.nextRaw rl (f + 1) c = ({ c with src := none, buf := c.buf + m }, some (.panic .markAssert)) := by
  simp [Png.Lazy.nextRaw, hb, hc, Png.Lazy.pull, hs, Png.Lazy.mark, hr]

theorem L_nextRaw_done_ok {rl f m : Nat} {c : Png.Lazy.St} (hb : c.buf < rl) (hc : c.caf = false)
    (hs : c.src = some ⟨[], m⟩) (hr : ¬ c.rem = 0) :
    Png.Lazy.nextRaw rl (f + 1) c =
      Png.Lazy.nextRaw rl f { c with src := none, buf := c.buf + m, rem := c.rem - 1, caf := true } := by
  simp [Png.Lazy.nextRaw, hb, hc, Png.Lazy.pull, hs, Png.Lazy.mark, hr]

theorem nextRaw_sim (rl : Nat) : ∀ (fuel : Nat) (s s' : St) (o : Option Res),
    Png.Lazy.srcLen s.core.src + 1 ≤ fuel → nextRaw rl fuel s = (s', o) →
    (o = some (.err .eof) ∧ Mid s s' ∧
      s'.core.buf + Png.Lazy.srcTotal s'.core.src = s.core.buf + Png.Lazy.srcTotal s.core.src ∧
      Png.Lazy.nextRaw rl (Png.Lazy.srcLen s'.core.src + 1) s'.core = Png.Lazy.nextRaw rl fuel s.core) ∨
    (Png.Lazy.nextRaw rl fuel s.core = (s'.core, o) ∧ Keep s s') := by
  intro fuel
  induction fuel with
  | zero => intro s s' o h; omega
  | succ fuel ih =>
    intro s s' o hf h
    have hsum := headD_tail_sum s.eofs
    simp only [nextRaw] at h
    by_cases hb : s.core.buf < rl
    · simp only [hb, if_true] at h
      by_cases hc : s.core.caf = true
      · simp only [hc, if_true, Prod.mk.injEq] at h
        obtain ⟨rfl, rfl⟩ := h
        right; exact ⟨L_nextRaw_caf hb hc, rfl, rfl, rfl, Nat.le_refl _⟩
      · have hc' : s.core.caf = false := by simpa using hc
        simp only [hc', Bool.false_eq_true, if_false] at h
        cases hsrc : s.core.src with
        | none =>
          simp only [pull, hsrc, Option.isNone_none, if_true, Prod.mk.injEq] at h
          obtain ⟨rfl, rfl⟩ := h
          right; exact ⟨L_nextRaw_outside hb hc' hsrc, rfl, rfl, rfl, Nat.le_refl _⟩
        | some a =>
          by_cases he : 0 < s.eofs.headD 0
          · simp only [pull, hsrc, Option.isNone_some, Bool.false_eq_true, if_false, he, if_true, Prod.mk.injEq] at h
            obtain ⟨rfl, rfl⟩ := h
            left
            refine ⟨rfl, ⟨rfl, rfl, rfl, rfl, hc', hc', rfl, rfl, by simp [hsrc], rfl, rfl, ?_⟩, by simp [hsrc], ?_⟩
            · simp only [List.sum_cons]; omega
            · exact L_nextRaw_fuel rl (Png.Lazy.srcLen s.core.src + 1) (fuel + 1) s.core (Nat.le_refl _) hf
          · have he0 : s.eofs.headD 0 = 0 := by omega
            simp only [pull, hsrc, Option.isNone_some, Bool.false_eq_true, if_false, he] at h
            obtain ⟨pl, m⟩ := a
            cases pl with
            | nil =>
              simp only [Png.Lazy.pull, hsrc, Png.Lazy.mark] at h
              by_cases hr : s.core.rem = 0
              · simp only [hr, if_true, Prod.mk.injEq] at h
                obtain ⟨rfl, rfl⟩ := h
                right; exact ⟨by rw [L_nextRaw_done_err hb hc' hsrc hr]; simp [hr], rfl, rfl, rfl, by simp only []; omega⟩
              · simp only [hr, if_false] at h
                rcases ih _ s' o (by simp [Png.Lazy.srcLen]; simp [hsrc, Png.Lazy.srcLen] at hf; omega) h with h1 | h1
                · have := h1.2.1.caf0; simp at this
                · right; refine ⟨(L_nextRaw_done_ok hb hc' hsrc hr).trans h1.1, ?_⟩
                  obtain ⟨_, g0, g1, g2, g3⟩ := h1
                  exact ⟨g0, g1, g2, by simp only [] at g3; omega⟩
            | cons n ns =>
              simp only [Png.Lazy.pull, hsrc] at h
              rcases ih _ s' o (by simp [hsrc, Png.Lazy.srcLen] at hf ⊢; omega) h with h1 | h1
              · left
                obtain ⟨g0, g1, g2, g3⟩ := h1
                refine ⟨g0, ⟨g1.rem, g1.fi, g1.sub, g1.cur, g1.caf, hc', g1.finished, g1.atEnd, g1.src, g1.gap, g1.tail, ?_⟩,
                  ?_, g3.trans (L_nextRaw_more hb hc' hsrc).symm⟩
                · have := g1.eofs; simp only [] at this; omega
                · simp only [Png.Lazy.srcTotal, Png.Lazy.Arrival.total, List.sum_cons] at g2 ⊢; omega
              · right; refine ⟨(L_nextRaw_more hb hc' hsrc).trans h1.1, ?_⟩
                obtain ⟨_, g0, g1, g2, g3⟩ := h1
                exact ⟨g0, g1, g2, by simp only [] at g3; omega⟩
    · simp only [hb, if_false, Prod.mk.injEq] at h
      obtain ⟨rfl, rfl⟩ := h
      right; exact ⟨L_nextRaw_enough hb, rfl, rfl, rfl, Nat.le_refl _⟩

theorem discard_sim : ∀ (fuel : Nat) (s s' : St) (o : Option Res),
    Png.Lazy.srcLen s.core.src ≤ fuel → s.core.src.isSome = true → s.core.caf = false → discard fuel s = (s', o) →
    (o = some (.err .eof) ∧ Mid s s' ∧ s'.core.buf = s.core.buf) ∨
    (Png.Lazy.discard fuel s.core = (s'.core, o) ∧ Keep s s') := by
  intro fuel
  induction fuel with
  | zero => intro s s' o hf hs; cases h : s.core.src <;> simp_all [Png.Lazy.srcLen]
  | succ fuel ih =>
    intro s s' o hf hs hc h
    have hsum := headD_tail_sum s.eofs
    simp only [discard] at h
    cases hsrc : s.core.src with
    | none => simp [hsrc] at hs
    | some a =>
      by_cases he : 0 < s.eofs.headD 0
      · simp only [pull, hsrc, Option.isNone_some, Bool.false_eq_true, if_false, he, if_true, Prod.mk.injEq] at h
        obtain ⟨rfl, rfl⟩ := h
        left
        refine ⟨rfl, ⟨rfl, rfl, rfl, rfl, hc, hc, rfl, rfl, by simp [hsrc], rfl, rfl, ?_⟩, rfl⟩
        simp only [List.sum_cons]; omega
      · have he0 : s.eofs.headD 0 = 0 := by omega
        simp only [pull, hsrc, Option.isNone_some, Bool.false_eq_true, if_false, he] at h
        obtain ⟨pl, m⟩ := a
        cases pl with
        | nil =>
          simp only [Png.Lazy.pull, hsrc, Prod.mk.injEq] at h
          obtain ⟨rfl, rfl⟩ := h
          right
          exact ⟨by simp [Png.Lazy.discard, Png.Lazy.pull, hsrc], rfl, rfl, rfl, by simp only []; omega⟩
        | cons n ns =>
          simp only [Png.Lazy.pull, hsrc] at h
          have hL : Png.Lazy.discard (fuel + 1) s.core = Png.Lazy.discard fuel { s.core with src := some ⟨ns, m⟩ } := by
            simp [Png.Lazy.discard, Png.Lazy.pull, hsrc]
          rcases ih _ s' o (by simp [hsrc, Png.Lazy.srcLen] at hf ⊢; omega) (by simp) (by exact hc) h with h1 | h1
          · left
            obtain ⟨g0, g1, g2⟩ := h1
            refine ⟨g0, ⟨g1.rem, g1.fi, g1.sub, g1.cur, g1.caf, hc, g1.finished, g1.atEnd, g1.src, g1.gap, g1.tail, ?_⟩, g2⟩
            have := g1.eofs; simp only [] at this; omega
          · right; refine ⟨hL.trans h1.1, ?_⟩
            obtain ⟨_, g0, g1, g2, g3⟩ := h1
            exact ⟨g0, g1, g2, by simp only [] at g3; omega⟩

theorem Keep.refl (s : St) : Keep s s := ⟨rfl, rfl, rfl, Nat.le_refl _⟩

theorem Keep.trans {a b c : St} (h1 : Keep a b) (h2 : Keep b c) : Keep a c :=
  ⟨h2.1.trans h1.1, h2.2.1.trans h1.2.1, h2.2.2.1.trans h1.2.2.1, Nat.le_trans h2.2.2.2 h1.2.2.2⟩

/-- the invariant of `Png.Lazy` holds in the state an interrupted attempt leaves behind -/
theorem Mid.good {e : Png.Lazy.Env} {s s' : St} (hm : Mid s s') (hg : Png.Lazy.Good e s.core)
    (hb : ∀ i, s.core.cur = some i →
      s'.core.buf + Png.Lazy.srcTotal s'.core.src = s.core.buf + Png.Lazy.srcTotal s.core.src) :
    Png.Lazy.Good e s'.core := by
  refine ⟨⟨?_, fun _ => hm.src, ?_, ?_, ?_⟩, ?_⟩
  · intro _; rw [hm.rem]; exact hg.inv.rem_pos hm.caf0
  · intro h; rw [hm.caf] at h; simp at h
  · intro i hi; rw [hm.sub]; exact hg.inv.cur_lt i (hm.cur ▸ hi)
  · intro h; rw [hm.atEnd] at h; have := hg.inv.end_caf h; rw [hm.caf0] at this; simp at this
  · intro i hi
    have hi' : s.core.cur = some i := hm.cur ▸ hi
    have := hg.acc i hi'
    have := hb i hi'
    rw [hm.sub, hm.fi]; omega

theorem Mid.trans_keep {a b c : St} (h1 : Keep a b) (hc : a.core.caf = false)
    (h : b.core.rem = a.core.rem ∧ b.core.sub = a.core.sub ∧ b.core.cur = a.core.cur ∧
      b.core.finished = a.core.finished ∧ b.core.atEnd = a.core.atEnd) (h2 : Mid b c) : Mid a c :=
  ⟨h2.rem.trans h.1, h2.fi.trans h1.1, h2.sub.trans h.2.1, h2.cur.trans h.2.2.1, h2.caf, hc,
    h2.finished.trans h.2.2.2.1, h2.atEnd.trans h.2.2.2.2, h2.src, h2.gap.trans h1.2.1, h2.tail.trans h1.2.2.1,
    by have := h2.eofs; have := h1.2.2.2; omega⟩

/-- `next_interlaced_row_impl` -/
theorem rowImpl_sim (e : Png.Lazy.Env) (s s' : St) (i : Nat) (o : Option Res) (hg : Png.Lazy.Good e s.core)
    (h : rowImpl s i = (s', o)) :
    (o = some (.err .eof) ∧ Mid s s' ∧ Png.Lazy.Good e s'.core ∧
      Png.Lazy.rowImpl s'.core i = Png.Lazy.rowImpl s.core i) ∨
    (Png.Lazy.rowImpl s.core i = (s'.core, o) ∧ Keep s s') := by
  unfold rowImpl at h
  rcases hres : nextRaw (s.core.sub.getD i 0) (Png.Lazy.fuelOf s.core) s with ⟨s1, o1⟩
  rw [hres] at h
  rcases nextRaw_sim _ _ s s1 o1 (by simp [Png.Lazy.fuelOf]) hres with h1 | h1
  · obtain ⟨rfl, hm, hb, heq⟩ := h1
    simp only [Prod.mk.injEq] at h
    obtain ⟨rfl, rfl⟩ := h
    left
    refine ⟨rfl, hm, hm.good hg (fun _ _ => hb), ?_⟩
    unfold Png.Lazy.rowImpl
    rw [hm.sub]
    simp only [Png.Lazy.fuelOf] at heq ⊢
    rw [heq]
  · obtain ⟨hL, hk⟩ := h1
    right
    unfold Png.Lazy.rowImpl
    rw [hL]
    cases o1 with
    | some r =>
      simp only [Prod.mk.injEq] at h
      obtain ⟨rfl, rfl⟩ := h
      exact ⟨rfl, hk⟩
    | none =>
      simp only [Prod.mk.injEq] at h
      obtain ⟨rfl, rfl⟩ := h
      exact ⟨rfl, hk⟩

theorem L_finishDecoding_open {c : Png.Lazy.St} (hcur : c.cur = none) (hcaf : c.caf = false)
    (hs : c.src.isSome = true) :
    Png.Lazy.finishDecoding c =
      (if c.rem = 0 then ({ c with src := none }, some (.panic .markAssert))
       else ({ c with src := none, rem := c.rem - 1, caf := true }, none)) := by
  unfold Png.Lazy.finishDecoding
  simp only [hcur, Option.isSome_none, Bool.false_eq_true, if_false, hcaf]
  rw [Png.Lazy.discard_spec _ c (by simp [Png.Lazy.fuelOf]) hs]
  simp only [Png.Lazy.mark]
  by_cases hr : c.rem = 0 <;> simp [hr, hcur, hcaf]

/-- `finish_decoding` -/
theorem finishDecoding_sim (e : Png.Lazy.Env) (s s' : St) (o : Option Res) (hg : Png.Lazy.Good e s.core)
    (h : finishDecoding s = (s', o)) :
    (o = some (.err .eof) ∧ Mid s s' ∧ Png.Lazy.Good e s'.core ∧ s.core.cur = none ∧
      Png.Lazy.finishDecoding s'.core = Png.Lazy.finishDecoding s.core) ∨
    (Png.Lazy.finishDecoding s.core = (s'.core, o) ∧ Keep s s') := by
  unfold finishDecoding at h
  by_cases hc : s.core.cur.isSome = true
  · simp only [hc, if_true, Prod.mk.injEq] at h
    obtain ⟨rfl, rfl⟩ := h
    right; exact ⟨by simp [Png.Lazy.finishDecoding, hc], Keep.refl _⟩
  · simp only [hc, Bool.false_eq_true, if_false] at h
    have hcur : s.core.cur = none := by simpa using hc
    by_cases hcaf : s.core.caf = true
    · simp only [hcaf, if_true, Prod.mk.injEq] at h
      obtain ⟨rfl, rfl⟩ := h
      right; exact ⟨by simp [Png.Lazy.finishDecoding, hc, hcaf], Keep.refl _⟩
    · have hcaf' : s.core.caf = false := by simpa using hcaf
      simp only [hcaf', Bool.false_eq_true, if_false] at h
      have hsrc := hg.inv.src_some hcaf'
      rcases hres : discard (Png.Lazy.fuelOf s.core) s with ⟨s1, o1⟩
      rw [hres] at h
      rcases discard_sim _ s s1 o1 (by simp [Png.Lazy.fuelOf]) hsrc hcaf' hres with h1 | h1
      · obtain ⟨rfl, hm, hb⟩ := h1
        simp only [Prod.mk.injEq] at h
        obtain ⟨rfl, rfl⟩ := h
        left
        refine ⟨rfl, hm, hm.good hg (fun i hi => by rw [hcur] at hi; simp at hi), hcur, ?_⟩
        rw [L_finishDecoding_open (hm.cur.trans hcur) hm.caf hm.src, L_finishDecoding_open hcur hcaf' hsrc]
        have e1 := hm.rem; have e2 := hm.fi; have e3 := hm.sub; have e4 := hm.cur; have e5 := hm.caf
        have e6 := hm.finished; have e7 := hm.atEnd
        rcases hs1 : s1.core with ⟨a1, a2, a3, a4, a5, a6, a7, a8, a9⟩
        rcases hs0 : s.core with ⟨b1, b2, b3, b4, b5, b6, b7, b8, b9⟩
        simp only [hs1, hs0] at e1 e2 e3 e4 e5 e6 e7 hb hcaf'
        subst e1 e2 e3 e4 e6 e7 hb
        simp [e5, hcaf']
      · obtain ⟨hL, hk⟩ := h1
        have hL' : Png.Lazy.discard (Png.Lazy.fuelOf s.core) s.core = ({ s.core with src := none }, none) :=
          Png.Lazy.discard_spec _ _ (by simp [Png.Lazy.fuelOf]) hsrc
        rw [hL'] at hL
        simp only [Prod.mk.injEq] at hL
        obtain ⟨hL1, rfl⟩ := hL
        simp only [] at h
        right
        rw [L_finishDecoding_open hcur hcaf' hsrc]
        simp only [Png.Lazy.mark, ← hL1] at h
        by_cases hr : s.core.rem = 0
        · simp only [hr, if_true, Prod.mk.injEq] at h ⊢
          obtain ⟨rfl, rfl⟩ := h
          exact ⟨⟨by rw [← hL1, hr], rfl⟩, hk⟩
        · simp only [hr, if_false, Prod.mk.injEq] at h ⊢
          obtain ⟨rfl, rfl⟩ := h
          exact ⟨⟨rfl, rfl⟩, rfl, hk.2.1, hk.2.2.1, hk.2.2.2⟩

/-- `next_row` / `read_row` -/
theorem nextRow_sim (e : Png.Lazy.Env) (s s' : St) (r : Res) (hg : Png.Lazy.Good e s.core)
    (h : nextRow s = (s', r)) :
    (r = .err .eof ∧ Mid s s' ∧ Png.Lazy.Good e s'.core ∧ Png.Lazy.nextRow s'.core = Png.Lazy.nextRow s.core) ∨
    (Png.Lazy.nextRow s.core = (s'.core, r) ∧ Keep s s') := by
  unfold nextRow at h
  cases hcur : s.core.cur with
  | none =>
    simp only [hcur] at h
    rcases hres : finishDecoding s with ⟨s1, o1⟩
    rw [hres] at h
    rcases finishDecoding_sim e s s1 o1 hg hres with h1 | h1
    · obtain ⟨rfl, hm, hg1, _, heq⟩ := h1
      simp only [Prod.mk.injEq] at h
      obtain ⟨rfl, rfl⟩ := h
      left
      refine ⟨rfl, hm, hg1, ?_⟩
      rw [Png.Lazy.nextRow_none (hm.cur.trans hcur), Png.Lazy.nextRow_none hcur, heq]
    · obtain ⟨hL, hk⟩ := h1
      right
      rw [Png.Lazy.nextRow_none hcur, hL]
      cases o1 <;> (simp only [Prod.mk.injEq] at h; obtain ⟨rfl, rfl⟩ := h; exact ⟨rfl, hk⟩)
  | some i =>
    simp only [hcur] at h
    rcases hres : rowImpl s i with ⟨s1, o1⟩
    rw [hres] at h
    rcases rowImpl_sim e s s1 i o1 hg hres with h1 | h1
    · obtain ⟨rfl, hm, hg1, heq⟩ := h1
      simp only [Prod.mk.injEq] at h
      obtain ⟨rfl, rfl⟩ := h
      left
      refine ⟨rfl, hm, hg1, ?_⟩
      rw [Png.Lazy.nextRow_some (hm.cur.trans hcur), Png.Lazy.nextRow_some hcur, heq, hm.fi]
    · obtain ⟨hL, hk⟩ := h1
      right
      rw [Png.Lazy.nextRow_some hcur, hL]
      cases o1 <;> (simp only [Prod.mk.injEq] at h; obtain ⟨rfl, rfl⟩ := h; exact ⟨rfl, hk⟩)

/-! ## the `Eof` markers ahead -/

theorem sum_drop : ∀ (l : List Nat) (k : Nat), (l.drop k).sum = l.getD k 0 + (l.drop (k + 1)).sum
  | [], k => by simp
  | a :: l, 0 => by simp
  | a :: l, k + 1 => by simpa using sum_drop l k

theorem sums_drop : ∀ (l : List (List Nat)) (k : Nat),
    ((l.drop k).map List.sum).sum = (l.getD k []).sum + ((l.drop (k + 1)).map List.sum).sum
  | [], k => by simp
  | a :: l, 0 => by simp
  | a :: l, k + 1 => by simpa using sums_drop l k

theorem later_succ (e : Env) (k : Nat) : later e k = (e.eofs.getD k []).sum + e.gaps.getD k 0 + later e (k + 1) := by
  unfold later
  rw [sum_drop e.gaps k, sums_drop e.eofs k]
  omega

theorem Keep.ahead {e : Env} {s s' : St} (h : Keep s s') : ahead e s' ≤ ahead e s := by
  unfold LazyEof.ahead
  rw [h.1, h.2.1]
  have := h.2.2.2
  omega

theorem Mid.ahead {e : Env} {s s' : St} (h : Mid s s') : ahead e s' < ahead e s := by
  unfold LazyEof.ahead
  rw [h.fi, h.gap]
  have := h.eofs
  omega

/-- `read_until_image_data` -/
theorem readUntil_sim (e : Env) (s s' : St) (o : Option Res) (h : readUntilImageData e s = (s', o)) :
    (o = some (.err .eof) ∧ s'.core = s.core ∧ s'.tail = s.tail ∧ ahead e s' < ahead e s) ∨
    (Png.Lazy.readUntilImageData e.base s.core = (s'.core, o) ∧ s'.tail = s.tail ∧ ahead e s' ≤ ahead e s) := by
  unfold readUntilImageData at h
  by_cases hend : s.core.atEnd = true
  · simp only [hend, if_true, Prod.mk.injEq] at h
    obtain ⟨rfl, rfl⟩ := h
    right; exact ⟨by simp [Png.Lazy.readUntilImageData, hend], rfl, Nat.le_refl _⟩
  · simp only [hend, Bool.false_eq_true, if_false] at h
    by_cases hsrc : s.core.src.isSome = true
    · simp only [hsrc, if_true, Prod.mk.injEq] at h
      obtain ⟨rfl, rfl⟩ := h
      right; exact ⟨by simp [Png.Lazy.readUntilImageData, hend, hsrc], rfl, Nat.le_refl _⟩
    · simp only [hsrc, Bool.false_eq_true, if_false] at h
      by_cases hgap : 0 < s.gap
      · simp only [hgap, if_true, Prod.mk.injEq] at h
        obtain ⟨rfl, rfl⟩ := h
        left; refine ⟨rfl, rfl, rfl, ?_⟩
        simp only [ahead]; omega
      · simp only [hgap, if_false] at h
        right
        rcases hres : Png.Lazy.readUntilImageData e.base s.core with ⟨c, oc⟩
        rw [hres] at h
        have hfi : oc = none → c.fi = s.core.fi + 1 := by
          intro ho
          subst ho
          unfold Png.Lazy.readUntilImageData at hres
          simp only [hend, Bool.false_eq_true, if_false, hsrc] at hres
          split at hres
          · simp only [Prod.mk.injEq] at hres; rw [← hres.1]
          · simp at hres
        have hfi2 : oc ≠ none → c.fi = s.core.fi := by
          intro ho
          unfold Png.Lazy.readUntilImageData at hres
          simp only [hend, Bool.false_eq_true, if_false, hsrc] at hres
          split at hres
          · simp only [Prod.mk.injEq] at hres; exact absurd hres.2.symm ho
          · simp only [Prod.mk.injEq] at hres; rw [← hres.1]
        cases oc with
        | none =>
          simp only [Prod.mk.injEq] at h
          obtain ⟨rfl, rfl⟩ := h
          refine ⟨rfl, rfl, ?_⟩
          have := later_succ e (s.core.fi + 1)
          simp only [ahead, hfi rfl]
          omega
        | some r =>
          simp only [Prod.mk.injEq] at h
          obtain ⟨rfl, rfl⟩ := h
          refine ⟨rfl, rfl, ?_⟩
          simp only [ahead, hfi2 (by simp)]
          omega

end Png.LazyEof
