import PngVerif.Proofs.LazyRefineTop
/-!
# `Reader` refines `Lazy`, part 14: animations whose `IDAT` image is not part of the animation

`wellFormedApngDefault`: `acTL`, the chunks `anc`, the `IDAT` chunks of the default image (no `fcTL` before them), then
every frame of the animation as `fcTL` + `fdAT` chunks (sequence numbers from 0).  `read_info` reports
`acTL.num_frames + 1` remaining frames: the first `next_frame` returns the default image (the whole image, header `h`),
the following ones the frames of the animation.  `apng_default_ready` is `apng_ready` for this layout (copied from
`Reader.apng_default_wf`); everything behind it (`sim_of_ready`, `open_of_ready`, `run_sim`, `exact_run`) is generic.
-/
namespace Png.LazyRefine
open Png Png.Framing Png.WellFormed Png.Reader

/-- `read_info` on a well-formed animation whose `IDAT` image is not part of the animation: the reader stands at the begin
    of the default image's data, all frames of the animation follow (sequence numbers from 0) -/
theorem apng_default_ready (cfg : Cfg) (hI : cfg.InflateOk) (hC : cfg.CrcOk) {t : TCfg} {f : Flags} (ht : t.IsIdentity f)
    (opts : Options) (limit : Nat) (h : Header) (hv : h.Valid) (plays : Nat) (hplays : plays < 2 ^ 32)
    (anc : List (ChunkType × Bytes)) (dAnc : Dec)
    (frames : List (FrameControl × List Bytes × Bytes)) (hnf : frames.length < 2 ^ 32)
    (hanc : AncChunksG cfg (actlAfter (afterIhdr cfg opts limit h) frames.length plays) anc dAnc) (hna : NoActl anc)
    (zs0 : List Bytes) (raw0 : Bytes)
    (hzs0 : zs0 ≠ []) (hlen0 : ∀ z ∈ zs0, z.length < 2 ^ 32) (hinf0 : cfg.inflate zs0.flatten = some (raw0, true))
    (hsize : h.lineSize * h.height < 2 ^ 64)
    (hlimit : h.lineSize ≤ dAnc.limit) :
    ∃ (r0 : R) (i : Info) (N : Nat) (dEnd : Dec) (restN : Bytes),
      step cfg t (R.init opts limit f (wellFormedApngDefault cfg h plays anc zs0 (framesOf frames))
        (wellFormedApngDefault cfg h plays anc zs0 (framesOf frames)).length) .readInfo = (r0, .header) ∧
      Ready cfg f i N r0 raw0 dEnd restN ∧ i.core = h.info.core ∧ hdrOf i = h ∧ r0.isReader = true ∧
      r0.finished = false ∧ r0.remaining = N ∧ N = frames.length + 1 ∧ BetweenD cfg h dEnd restN i 0 frames ∧
      CorePred i r0.dec ∧ ZInv cfg r0.dec ∧ dEnd.limit = dAnc.limit - h.lineSize := by
  obtain ⟨hw1, hw2, hh1, hh2, hleg⟩ := hv
  have hd := (legal_pos hleg).2.2
  have hidle0 := idle_afterIhdr cfg opts limit h
  obtain ⟨hsA, hiA⟩ := ancStep_acTL cfg (afterIhdr cfg opts limit h) h.info frames.length plays hnf hplays rfl rfl
    (by show 8 ≤ Params.chunkBufferSize; decide)
  obtain ⟨TA, hidleA, _, _, _, hsqA⟩ := anc_step cfg hC hidle0 hsA
  generalize hdA : actlAfter (afterIhdr cfg opts limit h) frames.length plays = dA1 at *
  have hcapA : dA1.cap = Params.chunkBufferSize := by rw [← hdA]; rfl
  obtain ⟨TB, hidleB, _, hsqB, hcapB⟩ := anc_chunks_g cfg hC hidleA (by rw [hcapA]; decide) hanc
  have hactlB := ancChunksG_actl hanc hna
  have hsq0 : dAnc.seqNo = none := by rw [hsqB, hsqA]; rfl
  have hancAll : AncTrace cfg (afterIhdr cfg opts limit h)
      (chunk cfg acTL (actlBody frames.length plays) ++ chunks cfg anc) dAnc := TA.append TB
  cases zs0 with
  | nil => exact absurd rfl hzs0
  | cons z0 zs0 =>
    obtain ⟨hl1, hl2, hl3, hl4⟩ := nextHead_facts cfg 0 (framesOf frames)
    have htail := nextHead_eq cfg 0 (framesOf frames)
    have hB0 : ∀ (d : Dec) (i : Info), i.core = h.info.core →
        Flushed d i (nextHead cfg 0 (framesOf frames)).1 (nextHead cfg 0 (framesOf frames)).2.1 → SeqOk d.seqNo 0 →
        26 ≤ d.cap → BetweenD cfg h d (nextHead cfg 0 (framesOf frames)).2.2 i 0 frames :=
      fun d i a b c e => ⟨a, b, rfl, c, e⟩
    generalize hLn : (nextHead cfg 0 (framesOf frames)).1 = lenN at *
    generalize hTn : (nextHead cfg 0 (framesOf frames)).2.1 = tN at *
    generalize hRn : (nextHead cfg 0 (framesOf frames)).2.2 = restN at *
    have hfile : wellFormedApngDefault cfg h plays anc (z0 :: zs0) (framesOf frames) =
        signature ++ (chunk cfg IHDR h.body ++ ((chunk cfg acTL (actlBody frames.length plays) ++ chunks cfg anc) ++
          (idats cfg (z0 :: zs0) ++ (be32Bytes lenN ++ typeBytes tN ++ restN)))) := by
      unfold wellFormedApngDefault
      rw [← htail]
      have : (framesOf frames).length = frames.length := by simp [framesOf]
      rw [this]
      simp only [List.append_assoc]
    rw [hfile]
    obtain ⟨r, i, N, dEnd, hri, hR, hcore, hfctl, hflu, hrd, hpb, _, hfin, hiF, hremN, hN, hseqE, hcapE, _, hlimE⟩ :=
      readInfo_wf cfg hI hC ht opts limit h ⟨hw1, hw2, hh1, hh2, hleg⟩ _ dAnc none hancAll hidleB z0 zs0 raw0
        (hlen0 z0 (by simp)) (fun z' hz' => hlen0 z' (by simp [hz'])) hinf0 lenN tN restN hl1 hl2 hl3 hsize
        (fun j hc hf => by rw [hdrOf_eq hc hf]; exact hlimit)
    have hhdr : hdrOf i = h := hdrOf_eq hcore hfctl
    have hactl : i.actl = some (frames.length, plays) := by
      have h1 : dAnc.info.map (·.actl) = some (some (frames.length, plays)) := by rw [hactlB, hiA]; rfl
      rw [hiF] at h1
      simpa using h1
    have hNv : N = frames.length + 1 := by
      rw [hN, hactl, hfctl]; simp
    have hinfo : r.dec.info = some i := by
      obtain ⟨pend, hP, _⟩ := hR.pend; exact hP.info
    have hB : BetweenD cfg h dEnd restN i 0 frames := by
      refine hB0 dEnd i hcore hflu ?_ ?_
      · rw [hseqE, hsq0]; rfl
      · rw [hcapE]; rw [hcapA] at hcapB; have : (26 : Nat) ≤ Params.chunkBufferSize := by decide
        omega
    generalize hfl : (signature ++ (chunk cfg IHDR h.body ++ ((chunk cfg acTL (actlBody frames.length plays) ++ chunks cfg anc) ++
          (idats cfg (z0 :: zs0) ++ (be32Bytes lenN ++ typeBytes tN ++ restN))))) = file at hri ⊢
    have hcp := corePred_after_readInfo cfg t opts limit f file r i hri hinfo
    have hzr : ZInv cfg r.dec := by
      have := readInfo_decP (zinv_decPred cfg) t _ (zinv_init cfg opts limit f file file.length)
      rw [hri] at this; exact this
    refine ⟨r, i, N, dEnd, restN, ?_, hR, hcore, hhdr, hrd, hfin, hremN, hNv, hB, hcp, hzr, by rw [hlimE, hhdr]⟩
    have hdead : (R.init opts limit f file file.length).dead = false := rfl
    show (if (R.init opts limit f file file.length).dead then
        ((R.init opts limit f file file.length), Res.err .parameter "model: Decoder consumed by a failed read_info")
      else readInfo cfg t (R.init opts limit f file file.length)) = _
    rw [hdead]; exact hri

/-- **a well-formed animation whose `IDAT` image is not part of the animation**, the data of every frame of ANY length:
    the reader `read_info` returns is related to `Lazy.init` on the file's abstraction (the default image is frame 0) -/
theorem apng_default_start (cfg : Cfg) (hI : cfg.InflateOk) (hC : cfg.CrcOk) {t : TCfg} {f : Flags} (ht : t.IsIdentity f)
    (opts : Options) (limit : Nat) (h : Header) (hv : h.Valid) (plays : Nat) (hplays : plays < 2 ^ 32)
    (anc : List (ChunkType × Bytes)) (dAnc : Dec)
    (frames : List (FrameControl × List Bytes × Bytes)) (hnf : frames.length < 2 ^ 32)
    (hanc : AncChunksG cfg (actlAfter (afterIhdr cfg opts limit h) frames.length plays) anc dAnc) (hna : NoActl anc)
    (zs0 : List Bytes) (raw0 : Bytes)
    (hzs0 : zs0 ≠ []) (hlen0 : ∀ z ∈ zs0, z.length < 2 ^ 32) (hinf0 : cfg.inflate zs0.flatten = some (raw0, true))
    (hframes : ∀ fr ∈ frames, FrameD cfg h fr)
    (hseq : (frames.map fun x => 1 + x.2.1.length).sum < 2 ^ 32)
    (hsize : h.lineSize * h.height < 2 ^ 64)
    (hlimit : h.lineSize ≤ dAnc.limit) :
    ∃ (r0 : R) (i0 : Info) (arrs : List Lazy.Arrival) (s0 : Lazy.St),
      step cfg t (R.init opts limit f (wellFormedApngDefault cfg h plays anc zs0 (framesOf frames))
        (wellFormedApngDefault cfg h plays anc zs0 (framesOf frames)).length) .readInfo = (r0, .header) ∧
      r0.remaining = frames.length + 1 ∧
      (absEnv h h raw0 frames arrs).Valid ∧ (∀ a ∈ arrs, a.last = 0) ∧
      Lazy.init (absEnv h h raw0 frames arrs) r0.remaining = some s0 ∧
      Sim cfg (geomOf h h frames) (absEnv h h raw0 frames arrs)
        (fun i' => outLineSize t i' f (Sub.new i').width) f i0 r0 s0 := by
  obtain ⟨r, i, N, dEnd, restN, hri, hR, hcore, hhdr, hrd, hfin, hremN, hNv, hB, hcp, hzr, _⟩ :=
    apng_default_ready cfg hI hC ht opts limit h hv plays hplays anc dAnc frames hnf hanc hna zs0 raw0 hzs0 hlen0 hinf0
      hsize hlimit
  obtain ⟨arrs, s0, hvalid, _, hl0, hinit, hsim⟩ :=
    sim_of_ready cfg hI hC t f h hv i i N r raw0 dEnd _ hR hrd hfin hcore hcp frames 0 hB hframes (by omega) hzr
  rw [hhdr] at hvalid hinit hsim
  exact ⟨r, i, arrs, s0, hri, hremN.trans hNv, hvalid, hl0, hinit, hsim⟩

/-- `read_info` on such an animation whose default image and frames carry exactly their scanlines: the simulation relation
    and the invariant `OpenSt` hold for the reader it returns -/
theorem apng_default_exact_core (cfg : Cfg) (hI : cfg.InflateOk) (hC : cfg.CrcOk) {t : TCfg} {f : Flags}
    (ht : t.IsIdentity f)
    (opts : Options) (limit : Nat) (h : Header) (hv : h.Valid) (plays : Nat) (hplays : plays < 2 ^ 32)
    (anc : List (ChunkType × Bytes)) (dAnc : Dec)
    (frames : List (FrameControl × List Bytes × Bytes)) (hnf : frames.length < 2 ^ 32)
    (hanc : AncChunksG cfg (actlAfter (afterIhdr cfg opts limit h) frames.length plays) anc dAnc) (hna : NoActl anc)
    (zs0 : List Bytes) (raw0 : Bytes)
    (hzs0 : zs0 ≠ []) (hlen0 : ∀ z ∈ zs0, z.length < 2 ^ 32) (hinf0 : cfg.inflate zs0.flatten = some (raw0, true))
    (hraw0 : RawOk h raw0) (hframes : ∀ fr ∈ frames, FrameOk cfg h fr)
    (hseq : (frames.map fun x => 1 + x.2.1.length).sum < 2 ^ 32)
    (hsize : h.lineSize * h.height < 2 ^ 64)
    (hlimit : h.lineSize + (frames.map fun x => (h.frame x.1).lineSize).sum ≤ dAnc.limit) :
    ∃ (r0 : R) (arrs : List Lazy.Arrival) (s0 : Lazy.St),
      step cfg t (R.init opts limit f (wellFormedApngDefault cfg h plays anc zs0 (framesOf frames))
        (wellFormedApngDefault cfg h plays anc zs0 (framesOf frames)).length) .readInfo = (r0, .header) ∧
      r0.remaining = frames.length + 1 ∧
      (absEnv h h raw0 frames arrs).Valid ∧ (∀ a ∈ arrs, a.last = 0) ∧
      Lazy.init (absEnv h h raw0 frames arrs) r0.remaining = some s0 ∧
      ∃ i0, Sim cfg (geomOf h h frames) (absEnv h h raw0 frames arrs)
          (fun i' => outLineSize t i' f (Sub.new i').width) f i0 r0 s0 ∧
        OpenSt cfg t f h r0 ∧ CorePred i0 r0.dec := by
  have hfd : ∀ fr ∈ frames, FrameD cfg h fr := fun fr hfr => frameD_of_ok (hframes fr hfr)
  obtain ⟨r, i, N, dEnd, restN, hri, hR, hcore, hhdr, hrd, hfin, hremN, hNv, hB, hcp, hzr, hlimE⟩ :=
    apng_default_ready cfg hI hC ht opts limit h hv plays hplays anc dAnc frames hnf hanc hna zs0 raw0 hzs0 hlen0 hinf0
      hsize (by omega)
  obtain ⟨arrs, s0, hvalid, _, hl0, hinit, hsim⟩ :=
    sim_of_ready cfg hI hC t f h hv i i N r raw0 dEnd _ hR hrd hfin hcore hcp frames 0 hB hfd (by omega) hzr
  have hv' := hv
  obtain ⟨hw1, hw2, hh1, hh2, hleg⟩ := hv'
  have hd := (legal_pos hleg).2.2
  have hcore' := hcore
  simp only [Info.core, Header.info, Prod.mk.injEq] at hcore'
  obtain ⟨c1, c2, c3, c4, c5⟩ := hcore'
  have hlegi : (i.color, i.depth) ∈ legalPairs := by rw [c3, c4]; exact hleg
  have hszI : outLineSize t i f i.width * i.height = h.bufferSize := by
    rw [outLineSize_id ht, c1, c2, c3, c4, ← rowBytes_eq h hd]; rfl
  have hdW : (Sub.dims i).1 = h.width := by
    have : (hdrOf i).width = h.width := by rw [hhdr]
    exact this
  have hdH : (Sub.dims i).2 = h.height := by
    have : (hdrOf i).height = h.height := by rw [hhdr]
    exact this
  have hO : OpenSt cfg t f h r :=
    open_of_ready cfg t f h i N r raw0 dEnd restN hR (by rw [hhdr]; exact hraw0) hlegi hrd hfin
      (by rw [hdW]; exact hw1) (by rw [hdH]; exact hh1) (by rw [hhdr, hszI]; exact Nat.le_refl _) frames 0 hNv hB
      (by rw [hlimE]; omega) hframes (by omega)
  rw [hhdr] at hvalid hinit hsim
  exact ⟨r, arrs, s0, hri, hremN.trans hNv, hvalid, hl0, hinit, i, hsim, hO, hcp⟩

/-- **a well-formed animation whose `IDAT` image is not part of the animation, every data sequence carrying exactly its
    scanlines**: every sequence of `next_frame`, `next_row`, `next_frame_info`, `finish` calls is answered by the `Lazy`
    model, call by call, with the skeletons of the byte-level model's answers -/
theorem apng_default_exact (cfg : Cfg) (hI : cfg.InflateOk) (hC : cfg.CrcOk) {t : TCfg} {f : Flags} (ht : t.IsIdentity f)
    (hts : CreateSafe t) (opts : Options) (limit : Nat) (h : Header) (hv : h.Valid) (plays : Nat) (hplays : plays < 2 ^ 32)
    (anc : List (ChunkType × Bytes)) (dAnc : Dec)
    (frames : List (FrameControl × List Bytes × Bytes)) (hnf : frames.length < 2 ^ 32)
    (hanc : AncChunksG cfg (actlAfter (afterIhdr cfg opts limit h) frames.length plays) anc dAnc) (hna : NoActl anc)
    (zs0 : List Bytes) (raw0 : Bytes)
    (hzs0 : zs0 ≠ []) (hlen0 : ∀ z ∈ zs0, z.length < 2 ^ 32) (hinf0 : cfg.inflate zs0.flatten = some (raw0, true))
    (hraw0 : RawOk h raw0) (hframes : ∀ fr ∈ frames, FrameOk cfg h fr)
    (hseq : (frames.map fun x => 1 + x.2.1.length).sum < 2 ^ 32)
    (hsize : h.lineSize * h.height < 2 ^ 64)
    (hlimit : h.lineSize + (frames.map fun x => (h.frame x.1).lineSize).sum ≤ dAnc.limit) :
    ∃ (r0 : R) (arrs : List Lazy.Arrival) (s0 : Lazy.St),
      step cfg t (R.init opts limit f (wellFormedApngDefault cfg h plays anc zs0 (framesOf frames))
        (wellFormedApngDefault cfg h plays anc zs0 (framesOf frames)).length) .readInfo = (r0, .header) ∧
      r0.remaining = frames.length + 1 ∧
      (absEnv h h raw0 frames arrs).Valid ∧ (∀ a ∈ arrs, a.last = 0) ∧
      Lazy.init (absEnv h h raw0 frames arrs) r0.remaining = some s0 ∧
      ∀ ops : List Reader.Op, (∀ op ∈ ops, isCall' op = true) →
        (∀ res ∈ (Reader.run cfg t r0 ops).2, okRes res = true) ∧
        resMatchAll (geomOf h h frames) (Reader.run cfg t r0 ops).2
          (Lazy.run (absEnv h h raw0 frames arrs) s0 (absOps ops)).2 = true := by
  obtain ⟨r, arrs, s0, hri, hrem, hvalid, hl0, hinit, i, hsim, hO, hcp⟩ :=
    apng_default_exact_core cfg hI hC ht opts limit h hv plays hplays anc dAnc frames hnf hanc hna zs0 raw0 hzs0 hlen0
      hinf0 hraw0 hframes hseq hsize hlimit
  refine ⟨r, arrs, s0, hri, hrem, hvalid, hl0, hinit, fun ops hops => ?_⟩
  have hok := (exact_run cfg hI hC ht h hv i ops r ⟨Or.inl hO, hcp⟩ (fun op hop => isCall'_iff (hops op hop))).1
  exact ⟨hok, (run_sim cfg t hts _ _ hvalid (by simp [geomOf, absEnv, absFile]) _ f (fun _ => rfl) i ops r s0 hsim
    (fun op hop => (isCall'_iff (hops op hop)).1) hok).1⟩

/-- ... with `read_row` among the calls (needs the contract `TCfg.Ok` and a file shorter than 4 GiB: C02, C13) -/
theorem apng_default_exact_all (cfg : Cfg) (hI : cfg.InflateOk) (hC : cfg.CrcOk) {t : TCfg} {f : Flags}
    (ht : t.IsIdentity f) (hto : t.Ok) (hts : CreateSafe t) (opts : Options) (limit : Nat) (h : Header) (hv : h.Valid)
    (plays : Nat) (hplays : plays < 2 ^ 32) (anc : List (ChunkType × Bytes)) (dAnc : Dec)
    (frames : List (FrameControl × List Bytes × Bytes)) (hnf : frames.length < 2 ^ 32)
    (hanc : AncChunksG cfg (actlAfter (afterIhdr cfg opts limit h) frames.length plays) anc dAnc) (hna : NoActl anc)
    (zs0 : List Bytes) (raw0 : Bytes)
    (hzs0 : zs0 ≠ []) (hlen0 : ∀ z ∈ zs0, z.length < 2 ^ 32) (hinf0 : cfg.inflate zs0.flatten = some (raw0, true))
    (hraw0 : RawOk h raw0) (hframes : ∀ fr ∈ frames, FrameOk cfg h fr)
    (hseq : (frames.map fun x => 1 + x.2.1.length).sum < 2 ^ 32)
    (hsize : h.lineSize * h.height < 2 ^ 64)
    (hlimit : h.lineSize + (frames.map fun x => (h.frame x.1).lineSize).sum ≤ dAnc.limit)
    (hfl : (wellFormedApngDefault cfg h plays anc zs0 (framesOf frames)).length < 2 ^ 32) :
    ∃ (r0 : R) (arrs : List Lazy.Arrival) (s0 : Lazy.St),
      step cfg t (R.init opts limit f (wellFormedApngDefault cfg h plays anc zs0 (framesOf frames))
        (wellFormedApngDefault cfg h plays anc zs0 (framesOf frames)).length) .readInfo = (r0, .header) ∧
      r0.remaining = frames.length + 1 ∧
      (absEnv h h raw0 frames arrs).Valid ∧ (∀ a ∈ arrs, a.last = 0) ∧
      Lazy.init (absEnv h h raw0 frames arrs) r0.remaining = some s0 ∧
      ∀ ops : List Reader.Op, (∀ op ∈ ops, isCall op = true) →
        (∀ res ∈ (Reader.run cfg t r0 ops).2, okRes res = true) ∧
        resMatchAll (geomOf h h frames) (Reader.run cfg t r0 ops).2
          (Lazy.run (absEnv h h raw0 frames arrs) s0 (absOps ops)).2 = true := by
  obtain ⟨r, arrs, s0, hri, hrem, hvalid, hl0, hinit, i, hsim, hO, hcp⟩ :=
    apng_default_exact_core cfg hI hC ht opts limit h hv plays hplays anc dAnc frames hnf hanc hna zs0 raw0 hzs0 hlen0
      hinf0 hraw0 hframes hseq hsize hlimit
  have hR := rinv_after_readInfo cfg hto opts limit f _ hfl r hri
  refine ⟨r, arrs, s0, hri, hrem, hvalid, hl0, hinit, fun ops hops => ?_⟩
  have hok := (exactR_run cfg hI hC ht hto h hv i ops r ⟨⟨Or.inl hO, hcp⟩, hR, hO.rd⟩ hops).1
  exact ⟨hok, (run_sim cfg t hts _ _ hvalid (by simp [geomOf, absEnv, absFile]) _ f (fun _ => rfl) i ops r s0 hsim hops hok).1⟩

end Png.LazyRefine
