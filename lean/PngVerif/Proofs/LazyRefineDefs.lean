import PngVerif.Proofs.ComposeFrames
import PngVerif.Proofs.LazyTop
/-!
# `Reader` (byte level) refines `Lazy` (call protocol), part 1: the abstraction

`Model/Reader.lean` is the implementation-shaped model of `png::Reader` over the bytes of a file; `Model/LazyReader.lean`
keeps only the call protocol and takes the file as a list of frames (row-unit lengths, available bytes).  This file
defines how a well-formed file is abstracted to the frames of the `Lazy` model and how the results of the two models
are compared.

* `rowlensOf h`: the `rowlen` (filter byte included) of every row-unit of a (sub)frame with header `h`, in delivery
  order: `height` equal entries, or the non-empty Adam7 pass rows (`Header.scanlines`).
* `absFrame h raw` / `absFile`: the `Lazy.Frame`s of a file: geometry from the `IHDR` / `fcTL`, `avail` = the length of
  the inflated data sequence.
* `absOp`: the public calls (the `prefill` byte of the model's `next_frame` is forgotten, `read_row` with the documented
  buffer = `next_row`).
* `resMatch G rres lres`: the `Lazy` result `lres` is the skeleton of the `Reader` result `rres`, with `G` = the headers
  of the (sub)frames of the file: a row is row-unit `i` of frame `k` iff its `InterlaceInfo` is the `i`-th scanline of
  frame `k`; a frame / frame control has the size of frame `k`; errors by class.
-/
namespace Png.LazyRefine
open Png Png.Framing Png.WellFormed Png.Reader

/-- `rowlen` of every row-unit of a (sub)frame, in delivery order -/
def rowlensOf (h : Header) : List Nat := h.scanlines.map fun x => 1 + h.rowBytes x.2.2

/-- a (sub)frame of the file as the `Lazy` model sees it -/
def absFrame (h : Header) (raw : Bytes) : Lazy.Frame := ⟨rowlensOf h, raw.length⟩

/-- the headers of the (sub)frames of a file: the first data sequence has header `h0` (the image, or the image with the
    size of `fcTL` number 0), every later one the size of its frame control -/
def geomOf (h h0 : Header) (frames : List (FrameControl × List Bytes × Bytes)) : List Header :=
  h0 :: frames.map fun fr => h.frame fr.1

/-- **`absFile`**: the frames of the `Lazy` model for a file with image header `h`, first data sequence (header `h0`)
    inflating to `raw0`, and the further frames `(frame control, pieces of the zlib stream, inflated stream)` -/
def absFile (h h0 : Header) (raw0 : Bytes) (frames : List (FrameControl × List Bytes × Bytes)) : List Lazy.Frame :=
  absFrame h0 raw0 :: frames.map fun fr => absFrame (h.frame fr.1) fr.2.2

/-- the `Lazy` environment of the file under the given arrivals -/
def absEnv (h h0 : Header) (raw0 : Bytes) (frames : List (FrameControl × List Bytes × Bytes)) (arrs : List Lazy.Arrival) :
    Lazy.Env :=
  ⟨h.interlaced, absFile h h0 raw0 frames, arrs⟩

/-- the eager arrival of every frame: everything with the first pull, nothing with `Done` -/
def eagerArrs (fs : List Lazy.Frame) : List Lazy.Arrival := fs.map fun f => Lazy.Arrival.eager f.avail

/-- **`absOp`**: the calls both models have -/
def absOp : Reader.Op → Option Lazy.Op
  | .nextFrame _ => some .nextFrame
  | .nextRow => some .nextRow
  | .readRow => some .nextRow
  | .nextFrameInfo => some .nextFrameInfo
  | .finish => some .finish
  | _ => none

/-- the calls of a `Reader` (not of a `Decoder`, and no growth of the input) -/
def isCall (op : Reader.Op) : Bool := (absOp op).isSome

/-- `(pass, line, width)` of an `InterlaceInfo` in a (sub)frame of header `g`; pass 0 = not interlaced -/
def descIn (g : Header) (ii : IInfo) : Nat × Nat × Nat := ii.desc g.width

/-- **`resMatch`**: `lres` is the skeleton of `rres` -/
def resMatch (G : List Header) : Reader.Res → Lazy.Res → Bool
  | .row ii _, .row k i =>
    match G[k]? with
    | some g => g.scanlines[i]? == some (descIn g ii)
    | none => false
  | .noRow, .none => true
  | .frame oi _, .frame k _ =>
    match G[k]? with
    | some g => oi.width == g.width && oi.height == g.height
    | none => false
  | .frameInfo fc, .fctl k =>
    match G[k]? with
    | some g => fc.width == g.width && fc.height == g.height
    | none => false
  | .done, .ok => true
  | .err .parameter w, .err .polled => w == "PolledAfterEndOfImage"
  | .err .format w, .err .noMoreImageData => w == "NoMoreImageData"
  | .err .format w, .err .missingImageData => w == "MissingImageData"
  | .err .eof _, .err .eof => true
  | _, _ => false

/-- pointwise `resMatch`, same length -/
def resMatchAll (G : List Header) : List Reader.Res → List Lazy.Res → Bool
  | [], [] => true
  | r :: rs, l :: ls => resMatch G r l && resMatchAll G rs ls
  | _, _ => false

/-- run both models on the same calls and compare (the sanity check of `Props/C13LazyRefine.lean`) -/
def agree (cfg : Cfg) (t : TCfg) (G : List Header) (e : Lazy.Env) (r0 : R) (ops : List Reader.Op) : Bool :=
  match Lazy.init e r0.remaining with
  | some s0 => resMatchAll G (Reader.run cfg t r0 ops).2 (Lazy.run e s0 (ops.filterMap absOp)).2
  | none => false

end Png.LazyRefine
