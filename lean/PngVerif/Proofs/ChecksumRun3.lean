import PngVerif.Proofs.ChecksumRun2
/-!
# Checksum policy for whole streams (C11, run level) — part 3

* `ResEq`: two results agree in everything but the CRC values carried by `ChunkComplete` events.
* `ignore_crc_recs`, `ignore_crc_stream`: with `ignore_crc` two streams made of the same chunk records that differ (at most)
  in the stored CRC bytes give `ResEq` results — same final decoder (so same `info`, same image data), same error, same
  events up to the reported CRC values.  Any chunk kinds in any order; errors included.
* `bad_crc_record`: CRC checking enabled, the record of a critical chunk (or acTL / fcTL / fdAT; or any chunk with
  `skip_ancillary_crc_failures` off) whose stored CRC differs from `cfg.crc (type bytes ++ body)`: the run over the record
  fails, does not depend on what follows, reports no `ImageEnd`, and the error is `CrcMismatch` unless the chunk fails
  by itself (i.e. fails with every stored CRC).  All chunk kinds, data chunks (IDAT, fdAT) included.
* `bad_crc_stream`: the same for a record anywhere in a stream.
* deliveries: `proj_resEq` transports `ResEq` to the observable projection of C04, so that every delivery is covered
  through `Framing.runPieces_flatten`.
-/
namespace Png.Framing
open Png

/-! ## equality of results up to the CRC values reported by `ChunkComplete` -/

/-- the only thing an event says about the four stored CRC bytes: `ChunkComplete(crc, type)` -/
def Ev.eraseCrc : Ev → Ev
  | .chunkComplete _ t => .chunkComplete 0 t
  | ev => ev

/-- same final decoder, same error, same events up to the CRC values carried by `ChunkComplete` -/
def ResEq (r1 r2 : Res) : Prop := r1.1 = r2.1 ∧ r1.2.1.map Ev.eraseCrc = r2.2.1.map Ev.eraseCrc ∧ r1.2.2 = r2.2.2

theorem ResEq.refl (r : Res) : ResEq r r := ⟨rfl, rfl, rfl⟩

theorem ResEq.symm {r1 r2 : Res} (h : ResEq r1 r2) : ResEq r2 r1 := ⟨h.1.symm, h.2.1.symm, h.2.2.symm⟩

theorem ResEq.trans {r1 r2 r3 : Res} (h : ResEq r1 r2) (h' : ResEq r2 r3) : ResEq r1 r3 :=
  ⟨h.1.trans h'.1, h.2.1.trans h'.2.1, h.2.2.trans h'.2.2⟩

theorem ResEq.pre (evs : List Ev) {r1 r2 : Res} (h : ResEq r1 r2) : ResEq (Res.pre evs r1) (Res.pre evs r2) := by
  obtain ⟨h1, h2, h3⟩ := h
  exact ⟨h1, by simp only [Res.pre, List.map_append, h2], h3⟩

theorem ResEq.cons (ev : Ev) {r1 r2 : Res} (h : ResEq r1 r2) : ResEq (Res.cons ev r1) (Res.cons ev r2) := by
  rw [Res.cons_eq_pre, Res.cons_eq_pre]; exact h.pre _

theorem ResEq.cons_complete (v1 v2 : Nat) (t : ChunkType) {r1 r2 : Res} (h : ResEq r1 r2) :
    ResEq (Res.cons (.chunkComplete v1 t) r1) (Res.cons (.chunkComplete v2 t) r2) := by
  obtain ⟨h1, h2, h3⟩ := h
  exact ⟨h1, by simp [Res.cons, Ev.eraseCrc, h2], h3⟩

theorem Ev.keep_eraseCrc (ev : Ev) : Ev.keep ev.eraseCrc = Ev.keep ev := by cases ev <;> rfl

/-- `ResEq` results have `ResEq` observable projections (C04: events other than `ImageData`; decoder up to
    `Dec.afterError` after an error) -/
theorem proj_resEq {r1 r2 : Res} (h : ResEq r1 r2) : ResEq r1.proj r2.proj := by
  obtain ⟨d1, es1, e1⟩ := r1
  obtain ⟨d2, es2, e2⟩ := r2
  obtain ⟨h1, h2, h3⟩ := h
  simp only at h1 h2 h3
  subst h1; subst h3
  refine ⟨rfl, ?_, rfl⟩
  simp only [Res.proj]
  have key : ∀ l : List Ev, (l.filter Ev.keep).map Ev.eraseCrc = (l.map Ev.eraseCrc).filter Ev.keep := by
    intro l
    induction l with
    | nil => rfl
    | cons a l ih =>
      simp only [List.filter_cons, List.map_cons, Ev.keep_eraseCrc]
      split <;> simp [ih]
  rw [key, key, h2]

/-! ## `ignore_crc`: the stored CRC bytes are never looked at -/

/-- the CRC arm of `parse_u32` when CRCs are not checked -/
theorem parseU32_crc_ignored (cfg : Cfg) (D : Dec) (t : ChunkType) (c0 c1 c2 c3 : UInt8) (hig : D.opts.ignoreCrc = true) :
    parseU32 cfg D (.crc t) c0 c1 c2 c3 =
      if t = IEND then .ok (.imageEnd, D)
      else .ok (.chunkComplete (be32 c0 c1 c2 c3) t, { D with state := some (.u32 .length []) }) := by
  rw [parseU32_crc]
  simp only [hig, if_true]

/-- **`ignore_crc`, chunk records**: from a chunk boundary, the same records with two different sets of stored CRC fields
    give the same final decoder, the same error and the same events up to the reported CRC values -/
theorem ignore_crc_recs (cfg : Cfg) (cs : List (ChunkType × Bytes)) (hcs : FieldsOk cs) :
    ∀ (crcsA crcsB : List Crc4) (d : Dec), ChunkBoundary d → d.opts.ignoreCrc = true →
      ResEq (runF cfg d (recsWith crcsA cs)) (runF cfg d (recsWith crcsB cs)) := by
  induction cs with
  | nil => intro crcsA crcsB d _ _; rw [recsWith_nil, recsWith_nil]; exact ResEq.refl _
  | cons c cs ih =>
    intro crcsA crcsB d hd hig
    have hc := hcs c (by simp)
    have hcs' : FieldsOk cs := fun x hx => hcs x (by simp [hx])
    rw [recsWith_cons, recsWith_cons]
    rcases hd with hs | hs
    · rcases record_run cfg hc.1 hc.2 d hs with ⟨dE, evs, e, _, _, hrun⟩ | ⟨dC, evs, hat, ho, _, hrun⟩
      · rw [hrun, hrun]; exact ResEq.refl _
      · rw [hrun, hrun]
        apply ResEq.pre
        have hig' : ({ dC with state := none } : Dec).opts.ignoreCrc = true := by
          show dC.opts.ignoreCrc = true
          rw [ho]; exact hig
        rw [parseU32_crc_ignored cfg _ c.1 _ _ _ _ hig', parseU32_crc_ignored cfg _ c.1 _ _ _ _ hig']
        by_cases hend : c.1 = IEND
        · rw [if_pos hend, if_pos hend]
          exact ResEq.cons _ (ih hcs' _ _ _ (Or.inr rfl) hig')
        · rw [if_neg hend, if_neg hend]
          exact ResEq.cons_complete _ _ _ (ih hcs' _ _ _ (Or.inl rfl) hig')
    · have hne : ∀ crcs : List Crc4, record c.1 c.2 (crcs.headD (0, 0, 0, 0)) ++ recsWith crcs.tail cs ≠ [] :=
        fun crcs h => record_ne_nil _ _ _ (List.append_eq_nil_iff.1 h).1
      rw [runF_none cfg hs (hne _), runF_none cfg hs (hne _)]
      exact ResEq.refl _

/-- **`ignore_crc`, whole streams**: `signature ++ chunk records`, any chunk kinds in any order, any stored CRC bytes -/
theorem ignore_crc_stream (cfg : Cfg) (opts : Options) (hig : opts.ignoreCrc = true) (crcsA crcsB : List Crc4)
    (cs : List (ChunkType × Bytes)) (hcs : FieldsOk cs) :
    ResEq (runF cfg (Dec.new opts) (streamWith crcsA cs)) (runF cfg (Dec.new opts) (streamWith crcsB cs)) := by
  unfold streamWith
  rw [runF_signature, runF_signature]
  exact ignore_crc_recs cfg cs hcs crcsA crcsB _ (afterSignature_boundary opts) hig

/-! ## CRC checking enabled: a wrong stored CRC -/

/-- the kinds (and options) for which a CRC mismatch is fatal -/
def CrcFatal (opts : Options) (t : ChunkType) : Prop :=
  isCritical t = true ∨ opts.skipAncillaryCrcFailures = false ∨ t = acTL ∨ t = fcTL ∨ t = fdAT

instance (opts : Options) (t : ChunkType) : Decidable (CrcFatal opts t) := by unfold CrcFatal; infer_instance

/-- the CRC arm of `parse_u32` on a fatal mismatch -/
theorem parseU32_crc_fatal (cfg : Cfg) (D : Dec) (t : ChunkType) (c0 c1 c2 c3 : UInt8) (hig : D.opts.ignoreCrc = false)
    (hbad : be32 c0 c1 c2 c3 ≠ cfg.crc D.crcAcc) (hf : CrcFatal D.opts t) :
    parseU32 cfg D (.crc t) c0 c1 c2 c3 = .error (.format "CrcMismatch") := by
  rw [parseU32_crc]
  simp only [hig, Bool.false_eq_true, if_false]
  rw [if_neg hbad, if_neg]
  rintro ⟨h1, h2, h3, h4, h5⟩
  rcases hf with h | h | h | h | h
  · rw [h] at h2; cases h2
  · rw [h] at h1; cases h1
  · exact h3 h
  · exact h4 h
  · exact h5 h

/-- **A wrong stored CRC, one record.**  CRC checking enabled; the chunk `(t, body)` — ANY kind, data chunks included —
    is one whose CRC mismatch is fatal; its record carries stored CRC bytes `c` with `c.val ≠ cfg.crc (type bytes ++ body)`.
    From a chunk boundary: the run over `record ++ Y` is the run over the record (nothing of `Y` is looked at), it fails,
    the decoder is poisoned, no `ImageEnd` is reported, and the error is `CrcMismatch` unless the chunk is refused whatever its
    stored CRC (so: if SOME stored CRC `c'` makes the record pass, the error with `c` is `CrcMismatch`). -/
theorem bad_crc_record (cfg : Cfg) {t : ChunkType} {body : Bytes} (ht : t < 2 ^ 32) (hb : body.length < 2 ^ 32) (d : Dec)
    (hd : ChunkBoundary d) (hig : d.opts.ignoreCrc = false) (hf : CrcFatal d.opts t) (c : Crc4)
    (hbad : c.val ≠ cfg.crc (typeBytes t ++ body)) (Y : Bytes) :
    runF cfg d (record t body c ++ Y) = runF cfg d (record t body c) ∧
    (runF cfg d (record t body c)).2.2 ≠ none ∧
    .imageEnd ∉ (runF cfg d (record t body c)).2.1 ∧
    (runF cfg d (record t body c)).1.state = none ∧
    (∀ c' : Crc4, (runF cfg d (record t body c')).2.2 = none →
      (runF cfg d (record t body c)).2.2 = some (.format "CrcMismatch")) := by
  rcases hd with hs | hs
  · rcases record_run cfg ht hb d hs with ⟨dE, evs, e, hpo, hie, hrun⟩ | ⟨dC, evs, hat, ho, hie, hrun⟩
    · have h1 := hrun c []
      rw [List.append_nil] at h1
      rw [hrun c Y, h1]
      refine ⟨rfl, by simp, hie, hpo, fun c' hc' => ?_⟩
      have h2 := hrun c' []
      rw [List.append_nil] at h2
      rw [h2] at hc'; cases hc'
    · have hig' : ({ dC with state := none } : Dec).opts.ignoreCrc = false := by
        show dC.opts.ignoreCrc = false
        rw [ho]; exact hig
      have hacc : ({ dC with state := none } : Dec).crcAcc = typeBytes t ++ body := hat.2 (by rw [ho]; exact hig)
      have hp : parseU32 cfg { dC with state := none } (.crc t) c.1 c.2.1 c.2.2.1 c.2.2.2 = .error (.format "CrcMismatch") :=
        parseU32_crc_fatal cfg _ t _ _ _ _ hig' (by rw [hacc]; exact hbad) (by show CrcFatal dC.opts t; rw [ho]; exact hf)
      have h1 := hrun c []
      rw [List.append_nil, hp] at h1
      have h2 := hrun c Y
      rw [hp] at h2
      rw [h2, h1]
      exact ⟨rfl, by simp [Res.pre], by simpa [Res.pre] using hie, rfl, fun _ _ => rfl⟩
  · have hne : ∀ c : Crc4, record t body c ≠ [] := record_ne_nil t body
    have hne' : record t body c ++ Y ≠ [] := fun h => hne c (List.append_eq_nil_iff.1 h).1
    rw [runF_none cfg hs hne', runF_none cfg hs (hne c)]
    refine ⟨rfl, by simp, by simp, hs, fun c' hc' => ?_⟩
    rw [runF_none cfg hs (hne c')] at hc'; cases hc'

/-- a run that ended with an error left the decoder poisoned (or it was finished / poisoned before) -/
theorem run_error_state (cfg : Cfg) : ∀ (f : Nat) (d : Dec) (buf : Bytes) (e : Err),
    (run cfg f d buf).2.2 = some e → (run cfg f d buf).1.state = none := by
  intro f
  induction f with
  | zero => intro d buf e h; cases h
  | succ f ih =>
    intro d buf e h
    unfold run at h ⊢
    split
    · rename_i hb; rw [if_pos hb] at h; cases h
    · rename_i hb
      rw [if_neg hb] at h
      split
      · assumption
      · rename_i st hs
        rw [hs] at h
        simp only at h
        split
        · rfl
        · rename_i n ev d' hn
          rw [hn] at h
          exact ih d' _ e h

theorem runF_error_state (cfg : Cfg) {d : Dec} {buf : Bytes} {e : Err} (h : (runF cfg d buf).2.2 = some e) :
    (runF cfg d buf).1.state = none := run_error_state cfg _ d buf e h

/-- a stream, split before one of its records: the run over the chunks before it (`P`), then — unless that failed — the
    run over the record and what follows from the decoder `P` ended in, which is at a chunk boundary -/
theorem runF_stream_split (cfg : Cfg) (opts : Options) (crcs₁ crcs₂ : List Crc4) (c : Crc4)
    (cs₁ cs₂ : List (ChunkType × Bytes)) (t : ChunkType) (body : Bytes) (hlen : crcs₁.length = cs₁.length)
    (hcs₁ : FieldsOk cs₁) :
    runF cfg (Dec.new opts) (streamWith (crcs₁ ++ c :: crcs₂) (cs₁ ++ (t, body) :: cs₂)) =
      (runF cfg (Dec.new opts) (streamWith crcs₁ cs₁)).bind
        (fun d1 => runF cfg d1 (record t body c ++ recsWith crcs₂ cs₂)) ∧
    ((runF cfg (Dec.new opts) (streamWith crcs₁ cs₁)).2.2 = none →
      ChunkBoundary (runF cfg (Dec.new opts) (streamWith crcs₁ cs₁)).1 ∧
      (runF cfg (Dec.new opts) (streamWith crcs₁ cs₁)).1.opts = opts) := by
  unfold streamWith
  rw [recsWith_split _ _ _ _ _ _ _ hlen, runF_signature, runF_signature]
  obtain ⟨h1, h2⟩ := runF_recs_append cfg crcs₁ cs₁ hcs₁ (Dec.afterSignature opts) (afterSignature_boundary opts)
    (record t body c ++ recsWith crcs₂ cs₂)
  exact ⟨h1, fun h => ⟨h2 h, (runF_stepFrame cfg (Dec.afterSignature opts) _).opts⟩⟩

/-- **A wrong stored CRC anywhere in a stream.**  CRC checking enabled; the chunks `cs₁` (any kinds, any stored CRCs
    `crcs₁`), then the record of a chunk `(t, body)` whose CRC mismatch is fatal with stored CRC bytes `c`,
    `c.val ≠ cfg.crc (type bytes ++ body)`, then anything (`cs₂`, `crcs₂`).  With `P` the run over the chunks before and `R`
    the run over the whole stream:
    * `R` is the run over the stream cut off after the bad record: nothing behind it is looked at;
    * `R` fails and the decoder is poisoned;
    * if `P` failed already, `R = P`;
    * the events of `R` are those of `P` followed by events among which there is no `ImageEnd`;
    * if the stream cut off after the record decodes without error for SOME stored CRC `c'` in that record, the error of `R`
      is `CrcMismatch`. -/
theorem bad_crc_stream (cfg : Cfg) (opts : Options) (hig : opts.ignoreCrc = false) (crcs₁ crcs₂ : List Crc4) (c : Crc4)
    (cs₁ cs₂ : List (ChunkType × Bytes)) (t : ChunkType) (body : Bytes) (hlen : crcs₁.length = cs₁.length)
    (hcs₁ : FieldsOk cs₁) (ht : t < 2 ^ 32) (hb : body.length < 2 ^ 32) (hf : CrcFatal opts t)
    (hbad : c.val ≠ cfg.crc (typeBytes t ++ body)) :
    runF cfg (Dec.new opts) (streamWith (crcs₁ ++ c :: crcs₂) (cs₁ ++ (t, body) :: cs₂)) =
      runF cfg (Dec.new opts) (streamWith (crcs₁ ++ [c]) (cs₁ ++ [(t, body)])) ∧
    (runF cfg (Dec.new opts) (streamWith (crcs₁ ++ c :: crcs₂) (cs₁ ++ (t, body) :: cs₂))).2.2 ≠ none ∧
    (runF cfg (Dec.new opts) (streamWith (crcs₁ ++ c :: crcs₂) (cs₁ ++ (t, body) :: cs₂))).1.state = none ∧
    (∀ e, (runF cfg (Dec.new opts) (streamWith crcs₁ cs₁)).2.2 = some e →
      runF cfg (Dec.new opts) (streamWith (crcs₁ ++ c :: crcs₂) (cs₁ ++ (t, body) :: cs₂)) =
        runF cfg (Dec.new opts) (streamWith crcs₁ cs₁)) ∧
    (∃ evs, (runF cfg (Dec.new opts) (streamWith (crcs₁ ++ c :: crcs₂) (cs₁ ++ (t, body) :: cs₂))).2.1 =
        (runF cfg (Dec.new opts) (streamWith crcs₁ cs₁)).2.1 ++ evs ∧ .imageEnd ∉ evs) ∧
    (∀ c' : Crc4, (runF cfg (Dec.new opts) (streamWith (crcs₁ ++ [c']) (cs₁ ++ [(t, body)]))).2.2 = none →
      (runF cfg (Dec.new opts) (streamWith (crcs₁ ++ c :: crcs₂) (cs₁ ++ (t, body) :: cs₂))).2.2 =
        some (.format "CrcMismatch")) := by
  obtain ⟨hR, hP⟩ := runF_stream_split cfg opts crcs₁ crcs₂ c cs₁ cs₂ t body hlen hcs₁
  have hS : ∀ c' : Crc4, runF cfg (Dec.new opts) (streamWith (crcs₁ ++ [c']) (cs₁ ++ [(t, body)])) =
      (runF cfg (Dec.new opts) (streamWith crcs₁ cs₁)).bind (fun d1 => runF cfg d1 (record t body c')) := by
    intro c'
    have := (runF_stream_split cfg opts crcs₁ [] c' cs₁ [] t body hlen hcs₁).1
    simpa [recsWith_nil] using this
  have hPe : ∀ e, (runF cfg (Dec.new opts) (streamWith crcs₁ cs₁)).2.2 = some e →
      (runF cfg (Dec.new opts) (streamWith crcs₁ cs₁)).1.state = none := fun e => runF_error_state cfg
  rw [hR, hS c]
  generalize runF cfg (Dec.new opts) (streamWith crcs₁ cs₁) = P at hP hS hPe ⊢
  obtain ⟨d1, es1, e1⟩ := P
  cases e1 with
  | some e =>
    simp only [Res.error_bind]
    refine ⟨trivial, by simp, hPe e rfl, fun _ _ => trivial, ⟨[], by simp, by simp⟩, fun c' hc' => ?_⟩
    rw [hS c', Res.error_bind] at hc'; cases hc'
  | none =>
    obtain ⟨hb1, ho1⟩ := hP rfl
    simp only at hb1 ho1
    obtain ⟨k1, k2, k3, k4, k5⟩ := bad_crc_record cfg ht hb d1 hb1 (by rw [ho1]; exact hig) (by rw [ho1]; exact hf) c hbad
      (recsWith crcs₂ cs₂)
    refine ⟨?_, ?_, ?_, ?_, ?_, ?_⟩
    · simp only [Res.bind, k1]
    · simpa only [Res.bind, k1] using k2
    · simpa only [Res.bind, k1] using k4
    · intro e he; cases he
    · exact ⟨(runF cfg d1 (record t body c)).2.1, by simp only [Res.bind, k1], k3⟩
    · intro c' hc'
      rw [hS c'] at hc'
      simp only [Res.bind] at hc'
      simpa only [Res.bind, k1] using k5 c' hc'

/-! ## every delivery (through C04: `runPieces_flatten`, `feedPieces_eq_runPieces`) -/

/-- what two deliveries have in common when the whole-buffer runs are `ResEq` -/
theorem deliveries_of_resEq {r r' ra rb : Res} (h1 : r.proj = ra.proj) (h2 : r'.proj = rb.proj) (h : ResEq ra rb) :
    r.2.2 = r'.2.2 ∧ (r.2.1.filter Ev.keep).map Ev.eraseCrc = (r'.2.1.filter Ev.keep).map Ev.eraseCrc ∧
    (r.2.2 = none → r.1 = r'.1) ∧ r.1.afterError = r'.1.afterError := by
  have hp := proj_resEq h
  rw [← h1, ← h2] at hp
  obtain ⟨p1, p2, p3⟩ := hp
  obtain ⟨d, es, e⟩ := r
  obtain ⟨d', es', e'⟩ := r'
  simp only [Res.proj] at p1 p2 p3 ⊢
  subst p3
  refine ⟨rfl, p2, ?_, ?_⟩
  · intro he; subst he; exact p1
  · cases e with
    | none => simp only at p1; rw [p1]
    | some e => exact p1

/-- `ignore_crc_stream` for any two deliveries of the two streams -/
theorem ignore_crc_stream_deliveries (cfg : Cfg) (hI : cfg.InflateOk) (opts : Options) (hig : opts.ignoreCrc = true)
    (crcsA crcsB : List Crc4) (cs : List (ChunkType × Bytes)) (hcs : FieldsOk cs) (ps qs : List Bytes)
    (hp : ps.flatten = streamWith crcsA cs) (hq : qs.flatten = streamWith crcsB cs) :
    (feedPieces cfg (Dec.new opts) ps).2.2 = (feedPieces cfg (Dec.new opts) qs).2.2 ∧
    ((feedPieces cfg (Dec.new opts) ps).2.1.filter Ev.keep).map Ev.eraseCrc =
      ((feedPieces cfg (Dec.new opts) qs).2.1.filter Ev.keep).map Ev.eraseCrc ∧
    ((feedPieces cfg (Dec.new opts) ps).2.2 = none →
      (feedPieces cfg (Dec.new opts) ps).1 = (feedPieces cfg (Dec.new opts) qs).1) ∧
    (feedPieces cfg (Dec.new opts) ps).1.afterError = (feedPieces cfg (Dec.new opts) qs).1.afterError ∧
    (feedPieces cfg (Dec.new opts) ps).1.info = (feedPieces cfg (Dec.new opts) qs).1.info := by
  have h1 : (feedPieces cfg (Dec.new opts) ps).proj = (runF cfg (Dec.new opts) (streamWith crcsA cs)).proj := by
    rw [feedPieces_eq_runPieces, runPieces_flatten cfg hI, hp]
  have h2 : (feedPieces cfg (Dec.new opts) qs).proj = (runF cfg (Dec.new opts) (streamWith crcsB cs)).proj := by
    rw [feedPieces_eq_runPieces, runPieces_flatten cfg hI, hq]
  obtain ⟨a, b, c, d⟩ := deliveries_of_resEq h1 h2 (ignore_crc_stream cfg opts hig crcsA crcsB cs hcs)
  have hinfo := congrArg Dec.info d
  exact ⟨a, b, c, d, hinfo⟩

/-- `bad_crc_stream` for any delivery of the corrupted stream -/
theorem bad_crc_stream_deliveries (cfg : Cfg) (hI : cfg.InflateOk) (opts : Options) (hig : opts.ignoreCrc = false)
    (crcs₁ crcs₂ : List Crc4) (c : Crc4) (cs₁ cs₂ : List (ChunkType × Bytes)) (t : ChunkType) (body : Bytes)
    (hlen : crcs₁.length = cs₁.length) (hcs₁ : FieldsOk cs₁) (ht : t < 2 ^ 32) (hb : body.length < 2 ^ 32)
    (hf : CrcFatal opts t) (hbad : c.val ≠ cfg.crc (typeBytes t ++ body)) (ps : List Bytes)
    (hp : ps.flatten = streamWith (crcs₁ ++ c :: crcs₂) (cs₁ ++ (t, body) :: cs₂)) :
    (feedPieces cfg (Dec.new opts) ps).2.2 ≠ none ∧
    (feedPieces cfg (Dec.new opts) ps).1.state = none ∧
    (.imageEnd ∈ (feedPieces cfg (Dec.new opts) ps).2.1 →
      .imageEnd ∈ (runF cfg (Dec.new opts) (streamWith crcs₁ cs₁)).2.1) ∧
    (∀ c' : Crc4, (runF cfg (Dec.new opts) (streamWith (crcs₁ ++ [c']) (cs₁ ++ [(t, body)]))).2.2 = none →
      (feedPieces cfg (Dec.new opts) ps).2.2 = some (.format "CrcMismatch")) := by
  have h1 : (feedPieces cfg (Dec.new opts) ps).proj =
      (runF cfg (Dec.new opts) (streamWith (crcs₁ ++ c :: crcs₂) (cs₁ ++ (t, body) :: cs₂))).proj := by
    rw [feedPieces_eq_runPieces, runPieces_flatten cfg hI, hp]
  obtain ⟨_, k2, k3, _, ⟨evs, k5, k5'⟩, k6⟩ :=
    bad_crc_stream cfg opts hig crcs₁ crcs₂ c cs₁ cs₂ t body hlen hcs₁ ht hb hf hbad
  obtain ⟨e1, e2, e3⟩ := (Res.proj_eq_iff _ _).1 h1
  refine ⟨by rw [e1]; exact k2, ?_, ?_, fun c' hc' => by rw [e1]; exact k6 c' hc'⟩
  · -- poisoned: the state survives `afterError`
    cases he : (feedPieces cfg (Dec.new opts) ps).2.2 with
    | none => rw [he] at e1; exact absurd e1.symm k2
    | some e =>
      rw [he] at e3
      have := congrArg Dec.state e3
      simp only [Dec.afterError] at this
      rw [this]; exact k3
  · intro hmem
    have hk : Ev.imageEnd ∈ (feedPieces cfg (Dec.new opts) ps).2.1.filter Ev.keep := List.mem_filter.2 ⟨hmem, rfl⟩
    rw [e2, k5] at hk
    have := (List.mem_filter.1 hk).1
    rcases List.mem_append.1 this with h | h
    · exact h
    · exact absurd h k5'

end Png.Framing
