import PngVerif.Model.Encoder
import PngVerif.Proofs.Scanlines
/-!
# Proofs about the writer model (`Model/Encoder.lean`) against the validator (`Model/Validator.lean`)

Part 1: byte-level facts (field encodings are read back by `summarize`).
Part 2: the sequencing automaton run over raw chunks (`skRunR`) and its composition law.
Part 3: a sink that never fails accepts everything.
Part 4: the invariant `Inv` of `writerStep` (counters, sequence number, phase of the automaton) and
        `writer_skeleton_valid` (C12 for the whole-image API).
Part 5: facts for EVERY sink (C19): `Evolves`/`Grows` (what a call may change), `Safe` (panic sites),
        `writer_clean` (no panic, exactly one IEND, Ok from finish ⇒ complete), `writer_validation`.
Part 6: the image rule of the specification (`specImgOk`) and a back-end that meets the `Codec`
        contract (`scanCodec_ok`, via `decode_encode_scanlines` = C03).
Part 7: concrete model runs decided by the kernel (witnesses of the recorded defects, non-vacuity).
Part 8: the stream writer in general, on a sink that never fails.  A complete stream image leaves the
        `Writer` in exactly the state `write_image_data` would leave it in with the same zlib stream cut the
        same way (`HeaderRel.sim`; chunk writer `CWC`/`CWI`, encoder `ZI`, rows `Inside`/`Completed`);
        `JW` (what is known of the `Writer` at any point of a program over both APIs), `SessInv` (a
        session between / inside images), `session_spec`, `prog_spec`; the theorems
        `stream_skeleton_valid` (C12), `stream_clean`, `stream_validation` (C19); a streaming back-end
        that meets the `ZCodec` contract (`scanZ_ok`); concrete programs and what stays false (N10).
-/
namespace Png.Enc
open Png Png.Val

/-! ## Part 1: encodings -/

theorem toU8_toNat (n : Nat) : (n.toUInt8).toNat = n % 256 := by
  simp [Nat.toUInt8]

theorem be32_bytes (n : Nat) (h : n < 2 ^ 32) :
    be32 (n / 16777216 % 256).toUInt8 (n / 65536 % 256).toUInt8 (n / 256 % 256).toUInt8 (n % 256).toUInt8 = n := by
  simp only [be32, toU8_toNat]
  omega

theorem be32Bytes_length (n : Nat) : (be32Bytes n).length = 4 := by simp [be32Bytes]

theorem summarize_idat (d : Bytes) : summarize (mkIdat d) = .ok (.idat d) := by
  simp [summarize, mkIdat, tyIDAT, tyIHDR, tyPLTE]

theorem summarize_iend : summarize iendChunk = .ok (.iend 0) := by
  simp [summarize, iendChunk, tyIEND, tyIDAT, tyIHDR, tyPLTE]

theorem summarize_plte (p : Bytes) : summarize ⟨tyPLTE, p⟩ = .ok (.plte p.length) := by
  simp [summarize, tyIHDR, tyPLTE]

theorem summarize_fdat (seq : Nat) (d : Bytes) (h : seq < 2 ^ 32) :
    summarize (mkFdat seq d) = .ok (.fdat seq d) := by
  simp [summarize, mkFdat, tyFDAT, tyFCTL, tyACTL, tyIEND, tyIDAT, tyIHDR, tyPLTE, be32Bytes, be32At, be32_bytes, h]

theorem summarize_actl (n p : Nat) (hn : n < 2 ^ 32) (hp : p < 2 ^ 32) :
    summarize (mkActl n p) = .ok (.actl n p) := by
  simp [summarize, mkActl, tyACTL, tyIEND, tyIDAT, tyIHDR, tyPLTE, be32Bytes, be32At, be32_bytes, hn, hp]

theorem summarize_fctl (f : FC) (h : f.inRange) : summarize (mkFctl f) = .ok (.fctl f.toFctl) := by
  obtain ⟨h1, h2, h3, h4, h5, h6, h7, h8, h9⟩ := h
  simp [summarize, mkFctl, tyFCTL, tyIHDR, tyPLTE, tyIDAT, tyIEND, tyACTL, be32Bytes, be16Bytes, parseFctlL,
    be32At, be16At, FC.toFctl, be32_bytes, *]
  omega

/-- the chunk types `summarize` treats specially -/
def specialTypes : List Ty := [tyIHDR, tyPLTE, tyIDAT, tyIEND, tyACTL, tyFCTL, tyFDAT]

theorem summarize_other (c : RChunk) (h : c.ty ∉ specialTypes) :
    summarize c = .ok (.other c.ty c.data.length) := by
  simp only [specialTypes, List.mem_cons, List.not_mem_nil, or_false, not_or] at h
  obtain ⟨h1, h2, h3, h4, h5, h6, h7⟩ := h
  simp [summarize, h1, h2, h3, h4, h5, h6, h7]

/-! ## Part 2: the automaton over raw chunks -/

/-- `summarize` then `skStep`, chunk by chunk -/
def skRunR (imgOk : ImgRule) : Sk → List RChunk → Except String Sk
  | sk, [] => .ok sk
  | sk, c :: cs =>
    match summarize c with
    | .error e => .error e
    | .ok s =>
      match skStep imgOk sk s with
      | .ok sk' => skRunR imgOk sk' cs
      | .error e => .error e

theorem skRunR_append (imgOk : ImgRule) (a b : List RChunk) :
    ∀ sk, skRunR imgOk sk (a ++ b) =
      match skRunR imgOk sk a with
      | .ok sk' => skRunR imgOk sk' b
      | .error e => .error e := by
  induction a with
  | nil => intro sk; simp [skRunR]
  | cons c cs ih =>
    intro sk
    simp only [List.cons_append, skRunR]
    cases hs : summarize c with
    | error e => simp
    | ok s =>
      simp only []
      cases hk : skStep imgOk sk s with
      | error e => simp
      | ok sk' => simpa using ih sk'

theorem skRunR_append_ok {imgOk : ImgRule} {a b : List RChunk} {sk sk1 sk2 : Sk}
    (h1 : skRunR imgOk sk a = .ok sk1) (h2 : skRunR imgOk sk1 b = .ok sk2) :
    skRunR imgOk sk (a ++ b) = .ok sk2 := by
  rw [skRunR_append, h1]; exact h2

/-- a successful `skRunR` is a successful `mapM summarize` followed by a successful `skRun` -/
theorem skRunR_ok (imgOk : ImgRule) (cs : List RChunk) :
    ∀ sk sk', skRunR imgOk sk cs = .ok sk' →
      ∃ sums, cs.mapM summarize = .ok sums ∧ skRun imgOk sk sums = .ok sk' := by
  induction cs with
  | nil => intro sk sk' h; exact ⟨[], rfl, by simpa [skRunR, skRun] using h⟩
  | cons c cs ih =>
    intro sk sk' h
    simp only [skRunR] at h
    cases hs : summarize c with
    | error e => simp [hs] at h
    | ok s =>
      simp only [hs] at h
      cases hk : skStep imgOk sk s with
      | error e => simp [hk] at h
      | ok sk1 =>
        simp only [hk] at h
        obtain ⟨sums, hm, hr⟩ := ih sk1 sk' h
        refine ⟨s :: sums, ?_, ?_⟩
        · simp [List.mapM_cons, hs, hm]; rfl
        · simp [skRun, hk, hr]

theorem skeletonOfChunks_of_run {imgOk : ImgRule} {cw ch color : Nat} {rest : List RChunk} {sk : Sk}
    (h : skRunR imgOk { cw, ch, color } rest = .ok sk) (hd : sk.phase = .done) :
    skeletonOfChunks imgOk cw ch color rest = .ok () := by
  obtain ⟨sums, hm, hr⟩ := skRunR_ok imgOk rest _ _ h
  simp [skeletonOfChunks, hm, skeletonOk, hr, skEnd, hd]

/-! ## Part 3: a sink that never fails -/

def Sink.good (k : Sink) : Prop := k.beh.writeFailAt = none ∧ k.beh.flushFailAt = none

theorem Sink.emit_good {k : Sink} (h : k.good) (p : Piece) :
    k.emit p = ({ k with log := k.log ++ [⟨p, p.size⟩], count := k.count + p.size }, true) := by
  simp [Sink.emit, Sink.budget, h.1]

theorem Sink.chunks_append_complete (k : Sink) (c : RChunk) (n : Nat) :
    ({ k with log := k.log ++ [⟨.chunk c, (Piece.chunk c).size⟩], count := n } : Sink).chunks = k.chunks ++ [c] := by
  simp [Sink.chunks, Emit.complete, List.filterMap_append]

theorem Sink.emitChunks_good (cs : List RChunk) :
    ∀ {k : Sink}, k.good →
      (k.emitChunks cs).2 = true ∧ (k.emitChunks cs).1.good ∧
      (k.emitChunks cs).1.chunks = k.chunks ++ cs ∧ (k.emitChunks cs).1.beh = k.beh := by
  induction cs with
  | nil => intro k h; simp [Sink.emitChunks, h]
  | cons c cs ih =>
    intro k h
    simp only [Sink.emitChunks, Sink.emit_good h]
    have hg : ({ k with log := k.log ++ [⟨.chunk c, (Piece.chunk c).size⟩], count := k.count + (Piece.chunk c).size } : Sink).good := h
    obtain ⟨h1, h2, h3, h4⟩ := ih hg
    refine ⟨h1, h2, ?_, h4⟩
    rw [h3, Sink.chunks_append_complete]; simp

/-! ## Part 4a: chunk splitting and runs of data chunks -/

theorem chunksOfAux_flatten (n : Nat) (hn : 0 < n) : ∀ fuel (l : Bytes), l.length ≤ fuel → (chunksOfAux n fuel l).flatten = l := by
  intro fuel
  induction fuel with
  | zero => intro l h; have : l = [] := List.length_eq_zero_iff.mp (by omega); simp [chunksOfAux, this]
  | succ k ih =>
    intro l h
    simp only [chunksOfAux]
    by_cases hl : l = []
    · simp [hl]
    · simp only [hl, if_false, List.flatten_cons]
      rw [ih (l.drop n) (by
        have : 0 < l.length := List.length_pos_iff.mpr hl
        simp only [List.length_drop]; omega)]
      exact List.take_append_drop n l

theorem chunksOf_flatten (n : Nat) (hn : 0 < n) (l : Bytes) : (chunksOf n l).flatten = l :=
  chunksOfAux_flatten n hn _ l (Nat.le_refl _)

theorem chunksOf_ne_nil (n : Nat) (l : Bytes) (hl : l ≠ []) : chunksOf n l ≠ [] := by
  unfold chunksOf
  have : 0 < l.length := List.length_pos_iff.mpr hl
  cases h : l.length with
  | zero => omega
  | succ k => simp [chunksOfAux, hl]


theorem skRunR_idats (imgOk : ImgRule) (parts : List Bytes) :
    ∀ (sk : Sk) (acc : Bytes), sk.phase = .idat acc →
      skRunR imgOk sk (parts.map mkIdat) = .ok { sk with phase := .idat (acc ++ parts.flatten) } := by
  induction parts with
  | nil => intro sk acc h; simp [skRunR, ← h]
  | cons p ps ih =>
    intro sk acc h
    simp only [List.map_cons, skRunR, summarize_idat, skStep, h, stepIdat]
    simp only [reduceCtorEq, if_false]
    rw [ih _ (acc ++ p) rfl]
    simp

theorem skRunR_fdats (imgOk : ImgRule) (parts : List Bytes) :
    ∀ (sk : Sk) (w h : Nat) (acc : Bytes) (seq : Nat), sk.phase = .fdat w h acc → sk.frames ≠ none →
      sk.nextSeq = seq → seq < 2 ^ 32 →
      skRunR imgOk sk (fdatChunks seq parts).1 =
        .ok { sk with phase := .fdat w h (acc ++ parts.flatten), nextSeq := seqAfter seq parts.length } := by
  induction parts with
  | nil =>
    intro sk w h acc seq hp hf hs hlt
    simp [skRunR, fdatChunks, seqAfter, ← hp, ← hs, Nat.mod_eq_of_lt (hs ▸ hlt)]
  | cons p ps ih =>
    intro sk w h acc seq hp hf hs hlt
    simp only [fdatChunks, skRunR, summarize_fdat _ _ hlt, skStep, hp, stepFdat, hf, hs]
    simp only [reduceCtorEq, if_false, ne_eq, not_true_eq_false]
    rw [ih { sk with nextSeq := (seq + 1) % 2 ^ 32, phase := .fdat w h (acc ++ p) } w h (acc ++ p) ((seq + 1) % 2 ^ 32) rfl hf rfl (Nat.mod_lt _ (by decide))]
    simp [seqAfter]
    omega



/-! ## Part 4b: the invariant -/

/-- number of images the configuration declares -/
def declared (s : WState) : Nat :=
  match s.actl with
  | none => 1
  | some (n, _) => n + (if s.sepDefImg then 1 else 0)

/-- the automaton state that corresponds to a writer state, up to the three components the
    writer does not store -/
def absSk (s : WState) (seq fctls : Nat) (ph : Phase) : Sk :=
  { cw := s.width, ch := s.height, color := s.color, plte := s.hasPalette, frames := s.actl.map (·.1),
    pending := none, nextSeq := seq, fctls := fctls, phase := ph }

def closed : Phase → Phase
  | .idat _ => .mid
  | .fdat .. => .mid
  | p => p

def RectOk (s : WState) (f : FC) : Prop := 0 < f.w ∧ 0 < f.h ∧ f.x + f.w ≤ s.width ∧ f.y + f.h ≤ s.height

/-- contract of the whole-image back-end for one colour type / depth: never empty, and the image rule
    accepts its output for data of the right length -/
def Codec.Ok (imgOk : ImgRule) (E : Codec) (color depth : Nat) : Prop :=
  ∀ w h data, data.length = (rawRowLengthFromWidth color depth w - 1) * h →
    E.encode (bytesPerPixel color depth) (rawRowLengthFromWidth color depth w - 1) h data ≠ [] ∧
    imgOk w h (E.encode (bytesPerPixel color depth) (rawRowLengthFromWidth color depth w - 1) h data) = .ok ()

/-- the IHDR chunk, a function of fields that never change -/
def ihdrOf (s : WState) : RChunk :=
  ⟨tyIHDR, be32Bytes s.width ++ be32Bytes s.height ++ [s.depth.toUInt8, s.color.toUInt8, 0, 0, 0]⟩

structure Inv (imgOk : ImgRule) (s : WState) (seq fctls : Nat) (ph : Phase) : Prop where
  good : s.sink.good
  iend : s.iendWritten = false
  run : ∃ rest, s.sink.chunks = ihdrOf s :: rest ∧
    skRunR imgOk { cw := s.width, ch := s.height, color := s.color } rest = .ok (absSk s seq fctls ph)
  phPre : s.imagesWritten = 0 ↔ ph = .pre
  phDone : ph ≠ .done
  openI : ∀ acc, ph = .idat acc → imgOk s.width s.height acc = .ok ()
  openF : ∀ w h acc, ph = .fdat w h acc → imgOk w h acc = .ok ()
  dims : s.width < 2 ^ 32 ∧ s.height < 2 ^ 32
  valid : 0 < s.width ∧ 0 < s.height ∧ colorOk s.color = true ∧ depthOk s.depth = true
  actlR : ∀ n p, s.actl = some (n, p) → n < 2 ^ 32
  actlP : ∀ n p, s.actl = some (n, p) → 0 < n
  noActl : s.actl = none → s.fctl = none
  cnt : s.imagesWritten ≤ declared s
  fc : ∀ f, s.fctl = some f →
    f.inRange ∧ seq = f.seq ∧ RectOk s f ∧ fctls = s.animWritten ∧
    (∃ n p, s.actl = some (n, p) ∧ s.animWritten < n) ∧
    s.imagesWritten = s.animWritten + (if s.sepDefImg = true ∧ s.imagesWritten ≠ 0 then 1 else 0)
  fin : s.fctl = none → ∀ n p, s.actl = some (n, p) → fctls = n ∧ declared s ≤ s.imagesWritten

theorem closeRun_abs {imgOk : ImgRule} {s : WState} {seq fctls : Nat} {ph : Phase}
    (hI : ∀ acc, ph = .idat acc → imgOk s.width s.height acc = .ok ())
    (hF : ∀ w h acc, ph = .fdat w h acc → imgOk w h acc = .ok ()) :
    closeRun imgOk (absSk s seq fctls ph) = .ok (absSk s seq fctls (closed ph)) := by
  cases ph with
  | idat acc => simp [closeRun, absSk, closed, hI acc rfl]
  | fdat w h acc => simp [closeRun, absSk, closed, hF w h acc rfl]
  | pre => rfl
  | mid => rfl
  | done => rfl

theorem closed_pre_iff (ph : Phase) : closed ph = .pre ↔ ph = .pre := by
  cases ph <;> simp [closed]

theorem closed_ne_done {ph : Phase} (h : ph ≠ .done) : closed ph ≠ .done := by
  cases ph <;> simp_all [closed]

/-- the writer state with the sink replaced -/
theorem WState.emit_good {s : WState} (h : s.sink.good) (cs : List RChunk) :
    (s.emit cs).2 = true ∧ (s.emit cs).1 = { s with sink := (s.sink.emitChunks cs).1 } ∧
    (s.emit cs).1.sink.good ∧ (s.emit cs).1.sink.chunks = s.sink.chunks ++ cs := by
  obtain ⟨h1, h2, h3, _⟩ := Sink.emitChunks_good cs h
  simp only [WState.emit]
  exact ⟨h1, trivial, h2, h3⟩

/-- emitting one chunk that the automaton treats as "other ancillary" keeps the invariant -/
theorem Inv.emit_other {imgOk : ImgRule} {s : WState} {seq fctls : Nat} {ph : Phase}
    (inv : Inv imgOk s seq fctls ph) (c : RChunk) (hs : c.ty ∉ specialTypes)
    (hc : tyCritical c.ty = false) (hr : tyReservedOk c.ty = true) :
    (s.emit [c]).2 = true ∧ Inv imgOk (s.emit [c]).1 seq fctls (closed ph) := by
  obtain ⟨h1, h2, h3, h4⟩ := WState.emit_good inv.good [c]
  refine ⟨h1, ?_⟩
  rw [h2] at h3 h4 ⊢
  obtain ⟨rest, hch, hrun⟩ := inv.run
  have hstep : skRunR imgOk (absSk s seq fctls ph) [c] = .ok (absSk s seq fctls (closed ph)) := by
    simp only [skRunR, summarize_other c hs, skStep, stepOther, closeRun_abs inv.openI inv.openF, hc, hr]
    have : (absSk s seq fctls ph).phase ≠ .done := inv.phDone
    simp [this]
  exact {
    good := h3
    iend := inv.iend
    run := ⟨rest ++ [c], by rw [h4, hch]; rfl, skRunR_append_ok hrun hstep⟩
    phPre := by rw [closed_pre_iff]; exact inv.phPre
    phDone := closed_ne_done inv.phDone
    openI := by intro acc h; cases ph <;> simp [closed] at h
    openF := by intro w h acc hh; cases ph <;> simp [closed] at hh
    dims := inv.dims
    valid := inv.valid
    actlR := inv.actlR
    actlP := inv.actlP
    noActl := inv.noActl
    cnt := inv.cnt
    fc := inv.fc
    fin := inv.fin }



theorem Inv.setFctl {imgOk : ImgRule} {s : WState} {seq fctls : Nat} {ph : Phase}
    (inv : Inv imgOk s seq fctls ph) {f f' : FC} (hf : s.fctl = some f) (hseq : f'.seq = f.seq)
    (hr : f'.inRange) (hrect : RectOk s f') :
    Inv imgOk { s with fctl := some f' } seq fctls ph := by
  obtain ⟨h1, h2, h3, h4, h5, h6⟩ := inv.fc f hf
  exact {
    good := inv.good
    iend := inv.iend
    run := inv.run
    phPre := inv.phPre
    phDone := inv.phDone
    openI := inv.openI
    openF := inv.openF
    dims := inv.dims
    valid := inv.valid
    actlR := inv.actlR
    actlP := inv.actlP
    noActl := fun h => by have := inv.noActl h; simp [hf] at this
    cnt := inv.cnt
    fc := by
      intro g hg
      simp only [Option.some.injEq] at hg
      subst hg
      exact ⟨hr, by rw [hseq]; exact h2, hrect, h4, h5, h6⟩
    fin := by intro h; simp at h }

def textTypes : List Ty := [tyTEXT, tyZTXT, tyITXT]

/-- type invariants of the arguments (`u16` delays, enum discriminants, slices no longer than `isize::MAX`) and the chunk types the
    property allows for pass-through chunks -/
def Op.inRange : Op → Prop
  | .setDelay n d => n < 2 ^ 16 ∧ d < 2 ^ 16
  | .setBlend b => b ≤ 1
  | .setDispose d => d ≤ 2
  | .chunk ty _ => ty ∉ specialTypes ∧ tyCritical ty = false ∧ tyReservedOk ty = true
  | .image d => d.length < 2 ^ 63
  | .text (some c) => c.ty ∈ textTypes
  | _ => True

instance (o : Op) : Decidable o.inRange := by
  cases o <;> simp only [Op.inRange] <;> try infer_instance
  rename_i b; cases b <;> simp only [Op.inRange] <;> infer_instance

theorem gtCheckedSub_false {a b c : Nat} (h : gtCheckedSub a b c = false) : c ≤ b ∧ a ≤ b - c := by
  unfold gtCheckedSub at h
  split at h
  · simp at h; omega
  · simp at h

/-- frame setters keep the invariant (at any time: a first image with another rectangle is refused later) -/
theorem Inv.setter {imgOk : ImgRule} {E : Codec} {s : WState} {seq fctls : Nat} {ph : Phase}
    (inv : Inv imgOk s seq fctls ph) (op : Op) (hr : op.inRange)
    (hk : ∀ d, op ≠ .image d) (hc : ∀ t d, op ≠ .chunk t d) (ht : ∀ b, op ≠ .text b) :
    Inv imgOk (writerStep E s op).1 seq fctls ph ∧ (writerStep E s op).2.isPanic = false := by
  cases hf : s.fctl with
  | none =>
    cases op <;> simp_all [writerStep, setFrameDelay, setFrameDimension, setFramePosition, resetFrameDimension,
      resetFramePosition, setBlendOp, setDisposeOp, withFctl, Res.isPanic]
  | some f =>
    obtain ⟨⟨r1, r2, r3, r4, r5, r6, r7, r8, r9⟩, h2, ⟨q1, q2, q3, q4⟩, h4, h5, h6⟩ := inv.fc f hf
    have hd := inv.dims
    cases op with
    | image d => exact absurd rfl (hk d)
    | chunk t d => exact absurd rfl (hc t d)
    | text b => exact absurd rfl (ht b)
    | setDelay n d =>
      simp only [writerStep, setFrameDelay, withFctl, hf, Res.isPanic, and_true]
      exact inv.setFctl hf rfl ⟨r1, r2, r3, r4, r5, hr.1, hr.2, r8, r9⟩ ⟨q1, q2, q3, q4⟩
    | setBlend b =>
      simp only [writerStep, setBlendOp, withFctl, hf, Res.isPanic, and_true]
      exact inv.setFctl hf rfl ⟨r1, r2, r3, r4, r5, r6, r7, r8, hr⟩ ⟨q1, q2, q3, q4⟩
    | setDispose d =>
      simp only [writerStep, setDisposeOp, withFctl, hf, Res.isPanic, and_true]
      exact inv.setFctl hf rfl ⟨r1, r2, r3, r4, r5, r6, r7, hr, r9⟩ ⟨q1, q2, q3, q4⟩
    | setDim w h =>
      simp only [writerStep, setFrameDimension, withFctl, hf]
      cases hg : (gtCheckedSub w s.width f.x || gtCheckedSub h s.height f.y) with
      | true => simp [Res.isPanic]; exact inv
      | false =>
        simp only [Bool.or_eq_false_iff] at hg
        obtain ⟨a1, a2⟩ := gtCheckedSub_false hg.1
        obtain ⟨b1, b2⟩ := gtCheckedSub_false hg.2
        by_cases hw : w = 0
        · simp [hw, Res.isPanic]; exact inv
        · by_cases hh : h = 0
          · simp [hw, hh, Res.isPanic]; exact inv
          · simp only [Bool.false_eq_true, if_false, hw, hh, Res.isPanic, and_true]
            refine inv.setFctl hf rfl ⟨r1, by dsimp only; omega, by dsimp only; omega, r4, r5, r6, r7, r8, r9⟩ ⟨by dsimp only; omega, by dsimp only; omega, by dsimp only; omega, by dsimp only; omega⟩
    | setPos x y =>
      simp only [writerStep, setFramePosition, withFctl, hf]
      cases hg : (gtCheckedSub x s.width f.w || gtCheckedSub y s.height f.h) with
      | true => simp [Res.isPanic]; exact inv
      | false =>
        simp only [Bool.or_eq_false_iff] at hg
        obtain ⟨a1, a2⟩ := gtCheckedSub_false hg.1
        obtain ⟨b1, b2⟩ := gtCheckedSub_false hg.2
        simp only [Bool.false_eq_true, if_false, Res.isPanic, and_true]
        refine inv.setFctl hf rfl ⟨r1, r2, r3, by dsimp only; omega, by dsimp only; omega, r6, r7, r8, r9⟩ ⟨q1, q2, by dsimp only; omega, by dsimp only; omega⟩
    | resetDim =>
      simp only [writerStep, resetFrameDimension, withFctl, hf]
      have : ¬ (s.width < f.x ∨ s.height < f.y) := by omega
      simp only [this, if_false, Res.isPanic, and_true]
      refine inv.setFctl hf rfl ⟨r1, by dsimp only; omega, by dsimp only; omega, r4, r5, r6, r7, r8, r9⟩ ⟨by dsimp only; omega, by dsimp only; omega, by dsimp only; omega, by dsimp only; omega⟩
    | resetPos =>
      simp only [writerStep, resetFramePosition, withFctl, hf, Res.isPanic, and_true]
      refine inv.setFctl hf rfl ⟨r1, r2, r3, by dsimp only; omega, by dsimp only; omega, r6, r7, r8, r9⟩ ⟨q1, q2, by dsimp only; omega, by dsimp only; omega⟩



theorem textTypes_not_special {t : Ty} (h : t ∈ textTypes) :
    t ∉ specialTypes ∧ tyCritical t = false ∧ tyReservedOk t = true := by
  simp only [textTypes, List.mem_cons, List.not_mem_nil, or_false] at h
  rcases h with h | h | h <;> subst h <;> decide

/-- raw chunks and text chunks -/
theorem Inv.passThrough {imgOk : ImgRule} {E : Codec} {s : WState} {seq fctls : Nat} {ph : Phase}
    (inv : Inv imgOk s seq fctls ph) (op : Op) (hr : op.inRange)
    (hop : (∃ t d, op = .chunk t d) ∨ (∃ b, op = .text b)) :
    ∃ ph', Inv imgOk (writerStep E s op).1 seq fctls ph' ∧ (writerStep E s op).2.isPanic = false := by
  rcases hop with ⟨t, d, rfl⟩ | ⟨b, rfl⟩
  · simp only [writerStep, writeChunk]
    by_cases hl : d.length > 2 ^ 31 - 1
    · simp only [hl, if_true, Res.isPanic]; exact ⟨ph, inv, trivial⟩
    · simp only [hl, if_false]
      obtain ⟨h1, h2⟩ := inv.emit_other ⟨t, d⟩ hr.1 hr.2.1 hr.2.2
      refine ⟨closed ph, ?_⟩
      cases hm : s.emit [⟨t, d⟩] with
      | mk s' ok =>
        rw [hm] at h1 h2
        simp only at h1 h2
        subst h1
        exact ⟨h2, rfl⟩
  · cases b with
    | none => simp only [writerStep, writeTextChunk, Res.isPanic]; exact ⟨ph, inv, trivial⟩
    | some c =>
      simp only [writerStep, writeTextChunk]
      obtain ⟨a1, a2, a3⟩ := textTypes_not_special hr
      obtain ⟨h1, h2⟩ := inv.emit_other c a1 a2 a3
      refine ⟨closed ph, ?_⟩
      cases hm : s.emit [c] with
      | mk s' ok =>
        rw [hm] at h1 h2
        simp only at h1 h2
        subst h1
        exact ⟨h2, rfl⟩



theorem inLen_pos {color depth w : Nat} (hc : colorOk color = true) (hd : depthOk depth = true) (hw : 0 < w) :
    0 < rawRowLengthFromWidth color depth w - 1 := by
  have hs : 0 < samplesOf color := by
    simp only [colorOk, Bool.or_eq_true, beq_iff_eq] at hc
    rcases hc with (((h | h) | h) | h) | h <;> subst h <;> decide
  have hws : 0 < w * samplesOf color := Nat.mul_pos hw hs
  simp only [depthOk, Bool.or_eq_true, beq_iff_eq] at hd
  unfold rawRowLengthFromWidth
  generalize w * samplesOf color = n at hws
  rcases hd with (((h | h) | h) | h) | h <;> subst h <;> simp <;> (try split) <;> omega

/-! ### what the automaton does on the chunk groups the writer emits -/

/-- IDAT chunks of a first image that has no fcTL (any split of the stream into non-zero many chunks) -/
theorem run_idats_pre (imgOk : ImgRule) (s : WState) (seq fctls : Nat) (parts : List Bytes) (hne : parts ≠ [])
    (hp : ¬ (s.color = 3 ∧ s.hasPalette = false)) :
    skRunR imgOk (absSk s seq fctls .pre) (parts.map mkIdat) = .ok (absSk s seq fctls (.idat parts.flatten)) := by
  cases parts with
  | nil => exact absurd rfl hne
  | cons p ps =>
    simp only [List.map_cons, skRunR, summarize_idat, skStep, stepIdat, absSk]
    simp only [reduceCtorEq, if_false, hp]
    rw [skRunR_idats imgOk ps _ p rfl]
    simp

/-- IDAT chunks of a first image announced by an fcTL that covers the canvas -/
theorem run_idats_pending (imgOk : ImgRule) (s : WState) (seq fctls : Nat) (parts : List Bytes) (hne : parts ≠ [])
    (hp : ¬ (s.color = 3 ∧ s.hasPalette = false)) (f : FC)
    (hc : f.x = 0 ∧ f.y = 0 ∧ f.w = s.width ∧ f.h = s.height) :
    skRunR imgOk { absSk s seq fctls .pre with pending := some f.toFctl } (parts.map mkIdat)
      = .ok (absSk s seq fctls (.idat parts.flatten)) := by
  obtain ⟨c1, c2, c3, c4⟩ := hc
  cases parts with
  | nil => exact absurd rfl hne
  | cons p ps =>
    simp only [List.map_cons, skRunR, summarize_idat, skStep, stepIdat, absSk]
    simp only [reduceCtorEq, if_false, hp, coversCanvas, FC.toFctl, c1, c2, c3, c4, beq_self_eq_true, Bool.and_self, if_true]
    rw [skRunR_idats imgOk ps _ p rfl]
    simp

/-- an fcTL: closes the current run of data chunks, becomes the pending frame control -/
theorem run_fctl (imgOk : ImgRule) (s : WState) (seq fctls : Nat) (ph : Phase) (f : FC)
    (hd : ph ≠ .done)
    (hI : ∀ acc, ph = .idat acc → imgOk s.width s.height acc = .ok ())
    (hF : ∀ w h acc, ph = .fdat w h acc → imgOk w h acc = .ok ())
    (ha : s.actl ≠ none) (hr : f.inRange) (hs : f.seq = seq) (hrect : RectOk s f) :
    skRunR imgOk (absSk s seq fctls ph) [mkFctl f] =
      .ok { absSk s ((seq + 1) % 2 ^ 32) (fctls + 1) (closed ph) with pending := some f.toFctl } := by
  obtain ⟨q1, q2, q3, q4⟩ := hrect
  have hfr : (s.actl.map (·.1)) ≠ none := by cases h : s.actl <;> simp_all
  have hfo : fctlFieldsOk (absSk s seq fctls (closed ph)) f.toFctl = .ok () := by
    obtain ⟨_, _, _, _, _, _, _, r8, r9⟩ := hr
    simp only [fctlFieldsOk, FC.toFctl, absSk]
    have e1 : ¬ (f.w = 0 ∨ f.h = 0) := by omega
    have e2 : ¬ (f.x + f.w > s.width ∨ f.y + f.h > s.height) := by omega
    have e3 : ¬ f.dispose > 2 := by omega
    have e4 : ¬ f.blend > 1 := by omega
    simp [e1, e2, e3, e4]
  have hnd : (absSk s seq fctls ph).phase ≠ .done := hd
  simp only [skRunR, summarize_fctl f hr, skStep, hnd, if_false, stepFctl, closeRun_abs hI hF, hfo]
  simp [absSk, hfr, FC.toFctl, hs]

/-- the fdAT chunks of a frame whose fcTL is pending (any split into non-zero many chunks) -/
theorem run_fdats (imgOk : ImgRule) (s : WState) (seq fctls : Nat) (f : FC) (parts : List Bytes) (hne : parts ≠ [])
    (ha : s.actl ≠ none) (hseq : seq < 2 ^ 32) :
    skRunR imgOk { absSk s seq fctls .mid with pending := some f.toFctl } (fdatChunks seq parts).1 =
      .ok (absSk s (seqAfter seq parts.length) fctls (.fdat f.w f.h parts.flatten)) := by
  have hfr : (s.actl.map (·.1)) ≠ none := by cases h : s.actl <;> simp_all
  cases parts with
  | nil => exact absurd rfl hne
  | cons p ps =>
    simp only [fdatChunks, skRunR, summarize_fdat _ _ hseq, skStep, stepFdat, absSk, closeRun]
    simp only [reduceCtorEq, if_false, hfr, ne_eq, not_true_eq_false]
    rw [skRunR_fdats imgOk ps _ f.toFctl.width f.toFctl.height p ((seq + 1) % 2 ^ 32) rfl hfr rfl (Nat.mod_lt _ (by decide))]
    simp only [FC.toFctl, seqAfter, List.length_cons]
    simp
    omega

/-- the fields that never change after `write_header` -/
def StaticEq (s s' : WState) : Prop :=
  s'.width = s.width ∧ s'.height = s.height ∧ s'.color = s.color ∧ s'.depth = s.depth ∧ s'.actl = s.actl ∧
  s'.hasPalette = s.hasPalette ∧ s'.sepDefImg = s.sepDefImg ∧ s'.validate = s.validate

theorem StaticEq.refl (s : WState) : StaticEq s s := ⟨rfl, rfl, rfl, rfl, rfl, rfl, rfl, rfl⟩

theorem StaticEq.trans {a b c : WState} (h1 : StaticEq a b) (h2 : StaticEq b c) : StaticEq a c := by
  obtain ⟨a1, a2, a3, a4, a5, a6, a7, a8⟩ := h1
  obtain ⟨b1, b2, b3, b4, b5, b6, b7, b8⟩ := h2
  exact ⟨b1.trans a1, b2.trans a2, b3.trans a3, b4.trans a4, b5.trans a5, b6.trans a6, b7.trans a7, b8.trans a8⟩

theorem absSk_static {s s' : WState} (h : StaticEq s s') (seq fctls : Nat) (ph : Phase) :
    absSk s' seq fctls ph = absSk s seq fctls ph := by
  obtain ⟨a1, a2, a3, _, a5, a6, _, _⟩ := h
  simp [absSk, a1, a2, a3, a5, a6]

theorem declared_static {s s' : WState} (h : StaticEq s s') : declared s' = declared s := by
  obtain ⟨_, _, _, _, a5, _, a7, _⟩ := h
  simp [declared, a5, a7]

/-- re-establishing the invariant after the writer has appended the chunks `cs` -/
theorem Inv.extend {imgOk : ImgRule} {s : WState} {seq fctls : Nat} {ph : Phase}
    (inv : Inv imgOk s seq fctls ph) (s' : WState) (seq' fctls' : Nat) (ph' : Phase)
    (hst : StaticEq s s') (hgood : s'.sink.good) (hiend : s'.iendWritten = false)
    (cs : List RChunk) (hch : s'.sink.chunks = s.sink.chunks ++ cs)
    (hrun : skRunR imgOk (absSk s seq fctls ph) cs = .ok (absSk s seq' fctls' ph'))
    (phPre : s'.imagesWritten = 0 ↔ ph' = .pre) (phDone : ph' ≠ .done)
    (openI : ∀ acc, ph' = .idat acc → imgOk s.width s.height acc = .ok ())
    (openF : ∀ w h acc, ph' = .fdat w h acc → imgOk w h acc = .ok ())
    (noActl : s.actl = none → s'.fctl = none)
    (cnt : s'.imagesWritten ≤ declared s)
    (fc : ∀ f, s'.fctl = some f →
      f.inRange ∧ seq' = f.seq ∧ RectOk s f ∧ fctls' = s'.animWritten ∧
      (∃ n p, s.actl = some (n, p) ∧ s'.animWritten < n) ∧
      s'.imagesWritten = s'.animWritten + (if s.sepDefImg = true ∧ s'.imagesWritten ≠ 0 then 1 else 0))
    (fin : s'.fctl = none → ∀ n p, s.actl = some (n, p) → fctls' = n ∧ declared s ≤ s'.imagesWritten) :
    Inv imgOk s' seq' fctls' ph' := by
  have hd := declared_static hst
  obtain ⟨a1, a2, a3, a4, a5, a6, a7, a8⟩ := hst
  obtain ⟨rest, hc0, hr0⟩ := inv.run
  exact {
    good := hgood
    iend := hiend
    run := ⟨rest ++ cs, by rw [hch, hc0]; simp [ihdrOf, a1, a2, a3, a4], by
      rw [a1, a2, a3, absSk_static ⟨a1, a2, a3, a4, a5, a6, a7, a8⟩]
      exact skRunR_append_ok hr0 hrun⟩
    phPre := phPre
    phDone := phDone
    openI := by rw [a1, a2]; exact openI
    openF := openF
    dims := by rw [a1, a2]; exact inv.dims
    valid := by rw [a1, a2, a3, a4]; exact inv.valid
    actlR := by rw [a5]; exact inv.actlR
    actlP := by rw [a5]; exact inv.actlP
    noActl := by rw [a5]; exact noActl
    cnt := by rw [hd]; exact cnt
    fc := by
      intro f hf
      obtain ⟨h1, h2, h3, h4, h5, h6⟩ := fc f hf
      refine ⟨h1, h2, ?_, h4, by rw [a5]; exact h5, by rw [a7]; exact h6⟩
      simpa [RectOk, a1, a2] using h3
    fin := by rw [a5, hd]; exact fin }



theorem WState.emit_good' {s : WState} (h : s.sink.good) (cs : List RChunk) :
    ∃ k, s.emit cs = ({ s with sink := k }, true) ∧ k.good ∧ k.chunks = s.sink.chunks ++ cs := by
  obtain ⟨h1, h2, h3, _⟩ := Sink.emitChunks_good cs h
  refine ⟨(s.sink.emitChunks cs).1, ?_, h2, h3⟩
  simp only [WState.emit]
  cases hh : s.sink.emitChunks cs with
  | mk k ok => rw [hh] at h1; simp only at h1; subst h1; rfl

/-- what a successful `imageChecks` established -/
theorem imageChecks_ok {s : WState} {d : Bytes} {il h : Nat} (hc : imageChecks s d = .ok (il, h))
    (hr : d.length < 2 ^ 63) :
    ¬ (s.color = 3 ∧ s.hasPalette = false) ∧ validateNewImage s = none ∧
    il = inLenOf s (nextDims s).1 ∧ h = (nextDims s).2 ∧ d.length = il * h ∧ il ≠ 0 ∧
    validateFirstImageRect s = none := by
  unfold imageChecks at hc
  by_cases hp : s.color = 3 ∧ s.hasPalette = false
  · simp [hp] at hc
  · simp only [hp, if_false] at hc
    cases hv : validateNewImage s with
    | some e => simp [hv] at hc
    | none =>
    cases hv2 : validateFirstImageRect s with
    | some e => simp [hv, hv2] at hc
    | none =>
      simp only [hv, hv2] at hc
      by_cases hlt : inLenOf s (nextDims s).1 * (nextDims s).2 < 2 ^ 64
      · simp only [hlt, if_true] at hc
        by_cases hne : inLenOf s (nextDims s).1 * (nextDims s).2 ≠ d.length
        · simp [hne] at hc
        · simp only [hne, if_false] at hc
          by_cases h0 : inLenOf s (nextDims s).1 = 0
          · simp [h0] at hc
          · simp only [h0, if_false, Except.ok.injEq, Prod.mk.injEq] at hc
            obtain ⟨rfl, rfl⟩ := hc
            exact ⟨hp, rfl, rfl, rfl, by omega, h0, rfl⟩
      · simp only [hlt, if_false] at hc
        have : (2 ^ 64 - 1 : Nat) ≠ d.length := by omega
        simp [this] at hc

/-- a failed `imageChecks` is an error, not a panic, when the frame is non-empty -/
theorem imageChecks_error {s : WState} {d : Bytes} {r : Res} (hc : imageChecks s d = .error r)
    (hpos : 0 < inLenOf s (nextDims s).1) : r.isPanic = false := by
  unfold imageChecks at hc
  by_cases hp : s.color = 3 ∧ s.hasPalette = false
  · rw [if_pos hp] at hc; simp only [Except.error.injEq] at hc; subst hc; rfl
  · rw [if_neg hp] at hc
    cases hv : validateNewImage s with
    | some e => simp only [hv, Except.error.injEq] at hc; subst hc; rfl
    | none =>
    cases hv2 : validateFirstImageRect s with
    | some e => simp only [hv, hv2, Except.error.injEq] at hc; subst hc; rfl
    | none =>
      simp only [hv, hv2] at hc
      have h0 : ¬ inLenOf s (nextDims s).1 = 0 := by omega
      rw [if_neg h0] at hc
      by_cases hne : (if inLenOf s (nextDims s).1 * (nextDims s).2 < 2 ^ 64 then inLenOf s (nextDims s).1 * (nextDims s).2 else 2 ^ 64 - 1) ≠ d.length
      · rw [if_pos hne] at hc; simp only [Except.error.injEq] at hc; subst hc; rfl
      · rw [if_neg hne] at hc; cases hc

theorem incr_none {s : WState} (h : s.actl = none) :
    incrementImagesWritten s = { s with imagesWritten := min (s.imagesWritten + 1) (2 ^ 64 - 1) } := by
  simp [incrementImagesWritten, h]

theorem incr_some {s : WState} {n p : Nat} (h : s.actl = some (n, p)) :
    incrementImagesWritten s =
      if n ≤ s.animWritten then { s with imagesWritten := min (s.imagesWritten + 1) (2 ^ 64 - 1), fctl := none }
      else { s with imagesWritten := min (s.imagesWritten + 1) (2 ^ 64 - 1) } := by
  simp [incrementImagesWritten, h]



theorem declared_le (s : WState) (h : ∀ n p, s.actl = some (n, p) → n < 2 ^ 32) : declared s ≤ 2 ^ 32 := by
  unfold declared
  cases ha : s.actl with
  | none => simp
  | some a => obtain ⟨n, p⟩ := a; have := h n p ha; simp only; split <;> omega

theorem opt_cases {α : Type} (o : Option α) : o = none ∨ ∃ a, o = some a := by
  cases o <;> simp

/-- the IDAT image of a writer that has written nothing yet -/
theorem Inv.idatImage {imgOk : ImgRule} {s : WState} {seq fctls : Nat}
    (inv : Inv imgOk s seq fctls .pre) (parts : List Bytes) (hz : parts ≠ [])
    (hp : ¬ (s.color = 3 ∧ s.hasPalette = false)) (hok : imgOk s.width s.height parts.flatten = .ok ())
    (hskip : ∀ f, s.fctl = some f → s.sepDefImg = true) (hlt : s.imagesWritten < declared s) :
    (emitIdatImage s parts).2 = .ok ∧ Inv imgOk (emitIdatImage s parts).1 seq fctls (.idat parts.flatten) := by
  obtain ⟨k, hk, hkg, hkc⟩ := WState.emit_good' inv.good (parts.map mkIdat)
  have h0 : s.imagesWritten = 0 := inv.phPre.mpr rfl
  simp only [emitIdatImage, hk]
  refine ⟨trivial, ?_⟩
  have hrun := run_idats_pre imgOk s seq fctls parts hz hp
  rcases opt_cases s.actl with ha | ⟨⟨n, p⟩, ha⟩
  · rw [incr_none (s := { s with sink := k }) ha]
    have hfn := inv.noActl ha
    refine inv.extend _ seq fctls (.idat parts.flatten) (StaticEq.refl s) hkg inv.iend _ hkc hrun ?_ (by simp) ?_ (by simp) ?_ ?_ ?_ ?_
    · simp [h0]
    · intro acc h; cases h; exact hok
    · intro _; exact hfn
    · simp [h0, declared, ha]
    · intro f hf; simp [hfn] at hf
    · intro _ n p h; simp [ha] at h
  · rw [incr_some (s := { s with sink := k }) ha]
    rcases opt_cases s.fctl with hf | ⟨f, hf⟩
    · -- all frames written, yet nothing written: impossible
      have := (inv.fin hf n p ha).2
      omega
    ·
      obtain ⟨h1, h2, h3, h4, ⟨n', p', hn', hlt'⟩, h6⟩ := inv.fc f hf
      rw [ha] at hn'; simp only [Option.some.injEq, Prod.mk.injEq] at hn'; obtain ⟨rfl, rfl⟩ := hn'
      have hsep := hskip f hf
      have hnle : ¬ n ≤ s.animWritten := by omega
      simp only [hnle, if_false]
      have haw : s.animWritten = 0 := by simp [h0] at h6; omega
      refine inv.extend _ seq fctls (.idat parts.flatten) (StaticEq.refl s) hkg inv.iend _ hkc hrun ?_ (by simp) ?_ (by simp) ?_ ?_ ?_ ?_
      · simp [h0]
      · intro acc h; cases h; exact hok
      · intro h; simp [ha] at h
      · simp [h0, declared, ha, hsep]
      · intro g hg
        simp only [hf, Option.some.injEq] at hg; subst hg
        refine ⟨h1, h2, h3, h4, ⟨n, p, ha, hlt'⟩, ?_⟩
        simp [h0, haw, hsep]
      · intro h; simp [hf] at h



theorem closed_of_written {ph : Phase} (h1 : ph ≠ .pre) (h2 : ph ≠ .done) : closed ph = .mid := by
  cases ph <;> simp_all [closed]

/-- an animation frame: fcTL, then IDAT (first image) or fdAT chunks -/
theorem Inv.frame {imgOk : ImgRule} {s : WState} {seq fctls : Nat} {ph : Phase}
    (inv : Inv imgOk s seq fctls ph) (f : FC) (hf : s.fctl = some f) (pi pf : List Bytes)
    (hzi : pi ≠ []) (hzf : pf ≠ [])
    (hp : ¬ (s.color = 3 ∧ s.hasPalette = false))
    (hoki : imgOk f.w f.h pi.flatten = .ok ()) (hokf : imgOk f.w f.h pf.flatten = .ok ())
    (hns : skipFctlOnDefault s = false)
    (h7 : s.imagesWritten = 0 → f.x = 0 ∧ f.y = 0 ∧ f.w = s.width ∧ f.h = s.height) :
    ∃ seq' fctls' ph', (emitFrame s f pi pf).2 = .ok ∧ Inv imgOk (emitFrame s f pi pf).1 seq' fctls' ph' := by
  obtain ⟨h1, h2, h3, h4, ⟨n, p, ha, hlt⟩, h6⟩ := inv.fc f hf
  subst h2
  have hn32 := inv.actlR n p ha
  have hane : s.actl ≠ none := by simp [ha]
  obtain ⟨k, hk, hkg, hkc⟩ := WState.emit_good' inv.good [mkFctl f]
  have hrf := run_fctl imgOk s f.seq fctls ph f inv.phDone inv.openI inv.openF hane h1 rfl h3
  have hov : ¬ (s.animWritten + 1 ≥ 2 ^ 32) := by omega
  have hseq1 : (f.seq + 1) % 2 ^ 32 < 2 ^ 32 := Nat.mod_lt _ (by decide)
  have hr1 : ({ f with seq := (f.seq + 1) % 2 ^ 32 } : FC).inRange := by
    obtain ⟨_, r2, r3, r4, r5, r6, r7, r8, r9⟩ := h1
    exact ⟨hseq1, r2, r3, r4, r5, r6, r7, r8, r9⟩
  simp only [emitFrame, hk, hov, if_false]
  by_cases h0 : s.imagesWritten = 0
  · -- first image: IDAT
    have hsep : s.sepDefImg = false := by
      simp only [skipFctlOnDefault, h0, beq_self_eq_true, Bool.and_true] at hns; exact hns
    have haw : s.animWritten = 0 := by simp [h0] at h6; omega
    have hph : ph = .pre := inv.phPre.mp h0
    subst hph
    rw [if_pos (show _ = 0 from h0)]
    obtain ⟨k2, hk2, hk2g, hk2c⟩ := WState.emit_good' (s := { s with sink := k, fctl := some { f with seq := (f.seq + 1) % 2 ^ 32 }, animWritten := s.animWritten + 1 }) hkg (pi.map mkIdat)
    simp only [emitIdatImage, hk2]
    have hri := run_idats_pending imgOk s ((f.seq + 1) % 2 ^ 32) (fctls + 1) pi hzi hp f (h7 h0)
    have hrun : skRunR imgOk (absSk s f.seq fctls .pre) ([mkFctl f] ++ pi.map mkIdat) =
        .ok (absSk s ((f.seq + 1) % 2 ^ 32) (fctls + 1) (.idat pi.flatten)) := skRunR_append_ok hrf hri
    have hchunks : k2.chunks = s.sink.chunks ++ ([mkFctl f] ++ pi.map mkIdat) := by
      rw [hk2c]; simp only; rw [hkc]; simp
    obtain ⟨c1, c2, c3, c4⟩ := h7 h0
    refine ⟨(f.seq + 1) % 2 ^ 32, fctls + 1, .idat pi.flatten, trivial, ?_⟩
    rw [incr_some (s := { s with sink := k2, fctl := some { f with seq := (f.seq + 1) % 2 ^ 32 }, animWritten := s.animWritten + 1 }) ha]
    by_cases hle : n ≤ s.animWritten + 1
    · simp only [hle, if_true]
      refine inv.extend _ _ _ _ (StaticEq.refl s) hk2g inv.iend _ hchunks hrun ?_ (by simp) ?_ (by simp) ?_ ?_ ?_ ?_
      · simp [h0]
      · intro acc h; cases h; rw [← c3, ← c4]; exact hoki
      · intro h; rfl
      · simp [h0, declared, ha]; omega
      · intro g hg; simp at hg
      · intro _ n' p' h'
        rw [ha] at h'; simp only [Option.some.injEq, Prod.mk.injEq] at h'; obtain ⟨rfl, rfl⟩ := h'
        simp only [declared, ha, hsep, h0]
        constructor
        · omega
        · simp; omega
    · simp only [hle, if_false]
      refine inv.extend _ _ _ _ (StaticEq.refl s) hk2g inv.iend _ hchunks hrun ?_ (by simp) ?_ (by simp) ?_ ?_ ?_ ?_
      · simp [h0]
      · intro acc h; cases h; rw [← c3, ← c4]; exact hoki
      · intro h; simp [ha] at h
      · simp [h0, declared, ha]; omega
      · intro g hg
        simp only [Option.some.injEq] at hg; subst hg
        refine ⟨hr1, rfl, h3, by simp [h4], ⟨n, p, ha, by simp; omega⟩, by simp [h0, hsep, haw]⟩
      · intro h; simp at h
  · -- later image: fdAT
    rw [if_neg (show ¬ _ = 0 from h0)]
    have hphm : closed ph = .mid := closed_of_written (fun h => h0 (inv.phPre.mpr h)) inv.phDone
    obtain ⟨k2, hk2, hk2g, hk2c⟩ := WState.emit_good' (s := { s with sink := k, fctl := some { f with seq := (f.seq + 1) % 2 ^ 32 }, animWritten := s.animWritten + 1 }) hkg (fdatChunks ((f.seq + 1) % 2 ^ 32) pf).1
    simp only [emitFdatImage, hk2]
    rw [hphm] at hrf
    have hrd := run_fdats imgOk s ((f.seq + 1) % 2 ^ 32) (fctls + 1) f pf hzf hane (Nat.mod_lt _ (by decide))
    have hrun := skRunR_append_ok hrf hrd
    have hchunks : k2.chunks = s.sink.chunks ++ ([mkFctl f] ++ (fdatChunks ((f.seq + 1) % 2 ^ 32) pf).1) := by
      rw [hk2c]; simp only; rw [hkc]; simp
    have hdl := declared_le s inv.actlR
    have hcnt := inv.cnt
    have hmin : min (s.imagesWritten + 1) (2 ^ 64 - 1) = s.imagesWritten + 1 := by omega
    refine ⟨seqAfter ((f.seq + 1) % 2 ^ 32) pf.length, fctls + 1, .fdat f.w f.h pf.flatten, trivial, ?_⟩
    rw [incr_some (s := { s with sink := k2, fctl := some { f with seq := seqAfter ((f.seq + 1) % 2 ^ 32) pf.length }, animWritten := s.animWritten + 1 }) ha]
    have hsa : seqAfter ((f.seq + 1) % 2 ^ 32) pf.length < 2 ^ 32 := Nat.mod_lt _ (by decide)
    have h6' : s.imagesWritten = s.animWritten + (if s.sepDefImg = true then 1 else 0) := by
      simpa [h0] using h6
    by_cases hle : n ≤ s.animWritten + 1
    · simp only [hle, if_true]
      refine inv.extend _ _ _ _ (StaticEq.refl s) hk2g inv.iend _ hchunks hrun ?_ (by simp) (by simp) ?_ ?_ ?_ ?_ ?_
      · simp [hmin]
      · intro w h acc hh; cases hh; exact hokf
      · intro h; rfl
      · simp only [hmin, declared, ha]; cases hs : s.sepDefImg <;> simp [hs] at h6' hcnt ⊢ <;> omega
      · intro g hg; simp at hg
      · intro _ n' p' h'
        rw [ha] at h'; simp only [Option.some.injEq, Prod.mk.injEq] at h'; obtain ⟨rfl, rfl⟩ := h'
        simp only [declared, ha, hmin]
        constructor
        · omega
        · cases hs : s.sepDefImg <;> simp [hs] at h6' hcnt ⊢ <;> omega
    · simp only [hle, if_false]
      refine inv.extend _ _ _ _ (StaticEq.refl s) hk2g inv.iend _ hchunks hrun ?_ (by simp) (by simp) ?_ ?_ ?_ ?_ ?_
      · simp [hmin]
      · intro w h acc hh; cases hh; exact hokf
      · intro h; simp [ha] at h
      · simp only [hmin, declared, ha]; cases hs : s.sepDefImg <;> simp [hs] at h6' hcnt ⊢ <;> omega
      · intro g hg
        simp only [Option.some.injEq] at hg; subst hg
        obtain ⟨_, r2, r3, r4, r5, r6, r7, r8, r9⟩ := h1
        refine ⟨⟨hsa, r2, r3, r4, r5, r6, r7, r8, r9⟩, rfl, h3, by simp [h4], ⟨n, p, ha, by simp; omega⟩, ?_⟩
        simp only [hmin]; cases hs : s.sepDefImg <;> simp [hs] at h6' hcnt ⊢ <;> omega
      · intro h; simp at h



theorem nextDims_pos {imgOk : ImgRule} {s : WState} {seq fctls : Nat} {ph : Phase}
    (inv : Inv imgOk s seq fctls ph) : 0 < inLenOf s (nextDims s).1 := by
  obtain ⟨v1, v2, v3, v4⟩ := inv.valid
  unfold inLenOf nextDims
  rcases opt_cases s.fctl with hf | ⟨f, hf⟩
  · simp only [hf]; exact inLen_pos v3 v4 v1
  · simp only [hf]; exact inLen_pos v3 v4 (inv.fc f hf).2.2.1.1

/-- the emission part of `write_image_data` — fcTL if any, then the image's zlib stream cut into data
    chunks in ANY way (`pi`: as IDAT payloads, `pf`: as fdAT payloads), then the image counter — keeps the
    invariant, provided the image is within the declared number -/
theorem Inv.emitImage {imgOk : ImgRule} {s : WState} {seq fctls : Nat} {ph : Phase}
    (inv : Inv imgOk s seq fctls ph) (pi pf : List Bytes) (hzi : pi ≠ []) (hzf : pf ≠ [])
    (hp : ¬ (s.color = 3 ∧ s.hasPalette = false))
    (hoki : imgOk (nextDims s).1 (nextDims s).2 pi.flatten = .ok ())
    (hokf : imgOk (nextDims s).1 (nextDims s).2 pf.flatten = .ok ())
    (h7 : ∀ f, s.fctl = some f → s.imagesWritten = 0 → f.x = 0 ∧ f.y = 0 ∧ f.w = s.width ∧ f.h = s.height)
    (hdom : s.imagesWritten < declared s ∨ (Enc.emitImage s pi pf).2 ≠ .ok) :
    ∃ seq' fctls' ph', Inv imgOk (Enc.emitImage s pi pf).1 seq' fctls' ph' ∧ (Enc.emitImage s pi pf).2 = .ok := by
  unfold Enc.emitImage at hdom ⊢
  rcases opt_cases s.fctl with hf | ⟨f, hf⟩
  · -- no frame control: the single image of a still picture
    simp only [hf] at hdom ⊢
    have hnd : nextDims s = (s.width, s.height) := by simp [nextDims, hf]
    rw [hnd] at hoki
    have hph : ph = .pre → (emitIdatImage s pi).2 = .ok ∧ Inv imgOk (emitIdatImage s pi).1 seq fctls (.idat pi.flatten) := by
      intro h; subst h
      refine inv.idatImage pi hzi hp hoki (by intro f h; simp [hf] at h) ?_
      have h0 : s.imagesWritten = 0 := inv.phPre.mpr rfl
      rcases opt_cases s.actl with ha | ⟨⟨n, p⟩, ha⟩
      · simp [declared, ha, h0]
      · have := inv.actlP n p ha; have := (inv.fin hf n p ha).2; simp only [declared, ha] at this; omega
    -- the domain condition forces "nothing written yet"
    have hlt : s.imagesWritten < declared s := by
      rcases hdom with h | h
      · exact h
      · exfalso
        by_cases hpre : ph = .pre
        · exact h (hph hpre).1
        · -- something was written: the declared number is reached, but then a good sink still says ok
          obtain ⟨k, hk, _, _⟩ := WState.emit_good' inv.good (pi.map mkIdat)
          simp only [emitIdatImage, hk] at h; exact h rfl
    have hpre : ph = .pre := by
      apply inv.phPre.mp
      rcases opt_cases s.actl with ha | ⟨⟨n, p⟩, ha⟩
      · simp only [declared, ha] at hlt; omega
      · have := (inv.fin hf n p ha).2; omega
    obtain ⟨r1, r2⟩ := hph hpre
    exact ⟨seq, fctls, .idat pi.flatten, r2, r1⟩
  · simp only [hf] at hdom ⊢
    have hnd : nextDims s = (f.w, f.h) := by simp [nextDims, hf]
    rw [hnd] at hoki hokf
    obtain ⟨h1, h2, h3, h4, ⟨n, p, ha, hltn⟩, h6⟩ := inv.fc f hf
    by_cases hsk : skipFctlOnDefault s = true
    · simp only [hsk, if_true] at hdom ⊢
      simp only [skipFctlOnDefault, Bool.and_eq_true, beq_iff_eq] at hsk
      obtain ⟨hsep, h0⟩ := hsk
      have hpre : ph = .pre := inv.phPre.mp h0
      subst hpre
      obtain ⟨_, _, c3, c4⟩ := h7 f hf h0
      rw [c3, c4] at hoki
      have hlt : s.imagesWritten < declared s := by simp [declared, ha, hsep, h0]
      obtain ⟨r1, r2⟩ := inv.idatImage pi hzi hp hoki (fun _ _ => hsep) hlt
      exact ⟨seq, fctls, .idat pi.flatten, r2, r1⟩
    · have hsk' : skipFctlOnDefault s = false := by simpa using hsk
      simp only [hsk', Bool.false_eq_true, if_false] at hdom ⊢
      obtain ⟨seq', fctls', ph', r1, r2⟩ := inv.frame f hf pi pf hzi hzf hp hoki hokf hsk' (h7 f hf)
      exact ⟨seq', fctls', ph', r2, r1⟩

/-- `write_image_data` keeps the invariant, provided it is not used for more images than declared -/
theorem Inv.image {imgOk : ImgRule} {E : Codec} {s : WState} {seq fctls : Nat} {ph : Phase}
    (inv : Inv imgOk s seq fctls ph) (hE : Codec.Ok imgOk E s.color s.depth) (d : Bytes) (hr : d.length < 2 ^ 63)
    (hdom : s.imagesWritten < declared s ∨ (writeImageData E s d).2 ≠ .ok) :
    ∃ seq' fctls' ph', Inv imgOk (writeImageData E s d).1 seq' fctls' ph' ∧
      (writeImageData E s d).2.isPanic = false := by
  unfold writeImageData at hdom ⊢
  cases hc : imageChecks s d with
  | error r => exact ⟨seq, fctls, ph, inv, imageChecks_error hc (nextDims_pos inv)⟩
  | ok a =>
    obtain ⟨il, h⟩ := a
    rw [hc] at hdom
    simp only at hdom ⊢
    obtain ⟨hp, hv, hil, hh, hlen, hil0, hv2⟩ := imageChecks_ok hc hr
    subst hil hh
    obtain ⟨hz, hok⟩ : E.encode (bytesPerPixel s.color s.depth) (inLenOf s (nextDims s).1) (nextDims s).2 d ≠ [] ∧
        imgOk (nextDims s).1 (nextDims s).2 (E.encode (bytesPerPixel s.color s.depth) (inLenOf s (nextDims s).1) (nextDims s).2 d) = .ok () :=
      hE (nextDims s).1 (nextDims s).2 d hlen
    generalize E.encode (bytesPerPixel s.color s.depth) (inLenOf s (nextDims s).1) (nextDims s).2 d = z at hz hok hdom ⊢
    -- `validate_first_image_rect` passed: a first image covers the canvas
    have h7 : ∀ f, s.fctl = some f → s.imagesWritten = 0 → f.x = 0 ∧ f.y = 0 ∧ f.w = s.width ∧ f.h = s.height := by
      intro f hf h0
      simp only [validateFirstImageRect, hf, h0, true_and] at hv2
      by_cases hc' : f.x = 0 ∧ f.y = 0 ∧ f.w = s.width ∧ f.h = s.height
      · exact hc'
      · simp [hc'] at hv2
    obtain ⟨seq', fctls', ph', r1, r2⟩ := inv.emitImage (chunksOf maxIdatChunkLen z) (chunksOf maxFdatChunkLen z)
      (chunksOf_ne_nil _ z hz) (chunksOf_ne_nil _ z hz) hp
      (by rw [chunksOf_flatten _ (by decide)]; exact hok) (by rw [chunksOf_flatten _ (by decide)]; exact hok) h7 hdom
    exact ⟨seq', fctls', ph', r1, by rw [r2]; rfl⟩

/-- a chunk the automaton passes over without any rule -/
def PlainAncillary (c : RChunk) : Prop :=
  c.ty ∉ specialTypes ∧ tyCritical c.ty = false ∧ tyReservedOk c.ty = true

theorem skRunR_plain_pre (imgOk : ImgRule) (cs : List RChunk) (h : ∀ c ∈ cs, PlainAncillary c) :
    ∀ sk : Sk, sk.phase = .pre → skRunR imgOk sk cs = .ok sk := by
  induction cs with
  | nil => intro sk _; rfl
  | cons c cs ih =>
    intro sk hp
    obtain ⟨h1, h2, h3⟩ := h c (by simp)
    simp only [skRunR, summarize_other c h1, skStep, hp, stepOther, closeRun, h2, h3]
    simp only [reduceCtorEq, if_false, Bool.false_eq_true, Bool.not_true]
    exact ih (fun c hc => h c (by simp [hc])) sk hp

def headerAncTypes : List Ty := [tyPHYS, tySRGB, tyGAMA, tyCHRM, tyICCP, tyEXIF, tyTRNS, tyTEXT, tyZTXT, tyITXT]

theorem headerAnc_plain {c : RChunk} (h : c.ty ∈ headerAncTypes) : PlainAncillary c := by
  simp only [headerAncTypes, List.mem_cons, List.not_mem_nil, or_false] at h
  unfold PlainAncillary
  rcases h with h | h | h | h | h | h | h | h | h | h <;> rw [h] <;> decide

theorem optChunk_ty {ty : Ty} {o : Option Bytes} {c : RChunk} (h : c ∈ optChunk ty o) : c.ty = ty := by
  cases o <;> simp [optChunk] at h; rw [h]

theorem preChunks_types (m : Meta) : ∀ c ∈ preChunks m, c.ty ∈ headerAncTypes := by
  intro c hc
  simp only [preChunks, List.mem_append] at hc
  rcases hc with (hc | hc) | hc
  · rw [optChunk_ty hc]; decide
  · cases hs : m.srgb with
    | some i =>
      simp only [hs, List.mem_append, List.mem_cons, List.not_mem_nil, or_false] at hc
      rcases hc with (hc | hc) | hc
      · rw [hc]; exact (by decide : tySRGB ∈ headerAncTypes)
      · split at hc <;> simp at hc; rw [hc]; exact (by decide : tyGAMA ∈ headerAncTypes)
      · split at hc <;> simp at hc; rw [hc]; exact (by decide : tyCHRM ∈ headerAncTypes)
    | none =>
      simp only [hs, List.mem_append] at hc
      rcases hc with (hc | hc) | hc <;> rw [optChunk_ty hc] <;> decide
  · rw [optChunk_ty hc]; decide

theorem textPrefix_mem (ts : List (Option RChunk)) : ∀ c ∈ (textPrefix ts).1, some c ∈ ts := by
  induction ts with
  | nil => intro c h; simp [textPrefix] at h
  | cons t ts ih =>
    intro c h
    cases t with
    | none => simp [textPrefix] at h
    | some r =>
      simp only [textPrefix, List.mem_cons] at h
      rcases h with h | h
      · simp [h]
      · simp [ih c h]

/-- `Encoder::with_info` lets the configuration through unchanged (its frame control is non-empty,
    inside the canvas, and already has sequence number 0) -/
def withInfoOk (c : Cfg) : Bool :=
  match withInfo c with
  | .ok c' => c' == c
  | .error _ => false

/-- what `Encoder::new` + `Encoder::set_animated` build: frame control = the whole canvas, sequence number 0 -/
def Cfg.fromNew (c : Cfg) : Prop :=
  c.actl.isSome = c.fctl.isSome ∧ (∀ a ∈ c.actl, a.1 ≠ 0) ∧
  ∀ f ∈ c.fctl, f.seq = 0 ∧ f.x = 0 ∧ f.y = 0 ∧ f.w = c.width ∧ f.h = c.height

instance (c : Cfg) : Decidable c.fromNew := by unfold Cfg.fromNew; infer_instance

/-- the configurations an `Encoder` can hold when `write_header` is called -/
def Cfg.Accepted (c : Cfg) : Prop := withInfoOk c = true ∨ c.fromNew

instance (c : Cfg) : Decidable c.Accepted := by unfold Cfg.Accepted; infer_instance

/-- the C12 domain as far as the configuration is concerned: field types in range, accepted by the
    `Encoder`, and legal pass-through payloads (palette bytes, text chunk types) -/
def Cfg.WellFormed (c : Cfg) : Prop :=
  c.inRange ∧ c.Accepted ∧
  (∀ p ∈ c.palette, c.color ≠ 0 ∧ c.color ≠ 4 ∧ p.length % 3 = 0 ∧ 0 < p.length ∧ p.length ≤ 768) ∧
  (∀ r, some r ∈ c.texts → r.ty ∈ textTypes)

instance (c : Cfg) : Decidable c.WellFormed := by
  unfold Cfg.WellFormed
  have : Decidable (∀ r, some r ∈ c.texts → r.ty ∈ textTypes) :=
    decidable_of_iff (∀ t ∈ c.texts, ∀ r, t = some r → r.ty ∈ textTypes) (by
      constructor
      · intro h r hr; exact h (some r) hr r rfl
      · intro h t ht r hr; subst hr; exact h r ht)
  infer_instance

/-- what acceptance guarantees: animation control and frame control come together, at least one frame,
    sequence number 0, and — on a non-empty canvas — a non-empty frame inside the canvas -/
theorem accepted_spec {c : Cfg} (h : c.Accepted) :
    (c.actl = none ↔ c.fctl = none) ∧ (∀ n p, c.actl = some (n, p) → 0 < n) ∧
    ∀ f, c.fctl = some f → f.seq = 0 ∧
      (0 < c.width → 0 < c.height → 0 < f.w ∧ 0 < f.h ∧ f.x + f.w ≤ c.width ∧ f.y + f.h ≤ c.height) := by
  rcases h with h | ⟨h1, h2, h3⟩
  · unfold withInfoOk withInfo at h
    by_cases h1 : (c.actl.isSome != c.fctl.isSome) = true
    · rw [if_pos h1] at h; cases h
    · rw [if_neg h1] at h
      by_cases h2 : c.actl.map (·.1) = some 0
      · rw [if_pos h2] at h; cases h
      · rw [if_neg h2] at h
        have hiff : c.actl = none ↔ c.fctl = none := by
          cases ha : c.actl <;> cases hf : c.fctl <;> simp [ha, hf] at h1 ⊢
        have hpos : ∀ n p, c.actl = some (n, p) → 0 < n := by
          intro n p ha
          cases n with
          | zero => simp [ha] at h2
          | succ k => omega
        refine ⟨hiff, hpos, ?_⟩
        intro f hf
        rw [hf] at h
        simp only [checkFrameControl] at h
        by_cases hw : f.w = 0
        · simp [hw] at h
        · by_cases hh : f.h = 0
          · simp [hw, hh] at h
          · cases hg : (gtCheckedSub f.w c.width f.x || gtCheckedSub f.h c.height f.y) with
            | true => simp [hw, hh, hg] at h
            | false =>
              simp only [hw, hh, hg, if_false, Bool.false_eq_true, beq_iff_eq] at h
              have hfc := congrArg Cfg.fctl h
              simp only [hf, Option.some.injEq] at hfc
              have hseq : f.seq = 0 := by have := congrArg FC.seq hfc; simpa using this.symm
              simp only [Bool.or_eq_false_iff] at hg
              obtain ⟨a1, a2⟩ := gtCheckedSub_false hg.1
              obtain ⟨b1, b2⟩ := gtCheckedSub_false hg.2
              exact ⟨hseq, fun _ _ => ⟨by omega, by omega, by omega, by omega⟩⟩
  · refine ⟨?_, ?_, ?_⟩
    · cases ha : c.actl <;> cases hf : c.fctl <;> simp [ha, hf] at h1 ⊢
    · intro n p ha
      have := h2 (n, p) (by simp [ha]); simp only at this; omega
    · intro f hf
      obtain ⟨g1, g2, g3, g4, g5⟩ := h3 f (by simp [hf])
      exact ⟨g1, fun hw hh => by omega⟩

/-- the automaton over the header chunks after IHDR -/
theorem header_run (imgOk : ImgRule) (c : Cfg) (hw : c.WellFormed) :
    skRunR imgOk { cw := c.width, ch := c.height, color := c.color }
      (preChunks c.md ++ (match c.actl with | some (n, p) => [mkActl n p] | none => []) ++
        optChunk tyPLTE c.palette ++ optChunk tyTRNS c.trns ++ (textPrefix c.texts).1) =
    .ok { cw := c.width, ch := c.height, color := c.color, plte := c.palette.isSome, frames := c.actl.map (·.1) } := by
  obtain ⟨⟨_, _, _, _, hr5, _⟩, hwi, hpal, htx⟩ := hw
  obtain ⟨_, hpos, _⟩ := accepted_spec hwi
  -- metadata chunks
  have h1 : skRunR imgOk { cw := c.width, ch := c.height, color := c.color } (preChunks c.md) =
      .ok { cw := c.width, ch := c.height, color := c.color } :=
    skRunR_plain_pre imgOk _ (fun x hx => headerAnc_plain (preChunks_types c.md x hx)) _ rfl
  -- acTL
  have h2 : skRunR imgOk { cw := c.width, ch := c.height, color := c.color }
      (match c.actl with | some (n, p) => [mkActl n p] | none => []) =
      .ok { cw := c.width, ch := c.height, color := c.color, frames := c.actl.map (·.1) } := by
    cases ha : c.actl with
    | none => rfl
    | some a =>
      obtain ⟨n, p⟩ := a
      have hn := hpos n p ha
      obtain ⟨r1, r2⟩ := hr5 (n, p) (by simp [ha])
      simp only [skRunR, summarize_actl n p r1 r2, skStep, stepActl]
      have : n ≠ 0 := by omega
      simp [this]
  -- PLTE
  have h3 : skRunR imgOk { cw := c.width, ch := c.height, color := c.color, frames := c.actl.map (·.1) }
      (optChunk tyPLTE c.palette) =
      .ok { cw := c.width, ch := c.height, color := c.color, plte := c.palette.isSome, frames := c.actl.map (·.1) } := by
    cases hp : c.palette with
    | none => rfl
    | some p =>
      obtain ⟨q1, q2, q3, q4, q5⟩ := hpal p (by simp [hp])
      simp only [optChunk, skRunR, summarize_plte, skStep, stepPlte]
      have e1 : ¬ (c.color = 0 ∨ c.color = 4) := by omega
      have e2 : ¬ (p.length % 3 ≠ 0 ∨ p.length = 0 ∨ p.length > 768) := by omega
      simp only [e1, e2, reduceCtorEq, if_false, ne_eq, not_true_eq_false, Bool.false_eq_true, Option.isSome_some]
  -- tRNS and text chunks
  have h4 : skRunR imgOk { cw := c.width, ch := c.height, color := c.color, plte := c.palette.isSome, frames := c.actl.map (·.1) }
      (optChunk tyTRNS c.trns ++ (textPrefix c.texts).1) =
      .ok { cw := c.width, ch := c.height, color := c.color, plte := c.palette.isSome, frames := c.actl.map (·.1) } := by
    apply skRunR_plain_pre imgOk _ _ _ rfl
    intro x hx
    simp only [List.mem_append] at hx
    rcases hx with hx | hx
    · exact headerAnc_plain (by rw [optChunk_ty hx]; decide)
    · have := htx x (textPrefix_mem c.texts x hx)
      obtain ⟨a1, a2, a3⟩ := textTypes_not_special this
      exact ⟨a1, a2, a3⟩
  simp only [List.append_assoc]
  exact skRunR_append_ok h1 (skRunR_append_ok h2 (skRunR_append_ok h3 h4))



theorem initState_good (c : Cfg) : (initState c {}).sink.good := ⟨rfl, rfl⟩

/-- after a successful `write_header` on a sink that never fails the invariant holds -/
theorem header_inv (imgOk : ImgRule) (c : Cfg) (hw : c.WellFormed) {s : WState}
    (h : writeHeader c {} = (s, .ok)) :
    Inv imgOk s 0 0 .pre ∧ StaticEq (initState c {}) s ∧ s.sink.chunks = headerChunks c := by
  have hrun := header_run imgOk c hw
  obtain ⟨⟨i1, i2, i3, i4, i5, i6⟩, hwi, hpal, htx⟩ := hw
  obtain ⟨hiff, hpos, hfc⟩ := accepted_spec hwi
  unfold writeHeader at h
  by_cases hw0 : c.width = 0
  · simp [hw0] at h
  · by_cases hh0 : c.height = 0
    · simp [hw0, hh0] at h
    · cases hci : combinationInvalid c.color c.depth with
      | true => simp [hw0, hh0, hci] at h
      | false =>
        simp only [hw0, hh0, hci, if_false, Bool.false_eq_true] at h
        rw [Sink.emit_good (initState_good c)] at h
        simp only at h
        obtain ⟨k, hk, hkg, hkc⟩ := WState.emit_good' (s := { initState c {} with sink := { (initState c {}).sink with log := (initState c {}).sink.log ++ [⟨.sig, Piece.sig.size⟩], count := (initState c {}).sink.count + Piece.sig.size } }) (initState_good c) (headerChunks c)
        rw [hk] at h
        simp only at h
        cases htp : (textPrefix c.texts).2 with
        | false => simp [htp] at h
        | true =>
          simp only [htp, if_true, Prod.mk.injEq, and_true] at h
          subst h
          have hch : k.chunks = headerChunks c := by
            rw [hkc]; simp [Sink.chunks, initState]
          refine ⟨?_, ⟨rfl, rfl, rfl, rfl, rfl, rfl, rfl, rfl⟩, hch⟩
          exact {
            good := hkg
            iend := rfl
            run := ⟨_, by rw [hch]; simp only [headerChunks, List.append_assoc, List.cons_append, List.nil_append]; rfl, by
              simp only [List.append_assoc, initState, absSk] at hrun ⊢; exact hrun⟩
            phPre := by simp [initState]
            phDone := by simp
            openI := by intro acc h; cases h
            openF := by intro w hh acc h; cases h
            dims := ⟨i1, i2⟩
            valid := ⟨by simp only [initState]; omega, by simp only [initState]; omega, i3, i4⟩
            actlR := by intro n p ha; exact (i5 (n, p) (by simpa [initState] using ha)).1
            actlP := by intro n p ha; exact hpos n p (by simpa [initState] using ha)
            noActl := by intro ha; exact hiff.mp (by simpa [initState] using ha)
            cnt := by simp [initState]
            fc := by
              intro f hf
              have hf' : c.fctl = some f := by simpa [initState] using hf
              obtain ⟨f1, f2⟩ := hfc f hf'
              obtain ⟨f3, f4, f5, f6⟩ := f2 (by omega) (by omega)
              have hne : c.actl ≠ none := fun hn => by rw [hiff.mp hn] at hf'; cases hf'
              obtain ⟨⟨n, p⟩, ha⟩ : ∃ a, c.actl = some a := by
                cases hx : c.actl with
                | none => exact absurd hx hne
                | some a => exact ⟨a, rfl⟩
              refine ⟨i6 f (by simp [hf']), f1.symm, ?_, rfl, ⟨n, p, by simp [initState, ha], hpos n p ha⟩, by simp [initState]⟩
              simp only [RectOk, initState]; omega
            fin := by
              intro hf n p ha
              have hf' : c.fctl = none := by simpa [initState] using hf
              have ha' : c.actl = some (n, p) := by simpa [initState] using ha
              rw [hiff.mpr hf'] at ha'; cases ha' }



/-! ### static fields are never touched (any sink) -/

theorem emit_static (s : WState) (cs : List RChunk) : StaticEq s (s.emit cs).1 := by
  simp [WState.emit, StaticEq]

theorem incr_static (s : WState) : StaticEq s (incrementImagesWritten s) := by
  unfold incrementImagesWritten
  cases ha : s.actl with
  | none => simp [StaticEq, ha]
  | some a => obtain ⟨n, p⟩ := a; simp only; split <;> simp [StaticEq, ha]

theorem emitIdatImage_static (s : WState) (z : List Bytes) : StaticEq s (emitIdatImage s z).1 := by
  unfold emitIdatImage
  have h := emit_static s (z.map mkIdat)
  cases hh : s.emit (z.map mkIdat) with
  | mk s' ok =>
    rw [hh] at h
    cases ok with
    | false => exact h
    | true => exact h.trans (incr_static s')

theorem emitFdatImage_static (s : WState) (f : FC) (q : Nat) (z : List Bytes) : StaticEq s (emitFdatImage s f q z).1 := by
  simp only [emitFdatImage]
  have h := emit_static s (fdatChunks q z).1
  cases hh : s.emit (fdatChunks q z).1 with
  | mk s' ok =>
    rw [hh] at h
    cases ok with
    | false => exact StaticEq.trans (b := s') h (by simp [StaticEq])
    | true => exact StaticEq.trans (b := { s' with fctl := some { f with seq := seqAfter q z.length } }) h (incr_static _)

theorem emitFrame_static (s : WState) (f : FC) (pi pf : List Bytes) : StaticEq s (emitFrame s f pi pf).1 := by
  simp only [emitFrame]
  have h := emit_static s [mkFctl f]
  cases hh : s.emit [mkFctl f] with
  | mk s' ok =>
    rw [hh] at h
    cases ok with
    | false => exact h
    | true =>
      simp only
      split
      · exact h
      · split
        · exact StaticEq.trans (b := { s' with fctl := some { f with seq := (f.seq + 1) % 2 ^ 32 }, animWritten := s'.animWritten + 1 }) h (emitIdatImage_static _ pi)
        · exact StaticEq.trans (b := { s' with fctl := some { f with seq := (f.seq + 1) % 2 ^ 32 }, animWritten := s'.animWritten + 1 }) h (emitFdatImage_static _ f _ pf)

theorem emitImage_static (s : WState) (pi pf : List Bytes) : StaticEq s (emitImage s pi pf).1 := by
  unfold emitImage
  cases hf : s.fctl with
  | none => exact emitIdatImage_static s pi
  | some f => simp only; split; exact emitIdatImage_static s pi; exact emitFrame_static s f pi pf

theorem writeImageData_static (E : Codec) (s : WState) (d : Bytes) : StaticEq s (writeImageData E s d).1 := by
  unfold writeImageData
  cases imageChecks s d with
  | error r => exact StaticEq.refl s
  | ok a => exact emitImage_static s _ _

theorem withFctl_static (s : WState) (k : FC → WState × Res) (hk : ∀ f, StaticEq s (k f).1) : StaticEq s (withFctl s k).1 := by
  unfold withFctl
  cases s.fctl with
  | none => exact StaticEq.refl s
  | some f => exact hk f

theorem writerStep_static (E : Codec) (s : WState) (op : Op) : StaticEq s (writerStep E s op).1 := by
  cases op with
  | image d => exact writeImageData_static E s d
  | chunk t d =>
    simp only [writerStep, writeChunk]
    split
    · exact StaticEq.refl s
    · have h := emit_static s [⟨t, d⟩]
      cases hh : s.emit [⟨t, d⟩] with
      | mk s' ok => rw [hh] at h; cases ok <;> exact h
  | text b =>
    cases b with
    | none => exact StaticEq.refl s
    | some c =>
      simp only [writerStep, writeTextChunk]
      have h := emit_static s [c]
      cases hh : s.emit [c] with
      | mk s' ok => rw [hh] at h; cases ok <;> exact h
  | setDelay n d => exact withFctl_static s _ (fun f => by simp [StaticEq])
  | setDim w h =>
    refine withFctl_static s _ (fun f => ?_)
    split; exact StaticEq.refl s; split; exact StaticEq.refl s; split; exact StaticEq.refl s; simp [StaticEq]
  | setPos x y =>
    refine withFctl_static s _ (fun f => ?_)
    split; exact StaticEq.refl s; simp [StaticEq]
  | resetDim =>
    refine withFctl_static s _ (fun f => ?_)
    split; exact StaticEq.refl s; simp [StaticEq]
  | resetPos => exact withFctl_static s _ (fun f => by simp [StaticEq])
  | setBlend b => exact withFctl_static s _ (fun f => by simp [StaticEq])
  | setDispose d => exact withFctl_static s _ (fun f => by simp [StaticEq])



def Op.isImage : Op → Bool
  | .image _ => true
  | _ => false

/-- what the C12 domain asks of one operation in the state it is applied to: argument types in
    range, no successful image write beyond the declared number -/
def opAllowed (E : Codec) (s : WState) (op : Op) : Prop :=
  op.inRange ∧
  (op.isImage = true → s.imagesWritten < declared s ∨ (writerStep E s op).2 ≠ .ok)

instance (E : Codec) (s : WState) (op : Op) : Decidable (opAllowed E s op) := by
  unfold opAllowed; infer_instance

def AllAllowed (E : Codec) : WState → List Op → Prop
  | _, [] => True
  | s, op :: ops => opAllowed E s op ∧ AllAllowed E (writerStep E s op).1 ops

instance allAllowedDec (E : Codec) : (s : WState) → (ops : List Op) → Decidable (AllAllowed E s ops)
  | _, [] => isTrue trivial
  | s, op :: ops =>
    have := allAllowedDec E (writerStep E s op).1 ops
    by unfold AllAllowed; infer_instance

/-- one step of the whole-image API inside the domain -/
theorem Inv.step {imgOk : ImgRule} {E : Codec} {s : WState} {seq fctls : Nat} {ph : Phase}
    (inv : Inv imgOk s seq fctls ph) (hE : Codec.Ok imgOk E s.color s.depth) (op : Op)
    (ha : opAllowed E s op) :
    ∃ seq' fctls' ph', Inv imgOk (writerStep E s op).1 seq' fctls' ph' ∧ (writerStep E s op).2.isPanic = false := by
  obtain ⟨hr, himg⟩ := ha
  cases op with
  | image d => exact inv.image hE d hr (himg rfl)
  | chunk t d =>
    obtain ⟨ph', h⟩ := inv.passThrough (E := E) (.chunk t d) hr (Or.inl ⟨t, d, rfl⟩)
    exact ⟨seq, fctls, ph', h⟩
  | text b =>
    obtain ⟨ph', h⟩ := inv.passThrough (E := E) (.text b) hr (Or.inr ⟨b, rfl⟩)
    exact ⟨seq, fctls, ph', h⟩
  | setDelay n d => exact ⟨seq, fctls, ph, inv.setter (E := E) _ hr (by simp) (by simp) (by simp)⟩
  | setDim w h => exact ⟨seq, fctls, ph, inv.setter (E := E) _ hr (by simp) (by simp) (by simp)⟩
  | setPos x y => exact ⟨seq, fctls, ph, inv.setter (E := E) _ hr (by simp) (by simp) (by simp)⟩
  | resetDim => exact ⟨seq, fctls, ph, inv.setter (E := E) _ hr (by simp) (by simp) (by simp)⟩
  | resetPos => exact ⟨seq, fctls, ph, inv.setter (E := E) _ hr (by simp) (by simp) (by simp)⟩
  | setBlend b => exact ⟨seq, fctls, ph, inv.setter (E := E) _ hr (by simp) (by simp) (by simp)⟩
  | setDispose d => exact ⟨seq, fctls, ph, inv.setter (E := E) _ hr (by simp) (by simp) (by simp)⟩

theorem Res.not_panic_cases {r : Res} (h : r.isPanic = false) : ∀ p, r ≠ .panic p := by
  intro p hp; subst hp; cases h

/-- a whole operation sequence inside the domain: invariant at the end, no panic on the way -/
theorem Inv.runOps {imgOk : ImgRule} {E : Codec} (ops : List Op) :
    ∀ {s : WState} {seq fctls : Nat} {ph : Phase}, Inv imgOk s seq fctls ph →
      Codec.Ok imgOk E s.color s.depth → AllAllowed E s ops →
      ∃ seq' fctls' ph', Inv imgOk (Enc.runOps E s ops).1 seq' fctls' ph' ∧
        anyPanic (Enc.runOps E s ops).2 = false ∧ StaticEq s (Enc.runOps E s ops).1 := by
  induction ops with
  | nil => intro s seq fctls ph inv _ _; exact ⟨seq, fctls, ph, inv, rfl, StaticEq.refl s⟩
  | cons op ops ih =>
    intro s seq fctls ph inv hE hall
    obtain ⟨hop, hrest⟩ := hall
    obtain ⟨seq1, fctls1, ph1, inv1, hnp⟩ := inv.step hE op hop
    have hst := writerStep_static E s op
    have hE1 : Codec.Ok imgOk E (writerStep E s op).1.color (writerStep E s op).1.depth := by
      rw [hst.2.2.1, hst.2.2.2.1]; exact hE
    obtain ⟨seq2, fctls2, ph2, inv2, hnp2, hst2⟩ := ih inv1 hE1 hrest
    simp only [Enc.runOps]
    cases hws : writerStep E s op with
    | mk s' r =>
      rw [hws] at hnp inv2 hnp2 hst2 hst
      cases r with
      | panic p => cases hnp
      | ok => exact ⟨seq2, fctls2, ph2, inv2, by simpa [anyPanic, Res.isPanic] using hnp2, hst.trans hst2⟩
      | err e => exact ⟨seq2, fctls2, ph2, inv2, by simpa [anyPanic, Res.isPanic] using hnp2, hst.trans hst2⟩



/-- all declared images written: the IEND chunk completes a valid skeleton -/
theorem Inv.finishChunk {imgOk : ImgRule} {s : WState} {seq fctls : Nat} {ph : Phase}
    (inv : Inv imgOk s seq fctls ph) (hall : s.imagesWritten = declared s) :
    validateSequenceDone s = none ∧ (writeIend s).2 = true ∧
    (writeIend s).1.iendWritten = true ∧ (writeIend s).1.sink.good ∧
    ∃ rest, (writeIend s).1.sink.chunks = ihdrOf s :: rest ∧
      skeletonOfChunks imgOk s.width s.height s.color rest = .ok () := by
  -- the declared number is at least one
  have hpos : 0 < declared s := by
    unfold declared
    rcases opt_cases s.actl with ha | ⟨⟨n, p⟩, ha⟩
    · simp [ha]
    · have := inv.actlP n p ha; simp only [ha]; omega
  have hne : s.imagesWritten ≠ 0 := by omega
  -- an animation is complete
  have hfn : s.actl ≠ none → s.fctl = none := by
    intro _
    rcases opt_cases s.fctl with hf | ⟨f, hf⟩
    · exact hf
    · exfalso
      obtain ⟨_, _, _, _, ⟨n, p, ha, hlt⟩, h6⟩ := inv.fc f hf
      simp only [declared, ha] at hall
      simp only [hne, ne_eq, not_false_eq_true, and_true] at h6
      cases hs : s.sepDefImg <;> simp [hs] at h6 hall <;> omega
  have hv : validateSequenceDone s = none := by
    unfold validateSequenceDone
    cases s.validate with
    | false => rfl
    | true =>
      have : ¬ ((s.actl.isSome = true ∧ s.fctl.isSome = true) ∨ s.imagesWritten = 0) := by
        rintro (⟨h1, h2⟩ | h)
        · have : s.actl ≠ none := by intro h; simp [h] at h1
          simp [hfn this] at h2
        · exact hne h
      simp [this]
  obtain ⟨k, hk, hkg, hkc⟩ := WState.emit_good' (s := { s with iendWritten := true }) inv.good [iendChunk]
  have hphm : closed ph = .mid := closed_of_written (fun h => hne (inv.phPre.mpr h)) inv.phDone
  have hstep : skRunR imgOk (absSk s seq fctls ph) [iendChunk] = .ok (absSk s seq fctls .done) := by
    have hnd : (absSk s seq fctls ph).phase ≠ .done := inv.phDone
    simp only [skRunR, summarize_iend, skStep, hnd, if_false, stepIend, closeRun_abs inv.openI inv.openF, hphm]
    have hfr : ¬ ((absSk s seq fctls .mid).frames ≠ none ∧ (absSk s seq fctls .mid).frames ≠ some (absSk s seq fctls .mid).fctls) := by
      rintro ⟨h1, h2⟩
      simp only [absSk] at h1 h2
      rcases opt_cases s.actl with ha | ⟨⟨n, p⟩, ha⟩
      · simp [ha] at h1
      · have := (inv.fin (hfn (by simp [ha])) n p ha).1
        simp [ha, this] at h2
    simp only [hfr, if_false]
    simp [absSk]
  obtain ⟨rest, hc0, hr0⟩ := inv.run
  refine ⟨hv, by simp [writeIend, hk], by simp [writeIend, hk], by simp [writeIend, hk]; exact hkg, rest ++ [iendChunk], ?_, ?_⟩
  · simp only [writeIend, hk]; rw [hkc]; simp only; rw [hc0]; rfl
  · exact skeletonOfChunks_of_run (skRunR_append_ok hr0 hstep) rfl

def noFlushFault (s : WState) : Prop := s.sink.beh.flushFailAt = none

/-- the domain of C12 for the whole-image API (decidable for a given back-end): `write_header`
    succeeds, every operation is allowed, and at the end exactly the declared images are written -/
def SuppliesDeclaredImages (E : Codec) (c : Cfg) (ops : List Op) : Prop :=
  (writeHeader c {}).2 = .ok ∧ AllAllowed E (writeHeader c {}).1 ops ∧
  (Enc.runOps E (writeHeader c {}).1 ops).1.imagesWritten = declared (writeHeader c {}).1

instance (E : Codec) (c : Cfg) (ops : List Op) : Decidable (SuppliesDeclaredImages E c ops) := by
  unfold SuppliesDeclaredImages; infer_instance

theorem dropW_of_iend {s : WState} (h : s.iendWritten = true) : dropW s = s := by simp [dropW, h]

/-- C12 for `Writer`: inside the domain nothing fails, nothing panics, and the chunks the sink holds
    after `finish` (or after the drop) satisfy the sequencing rules of the validator -/
theorem writer_skeleton_valid (imgOk : ImgRule) (E : Codec) (c : Cfg) (hw : c.WellFormed)
    (hE : Codec.Ok imgOk E c.color c.depth) (ops : List Op) (fin : Final)
    (hdom : SuppliesDeclaredImages E c ops) :
    (runWriter E c {} ops fin).header = .ok ∧
    anyPanic (runWriter E c {} ops fin).results = false ∧
    (runWriter E c {} ops fin).final = some .ok ∧
    ∃ rest, (runWriter E c {} ops fin).state.sink.chunks = mkIhdr c :: rest ∧
      skeletonOfChunks imgOk c.width c.height c.color rest = .ok () := by
  obtain ⟨hh, hall, hcount⟩ := hdom
  cases hwh : writeHeader c {} with
  | mk s0 r0 =>
    rw [hwh] at hh hall hcount
    simp only at hh hall hcount
    subst hh
    obtain ⟨inv0, hst0, hch0⟩ := header_inv imgOk c hw hwh
    have hE0 : Codec.Ok imgOk E s0.color s0.depth := by rw [hst0.2.2.1, hst0.2.2.2.1]; exact hE
    obtain ⟨seq1, fctls1, ph1, inv1, hnp, hst1⟩ := inv0.runOps ops hE0 hall
    have hcount' : (Enc.runOps E s0 ops).1.imagesWritten = declared (Enc.runOps E s0 ops).1 := by
      rw [declared_static hst1]; exact hcount
    unfold runWriter
    rw [hwh]
    simp only
    cases hro : Enc.runOps E s0 ops with
    | mk s1 rs =>
      rw [hro] at inv1 hnp hst1 hcount'
      simp only at inv1 hnp hst1 hcount' ⊢
      obtain ⟨hv, hw1, hw2, hw3, rest, hw4, hw6⟩ := inv1.finishChunk hcount'
      have hst := hst0.trans hst1
      have hhd : ihdrOf s1 = mkIhdr c := by
        simp [ihdrOf, mkIhdr, hst.1, hst.2.1, hst.2.2.1, hst.2.2.2.1, initState]
      rw [hhd] at hw4
      have e1 : s1.width = c.width := hst.1
      have e2 : s1.height = c.height := hst.2.1
      have e3 : s1.color = c.color := hst.2.2.1
      rw [e1, e2, e3] at hw6
      simp only [hnp, Bool.false_eq_true, if_false]
      cases hwi : writeIend s1 with
      | mk s2 ok =>
        rw [hwi] at hw1 hw2 hw3 hw4
        simp only at hw1 hw2 hw3 hw4
        subst hw1
        cases fin with
        | drop =>
          have hd : dropW s1 = s2 := by simp [dropW, inv1.iend, hwi]
          simp only [finalStep, hd]
          exact ⟨trivial, trivial, trivial, rest, hw4, hw6⟩
        | finish =>
          have hfl : (s2.sink.flush).2 = true := by simp [Sink.flush, hw3.2]
          cases hf2 : s2.sink.flush with
          | mk k okf =>
            rw [hf2] at hfl; simp only at hfl; subst hfl
            have hkc : k.chunks = s2.sink.chunks := by
              have : k = { s2.sink with flushes := s2.sink.flushes + 1 } := by
                have := congrArg Prod.fst hf2; simpa [Sink.flush] using this.symm
              rw [this]; rfl
            simp only [finalStep, finishW, hv, hwi, hf2]
            rw [dropW_of_iend (by exact hw2)]
            exact ⟨trivial, trivial, trivial, rest, by simp only; rw [hkc]; exact hw4, hw6⟩



/-! ## Part 5: facts that hold for EVERY sink (C19) -/

/-- what `Sink.emit` does to the log, whatever the failure schedule -/
theorem Sink.emit_log (k : Sink) (p : Piece) :
    ∃ n, (k.emit p).1.log = k.log ++ [⟨p, n⟩] ∧ ((k.emit p).2 = true → n = p.size) ∧
      (k.emit p).1.beh = k.beh ∧ (k.emit p).1.flushes = k.flushes := by
  unfold Sink.emit
  cases k.budget with
  | none => exact ⟨p.size, rfl, fun _ => rfl, rfl, rfl⟩
  | some b =>
    by_cases h : p.size ≤ b
    · refine ⟨p.size, ?_⟩; simp [h]
    · refine ⟨b, ?_⟩; simp [h]

/-- the log grows by attempts to write chunks of `cs`, all complete if the call succeeds -/
theorem Sink.emitChunks_log (cs : List RChunk) :
    ∀ k : Sink, ∃ ext, (k.emitChunks cs).1.log = k.log ++ ext ∧
      (∀ e ∈ ext, ∃ c ∈ cs, e.piece = .chunk c) ∧
      ((k.emitChunks cs).2 = true → ∀ e ∈ ext, e.complete = true) ∧
      (k.emitChunks cs).1.beh = k.beh ∧ (k.emitChunks cs).1.flushes = k.flushes := by
  induction cs with
  | nil => intro k; exact ⟨[], by simp [Sink.emitChunks], by simp, by simp, rfl, rfl⟩
  | cons c cs ih =>
    intro k
    obtain ⟨n, h1, h2, h3, h4⟩ := k.emit_log (.chunk c)
    simp only [Sink.emitChunks]
    cases he : k.emit (.chunk c) with
    | mk k' ok =>
      rw [he] at h1 h2 h3 h4
      simp only at h1 h2 h3 h4
      cases ok with
      | false =>
        refine ⟨[⟨.chunk c, n⟩], h1, ?_, by simp, h3, h4⟩
        intro e he; simp only [List.mem_singleton] at he; subst he; exact ⟨c, by simp, rfl⟩
      | true =>
        obtain ⟨ext, g1, g2, g3, g4, g5⟩ := ih k'
        refine ⟨⟨.chunk c, n⟩ :: ext, by rw [g1, h1]; simp, ?_, ?_, by rw [g4, h3], by rw [g5, h4]⟩
        · intro e he
          simp only [List.mem_cons] at he
          rcases he with he | he
          · subst he; exact ⟨c, by simp, rfl⟩
          · obtain ⟨c', hc', hp⟩ := g2 e he; exact ⟨c', by simp [hc'], hp⟩
        · intro hok e he
          simp only [List.mem_cons] at he
          rcases he with he | he
          · subst he; simp [Emit.complete, h2 rfl]
          · exact g3 hok e he

/-- how a writer call may change the state, whatever the sink does: static fields and the IEND flag
    stay, the log only grows, by chunks that are not IEND; `fctl` keeps a legal rectangle if it had
    one; `animation_written` grows by at most one -/
structure Evolves (s s' : WState) : Prop where
  static : StaticEq s s'
  iend : s'.iendWritten = s.iendWritten
  beh : s'.sink.beh = s.sink.beh
  flushes : s'.sink.flushes = s.sink.flushes
  log : ∃ ext, s'.sink.log = s.sink.log ++ ext ∧ ∀ e ∈ ext, ∃ c, e.piece = .chunk c ∧ c.ty ≠ tyIEND
  rect : (∀ f, s.fctl = some f → RectOk s f) → ∀ f, s'.fctl = some f → RectOk s' f
  animLo : s.animWritten ≤ s'.animWritten
  animHi : s'.animWritten ≤ s.animWritten + 1

theorem Evolves.refl (s : WState) : Evolves s s :=
  ⟨StaticEq.refl s, rfl, rfl, rfl, ⟨[], by simp, by simp⟩, fun h => h, Nat.le_refl _, Nat.le_succ _⟩

theorem RectOk_static {a b : WState} (h : StaticEq a b) (f : FC) : RectOk b f ↔ RectOk a f := by
  simp [RectOk, h.1, h.2.1]

/-- composition; the bound on `animation_written` is kept separately by the callers -/
theorem Evolves.trans' {a b c : WState} (h1 : Evolves a b) (h2 : Evolves b c)
    (hhi : c.animWritten ≤ a.animWritten + 1) : Evolves a c := by
  obtain ⟨e1, l1, m1⟩ := h1.log
  obtain ⟨e2, l2, m2⟩ := h2.log
  exact {
    static := h1.static.trans h2.static
    iend := h2.iend.trans h1.iend
    beh := h2.beh.trans h1.beh
    flushes := h2.flushes.trans h1.flushes
    log := ⟨e1 ++ e2, by rw [l2, l1]; simp, by
      intro e he; simp only [List.mem_append] at he
      rcases he with he | he
      · exact m1 e he
      · exact m2 e he⟩
    rect := fun h => h2.rect (h1.rect h)
    animLo := Nat.le_trans h1.animLo h2.animLo
    animHi := hhi }

/-- emitting chunks none of which is an IEND -/
theorem Evolves.emit (s : WState) (cs : List RChunk) (hc : ∀ c ∈ cs, c.ty ≠ tyIEND) :
    Evolves s (s.emit cs).1 := by
  obtain ⟨ext, g1, g2, _, g4, g5⟩ := Sink.emitChunks_log cs s.sink
  exact {
    static := emit_static s cs
    iend := by simp [WState.emit]
    beh := by simp only [WState.emit]; exact g4
    flushes := by simp only [WState.emit]; exact g5
    log := ⟨ext, by simp only [WState.emit]; exact g1, by
      intro e he; obtain ⟨c, hcm, hp⟩ := g2 e he; exact ⟨c, hp, hc c hcm⟩⟩
    rect := by intro h f hf; simp only [WState.emit] at hf ⊢; exact h f hf
    animLo := by simp [WState.emit]
    animHi := by simp [WState.emit] }



theorem Evolves.incr (s : WState) : Evolves s (incrementImagesWritten s) := by
  have hst := incr_static s
  unfold incrementImagesWritten at hst ⊢
  cases ha : s.actl with
  | none =>
    simp only [ha] at hst ⊢
    exact ⟨hst, rfl, rfl, rfl, ⟨[], by simp, by simp⟩, fun h => h, Nat.le_refl _, Nat.le_succ _⟩
  | some a =>
    obtain ⟨n, p⟩ := a
    simp only [ha] at hst ⊢
    split
    · rename_i hle; simp only [hle, if_true] at hst
      exact ⟨hst, rfl, rfl, rfl, ⟨[], by simp, by simp⟩, fun _ f hf => by simp at hf, Nat.le_refl _, Nat.le_succ _⟩
    · rename_i hle; simp only [hle, if_false] at hst
      exact ⟨hst, rfl, rfl, rfl, ⟨[], by simp, by simp⟩, fun h => h, Nat.le_refl _, Nat.le_succ _⟩

/-- a field update that keeps the rectangle of the frame control -/
theorem Evolves.setSeq (s : WState) (g : FC) (hg : s.fctl = some g) (f' : FC)
    (hsame : f'.w = g.w ∧ f'.h = g.h ∧ f'.x = g.x ∧ f'.y = g.y) (a : Nat)
    (ha : s.animWritten ≤ a ∧ a ≤ s.animWritten + 1) :
    Evolves s { s with fctl := some f', animWritten := a } :=
  ⟨⟨rfl, rfl, rfl, rfl, rfl, rfl, rfl, rfl⟩, rfl, rfl, rfl, ⟨[], by simp, by simp⟩,
    fun h k hk => by
      simp only [Option.some.injEq] at hk; subst hk
      have := h g hg
      simp only [RectOk] at this ⊢
      obtain ⟨e1, e2, e3, e4⟩ := hsame
      rw [e1, e2, e3, e4]; exact this, ha.1, ha.2⟩

theorem idat_not_iend {z : List Bytes} : ∀ c ∈ z.map mkIdat, c.ty ≠ tyIEND := by
  intro c hc; simp only [List.mem_map] at hc; obtain ⟨p, _, rfl⟩ := hc; show tyIDAT ≠ tyIEND; decide

theorem fdat_not_iend (parts : List Bytes) : ∀ q, ∀ c ∈ (fdatChunks q parts).1, c.ty ≠ tyIEND := by
  induction parts with
  | nil => intro q c hc; simp [fdatChunks] at hc
  | cons p ps ih =>
    intro q c hc
    simp only [fdatChunks, List.mem_cons] at hc
    rcases hc with hc | hc
    · subst hc; show tyFDAT ≠ tyIEND; decide
    · exact ih _ c hc

theorem incr_anim (s : WState) : (incrementImagesWritten s).animWritten = s.animWritten := by
  unfold incrementImagesWritten
  cases s.actl with
  | none => rfl
  | some a => obtain ⟨n, p⟩ := a; simp only; split <;> rfl

theorem Evolves.idatImage (s : WState) (z : List Bytes) : Evolves s (emitIdatImage s z).1 := by
  unfold emitIdatImage
  have h := Evolves.emit s (z.map mkIdat) idat_not_iend
  cases hh : s.emit (z.map mkIdat) with
  | mk s' ok =>
    rw [hh] at h
    cases ok with
    | false => exact h
    | true =>
      refine h.trans' (Evolves.incr s') ?_
      have := h.animHi
      simp only [incr_anim] at this ⊢
      exact this

theorem idatImage_anim (s : WState) (z : List Bytes) : (emitIdatImage s z).1.animWritten = s.animWritten := by
  unfold emitIdatImage
  cases hh : s.emit (z.map mkIdat) with
  | mk s' ok =>
    have : s'.animWritten = s.animWritten := by
      have := congrArg (fun x => x.1.animWritten) hh; simpa [WState.emit] using this.symm
    cases ok with
    | false => exact this
    | true => simp only [incr_anim]; exact this



theorem emit_anim (s : WState) (cs : List RChunk) : (s.emit cs).1.animWritten = s.animWritten := by
  simp [WState.emit]

theorem emit_fctl (s : WState) (cs : List RChunk) : (s.emit cs).1.fctl = s.fctl := by
  simp [WState.emit]

theorem Evolves.fdatImage (s : WState) (g f : FC) (hf : s.fctl = some g)
    (hsame : f.w = g.w ∧ f.h = g.h ∧ f.x = g.x ∧ f.y = g.y) (q : Nat) (z : List Bytes) :
    Evolves s (emitFdatImage s f q z).1 ∧ (emitFdatImage s f q z).1.animWritten = s.animWritten := by
  simp only [emitFdatImage]
  have h := Evolves.emit s (fdatChunks q z).1 (fdat_not_iend _ q)
  have ha := emit_anim s (fdatChunks q z).1
  have hfc := emit_fctl s (fdatChunks q z).1
  cases hh : s.emit (fdatChunks q z).1 with
  | mk s' ok =>
    rw [hh] at h ha hfc
    simp only at h ha hfc
    have hf' : s'.fctl = some g := by rw [hfc]; exact hf
    cases ok with
    | false =>
      refine ⟨h.trans' (Evolves.setSeq s' g hf' { f with seq := seqAfter q (s'.sink.chunks.length - s.sink.chunks.length) } hsame s'.animWritten ⟨Nat.le_refl _, Nat.le_succ _⟩) ?_, ?_⟩
      · simp only; omega
      · exact ha
    | true =>
      have h2 := Evolves.setSeq s' g hf' { f with seq := seqAfter q z.length } hsame s'.animWritten ⟨Nat.le_refl _, Nat.le_succ _⟩
      refine ⟨(h.trans' h2 (by simp only; omega)).trans' (Evolves.incr _) ?_, ?_⟩
      · simp only [incr_anim]; omega
      · simp only [incr_anim]; exact ha

theorem Evolves.frame (s : WState) (f : FC) (hf : s.fctl = some f) (pi pf : List Bytes) :
    Evolves s (emitFrame s f pi pf).1 := by
  simp only [emitFrame]
  have h := Evolves.emit s [mkFctl f] (by intro c hc; simp only [List.mem_singleton] at hc; subst hc; show tyFCTL ≠ tyIEND; decide)
  have ha := emit_anim s [mkFctl f]
  have hfc := emit_fctl s [mkFctl f]
  cases hh : s.emit [mkFctl f] with
  | mk s' ok =>
    rw [hh] at h ha hfc
    simp only at h ha hfc
    have hf' : s'.fctl = some f := by rw [hfc]; exact hf
    cases ok with
    | false => exact h
    | true =>
      simp only
      split
      · exact h
      · have h2 := Evolves.setSeq s' f hf' { f with seq := (f.seq + 1) % 2 ^ 32 } ⟨rfl, rfl, rfl, rfl⟩ (s'.animWritten + 1) ⟨Nat.le_succ _, Nat.le_refl _⟩
        have h12 := h.trans' h2 (by simp only; omega)
        split
        · refine h12.trans' (Evolves.idatImage _ pi) ?_
          rw [idatImage_anim]; simp only; omega
        · obtain ⟨h3, h4⟩ := Evolves.fdatImage { s' with fctl := some { f with seq := (f.seq + 1) % 2 ^ 32 }, animWritten := s'.animWritten + 1 } { f with seq := (f.seq + 1) % 2 ^ 32 } f rfl ⟨rfl, rfl, rfl, rfl⟩ ((f.seq + 1) % 2 ^ 32) pf
          refine h12.trans' h3 ?_
          rw [h4]; simp only; omega

theorem Evolves.image (s : WState) (pi pf : List Bytes) : Evolves s (emitImage s pi pf).1 := by
  unfold emitImage
  cases hf : s.fctl with
  | none => exact Evolves.idatImage s pi
  | some f => simp only; split; exact Evolves.idatImage s pi; exact Evolves.frame s f hf pi pf

theorem Evolves.writeImageData (E : Codec) (s : WState) (d : Bytes) : Evolves s (writeImageData E s d).1 := by
  unfold Enc.writeImageData
  cases imageChecks s d with
  | error r => exact Evolves.refl s
  | ok a => exact Evolves.image s _ _



/-- the caller does not write IEND chunks himself -/
def Op.noIend : Op → Prop
  | .chunk ty _ => ty ≠ tyIEND
  | .text (some c) => c.ty ≠ tyIEND
  | _ => True

instance (o : Op) : Decidable o.noIend := by
  cases o <;> simp only [Op.noIend] <;> try infer_instance
  rename_i b; cases b <;> simp only [Op.noIend] <;> infer_instance

theorem Evolves.setFc (s : WState) (f' : FC) (hr : (∀ f, s.fctl = some f → RectOk s f) → RectOk s f') :
    Evolves s { s with fctl := some f' } :=
  ⟨⟨rfl, rfl, rfl, rfl, rfl, rfl, rfl, rfl⟩, rfl, rfl, rfl, ⟨[], by simp, by simp⟩,
    fun h k hk => by simp only [Option.some.injEq] at hk; subst hk; exact hr h, Nat.le_refl _, Nat.le_succ _⟩

theorem Evolves.withFctl (s : WState) (k : FC → WState × Res)
    (hk : ∀ f, s.fctl = some f → Evolves s (k f).1) : Evolves s (Enc.withFctl s k).1 := by
  unfold Enc.withFctl
  cases hf : s.fctl with
  | none => exact Evolves.refl s
  | some f => exact hk f hf

/-- every operation of the whole-image API -/
theorem Evolves.step (E : Codec) (s : WState) (op : Op) (hn : op.noIend) : Evolves s (writerStep E s op).1 := by
  cases op with
  | image d => exact Evolves.writeImageData E s d
  | chunk t d =>
    simp only [writerStep, writeChunk]
    split
    · exact Evolves.refl s
    · have h := Evolves.emit s [⟨t, d⟩] (by intro c hc; simp only [List.mem_singleton] at hc; subst hc; exact hn)
      cases hh : s.emit [⟨t, d⟩] with
      | mk s' ok => rw [hh] at h; cases ok <;> exact h
  | text b =>
    cases b with
    | none => exact Evolves.refl s
    | some c =>
      simp only [writerStep, writeTextChunk]
      have h := Evolves.emit s [c] (by intro c' hc; simp only [List.mem_singleton] at hc; subst hc; exact hn)
      cases hh : s.emit [c] with
      | mk s' ok => rw [hh] at h; cases ok <;> exact h
  | setDelay n d =>
    exact Evolves.withFctl s _ (fun f hf => Evolves.setFc s _ (fun h => by have := h f hf; simpa [RectOk] using this))
  | setBlend b =>
    exact Evolves.withFctl s _ (fun f hf => Evolves.setFc s _ (fun h => by have := h f hf; simpa [RectOk] using this))
  | setDispose d =>
    exact Evolves.withFctl s _ (fun f hf => Evolves.setFc s _ (fun h => by have := h f hf; simpa [RectOk] using this))
  | setDim w h =>
    refine Evolves.withFctl s _ (fun f hf => ?_)
    cases hg : (gtCheckedSub w s.width f.x || gtCheckedSub h s.height f.y) with
    | true => simp only [if_true]; exact Evolves.refl s
    | false =>
      simp only [Bool.or_eq_false_iff] at hg
      obtain ⟨a1, a2⟩ := gtCheckedSub_false hg.1
      obtain ⟨b1, b2⟩ := gtCheckedSub_false hg.2
      simp only [Bool.false_eq_true, if_false]
      split
      · exact Evolves.refl s
      · split
        · exact Evolves.refl s
        · refine Evolves.setFc s _ (fun _ => ?_)
          simp only [RectOk]; omega
  | setPos x y =>
    refine Evolves.withFctl s _ (fun f hf => ?_)
    cases hg : (gtCheckedSub x s.width f.w || gtCheckedSub y s.height f.h) with
    | true => simp only [if_true]; exact Evolves.refl s
    | false =>
      simp only [Bool.or_eq_false_iff] at hg
      obtain ⟨a1, a2⟩ := gtCheckedSub_false hg.1
      obtain ⟨b1, b2⟩ := gtCheckedSub_false hg.2
      simp only [Bool.false_eq_true, if_false]
      refine Evolves.setFc s _ (fun h => ?_)
      have := h f hf
      simp only [RectOk] at this ⊢; omega
  | resetDim =>
    refine Evolves.withFctl s _ (fun f hf => ?_)
    split
    · exact Evolves.refl s
    · refine Evolves.setFc s _ (fun h => ?_)
      have := h f hf
      simp only [RectOk] at this ⊢; omega
  | resetPos =>
    refine Evolves.withFctl s _ (fun f hf => Evolves.setFc s _ (fun h => ?_))
    have := h f hf
    simp only [RectOk] at this ⊢; omega



/-- the part of the state the panic sites of the whole-image API depend on -/
structure Safe (s : WState) : Prop where
  rect : ∀ f, s.fctl = some f → RectOk s f
  valid : 0 < s.width ∧ 0 < s.height ∧ colorOk s.color = true ∧ depthOk s.depth = true

theorem Safe.nextDims_pos {s : WState} (h : Safe s) : 0 < inLenOf s (nextDims s).1 := by
  obtain ⟨v1, v2, v3, v4⟩ := h.valid
  unfold inLenOf nextDims
  rcases opt_cases s.fctl with hf | ⟨f, hf⟩
  · simp only [hf]; exact inLen_pos v3 v4 v1
  · simp only [hf]; exact inLen_pos v3 v4 (h.rect f hf).1

theorem emitIdatImage_no_panic (s : WState) (z : List Bytes) : (emitIdatImage s z).2.isPanic = false := by
  unfold emitIdatImage
  cases hh : s.emit (z.map mkIdat) with
  | mk s' ok => cases ok <;> rfl

theorem emitFdatImage_no_panic (s : WState) (f : FC) (q : Nat) (z : List Bytes) : (emitFdatImage s f q z).2.isPanic = false := by
  simp only [emitFdatImage]
  cases hh : s.emit (fdatChunks q z).1 with
  | mk s' ok => cases ok <;> rfl

theorem emitFrame_no_panic (s : WState) (f : FC) (pi pf : List Bytes) (ha : s.animWritten + 1 < 2 ^ 32) :
    (emitFrame s f pi pf).2.isPanic = false := by
  simp only [emitFrame]
  have han := emit_anim s [mkFctl f]
  cases hh : s.emit [mkFctl f] with
  | mk s' ok =>
    rw [hh] at han; simp only at han
    cases ok with
    | false => rfl
    | true =>
      have : ¬ (s'.animWritten + 1 ≥ 2 ^ 32) := by omega
      simp only [this, if_false]
      split
      · exact emitIdatImage_no_panic _ pi
      · exact emitFdatImage_no_panic _ f _ pf

theorem emitImage_no_panic (s : WState) (pi pf : List Bytes)
    (ha : ∀ f, s.fctl = some f → s.animWritten + 1 < 2 ^ 32) :
    (emitImage s pi pf).2.isPanic = false := by
  unfold emitImage
  cases hf : s.fctl with
  | none => exact emitIdatImage_no_panic s pi
  | some f => simp only; split; exact emitIdatImage_no_panic s pi; exact emitFrame_no_panic s f pi pf (ha f hf)

/-- no operation of the whole-image API panics in a safe state (any sink, any arguments) -/
theorem step_no_panic (E : Codec) {s : WState} (hs : Safe s)
    (ha : ∀ f, s.fctl = some f → s.animWritten + 1 < 2 ^ 32) (op : Op) :
    (writerStep E s op).2.isPanic = false := by
  cases op with
  | image d =>
    simp only [writerStep, Enc.writeImageData]
    cases hc : imageChecks s d with
    | error r => exact imageChecks_error hc hs.nextDims_pos
    | ok a => exact emitImage_no_panic s _ _ ha
  | chunk t d =>
    simp only [writerStep, writeChunk]
    split
    · rfl
    · cases hh : s.emit [⟨t, d⟩] with
      | mk s' ok => cases ok <;> rfl
  | text b =>
    cases b with
    | none => rfl
    | some c =>
      simp only [writerStep, writeTextChunk]
      cases hh : s.emit [c] with
      | mk s' ok => cases ok <;> rfl
  | setDelay n d => simp only [writerStep, setFrameDelay, Enc.withFctl]; cases s.fctl <;> rfl
  | setBlend b => simp only [writerStep, setBlendOp, Enc.withFctl]; cases s.fctl <;> rfl
  | setDispose d => simp only [writerStep, setDisposeOp, Enc.withFctl]; cases s.fctl <;> rfl
  | resetPos => simp only [writerStep, resetFramePosition, Enc.withFctl]; cases s.fctl <;> rfl
  | setDim w h =>
    simp only [writerStep, setFrameDimension, Enc.withFctl]
    cases s.fctl with
    | none => rfl
    | some f => simp only; split; rfl; split; rfl; split; rfl; rfl
  | setPos x y =>
    simp only [writerStep, setFramePosition, Enc.withFctl]
    cases s.fctl with
    | none => rfl
    | some f => simp only; split; rfl; rfl
  | resetDim =>
    simp only [writerStep, resetFrameDimension, Enc.withFctl]
    cases hf : s.fctl with
    | none => rfl
    | some f =>
      have := hs.rect f hf
      simp only [RectOk] at this
      have hn : ¬ (s.width < f.x ∨ s.height < f.y) := by omega
      simp only [hn, if_false]; rfl

theorem Safe.evolves {s s' : WState} (hs : Safe s) (h : Evolves s s') : Safe s' :=
  ⟨h.rect hs.rect, by
    obtain ⟨a1, a2, a3, a4, _⟩ := h.static
    rw [a1, a2, a3, a4]; exact hs.valid⟩

/-- what survives any number of calls: static fields, the IEND flag, the failure schedule, and a log
    that only grows by chunks that are not IEND -/
structure Grows (s s' : WState) : Prop where
  static : StaticEq s s'
  iend : s'.iendWritten = s.iendWritten
  beh : s'.sink.beh = s.sink.beh
  flushes : s'.sink.flushes = s.sink.flushes
  log : ∃ ext, s'.sink.log = s.sink.log ++ ext ∧ ∀ e ∈ ext, ∃ c, e.piece = .chunk c ∧ c.ty ≠ tyIEND

theorem Evolves.grows {s s' : WState} (h : Evolves s s') : Grows s s' :=
  ⟨h.static, h.iend, h.beh, h.flushes, h.log⟩

theorem Grows.refl (s : WState) : Grows s s := (Evolves.refl s).grows

theorem Grows.trans {a b c : WState} (h1 : Grows a b) (h2 : Grows b c) : Grows a c := by
  obtain ⟨e1, l1, m1⟩ := h1.log
  obtain ⟨e2, l2, m2⟩ := h2.log
  exact ⟨h1.static.trans h2.static, h2.iend.trans h1.iend, h2.beh.trans h1.beh, h2.flushes.trans h1.flushes,
    ⟨e1 ++ e2, by rw [l2, l1]; simp, by
      intro e he; simp only [List.mem_append] at he
      rcases he with he | he
      · exact m1 e he
      · exact m2 e he⟩⟩

/-- no operation sequence of fewer than 2^32 operations panics -/
theorem runOps_no_panic (E : Codec) (ops : List Op) :
    ∀ {s : WState}, Safe s → (∀ op ∈ ops, op.noIend) → s.animWritten + ops.length < 2 ^ 32 →
      anyPanic (Enc.runOps E s ops).2 = false ∧ Safe (Enc.runOps E s ops).1 ∧ Grows s (Enc.runOps E s ops).1 := by
  induction ops with
  | nil => intro s hs _ _; exact ⟨rfl, hs, Grows.refl s⟩
  | cons op ops ih =>
    intro s hs hn hlen
    simp only [List.length_cons] at hlen
    have hnp := step_no_panic E hs (fun _ _ => by omega) op
    have hev := Evolves.step E s op (hn op (by simp))
    have hs1 := hs.evolves hev
    obtain ⟨r1, r2, r3⟩ := ih hs1 (fun o ho => hn o (by simp [ho])) (by have := hev.animHi; omega)
    simp only [Enc.runOps]
    cases hws : writerStep E s op with
    | mk s' r =>
      rw [hws] at hnp hev r1 r2 r3
      cases r with
      | panic p => cases hnp
      | ok => exact ⟨by simpa [anyPanic, Res.isPanic] using r1, r2, hev.grows.trans r3⟩
      | err e => exact ⟨by simpa [anyPanic, Res.isPanic] using r1, r2, hev.grows.trans r3⟩



/-- the text chunks of the `Info` are not IEND chunks -/
def Cfg.NoIend (c : Cfg) : Prop := ∀ r, some r ∈ c.texts → r.ty ≠ tyIEND

theorem iendAttempts_append (k : Sink) (ext : List Emit) (n : Nat) (b : Bool) (f : Nat) :
    ({ k with log := k.log ++ ext, count := n, fired := b, flushes := f } : Sink).iendAttempts =
      k.iendAttempts + (ext.filter fun e => e.piece == .chunk iendChunk).length := by
  simp [Sink.iendAttempts, List.filter_append]

theorem iendAttempts_of_log {k k' : Sink} {ext : List Emit} (h : k'.log = k.log ++ ext) :
    k'.iendAttempts = k.iendAttempts + (ext.filter fun e => e.piece == .chunk iendChunk).length := by
  simp [Sink.iendAttempts, h, List.filter_append]

theorem no_iend_ext {ext : List Emit} (h : ∀ e ∈ ext, ∃ c, e.piece = .chunk c ∧ c.ty ≠ tyIEND) :
    (ext.filter fun e => e.piece == .chunk iendChunk).length = 0 := by
  rw [List.length_eq_zero_iff, List.filter_eq_nil_iff]
  intro e he
  obtain ⟨c, hp, hc⟩ := h e he
  simp only [hp, beq_iff_eq, Piece.chunk.injEq]
  intro hh; subst hh; exact hc rfl

theorem Grows.iendAttempts {s s' : WState} (h : Grows s s') : s'.sink.iendAttempts = s.sink.iendAttempts := by
  obtain ⟨ext, h1, h2⟩ := h.log
  rw [iendAttempts_of_log h1, no_iend_ext h2]; rfl

theorem writeIend_eq (s : WState) :
    writeIend s = ({ s with iendWritten := true, sink := (s.sink.emit (.chunk iendChunk)).1 },
      (s.sink.emit (.chunk iendChunk)).2) := by
  simp only [writeIend, WState.emit, Sink.emitChunks]
  cases he : s.sink.emit (.chunk iendChunk) with
  | mk k ok => cases ok <;> rfl

/-- `write_iend`: exactly one more IEND attempt; if it succeeds the log ends with a complete IEND -/
theorem writeIend_spec (s : WState) :
    (writeIend s).1.iendWritten = true ∧ (writeIend s).1.sink.iendAttempts = s.sink.iendAttempts + 1 ∧
    ((writeIend s).2 = true → ∃ pre, (writeIend s).1.sink.log = pre ++ [⟨.chunk iendChunk, 12⟩]) ∧
    StaticEq s (writeIend s).1 := by
  obtain ⟨n, h1, h2, _, _⟩ := s.sink.emit_log (.chunk iendChunk)
  rw [writeIend_eq]
  refine ⟨rfl, ?_, ?_, ⟨rfl, rfl, rfl, rfl, rfl, rfl, rfl, rfl⟩⟩
  · show (s.sink.emit (.chunk iendChunk)).1.iendAttempts = _
    rw [iendAttempts_of_log h1]; simp
  · intro hok
    refine ⟨s.sink.log, ?_⟩
    show (s.sink.emit (.chunk iendChunk)).1.log = _
    rw [h1, h2 hok]; rfl

theorem dropW_spec (s : WState) :
    (dropW s).iendWritten = true ∧
    (dropW s).sink.iendAttempts = s.sink.iendAttempts + (if s.iendWritten then 0 else 1) := by
  unfold dropW
  cases h : s.iendWritten with
  | true => simp [h]
  | false =>
    obtain ⟨h1, h2, _, _⟩ := writeIend_spec s
    simp [h1, h2]

theorem flush_log (k : Sink) : (k.flush).1.log = k.log ∧ (k.flush).1.iendAttempts = k.iendAttempts := by
  simp [Sink.flush, Sink.iendAttempts]

/-- `finish`: never panics; whatever happens there is exactly one more IEND attempt (none if the flag
    was already set); `Ok` means the log ends with a complete IEND chunk -/
theorem finishW_spec (s : WState) (h0 : s.iendWritten = false) :
    (finishW s).2.isPanic = false ∧ (finishW s).1.iendWritten = true ∧
    (finishW s).1.sink.iendAttempts = s.sink.iendAttempts + 1 ∧
    ((finishW s).2 = .ok → validateSequenceDone s = none ∧
      ∃ pre, (finishW s).1.sink.log = pre ++ [⟨.chunk iendChunk, 12⟩]) := by
  unfold finishW
  cases hv : validateSequenceDone s with
  | some e =>
    obtain ⟨d1, d2⟩ := dropW_spec s
    simp only [h0] at d2
    exact ⟨rfl, d1, by simpa using d2, fun h => by cases h⟩
  | none =>
    obtain ⟨w1, w2, w3, _⟩ := writeIend_spec s
    simp only
    cases hw : writeIend s with
    | mk s' ok =>
      rw [hw] at w1 w2 w3
      simp only at w1 w2 w3
      cases ok with
      | false =>
        simp only [dropW_of_iend w1]
        exact ⟨rfl, w1, w2, fun h => by cases h⟩
      | true =>
        obtain ⟨pre, hpre⟩ := w3 rfl
        obtain ⟨f1, f2⟩ := flush_log s'.sink
        simp only
        cases hf : s'.sink.flush with
        | mk k okf =>
          rw [hf] at f1 f2
          simp only at f1 f2
          have hd : dropW { s' with sink := k } = { s' with sink := k } := dropW_of_iend w1
          cases okf with
          | false => simp only [hd]; exact ⟨rfl, w1, by rw [f2]; exact w2, fun h => by cases h⟩
          | true => simp only [hd]; exact ⟨rfl, w1, by rw [f2]; exact w2, fun _ => ⟨trivial, pre, by rw [f1]; exact hpre⟩⟩



theorem headerChunks_no_iend (c : Cfg) (hn : c.NoIend) : ∀ x ∈ headerChunks c, x.ty ≠ tyIEND := by
  intro x hx
  simp only [headerChunks, List.mem_append, List.mem_singleton] at hx
  rcases hx with ((((hx | hx) | hx) | hx) | hx) | hx
  · subst hx; show tyIHDR ≠ tyIEND; decide
  · have := preChunks_types c.md x hx
    simp only [headerAncTypes, List.mem_cons, List.not_mem_nil, or_false] at this
    rcases this with h | h | h | h | h | h | h | h | h | h <;> rw [h] <;> decide
  · cases ha : c.actl with
    | none => simp [ha] at hx
    | some a => obtain ⟨n, p⟩ := a; simp only [ha, List.mem_singleton] at hx; subst hx; show tyACTL ≠ tyIEND; decide
  · rw [optChunk_ty hx]; decide
  · rw [optChunk_ty hx]; decide
  · exact hn x (textPrefix_mem c.texts x hx)

theorem initState_attempts (c : Cfg) (beh : SinkBehaviour) : (initState c beh).sink.iendAttempts = 0 := rfl

/-- `write_header` for every sink: no panic; success leaves a safe state without any IEND; failure
    leaves exactly one IEND attempt (the `Writer` is dropped) -/
theorem header_spec (c : Cfg) (beh : SinkBehaviour) (hr : c.inRange) (hf : c.Accepted) (hn : c.NoIend) :
    (writeHeader c beh).2.isPanic = false ∧
    ((writeHeader c beh).2 = .ok →
      Safe (writeHeader c beh).1 ∧ (writeHeader c beh).1.iendWritten = false ∧
      (writeHeader c beh).1.sink.iendAttempts = 0 ∧ (writeHeader c beh).1.animWritten = 0) ∧
    ((writeHeader c beh).2 ≠ .ok →
      (writeHeader c beh).1.iendWritten = true ∧ (writeHeader c beh).1.sink.iendAttempts = 1) := by
  obtain ⟨i1, i2, i3, i4, i5, i6⟩ := hr
  have hdrop : ∀ s : WState, s.iendWritten = false → s.sink.iendAttempts = 0 →
      (dropW s).iendWritten = true ∧ (dropW s).sink.iendAttempts = 1 := by
    intro s h1 h2
    obtain ⟨d1, d2⟩ := dropW_spec s
    rw [h1, h2] at d2; exact ⟨d1, by simpa using d2⟩
  unfold writeHeader
  by_cases hw0 : c.width = 0
  · rw [if_pos hw0]
    exact ⟨rfl, (fun h => by cases h), fun _ => hdrop (initState c beh) rfl rfl⟩
  · by_cases hh0 : c.height = 0
    · rw [if_neg hw0, if_pos hh0]
      exact ⟨rfl, (fun h => by cases h), fun _ => hdrop (initState c beh) rfl rfl⟩
    · cases hci : combinationInvalid c.color c.depth with
      | true =>
        rw [if_neg hw0, if_neg hh0, if_pos rfl]
        exact ⟨rfl, (fun h => by cases h), fun _ => hdrop (initState c beh) rfl rfl⟩
      | false =>
        rw [if_neg hw0, if_neg hh0, if_neg (by simp)]
        obtain ⟨n, g1, _, _, _⟩ := (initState c beh).sink.emit_log .sig
        cases he : (initState c beh).sink.emit .sig with
        | mk k ok =>
          rw [he] at g1; simp only at g1
          have hk0 : k.iendAttempts = 0 := by
            rw [iendAttempts_of_log g1]; simp [initState_attempts]
          cases ok with
          | false =>
            simp only
            exact ⟨rfl, (fun h => by cases h), fun _ => hdrop { initState c beh with sink := k } rfl hk0⟩
          | true =>
            simp only
            have hev := Evolves.emit { initState c beh with sink := k } (headerChunks c) (headerChunks_no_iend c hn)
            cases hem : ({ initState c beh with sink := k } : WState).emit (headerChunks c) with
            | mk s' ok2 =>
              rw [hem] at hev; simp only at hev
              have hatt : s'.sink.iendAttempts = 0 := by rw [hev.grows.iendAttempts]; exact hk0
              have hie : s'.iendWritten = false := hev.iend
              cases ok2 with
              | false => simp only; exact ⟨rfl, (fun h => by cases h), fun _ => hdrop s' hie hatt⟩
              | true =>
                simp only
                cases htp : (textPrefix c.texts).2 with
                | false => rw [if_neg (by simp)]; exact ⟨rfl, (fun h => by cases h), fun _ => hdrop s' hie hatt⟩
                | true =>
                  rw [if_pos rfl]
                  refine ⟨rfl, fun _ => ⟨?_, hie, hatt, ?_⟩, fun h => absurd rfl h⟩
                  · have hs0 : Safe ({ initState c beh with sink := k } : WState) := by
                      refine ⟨?_, ⟨by simp only [initState]; omega, by simp only [initState]; omega, i3, i4⟩⟩
                      intro f hff
                      have hcf : c.fctl = some f := hff
                      exact ((accepted_spec hf).2.2 f hcf).2 (by omega) (by omega)
                    exact hs0.evolves hev
                  · have := hev.animLo; have := hev.animHi
                    have e : s'.animWritten = 0 := by
                      have := congrArg (fun x => x.1.animWritten) hem
                      simpa [WState.emit, initState] using this.symm
                    exact e




/-- C19 for the whole-image API, every sink: no call panics; exactly one IEND is ever attempted (by
    `finish`, or by the drop — also the drop after a failed `write_header` or a failed `finish`);
    `Ok` from `finish` means the sink's log ends with a completely accepted IEND chunk and the
    sequence check passed -/
theorem writer_clean (E : Codec) (c : Cfg) (beh : SinkBehaviour) (ops : List Op) (fin : Final)
    (hr : c.inRange) (hf : c.Accepted) (hn : c.NoIend) (hno : ∀ op ∈ ops, op.noIend)
    (hlen : ops.length < 2 ^ 32) :
    (runWriter E c beh ops fin).header.isPanic = false ∧
    anyPanic (runWriter E c beh ops fin).results = false ∧
    (∀ r, (runWriter E c beh ops fin).final = some r → r.isPanic = false) ∧
    (runWriter E c beh ops fin).state.iendWritten = true ∧
    (runWriter E c beh ops fin).state.sink.iendAttempts = 1 ∧
    ((runWriter E c beh ops fin).final = some .ok → fin = .finish →
      ∃ pre, (runWriter E c beh ops fin).state.sink.log = pre ++ [⟨.chunk iendChunk, 12⟩]) := by
  obtain ⟨h1, h2, h3⟩ := header_spec c beh hr hf hn
  unfold runWriter
  cases hwh : writeHeader c beh with
  | mk s0 r0 =>
    rw [hwh] at h1 h2 h3
    simp only at h1 h2 h3
    cases r0 with
    | panic p => cases h1
    | err e =>
      obtain ⟨a1, a2⟩ := h3 (by simp)
      exact ⟨rfl, rfl, (fun r h => by cases h), a1, a2, (fun h => by cases h)⟩
    | ok =>
      obtain ⟨hs0, hi0, ha0, hw0⟩ := h2 rfl
      obtain ⟨r1, r2, r3⟩ := runOps_no_panic E ops hs0 hno (by omega)
      simp only
      cases hro : Enc.runOps E s0 ops with
      | mk s1 rs =>
        rw [hro] at r1 r2 r3
        simp only at r1 r2 r3 ⊢
        simp only [r1, Bool.false_eq_true, if_false]
        have hi1 : s1.iendWritten = false := r3.iend.trans hi0
        have ha1 : s1.sink.iendAttempts = 0 := r3.iendAttempts.trans ha0
        cases fin with
        | drop =>
          obtain ⟨d1, d2⟩ := dropW_spec s1
          rw [hi1, ha1] at d2
          refine ⟨rfl, trivial, fun r h => ?_, d1, by simpa [finalStep] using d2, (fun _ h => by cases h)⟩
          simp only [finalStep, Option.some.injEq] at h; subst h; rfl
        | finish =>
          obtain ⟨f1, f2, f3, f4⟩ := finishW_spec s1 hi1
          rw [ha1] at f3
          refine ⟨rfl, trivial, fun r h => ?_, f2, by simpa [finalStep] using f3, fun h _ => ?_⟩
          · simp only [finalStep, Option.some.injEq] at h; subst h; exact f1
          · simp only [finalStep, Option.some.injEq] at h
            exact (f4 h).2



theorem imageChecks_validate {s : WState} {d : Bytes} (e : Err) (hv : validateNewImage s = some e) :
    ∃ r, imageChecks s d = .error r := by
  unfold imageChecks
  by_cases hp : s.color = 3 ∧ s.hasPalette = false
  · rw [if_pos hp]; exact ⟨_, rfl⟩
  · rw [if_neg hp]; simp only [hv]; exact ⟨_, rfl⟩

theorem imageChecks_error_ne_ok {s : WState} {d : Bytes} {r : Res} (hc : imageChecks s d = .error r) : r ≠ .ok := by
  unfold imageChecks at hc
  by_cases hp : s.color = 3 ∧ s.hasPalette = false
  · rw [if_pos hp] at hc; simp only [Except.error.injEq] at hc; subst hc; simp
  · rw [if_neg hp] at hc
    cases hv : validateNewImage s with
    | some e => simp only [hv, Except.error.injEq] at hc; subst hc; simp
    | none =>
    cases hv2 : validateFirstImageRect s with
    | some e => simp only [hv, hv2, Except.error.injEq] at hc; subst hc; simp
    | none =>
      simp only [hv, hv2] at hc
      by_cases hne : (if inLenOf s (nextDims s).1 * (nextDims s).2 < 2 ^ 64 then inLenOf s (nextDims s).1 * (nextDims s).2 else 2 ^ 64 - 1) ≠ d.length
      · rw [if_pos hne] at hc; simp only [Except.error.injEq] at hc; subst hc; simp
      · rw [if_neg hne] at hc
        by_cases h0 : inLenOf s (nextDims s).1 = 0
        · rw [if_pos h0] at hc; simp only [Except.error.injEq] at hc; subst hc; simp
        · rw [if_neg h0] at hc; cases hc

/-- with `validate_sequence` the writer itself refuses an image beyond the declared ones -/
theorem Inv.validate_refuses {imgOk : ImgRule} {E : Codec} {s : WState} {seq fctls : Nat} {ph : Phase}
    (inv : Inv imgOk s seq fctls ph) (hval : s.validate = true) (hfull : declared s ≤ s.imagesWritten) (d : Bytes) :
    (writeImageData E s d).2 ≠ .ok := by
  have hv : ∃ e, validateNewImage s = some e := by
    unfold validateNewImage
    simp only [hval, Bool.not_true, Bool.false_eq_true, if_false]
    rcases opt_cases s.actl with ha | ⟨⟨n, p⟩, ha⟩
    · simp only [ha]
      have : s.imagesWritten ≠ 0 := by simp only [declared, ha] at hfull; omega
      simp [this]
    · simp only [ha]
      rcases opt_cases s.fctl with hf | ⟨f, hf⟩
      · simp [hf]
      · exfalso
        obtain ⟨_, _, _, _, ⟨n', p', ha', hlt⟩, h6⟩ := inv.fc f hf
        rw [ha] at ha'; simp only [Option.some.injEq, Prod.mk.injEq] at ha'; obtain ⟨rfl, rfl⟩ := ha'
        simp only [declared, ha] at hfull
        cases hs : s.sepDefImg <;> simp [hs] at h6 hfull
        · omega
        · split at h6 <;> omega
  obtain ⟨e, he⟩ := hv
  obtain ⟨r, hr⟩ := imageChecks_validate (d := d) e he
  unfold writeImageData
  rw [hr]
  exact imageChecks_error_ne_ok hr



theorem Inv.runOpsV {imgOk : ImgRule} {E : Codec} (ops : List Op) :
    ∀ {s : WState} {seq fctls : Nat} {ph : Phase}, Inv imgOk s seq fctls ph → s.validate = true →
      Codec.Ok imgOk E s.color s.depth → (∀ op ∈ ops, op.inRange) →
      ∃ seq' fctls' ph', Inv imgOk (Enc.runOps E s ops).1 seq' fctls' ph' ∧
        anyPanic (Enc.runOps E s ops).2 = false ∧ StaticEq s (Enc.runOps E s ops).1 := by
  induction ops with
  | nil => intro s seq fctls ph inv _ _ _; exact ⟨seq, fctls, ph, inv, rfl, StaticEq.refl s⟩
  | cons op ops ih =>
    intro s seq fctls ph inv hval hE hall
    have hr : op.inRange := hall op (by simp)
    have hrest : ∀ o ∈ ops, o.inRange := fun o ho => hall o (by simp [ho])
    have hop : opAllowed E s op := by
      refine ⟨hr, fun himg => ?_⟩
      by_cases hlt : s.imagesWritten < declared s
      · exact Or.inl hlt
      · right
        cases op with
        | image d => exact inv.validate_refuses hval (by omega) d
        | _ => cases himg
    obtain ⟨seq1, fctls1, ph1, inv1, hnp⟩ := inv.step hE op hop
    have hst := writerStep_static E s op
    have hE1 : Codec.Ok imgOk E (writerStep E s op).1.color (writerStep E s op).1.depth := by
      rw [hst.2.2.1, hst.2.2.2.1]; exact hE
    have hval1 : (writerStep E s op).1.validate = true := by rw [hst.2.2.2.2.2.2.2]; exact hval
    obtain ⟨seq2, fctls2, ph2, inv2, hnp2, hst2⟩ := ih inv1 hval1 hE1 hrest
    simp only [Enc.runOps]
    cases hws : writerStep E s op with
    | mk s' r =>
      rw [hws] at hnp inv2 hnp2 hst2 hst
      cases r with
      | panic p => cases hnp
      | ok => exact ⟨seq2, fctls2, ph2, inv2, by simpa [anyPanic, Res.isPanic] using hnp2, hst.trans hst2⟩
      | err e => exact ⟨seq2, fctls2, ph2, inv2, by simpa [anyPanic, Res.isPanic] using hnp2, hst.trans hst2⟩

/-- C19, sequence validation on the whole-image API (sink that never fails): `finish` returns `Ok`
    exactly when the declared number of images has been written -/
theorem writer_validation (imgOk : ImgRule) (E : Codec) (c : Cfg) (hw : c.WellFormed) (hval : c.validate = true)
    (hE : Codec.Ok imgOk E c.color c.depth) (ops : List Op)
    (hh : (writeHeader c {}).2 = .ok) (hall : ∀ op ∈ ops, op.inRange) :
    (runWriter E c {} ops .finish).final = some .ok ↔
      (Enc.runOps E (writeHeader c {}).1 ops).1.imagesWritten = declared (writeHeader c {}).1 := by
  cases hwh : writeHeader c {} with
  | mk s0 r0 =>
    rw [hwh] at hh
    simp only at hh ⊢
    subst hh
    obtain ⟨inv0, hst0, hch0⟩ := header_inv imgOk c hw hwh
    have hE0 : Codec.Ok imgOk E s0.color s0.depth := by rw [hst0.2.2.1, hst0.2.2.2.1]; exact hE
    have hv0 : s0.validate = true := by rw [hst0.2.2.2.2.2.2.2]; exact hval
    obtain ⟨seq1, fctls1, ph1, inv1, hnp, hst1⟩ := inv0.runOpsV ops hv0 hE0 hall
    unfold runWriter
    rw [hwh]
    simp only
    cases hro : Enc.runOps E s0 ops with
    | mk s1 rs =>
      rw [hro] at inv1 hnp hst1
      simp only at inv1 hnp hst1 ⊢
      simp only [hnp, Bool.false_eq_true, if_false, finalStep]
      have hd : declared s1 = declared s0 := declared_static hst1
      have hv1 : s1.validate = true := by rw [hst1.2.2.2.2.2.2.2]; exact hv0
      constructor
      · intro hok
        simp only [Option.some.injEq] at hok
        obtain ⟨_, _, _, f4⟩ := finishW_spec s1 inv1.iend
        obtain ⟨hvd, _⟩ := f4 hok
        -- `validate_sequence_done` passed
        unfold validateSequenceDone at hvd
        simp only [hv1, Bool.not_true, Bool.false_eq_true, if_false] at hvd
        have hcond : ¬ ((s1.actl.isSome = true ∧ s1.fctl.isSome = true) ∨ s1.imagesWritten = 0) := by
          intro hc; simp [hc] at hvd
        have hcnt := inv1.cnt
        rw [← hd]
        rcases opt_cases s1.actl with ha | ⟨⟨n, p⟩, ha⟩
        · have : s1.imagesWritten ≠ 0 := fun h => hcond (Or.inr h)
          simp only [declared, ha] at hcnt ⊢; omega
        · have hfn : s1.fctl = none := by
            rcases opt_cases s1.fctl with hf | ⟨f, hf⟩
            · exact hf
            · exact absurd (Or.inl ⟨by simp [ha], by simp [hf]⟩) hcond
          have := (inv1.fin hfn n p ha).2
          omega
      · intro hcount
        have hcount' : s1.imagesWritten = declared s1 := by rw [hd]; exact hcount
        obtain ⟨hv, hw1, hw2, hw3, rest, hw4, hw6⟩ := inv1.finishChunk hcount'
        simp only [finishW, hv]
        cases hwi : writeIend s1 with
        | mk s2 ok =>
          rw [hwi] at hw1 hw2 hw3
          simp only at hw1 hw2 hw3
          subst hw1
          have hfl : (s2.sink.flush).2 = true := by simp [Sink.flush, hw3.2]
          cases hf2 : s2.sink.flush with
          | mk k okf => rw [hf2] at hfl; simp only at hfl; subst hfl; simp only [hf2]



/-! ## Part 6: the image rule of the specification and a back-end that satisfies the contract -/

/-- one zlib stream (abstract inflater) that inflates to exactly `h` scanlines of `1 + row` bytes, each
    with a legal filter type byte (`decodeScanlines` fails exactly on a short stream or a filter byte > 4) -/
def specImgOk (inflate : Bytes → Option Bytes) (color depth : Nat) : ImgRule := fun w h z =>
  match inflate z with
  | none => .error "zlib-corrupt"
  | some raw =>
    if raw.length ≠ h * (1 + (rawRowLengthFromWidth color depth w - 1)) then .error "image-data-size"
    else match decodeScanlines (bytesPerPixel color depth) (rawRowLengthFromWidth color depth w - 1) h [] raw with
      | none => .error "filter-type"
      | some _ => .ok ()

/-- `data.chunks(in_len)` for `height` rows -/
def rowsOf (rl : Nat) : Nat → Bytes → List Bytes
  | 0, _ => []
  | h+1, d => d.take rl :: rowsOf rl h (d.drop rl)

/-- the shape of all three back-ends of `write_image_data`: filter every row against the previous
    one with some choice of filter type, then compress -/
def scanCodec (compress : Bytes → Bytes) (choose : Bytes → Bytes → FilterType) : Codec :=
  { encode := fun bpp rl h d => compress (encodeScanlines choose bpp [] (rowsOf rl h d)) }

theorem rowsOf_spec (rl : Nat) : ∀ (h : Nat) (d : Bytes), d.length = rl * h →
    (rowsOf rl h d).length = h ∧ ∀ r ∈ rowsOf rl h d, r.length = rl := by
  intro h
  induction h with
  | zero => intro d _; simp [rowsOf]
  | succ k ih =>
    intro d hd
    have hle : rl ≤ d.length := by rw [hd]; exact Nat.le_mul_of_pos_right rl (Nat.succ_pos k)
    obtain ⟨h1, h2⟩ := ih (d.drop rl) (by simp only [List.length_drop, hd, Nat.mul_succ]; omega)
    refine ⟨by simp [rowsOf, h1], ?_⟩
    intro r hr
    simp only [rowsOf, List.mem_cons] at hr
    rcases hr with hr | hr
    · subst hr; simp only [List.length_take]; omega
    · exact h2 r hr

theorem encodeScanlines_length (choose : Bytes → Bytes → FilterType) (bpp rl : Nat) (rows : List Bytes)
    (h : ∀ r ∈ rows, r.length = rl) : ∀ prev, (encodeScanlines choose bpp prev rows).length = rows.length * (1 + rl) := by
  induction rows with
  | nil => intro prev; simp [encodeScanlines]
  | cons r rs ih =>
    intro prev
    simp only [encodeScanlines, List.length_append, List.length_cons, filtRow_length,
      ih (fun x hx => h x (by simp [hx])) r, h r (by simp)]
    rw [Nat.succ_mul]; omega

/-- the contract of `Codec` holds for every filter choice and every compressor that the inflater inverts -/
theorem scanCodec_ok (compress : Bytes → Bytes) (inflate' : Bytes → Option Bytes)
    (choose : Bytes → Bytes → FilterType) (color depth : Nat)
    (hic : ∀ x, inflate' (compress x) = some x) (hnil : inflate' [] = none) :
    Codec.Ok (specImgOk inflate' color depth) (scanCodec compress choose) color depth := by
  intro w h d hd
  obtain ⟨h1, h2⟩ := rowsOf_spec _ h d hd
  constructor
  · intro hz
    have := hic (encodeScanlines choose (bytesPerPixel color depth) [] (rowsOf (rawRowLengthFromWidth color depth w - 1) h d))
    simp only [scanCodec] at hz
    rw [hz, hnil] at this; cases this
  · simp only [specImgOk, scanCodec, hic]
    have hl := encodeScanlines_length choose (bytesPerPixel color depth) _ _ h2 []
    rw [h1] at hl
    simp only [hl, ne_eq, not_true_eq_false, if_false]
    have hdec := decode_encode_scanlines choose (bytesPerPixel color depth) _ _ h2 [] []
    rw [h1, List.append_nil] at hdec
    rw [hdec]



/-! ## Part 7: concrete runs (witnesses of the recorded defects, and non-vacuity) -/

/-- toy back-ends for concrete runs: the "compressed" stream is the data behind a marker byte; the
    streaming one emits everything when it is finished -/
def toyCodec : Codec := { encode := fun _ _ _ d => 120 :: d }
def toyZ : ZCodec :=
  { out := fun hist op => match op with
      | .finish => 120 :: (hist.map fun o => match o with | .write d => d | _ => []).flatten
      | _ => []
    row := fun _ _ cur => 0 :: cur }
/-- the most permissive image rule: a skeleton rejected under it is rejected under every rule -/
def anyImg : ImgRule := fun _ _ _ => .ok ()

def okB : Except String Unit → Bool
  | .ok _ => true
  | .error _ => false

theorem toyCodec_ok (color depth : Nat) : Codec.Ok anyImg toyCodec color depth := by
  intro w h d _; exact ⟨by simp [toyCodec], rfl⟩

/-- validity of the sequencing rules for the chunks a run left in the sink -/
def runSkeletonOk (c : Cfg) (s : WState) : Bool :=
  okB (skeletonOfChunks anyImg c.width c.height c.color s.sink.chunks.tail)

def cfgStill : Cfg := { width := 1, height := 1 }
def cfgAnim (n : Nat) : Cfg := animatedCfg { width := 1, height := 1 } n 0
def cfgAnim22 : Cfg := animatedCfg { width := 2, height := 2 } 1 0
/-- `Encoder::with_info` with a frame control whose sequence number is 5 (repaired N3: reset to 0) -/
def cfgSeq5 : Cfg := { width := 1, height := 1, actl := some (1, 0), fctl := some { seq := 5, w := 1, h := 1 } }
/-- `Encoder::with_info` with a frame control that starts outside the canvas (repaired N3: refused) -/
def cfgOff : Cfg := { width := 2, height := 2, actl := some (2, 0), fctl := some { w := 2, h := 2, x := 10 } }
/-- `Encoder::with_info` with an empty frame (repaired N3: refused) -/
def cfgW0 : Cfg := { width := 2, height := 2, actl := some (2, 0), fctl := some { w := 0, h := 2 } }
def cfgIndexed : Cfg := { width := 1, height := 1, color := 3 }

/-- repaired N5: a frame setter before the first image; the image is refused until the frame covers the canvas again -/
def runSubframe : Run :=
  runWriter toyCodec cfgAnim22 {} [.setDim 1 1, .image [7], .resetDim, .image [1, 2, 3, 4]] .finish
/-- repaired D13: two frames through an owned stream writer -/
def runD13 : ProgRun := runProg toyCodec toyZ (cfgAnim 2) {} [] (.intoStream 64 [.write [7], .write [9]] .finish)
/-- repaired D14: owned stream writer, the sink accepts 40 bytes (signature, IHDR, 7 bytes of the IDAT chunk) -/
def runD14 : ProgRun := runProg toyCodec toyZ cfgStill { writeFailAt := some 40 } [] (.intoStream 64 [.write [7]] .finish)
/-- repaired D14: 1 of 3 declared frames, validation on, stream `finish` -/
def runD14v : ProgRun :=
  runProg toyCodec toyZ { cfgAnim 3 with validate := true } {} [] (.intoStream 64 [.write [7]] .finish)
/-- repaired N8: the declared image written through a borrowed stream writer, validation on -/
def runN8 : ProgRun :=
  runProg toyCodec toyZ { cfgStill with validate := true } {} [.stream 64 [.write [7]] .finish] .finish
/-- repaired N1: animation and a requested chunk buffer of one byte -/
def runN1 : ProgRun := runProg toyCodec toyZ (cfgAnim 2) {} [] (.intoStream 1 [.write [7]] .finish)
/-- repaired N2: the sink fails (once) while the second frame's fcTL is written; the writer stays between frames -/
def runN2 : ProgRun :=
  runProg toyCodec toyZ (cfgAnim 2) { writeFailAt := some 130, writeOnce := true } []
    (.intoStream 64 [.write [7], .write [8], .write [8]] .drop)
/-- repaired N9: `write_image_data` fails (once) between fcTL and IDAT; three stream images later: no panic -/
def runN9 : ProgRun :=
  runProg toyCodec toyZ (cfgAnim 1) { writeFailAt := some 100, writeOnce := true }
    [.op (.image [7]), .stream 64 [.write [7], .write [8], .write [9]] .finish] .finish
/-- repaired N6: indexed image without palette through the stream writer: refused before anything is written -/
def runN6 : ProgRun := runProg toyCodec toyZ cfgIndexed {} [] (.intoStream 64 [.write [0]] .finish)
/-- N10 (open): a stream writer opened and dropped, then the image through `write_image_data` -/
def runN10 : ProgRun := runProg toyCodec toyZ cfgStill {} [.stream 64 [] .drop, .op (.image [7])] .finish
/-- N10 (open), animated: frame 1, an abandoned session (it leaves an fcTL and an fdAT behind and counts as
    a frame in `animation_written`), frame 2 -/
def runN10a : ProgRun :=
  runProg toyCodec toyZ (cfgAnim 2) {} [.op (.image [7]), .stream 64 [] .drop, .op (.image [9])] .finish
/-- repaired N4: `next_frame_info` on a huge canvas -/
def cfgHuge : Cfg := { width := 4294967295, height := 4294967295, color := 6, depth := 16 }
def runN4 : ProgRun := runProg toyCodec toyZ cfgHuge {} [] (.intoStream 64 [] .drop)

set_option maxRecDepth 100000

/-- core has no `DecidableEq (Except ε α)`; needed for `decide` on concrete outcomes -/
instance encExceptDecEq {ε α : Type} [DecidableEq ε] [DecidableEq α] : DecidableEq (Except ε α)
  | .ok a, .ok b => if h : a = b then isTrue (by rw [h]) else isFalse (fun h' => h (Except.ok.inj h'))
  | .error a, .error b =>
    if h : a = b then isTrue (by rw [h]) else isFalse (fun h' => h (Except.error.inj h'))
  | .ok _, .error _ => isFalse (fun h => by cases h)
  | .error _, .ok _ => isFalse (fun h => by cases h)

/-- repaired N3: what `with_info` does with the three configurations -/
theorem withInfo_facts :
    withInfo cfgSeq5 = .ok { cfgSeq5 with fctl := some { w := 1, h := 1 } } ∧
    withInfo cfgOff = .error .outOfBounds ∧ withInfo cfgW0 = .error .zeroWidth ∧
    withInfoOk cfgSeq5 = false ∧ (cfgAnim 2).Accepted := by decide

/-- repaired N5 -/
theorem runSubframe_facts :
    cfgAnim22.WellFormed ∧ runSubframe.results = [.ok, .err .outOfBounds, .ok, .ok] ∧
    runSubframe.final = some .ok ∧ runSkeletonOk cfgAnim22 runSubframe.state = true := by decide


/-- repaired D13: IDAT for the first frame, fdAT for the second, sequence numbers 0,1,2, valid skeleton -/
theorem runD13_facts :
    runD13.final = [.ok, .ok, .ok, .ok] ∧
    runD13.state.sink.chunks.map (·.ty) = [tyIHDR, tyACTL, tyFCTL, tyIDAT, tyFCTL, tyFDAT, tyIEND] ∧
    runSkeletonOk (cfgAnim 2) runD13.state = true := by decide

/-- repaired D14: the failure is reported by the `write` that ends the image and by `finish`; one IEND attempt -/
theorem runD14_facts :
    runD14.final = [.ok, .err .io, .err .io] ∧ runD14.state.sink.chunks.map (·.ty) = [tyIHDR] ∧
    runD14.state.sink.iendAttempts = 1 := by decide

/-- repaired D14: `finish` of the stream writer runs the sequence validation -/
theorem runD14v_facts :
    runD14v.final = [.ok, .ok, .err .missingFrames] ∧ runD14v.state.sink.iendAttempts = 1 := by decide

/-- repaired N8: the stream-written image is counted -/
theorem runN8_facts :
    runN8.results = [[.ok, .ok, .ok]] ∧ runN8.final = [.ok] ∧
    runN8.state.sink.chunks.map (·.ty) = [tyIHDR, tyIDAT, tyIEND] := by decide

theorem runN1_facts : runN1.final = [.ok, .ok, .ok] := by decide
theorem runN2_facts : anyPanic runN2.final = false ∧ runN2.final.take 3 = [.ok, .ok, .err .io] := by decide
theorem runN9_facts : runN9.results.any anyPanic = false ∧ runN9.final = [.ok] := by decide
/-- repaired N6 -/
theorem runN6_facts :
    runN6.final = [.err .noPalette] ∧ runN6.state.sink.chunks.map (·.ty) = [tyIHDR, tyIEND] := by decide
theorem runN10_facts :
    runN10.results = [[.ok, .ok], [.ok]] ∧ runN10.final = [.ok] ∧
    runN10.state.sink.chunks.map (·.ty) = [tyIHDR, tyIDAT, tyIDAT, tyIEND] := by decide
theorem runN10a_facts :
    runN10a.results = [[.ok], [.ok, .ok], [.ok]] ∧ runN10a.final = [.ok] ∧ runN10a.state.imagesWritten = 2 ∧
    runN10a.state.sink.chunks.map (·.ty) = [tyIHDR, tyACTL, tyFCTL, tyIDAT, tyFCTL, tyFDAT, tyFCTL, tyFDAT, tyIEND] ∧
    runSkeletonOk (cfgAnim 2) runN10a.state = false := by decide
/-- repaired N4 -/
theorem runN4_facts : runN4.final = [.ok, .ok] ∧ cfgHuge.inRange := by decide





/-! ## Part 8: the stream writer (C12 / C19 for `StreamWriter`) -/

/-- everything the compressor has produced after the operations `h` -/
def outsAux (Z : ZCodec) : List ZOp → List ZOp → Bytes
  | _, [] => []
  | pre, o :: os => Z.out pre o ++ outsAux Z (pre ++ [o]) os
def outs (Z : ZCodec) (h : List ZOp) : Bytes := outsAux Z [] h

theorem outsAux_snoc (Z : ZCodec) (h : List ZOp) (o : ZOp) :
    ∀ pre, outsAux Z pre (h ++ [o]) = outsAux Z pre h ++ Z.out (pre ++ h) o := by
  induction h with
  | nil => intro pre; simp [outsAux]
  | cons x xs ih => intro pre; simp [outsAux, ih, List.append_assoc]

theorem outs_snoc (Z : ZCodec) (h : List ZOp) (o : ZOp) : outs Z (h ++ [o]) = outs Z h ++ Z.out h o := by
  simp [outs, outsAux_snoc]

/-- chunks one after the other on a sink that never fails -/
theorem Sink.emitChunks_append_good (a b : List RChunk) :
    ∀ {k : Sink}, k.good → (k.emitChunks (a ++ b)).1 = ((k.emitChunks a).1.emitChunks b).1 := by
  induction a with
  | nil => intro k _; simp [Sink.emitChunks]
  | cons c cs ih =>
    intro k h
    simp only [List.cons_append, Sink.emitChunks, Sink.emit_good h]
    exact ih (k := { k with log := k.log ++ [⟨.chunk c, (Piece.chunk c).size⟩], count := k.count + (Piece.chunk c).size }) h

theorem fdatChunks_snoc (ds : List Bytes) (p : Bytes) :
    ∀ seq, seq < 2 ^ 32 →
      (fdatChunks seq (ds ++ [p])).1 = (fdatChunks seq ds).1 ++ [mkFdat (seqAfter seq ds.length) p] := by
  induction ds with
  | nil => intro seq h; simp [fdatChunks, seqAfter, Nat.mod_eq_of_lt h]
  | cons d ds ih =>
    intro seq h
    simp only [List.cons_append, fdatChunks, ih ((seq + 1) % 2 ^ 32) (Nat.mod_lt _ (by decide)), List.length_cons, seqAfter]
    have : ((seq + 1) % 2 ^ 32 + ds.length) % 2 ^ 32 = (seq + (ds.length + 1)) % 2 ^ 32 := by omega
    rw [this]

theorem seqAfter_succ (seq n : Nat) : (seqAfter seq n + 1) % 2 ^ 32 = seqAfter seq (n + 1) := by
  simp only [seqAfter]; omega

theorem seqAfter_lt (seq n : Nat) : seqAfter seq n < 2 ^ 32 := Nat.mod_lt _ (by decide)

/-- the data chunks of one image: `fd` = they are fdAT chunks numbered from `seq0` -/
def dataChunks (fd : Bool) (seq0 : Nat) (ds : List Bytes) : List RChunk :=
  if fd then (fdatChunks seq0 ds).1 else ds.map mkIdat

theorem dataChunks_snoc (fd : Bool) (seq0 : Nat) (h : seq0 < 2 ^ 32) (ds : List Bytes) (p : Bytes) :
    dataChunks fd seq0 (ds ++ [p]) = dataChunks fd seq0 ds ++
      [⟨if fd then tyFDAT else tyIDAT, (if fd then be32Bytes (seqAfter seq0 ds.length) else []) ++ p⟩] := by
  cases fd with
  | true => simp [dataChunks, fdatChunks_snoc ds p seq0 h, mkFdat]
  | false => simp [dataChunks, mkIdat]

/-- the sequence number of the frame control advanced by `n` -/
def bumpSeq (w : WState) (n : Nat) : WState :=
  match w.fctl with
  | some f => { w with fctl := some { f with seq := seqAfter f.seq n } }
  | none => w

def seq0Of (w : WState) : Nat := match w.fctl with | some f => f.seq | none => 0

/-- the chunk writer in the middle of an image.  `wH`: the writer right after the frame header;
    `fd`: the image goes into fdAT chunks; `out`: all bytes of the zlib stream handed over so far.
    They sit, in order, in `ds` complete data chunks and in the buffer (`part`, behind the sequence
    number of the chunk being filled); nothing else of the writer changed, except the sequence number. -/
structure CWC (wH : WState) (fd : Bool) (c : CW) (out : Bytes) : Prop where
  cap : 5 ≤ c.cap
  curr : c.curr = if fd then tyFDAT else tyIDAT
  fdf : fd = true → ∃ f, wH.fctl = some f ∧ f.seq < 2 ^ 32
  good : wH.sink.good
  st : ∃ (ds : List Bytes) (part : Bytes),
    (∀ d ∈ ds, d ≠ []) ∧ out = ds.flatten ++ part ∧
    c.buf = (if part = [] then [] else (if fd then be32Bytes (seqAfter (seq0Of wH) ds.length) else []) ++ part) ∧
    c.w = { (if fd then bumpSeq wH (ds.length + (if part = [] then 0 else 1)) else wH) with
            sink := (wH.sink.emitChunks (dataChunks fd (seq0Of wH) ds)).1 }

/-- `CWC` with room left in the buffer (what holds between two calls) -/
structure CWI (wH : WState) (fd : Bool) (c : CW) (out : Bytes) : Prop where
  core : CWC wH fd c out
  room : c.buf.length < c.cap

theorem WState.emit_good_eq {s : WState} (h : s.sink.good) (cs : List RChunk) :
    s.emit cs = ({ s with sink := (s.sink.emitChunks cs).1 }, true) ∧ (s.sink.emitChunks cs).1.good := by
  obtain ⟨h1, h2, _, _⟩ := Sink.emitChunks_good cs h
  refine ⟨?_, h2⟩
  simp only [WState.emit]
  cases hh : s.sink.emitChunks cs with
  | mk k ok => rw [hh] at h1; simp only at h1; subst h1; rfl

theorem emitChunks_good_good {k : Sink} (h : k.good) (cs : List RChunk) : (k.emitChunks cs).1.good :=
  (Sink.emitChunks_good cs h).2.1

theorem CWC.flushInner {wH : WState} {fd : Bool} {c : CW} {out : Bytes} (h : CWC wH fd c out) :
    ∃ c', c.flushInner = (c', .ok) ∧ CWI wH fd c' out ∧ c'.buf = [] ∧ c'.cap = c.cap ∧ c'.curr = c.curr := by
  obtain ⟨ds, part, h1, h2, h3, h5⟩ := h.st
  unfold CW.flushInner
  by_cases hp : part = []
  · have hb : c.buf = [] := by rw [h3, if_pos hp]
    have : ¬ c.buf.length > 0 := by simp [hb]
    rw [if_neg this]
    exact ⟨c, rfl, ⟨h, by rw [hb]; have := h.cap; simp; omega⟩, hb, rfl, rfl⟩
  · have hb : c.buf = (if fd then be32Bytes (seqAfter (seq0Of wH) ds.length) else []) ++ part := by rw [h3, if_neg hp]
    have hpl : 0 < part.length := List.length_pos_iff.mpr hp
    have hlen : c.buf.length > 0 := by rw [hb, List.length_append]; omega
    rw [if_pos hlen]
    have hgk : (wH.sink.emitChunks (dataChunks fd (seq0Of wH) ds)).1.good := emitChunks_good_good h.good _
    have hcwg : c.w.sink.good := by rw [h5]; exact hgk
    obtain ⟨e1, e2⟩ := WState.emit_good_eq hcwg [⟨c.curr, c.buf⟩]
    rw [e1]
    refine ⟨_, rfl, ?_, rfl, rfl, rfl⟩
    have hseq : seq0Of wH < 2 ^ 32 ∨ fd = false := by
      cases fd with
      | false => exact Or.inr rfl
      | true => obtain ⟨f, hf, hlt⟩ := h.fdf rfl; left; simp [seq0Of, hf, hlt]
    refine ⟨⟨h.cap, h.curr, h.fdf, h.good, ds ++ [part], [], ?_, by simp [h2], by simp, ?_⟩, by simp; have := h.cap; omega⟩
    · intro d hd
      simp only [List.mem_append, List.mem_singleton] at hd
      rcases hd with hd | hd
      · exact h1 d hd
      · subst hd; exact hp
    · -- the writer: same fields, the sink got one more chunk
      have hch : (⟨c.curr, c.buf⟩ : RChunk) = ⟨if fd then tyFDAT else tyIDAT, (if fd then be32Bytes (seqAfter (seq0Of wH) ds.length) else []) ++ part⟩ := by
        rw [h.curr, hb]
      have hsnoc : dataChunks fd (seq0Of wH) (ds ++ [part]) = dataChunks fd (seq0Of wH) ds ++ [⟨c.curr, c.buf⟩] := by
        rw [hch]
        rcases hseq with hs | hs
        · exact dataChunks_snoc fd _ hs ds part
        · subst hs; simp [dataChunks, mkIdat]
      simp only [hsnoc, Sink.emitChunks_append_good _ _ h.good, h5, if_neg hp, List.length_append, List.length_singleton]
      simp

theorem CWI.flushInner {wH : WState} {fd : Bool} {c : CW} {out : Bytes} (h : CWI wH fd c out) :
    ∃ c', c.flushInner = (c', .ok) ∧ CWI wH fd c' out ∧ c'.buf = [] ∧ c'.cap = c.cap ∧ c'.curr = c.curr :=
  h.core.flushInner

theorem bumpSeq_fctl {w : WState} {f : FC} (h : w.fctl = some f) (n : Nat) :
    bumpSeq w n = { w with fctl := some { f with seq := seqAfter f.seq n } } := by
  simp [bumpSeq, h]

/-- what `startChunk` leaves: the buffer is `pre ++ part` with the sequence number of the chunk in
    `pre` (fdAT) and the writer already counts that number as used -/
theorem CWI.startChunk {wH : WState} {fd : Bool} {c : CW} {out : Bytes} (h : CWI wH fd c out) :
    ∃ (ds : List Bytes) (part : Bytes),
      (∀ d ∈ ds, d ≠ []) ∧ out = ds.flatten ++ part ∧
      c.startChunk.buf = (if fd then be32Bytes (seqAfter (seq0Of wH) ds.length) else []) ++ part ∧
      c.startChunk.buf.length < c.cap ∧ c.startChunk.cap = c.cap ∧ c.startChunk.curr = c.curr ∧
      c.startChunk.w = { (if fd then bumpSeq wH (ds.length + 1) else wH) with
            sink := (wH.sink.emitChunks (dataChunks fd (seq0Of wH) ds)).1 } := by
  obtain ⟨ds, part, h1, h2, h3, h5⟩ := h.core.st
  have hroom := h.room
  have hcap := h.core.cap
  refine ⟨ds, part, h1, h2, ?_⟩
  unfold CW.startChunk
  by_cases hp : part = []
  · have hb : c.buf = [] := by rw [h3, if_pos hp]
    cases fd with
    | false =>
      have : ¬ (c.buf.length = 0 ∧ c.curr = tyFDAT) := by
        rw [h.core.curr]; intro hh; exact absurd hh.2 (by decide)
      rw [if_neg this]
      simp only [hb, hp, Bool.false_eq_true, if_false, List.append_nil, List.length_nil]
      refine ⟨trivial, by omega, trivial, trivial, ?_⟩
      simpa [hp] using h5
    | true =>
      obtain ⟨f, hf, hlt⟩ := h.core.fdf rfl
      have hc : c.buf.length = 0 ∧ c.curr = tyFDAT := by rw [hb, h.core.curr]; simp
      rw [if_pos hc]
      have hwf : c.w.fctl = some { f with seq := seqAfter f.seq ds.length } := by
        rw [h5]; simp [hp, bumpSeq_fctl hf]
      simp only [hwf]
      have hs0 : seq0Of wH = f.seq := by simp [seq0Of, hf]
      refine ⟨by simp [hp, hs0], by simp [be32Bytes]; omega, trivial, trivial, ?_⟩
      rw [h5]
      simp only [if_true, hp, bumpSeq_fctl hf, seqAfter_succ, Nat.add_zero]
  · have hb : c.buf = (if fd then be32Bytes (seqAfter (seq0Of wH) ds.length) else []) ++ part := by rw [h3, if_neg hp]
    have hpl : 0 < part.length := List.length_pos_iff.mpr hp
    have : ¬ (c.buf.length = 0 ∧ c.curr = tyFDAT) := by
      rw [hb, List.length_append]; omega
    rw [if_neg this]
    refine ⟨hb, hroom, rfl, rfl, ?_⟩
    simpa [hp] using h5

/-- `ChunkWriter::write` accepts a non-empty prefix and loses nothing -/
theorem CWI.write {wH : WState} {fd : Bool} {c : CW} {out : Bytes} (h : CWI wH fd c out) (data : Bytes)
    (hd : data ≠ []) :
    ∃ c' n, c.write data = (c', .ok n) ∧ 0 < n ∧ n ≤ data.length ∧ CWI wH fd c' (out ++ data.take n) ∧
      c'.cap = c.cap ∧ c'.curr = c.curr := by
  have hlen : 0 < data.length := List.length_pos_iff.mpr hd
  obtain ⟨ds, part, h1, h2, h3, h4, h5, h6, h7⟩ := h.startChunk
  unfold CW.write
  rw [if_neg hd]
  generalize c.startChunk = c1 at h3 h4 h5 h6 h7
  simp only [CW.append]
  have hn : 0 < min data.length (c1.cap - c1.buf.length) := by omega
  -- the state with the data appended (possibly a full buffer)
  have hcore : CWC wH fd { c1 with buf := c1.buf ++ data.take (min data.length (c1.cap - c1.buf.length)) }
      (out ++ data.take (min data.length (c1.cap - c1.buf.length))) := by
    have htne : data.take (min data.length (c1.cap - c1.buf.length)) ≠ [] := by
      intro he
      have := congrArg List.length he
      simp only [List.length_take, List.length_nil] at this; omega
    have hpne : part ++ data.take (min data.length (c1.cap - c1.buf.length)) ≠ [] := by simp [htne]
    refine ⟨by rw [h5]; exact h.core.cap, by rw [h6]; exact h.core.curr, h.core.fdf, h.core.good, ds,
      part ++ data.take (min data.length (c1.cap - c1.buf.length)), h1, by simp [h2, List.append_assoc], ?_, ?_⟩
    · show c1.buf ++ _ = _
      rw [if_neg hpne, h3, List.append_assoc]
    · show c1.w = _
      rw [if_neg hpne, h7]
  by_cases hfull : (c1.buf ++ data.take (min data.length (c1.cap - c1.buf.length))).length = c1.cap
  · rw [if_pos hfull]
    obtain ⟨c', f1, f2, f3, f4, f5⟩ := hcore.flushInner
    rw [f1]
    exact ⟨c', _, rfl, hn, by omega, f2, by rw [f4]; exact h5, by rw [f5]; exact h6⟩
  · rw [if_neg hfull]
    refine ⟨_, _, rfl, hn, by omega, ⟨hcore, ?_⟩, h5, h6⟩
    simp only [List.length_append, List.length_take] at hfull ⊢
    omega

/-- the zlib encoder on top of the chunk writer: what the chunk writer got plus what flate2 still
    holds back is exactly what the compressor has produced -/
def ZI (wH : WState) (fd : Bool) (Z : ZCodec) (z : ZEnc) : Prop :=
  ∃ out, CWI wH fd z.cw out ∧ out ++ z.pending = outs Z z.hist

/-- `dump` forwards everything -/
theorem dumpAux_spec {wH : WState} {fd : Bool} (fuel : Nat) :
    ∀ (z : ZEnc) (out : Bytes), CWI wH fd z.cw out → z.pending.length < fuel →
      ∃ z', ZEnc.dumpAux fuel z = (z', .ok) ∧ z'.pending = [] ∧ z'.hist = z.hist ∧
        CWI wH fd z'.cw (out ++ z.pending) ∧ z'.cw.cap = z.cw.cap ∧ z'.cw.curr = z.cw.curr := by
  induction fuel with
  | zero => intro z out _ h; omega
  | succ k ih =>
    intro z out hc hlt
    simp only [ZEnc.dumpAux]
    by_cases hp : z.pending = []
    · rw [if_pos hp]; exact ⟨z, rfl, hp, rfl, by rw [hp, List.append_nil]; exact hc, rfl, rfl⟩
    · rw [if_neg hp]
      obtain ⟨c', n, hw, hn0, hnl, hc', hcap, hcur⟩ := hc.write z.pending hp
      rw [hw]
      simp only
      have hn : ¬ n = 0 := by omega
      rw [if_neg hn]
      obtain ⟨z', h1, h2, h3, h4, h5, h6⟩ := ih { z with cw := c', pending := z.pending.drop n } (out ++ z.pending.take n) hc'
        (by simp only [List.length_drop]; omega)
      refine ⟨z', h1, h2, h3, ?_, by rw [h5]; exact hcap, by rw [h6]; exact hcur⟩
      simpa [List.append_assoc] using h4

theorem ZI.dump {wH : WState} {fd : Bool} {Z : ZCodec} {z : ZEnc} (h : ZI wH fd Z z) :
    ∃ z', z.dump = (z', .ok) ∧ z'.pending = [] ∧ z'.hist = z.hist ∧ ZI wH fd Z z' := by
  obtain ⟨out, hc, ho⟩ := h
  obtain ⟨z', h1, h2, h3, h4, _, _⟩ := dumpAux_spec (z.pending.length + 1) z out hc (Nat.lt_succ_self _)
  exact ⟨z', h1, h2, h3, ⟨out ++ z.pending, h4, by rw [h2, h3, List.append_nil]; exact ho⟩⟩

theorem ZI.writeAll {wH : WState} {fd : Bool} {Z : ZCodec} {z : ZEnc} (h : ZI wH fd Z z) (d : Bytes) :
    ∃ z', z.writeAll Z d = (z', .ok) ∧ ZI wH fd Z z' ∧
      z'.hist = (if d = [] then z.hist else z.hist ++ [.write d]) := by
  unfold ZEnc.writeAll
  by_cases hd : d = []
  · simp only [hd, if_true]; exact ⟨z, rfl, h, rfl⟩
  · simp only [hd, if_false]
    obtain ⟨z', h1, h2, h3, h4⟩ := h.dump
    rw [h1]
    simp only
    obtain ⟨out, hc, ho⟩ := h4
    refine ⟨_, rfl, ⟨out, hc, ?_⟩, by simp [h3]⟩
    simp only [outs_snoc, ← ho, h2, List.append_nil, List.nil_append]

theorem ZI.flush {wH : WState} {fd : Bool} {Z : ZCodec} {z : ZEnc} (h : ZI wH fd Z z) :
    ∃ z', z.flush Z = (z', .ok) ∧ ZI wH fd Z z' ∧ z'.hist = z.hist ++ [ZOp.flush] ∧ z'.pending = [] := by
  unfold ZEnc.flush
  obtain ⟨out, hc, ho⟩ := h
  have h0 : ZI wH fd Z { z with pending := z.pending ++ Z.out z.hist ZOp.flush, hist := z.hist ++ [ZOp.flush] } :=
    ⟨out, hc, by simp only [outs_snoc, ← ho, List.append_assoc]⟩
  obtain ⟨z', h1, h2, h3, h4⟩ := h0.dump
  simp only [h1]
  obtain ⟨out', hc', ho'⟩ := h4
  obtain ⟨c', f1, f2, f3, f4, _⟩ := hc'.flushInner
  rw [f1]
  exact ⟨_, rfl, ⟨out', f2, by simpa using ho'⟩, h3, h2⟩

/-- `finish`: the whole stream is in the chunk writer -/
theorem ZI.finish {wH : WState} {fd : Bool} {Z : ZCodec} {z : ZEnc} (h : ZI wH fd Z z)
    (hnf : z.finished = false) :
    ∃ z', z.finish Z = (z', .ok) ∧ z'.hist = z.hist ++ [ZOp.finish] ∧ z'.pending = [] ∧
      CWI wH fd z'.cw (outs Z (z.hist ++ [ZOp.finish])) := by
  unfold ZEnc.finish
  obtain ⟨z1, h1, h2, h3, h4⟩ := h.dump
  simp only [h1]
  have hf1 : z1.finished = false := by simp only [ZEnc.finished, h3]; exact hnf
  simp only [hf1, Bool.false_eq_true, if_false]
  obtain ⟨out, hc, ho⟩ := h4
  have h0 : ZI wH fd Z { z1 with pending := z1.pending ++ Z.out z1.hist ZOp.finish, hist := z1.hist ++ [ZOp.finish] } :=
    ⟨out, hc, by simp only [outs_snoc, ← ho, List.append_assoc]⟩
  obtain ⟨z2, g1, g2, g3, out2, hc2, ho2⟩ := h0.dump
  refine ⟨z2, g1, by rw [g3, h3], g2, ?_⟩
  rw [g2, List.append_nil, g3] at ho2
  rw [← h3, ← ho2]; exact hc2

theorem finished_snoc {h : List ZOp} {o : ZOp} (hf : h.contains ZOp.finish = false) (ho : o ≠ ZOp.finish) :
    (h ++ [o]).contains ZOp.finish = false := by
  simp only [List.contains_eq_mem, List.mem_append, List.mem_singleton, decide_eq_false_iff_not, not_or] at hf ⊢
  exact ⟨hf, fun h => ho h.symm⟩

/-- the writer right after `write_header` (`wH`), relative to the writer before it (`wpre`): however
    the zlib stream is cut into chunks `ds`, the header plus those data chunks plus the image counter
    is exactly what `write_image_data` does with the same stream and the same cut -/
structure HeaderRel (wpre wH : WState) (fd : Bool) : Prop where
  good : wH.sink.good
  fdf : fd = true → ∃ f, wH.fctl = some f ∧ f.seq < 2 ^ 32
  static : StaticEq wpre wH
  sim : ∀ ds : List Bytes,
    emitImage wpre ds ds =
      (incrementImagesWritten { (if fd then bumpSeq wH ds.length else wH) with
          sink := (wH.sink.emitChunks (dataChunks fd (seq0Of wH) ds)).1 }, .ok)

theorem emitIdatImage_good_eq {w : WState} (h : w.sink.good) (ds : List Bytes) :
    emitIdatImage w ds = (incrementImagesWritten { w with sink := (w.sink.emitChunks (ds.map mkIdat)).1 }, .ok) := by
  simp only [emitIdatImage, (WState.emit_good_eq h _).1]

/-- `ChunkWriter::write_header` on a sink that never fails -/
theorem writeHeader_rel {wpre : WState} (cap : Nat) (curr : Ty) (hg : wpre.sink.good)
    (ha : ∀ f, wpre.fctl = some f → wpre.animWritten + 1 < 2 ^ 32) :
    ∃ wH, CW.writeHeader ⟨wpre, cap, [], curr⟩ = (⟨wH, cap, [], chunkKind wpre⟩, .ok) ∧
      HeaderRel wpre wH (chunkKind wpre == tyFDAT) ∧ StaticEq wpre wH ∧
      wH.imagesWritten = wpre.imagesWritten ∧ wH.iendWritten = wpre.iendWritten := by
  unfold CW.writeHeader
  simp only [List.length_nil, ne_eq, not_true_eq_false, if_false]
  rcases opt_cases wpre.fctl with hf | ⟨f, hf⟩
  · -- no frame control
    have hk : chunkKind wpre = tyIDAT := by simp [chunkKind, hf]
    simp only [hf]
    refine ⟨wpre, rfl, ⟨hg, (by rw [hk]; intro h; cases h), StaticEq.refl _, ?_⟩, StaticEq.refl _, rfl, rfl⟩
    intro ds
    simp only [hk, show (tyIDAT == tyFDAT) = false from by decide, Bool.false_eq_true, if_false, dataChunks]
    unfold emitImage; simp only [hf]
    rw [emitIdatImage_good_eq hg ds]; simp [hf]
  · simp only [hf]
    cases hsk : skipFctlOnDefault wpre with
    | true =>
      have h0 : wpre.imagesWritten = 0 := by
        simp only [skipFctlOnDefault, Bool.and_eq_true, beq_iff_eq] at hsk; exact hsk.2
      have hk : chunkKind wpre = tyIDAT := by simp [chunkKind, h0]
      simp only [if_true]
      refine ⟨wpre, rfl, ⟨hg, (by rw [hk]; intro h; cases h), StaticEq.refl _, ?_⟩, StaticEq.refl _, rfl, rfl⟩
      intro ds
      simp only [hk, show (tyIDAT == tyFDAT) = false from by decide, Bool.false_eq_true, if_false, dataChunks]
      unfold emitImage; simp only [hf, hsk, if_true]
      rw [emitIdatImage_good_eq hg ds]; simp [hf]
    | false =>
      simp only [Bool.false_eq_true, if_false]
      obtain ⟨e1, e2⟩ := WState.emit_good_eq hg [mkFctl f]
      rw [e1]
      have hov : ¬ (wpre.animWritten + 1 ≥ 2 ^ 32) := by have := ha f hf; omega
      simp only [hov, if_false]
      refine ⟨_, rfl, ⟨e2, ?_, ⟨rfl, rfl, rfl, rfl, rfl, rfl, rfl, rfl⟩, ?_⟩, ⟨rfl, rfl, rfl, rfl, rfl, rfl, rfl, rfl⟩, rfl, rfl⟩
      · intro _; exact ⟨_, rfl, Nat.mod_lt _ (by decide)⟩
      · intro ds
        unfold emitImage; simp only [hf, hsk, Bool.false_eq_true, if_false, emitFrame, e1, hov]
        by_cases h0 : wpre.imagesWritten = 0
        · have hk : chunkKind wpre = tyIDAT := by simp [chunkKind, h0]
          rw [if_pos (show _ = 0 from h0)]
          simp only [hk, show (tyIDAT == tyFDAT) = false from by decide, Bool.false_eq_true, if_false, dataChunks]
          exact emitIdatImage_good_eq e2 ds
        · have hk : chunkKind wpre = tyFDAT := by simp [chunkKind, h0, hf]
          rw [if_neg (show ¬ _ = 0 from h0)]
          simp only [hk, beq_self_eq_true, if_true, dataChunks, emitFdatImage, seq0Of]
          rw [(WState.emit_good_eq (s := { wpre with sink := (wpre.sink.emitChunks [mkFctl f]).1, fctl := some { f with seq := (f.seq + 1) % 2 ^ 32 }, animWritten := wpre.animWritten + 1 }) e2 _).1]
          simp [bumpSeq]

/-- the bytes handed to the compressor -/
def writtenOf (hist : List ZOp) : Bytes :=
  (hist.map fun o => match o with | .write d => d | _ => []).flatten

theorem writtenOf_snoc_write (h : List ZOp) (d : Bytes) : writtenOf (h ++ [.write d]) = writtenOf h ++ d := by
  simp [writtenOf]

/-- the rows as the stream writer hands them to the compressor: each filtered against its predecessor -/
def fedRows (Z : ZCodec) (bpp : Nat) : Bytes → List Bytes → List Bytes
  | _, [] => []
  | prev, c :: cs => Z.row bpp prev c :: fedRows Z bpp c cs

theorem fedRows_snoc (Z : ZCodec) (bpp : Nat) (cs : List Bytes) (c : Bytes) :
    ∀ prev, fedRows Z bpp prev (cs ++ [c]) = fedRows Z bpp prev cs ++ [Z.row bpp ((cs.getLast?).getD prev) c] := by
  induction cs with
  | nil => intro prev; simp [fedRows]
  | cons x xs ih =>
    intro prev
    simp only [List.cons_append, fedRows, ih x]
    congr 2
    cases xs with
    | nil => simp
    | cons y ys =>
      have h1 : (y :: ys).getLast? = some ((y :: ys).getLast (by simp)) := List.getLast?_eq_some_getLast (by simp)
      have h2 : (x :: y :: ys).getLast? = (y :: ys).getLast? := List.getLast?_cons_cons
      rw [h2, h1]; simp

/-- contract of the streaming compressor for one colour type / depth: after exactly the `h` rows of a
    `w`-wide image, handed over the way the stream writer does it, with any flushes in between, the
    finished stream is not empty and satisfies the image rule -/
def ZCodec.Ok (imgOk : ImgRule) (Z : ZCodec) (color depth : Nat) : Prop :=
  ∀ (w h : Nat) (hist : List ZOp) (curs : List Bytes),
    hist.contains ZOp.finish = false → curs.length = h →
    (∀ c ∈ curs, c.length = rawRowLengthFromWidth color depth w - 1) →
    writtenOf hist = (fedRows Z (bytesPerPixel color depth)
      (List.replicate (rawRowLengthFromWidth color depth w - 1) 0) curs).flatten →
    outs Z (hist ++ [ZOp.finish]) ≠ [] ∧ imgOk w h (outs Z (hist ++ [ZOp.finish])) = .ok ()

theorem row_room {L k fh idx tw : Nat} (h : k * L + idx + tw = L * fh) (hidx : idx < L) (htw : 0 < tw) :
    L - idx ≤ tw := by
  have hk : k < fh := by
    apply Nat.lt_of_not_le
    intro hle
    have : L * fh ≤ k * L := by rw [Nat.mul_comm k L]; exact Nat.mul_le_mul_left L hle
    omega
  have : (k + 1) * L ≤ L * fh := by rw [Nat.mul_comm (k + 1) L]; exact Nat.mul_le_mul_left L hk
  rw [Nat.add_mul, Nat.one_mul] at this
  omega

theorem overwrite_length (buf : Bytes) (i : Nat) (d : Bytes) (h : i + d.length ≤ buf.length) :
    (overwrite buf i d).length = buf.length := by
  simp only [overwrite, List.length_append, List.length_take, List.length_drop]; omega

/-- a stream writer in the middle of an image of `fh` rows (`wH`, `fd` as in `CWI`) -/
structure Inside (Z : ZCodec) (wH : WState) (fd : Bool) (fh : Nat) (s : SW) : Prop where
  st : ∃ z curs, s.wr = .zlib z ∧ ZI wH fd Z z ∧ z.finished = false ∧
    curs.length * s.lineLen + s.index + s.toWrite = s.lineLen * fh ∧ (∀ c ∈ curs, c.length = s.lineLen) ∧
    writtenOf z.hist = (fedRows Z s.bpp (List.replicate s.lineLen 0) curs).flatten ∧
    s.prevBuf = (curs.getLast?).getD (List.replicate s.lineLen 0)
  cur : s.curBuf.length = s.lineLen
  pos : 0 < s.lineLen
  idx : s.index < s.lineLen
  tw : 0 < s.toWrite
  released : s.released = none

/-- an image just completed by `finish_image`: the chunk writer is empty, the writer is what the header
    state `wH` became through the data chunks `ds` and the image counter -/
structure Completed (Z : ZCodec) (wH : WState) (fd : Bool) (fh : Nat) (s0 s : SW) : Prop where
  st : ∃ cap curr ds hist curs, 5 ≤ cap ∧
    s.wr = .chunk ⟨incrementImagesWritten { (if fd then bumpSeq wH ds.length else wH) with
        sink := (wH.sink.emitChunks (dataChunks fd (seq0Of wH) ds)).1 }, cap, [], curr⟩ ∧
    (∀ d ∈ ds, d ≠ []) ∧ ds.flatten = outs Z (hist ++ [ZOp.finish]) ∧
    hist.contains ZOp.finish = false ∧ curs.length = fh ∧ (∀ c ∈ curs, c.length = s0.lineLen) ∧
    writtenOf hist = (fedRows Z s0.bpp (List.replicate s0.lineLen 0) curs).flatten
  tw : s.toWrite = 0
  idx : s.index = 0
  released : s.released = none
  same : s.owned = s0.owned ∧ s.fctl = s0.fctl ∧ s.width = s0.width ∧ s.height = s0.height ∧ s.bpp = s0.bpp ∧
    s.lineLen = s0.lineLen

theorem getLastD_length {curs : List Bytes} {z : Bytes} {L : Nat} (h : ∀ c ∈ curs, c.length = L) (hz : z.length = L) :
    ((curs.getLast?).getD z).length = L := by
  cases hl : curs.getLast? with
  | none => simpa using hz
  | some c => simp only [Option.getD_some]; exact h c (List.mem_of_getLast? hl)

theorem finished_writeAll {hist : List ZOp} {d : Bytes} (hf : hist.contains ZOp.finish = false) :
    (if d = [] then hist else hist ++ [ZOp.write d]).contains ZOp.finish = false := by
  split
  · exact hf
  · exact finished_snoc hf (by simp)

theorem writtenOf_writeAll (hist : List ZOp) (d : Bytes) :
    writtenOf (if d = [] then hist else hist ++ [ZOp.write d]) = writtenOf hist ++ d := by
  split
  · rename_i h; simp [h]
  · exact writtenOf_snoc_write hist d

/-- the end of an image: `finish_image` on a sink that never fails -/
theorem finishImage_spec {Z : ZCodec} {wH : WState} {fd : Bool} {s : SW} {z : ZEnc}
    (hz : s.wr = .zlib z) (hzi : ZI wH fd Z z) (hnf : z.finished = false) :
    ∃ cap curr ds, 5 ≤ cap ∧ s.finishImage Z =
      ({ s with wr := .chunk ⟨incrementImagesWritten { (if fd then bumpSeq wH ds.length else wH) with
          sink := (wH.sink.emitChunks (dataChunks fd (seq0Of wH) ds)).1 }, cap, [], curr⟩ }, .ok) ∧
      (∀ d ∈ ds, d ≠ []) ∧ ds.flatten = outs Z (z.hist ++ [ZOp.finish]) := by
  obtain ⟨z', f1, f2, f3, f4⟩ := hzi.finish hnf
  obtain ⟨c', g1, g2, g3, g4, g5⟩ := f4.flushInner
  obtain ⟨ds, part, h1, h2, h3, h5⟩ := g2.core.st
  have hp : part = [] := by
    by_cases hp : part = []
    · exact hp
    · rw [g3, if_neg hp] at h3
      have := congrArg List.length h3
      have hpl : 0 < part.length := List.length_pos_iff.mpr hp
      simp only [List.length_nil, List.length_append] at this; omega
  refine ⟨c'.cap, c'.curr, ds, g2.core.cap, ?_, h1, by rw [h2, hp, List.append_nil]⟩
  simp only [SW.finishImage, SW.endZlib, hz, f1, g1]
  have hw : c'.w = { (if fd then bumpSeq wH ds.length else wH) with
      sink := (wH.sink.emitChunks (dataChunks fd (seq0Of wH) ds)).1 } := by
    rw [h5, hp]; simp
  rw [← hw]
  cases c' with
  | mk w cap buf curr => simp only at g3; subst g3; rfl

/-- one `write` call inside an image on a sink that never fails: a non-empty prefix is taken; the writer
    stays inside the image, or the image is complete -/
theorem Inside.write {Z : ZCodec} {wH : WState} {fd : Bool} {fh : Nat} {s : SW} (h : Inside Z wH fd fh s)
    (data : Bytes) (hd : data ≠ []) :
    ∃ s' n, s.write Z data = (s', .ok n) ∧ 0 < n ∧ n ≤ data.length ∧
      (Inside Z wH fd fh s' ∨ Completed Z wH fd fh s s') ∧
      s'.owned = s.owned ∧ s'.fctl = s.fctl ∧ s'.width = s.width ∧ s'.height = s.height ∧ s'.bpp = s.bpp ∧
      s'.lineLen = s.lineLen := by
  obtain ⟨z, curs, hz, hzi, hzf, heq, hcl, hwr, hprev⟩ := h.st
  have hlen : 0 < data.length := List.length_pos_iff.mpr hd
  have hidx := h.idx
  have hpos := h.pos
  have htw := h.tw
  have hroom := row_room heq hidx htw
  unfold SW.write
  have hnu : ¬ s.wr = .unrecoverable := by rw [hz]; simp
  rw [if_neg hnu, if_neg hd]
  have hb : s.beginIfDone Z = (s, .ok) := by
    unfold SW.beginIfDone; rw [if_neg (by omega)]
  rw [hb]
  simp only
  have hrs : ¬ (s.lineLen > s.curBuf.length ∨ s.index > s.lineLen) := by rw [h.cur]; omega
  rw [if_neg hrs]
  have hwt : ¬ min data.length (s.lineLen - s.index) > s.toWrite := by omega
  rw [if_neg hwt]
  have hn0 : 0 < min data.length (s.lineLen - s.index) := by omega
  have hcl2 : (overwrite s.curBuf s.index (data.take (min data.length (s.lineLen - s.index)))).length = s.lineLen := by
    rw [overwrite_length, h.cur]
    simp only [List.length_take, h.cur]; omega
  by_cases hfull : s.index + min data.length (s.lineLen - s.index) = s.lineLen
  · rw [if_pos hfull]
    -- the row is complete
    simp only [SW.rowDone, hz]
    obtain ⟨z1, a1, a2, a3⟩ := hzi.writeAll ((Z.row s.bpp s.prevBuf (overwrite s.curBuf s.index (data.take (min data.length (s.lineLen - s.index))))).take 1)
    rw [a1]
    simp only
    obtain ⟨z2, b1, b2, b3⟩ := a2.writeAll ((Z.row s.bpp s.prevBuf (overwrite s.curBuf s.index (data.take (min data.length (s.lineLen - s.index))))).drop 1)
    rw [b1]
    simp only
    have hzf2 : z2.finished = false := by
      simp only [ZEnc.finished] at hzf ⊢
      rw [b3, a3]; exact finished_writeAll (finished_writeAll hzf)
    have hplen : s.prevBuf.length = s.lineLen := by
      rw [hprev]; exact getLastD_length hcl (by simp)
    -- the rows handed over so far
    have hcl' : ∀ c ∈ curs ++ [overwrite s.curBuf s.index (data.take (min data.length (s.lineLen - s.index)))], c.length = s.lineLen := by
      intro c hc
      simp only [List.mem_append, List.mem_singleton] at hc
      rcases hc with hc | hc
      · exact hcl c hc
      · rw [hc]; exact hcl2
    have hwr' : writtenOf z2.hist = (fedRows Z s.bpp (List.replicate s.lineLen 0)
        (curs ++ [overwrite s.curBuf s.index (data.take (min data.length (s.lineLen - s.index)))])).flatten := by
      rw [b3, a3, writtenOf_writeAll, writtenOf_writeAll, hwr, fedRows_snoc, ← hprev]
      simp only [List.flatten_append, List.flatten_cons, List.flatten_nil, List.append_nil, List.append_assoc,
        List.take_append_drop]
    have heq' : (curs ++ [overwrite s.curBuf s.index (data.take (min data.length (s.lineLen - s.index)))]).length * s.lineLen + 0
        + (s.toWrite - min data.length (s.lineLen - s.index)) = s.lineLen * fh := by
      simp only [List.length_append, List.length_singleton, Nat.add_mul, Nat.one_mul]; omega
    by_cases hdone : s.toWrite - min data.length (s.lineLen - s.index) = 0
    · rw [if_pos hdone]
      obtain ⟨cap, curr, ds, hcap, hfi, hds1, hds2⟩ := finishImage_spec (Z := Z) (wH := wH) (fd := fd)
        (s := { s with curBuf := s.prevBuf, index := 0, toWrite := s.toWrite - min data.length (s.lineLen - s.index),
                       wr := .zlib z2, prevBuf := overwrite s.curBuf s.index (data.take (min data.length (s.lineLen - s.index))) })
        rfl b2 hzf2
      rw [hfi]
      refine ⟨_, _, rfl, hn0, by omega, Or.inr ?_, rfl, rfl, rfl, rfl, rfl, rfl⟩
      refine ⟨⟨cap, curr, ds, z2.hist, _, hcap, rfl, hds1, hds2, hzf2, ?_, hcl', hwr'⟩, hdone, rfl, h.released, rfl, rfl, rfl, rfl, rfl, rfl⟩
      -- all `fh` rows are there
      rw [hdone] at heq'
      have : ((curs ++ [overwrite s.curBuf s.index (data.take (min data.length (s.lineLen - s.index)))]).length) * s.lineLen = fh * s.lineLen := by
        rw [Nat.mul_comm fh]; omega
      exact Nat.eq_of_mul_eq_mul_right hpos this
    · rw [if_neg hdone]
      refine ⟨_, _, rfl, hn0, by omega, Or.inl ?_, rfl, rfl, rfl, rfl, rfl, rfl⟩
      refine ⟨⟨z2, _, rfl, b2, hzf2, heq', hcl', hwr', ?_⟩, hplen, hpos, hpos, by simp only; omega, h.released⟩
      simp
  · rw [if_neg hfull]
    refine ⟨_, _, rfl, hn0, by omega, Or.inl ?_, rfl, rfl, rfl, rfl, rfl, rfl⟩
    refine ⟨⟨z, curs, hz, hzi, hzf, ?_, hcl, hwr, hprev⟩, hcl2, hpos, by simp only; omega, by simp only; omega, h.released⟩
    simp only; omega



/-! ### counters of the whole-image API, any sink -/

theorem incr_count (s : WState) : (incrementImagesWritten s).imagesWritten = min (s.imagesWritten + 1) (2 ^ 64 - 1) := by
  unfold incrementImagesWritten
  cases s.actl with
  | none => rfl
  | some a => obtain ⟨n, p⟩ := a; simp only; split <;> rfl

theorem incr_fctl_none {s : WState} (h : s.fctl = none) : (incrementImagesWritten s).fctl = none := by
  unfold incrementImagesWritten
  cases s.actl with
  | none => exact h
  | some a => obtain ⟨n, p⟩ := a; simp only; split <;> simp [h]

theorem emit_count (s : WState) (cs : List RChunk) : (s.emit cs).1.imagesWritten = s.imagesWritten := by
  simp [WState.emit]

theorem emitIdatImage_count (s : WState) (ds : List Bytes) :
    ((emitIdatImage s ds).2 = .ok → (emitIdatImage s ds).1.imagesWritten = min (s.imagesWritten + 1) (2 ^ 64 - 1)) ∧
    ((emitIdatImage s ds).2 ≠ .ok → (emitIdatImage s ds).1.imagesWritten = s.imagesWritten) ∧
    (s.fctl = none → (emitIdatImage s ds).1.fctl = none) := by
  unfold emitIdatImage
  have h1 := emit_count s (ds.map mkIdat)
  have h2 := emit_fctl s (ds.map mkIdat)
  cases hh : s.emit (ds.map mkIdat) with
  | mk s' ok =>
    rw [hh] at h1 h2; simp only at h1 h2
    cases ok with
    | false => exact ⟨(fun h => by cases h), fun _ => h1, fun h => by rw [h2]; exact h⟩
    | true => exact ⟨fun _ => by rw [incr_count, h1], fun h => absurd rfl h, fun h => incr_fctl_none (by rw [h2]; exact h)⟩

theorem emitFdatImage_count (s : WState) (f : FC) (q : Nat) (ds : List Bytes) :
    ((emitFdatImage s f q ds).2 = .ok → (emitFdatImage s f q ds).1.imagesWritten = min (s.imagesWritten + 1) (2 ^ 64 - 1)) ∧
    ((emitFdatImage s f q ds).2 ≠ .ok → (emitFdatImage s f q ds).1.imagesWritten = s.imagesWritten) := by
  simp only [emitFdatImage]
  have h1 := emit_count s (fdatChunks q ds).1
  cases hh : s.emit (fdatChunks q ds).1 with
  | mk s' ok =>
    rw [hh] at h1; simp only at h1
    cases ok with
    | false => exact ⟨(fun h => by cases h), fun _ => h1⟩
    | true => exact ⟨fun _ => by rw [incr_count]; simp only; rw [h1], fun h => absurd rfl h⟩

/-- a successful image emission counts exactly one image; a failed one none -/
theorem emitImage_count (s : WState) (pi pf : List Bytes) :
    ((emitImage s pi pf).2 = .ok → (emitImage s pi pf).1.imagesWritten = min (s.imagesWritten + 1) (2 ^ 64 - 1)) ∧
    ((emitImage s pi pf).2 ≠ .ok → (emitImage s pi pf).1.imagesWritten = s.imagesWritten) ∧
    (s.fctl = none → (emitImage s pi pf).1.fctl = none) := by
  unfold emitImage
  rcases opt_cases s.fctl with hf | ⟨f, hf⟩
  · simp only [hf]
    obtain ⟨a1, a2, a3⟩ := emitIdatImage_count s pi
    exact ⟨a1, a2, fun _ => a3 hf⟩
  · simp only [hf]
    split
    · obtain ⟨a1, a2, _⟩ := emitIdatImage_count s pi
      exact ⟨a1, a2, (fun h => by cases h)⟩
    · simp only [emitFrame]
      have h1 := emit_count s [mkFctl f]
      cases hh : s.emit [mkFctl f] with
      | mk s' ok =>
        rw [hh] at h1; simp only at h1
        cases ok with
        | false => exact ⟨(fun h => by cases h), fun _ => h1, (fun h => by cases h)⟩
        | true =>
          simp only
          split
          · exact ⟨(fun h => by cases h), fun _ => h1, (fun h => by cases h)⟩
          · split
            · obtain ⟨a1, a2, _⟩ := emitIdatImage_count { s' with fctl := some { f with seq := (f.seq + 1) % 2 ^ 32 }, animWritten := s'.animWritten + 1 } pi
              exact ⟨fun h => by rw [a1 h]; simp only; rw [h1], fun h => by rw [a2 h]; exact h1, (fun h => by cases h)⟩
            · obtain ⟨a1, a2⟩ := emitFdatImage_count { s' with fctl := some { f with seq := (f.seq + 1) % 2 ^ 32 }, animWritten := s'.animWritten + 1 } f ((f.seq + 1) % 2 ^ 32) pf
              exact ⟨fun h => by rw [a1 h]; simp only; rw [h1], fun h => by rw [a2 h]; exact h1, (fun h => by cases h)⟩

theorem withFctl_count (s : WState) (k : FC → WState × Res)
    (hk : ∀ f, s.fctl = some f → (k f).1.imagesWritten = s.imagesWritten) :
    (withFctl s k).1.imagesWritten = s.imagesWritten ∧ (s.fctl = none → (withFctl s k).1.fctl = none) := by
  unfold withFctl
  cases hf : s.fctl with
  | none => exact ⟨rfl, fun _ => hf⟩
  | some f => exact ⟨hk f hf, (fun h => by cases h)⟩

/-- the image counter under any operation of the whole-image API: one more after a successful
    `write_image_data`, unchanged otherwise; and a dropped frame control never comes back -/
theorem writerStep_count' (E : Codec) (s : WState) (op : Op) :
    ((writerStep E s op).1.imagesWritten = s.imagesWritten ∧ ¬ (op.isImage = true ∧ (writerStep E s op).2 = .ok) ∨
      (op.isImage = true ∧ (writerStep E s op).2 = .ok ∧
        (writerStep E s op).1.imagesWritten = min (s.imagesWritten + 1) (2 ^ 64 - 1))) ∧
    (s.fctl = none → (writerStep E s op).1.fctl = none) := by
  cases op with
  | image d =>
    simp only [writerStep, Enc.writeImageData]
    cases hc : imageChecks s d with
    | error r => exact ⟨Or.inl ⟨rfl, fun hh => absurd hh.2 (imageChecks_error_ne_ok hc)⟩, fun h => h⟩
    | ok a =>
      obtain ⟨il, h⟩ := a
      simp only
      obtain ⟨a1, a2, a3⟩ := emitImage_count s (chunksOf maxIdatChunkLen (E.encode (bytesPerPixel s.color s.depth) il h d)) (chunksOf maxFdatChunkLen (E.encode (bytesPerPixel s.color s.depth) il h d))
      refine ⟨?_, a3⟩
      by_cases hok : (emitImage s (chunksOf maxIdatChunkLen (E.encode (bytesPerPixel s.color s.depth) il h d)) (chunksOf maxFdatChunkLen (E.encode (bytesPerPixel s.color s.depth) il h d))).2 = .ok
      · exact Or.inr ⟨rfl, hok, a1 hok⟩
      · exact Or.inl ⟨a2 hok, fun hh => hok hh.2⟩
  | chunk t d =>
    simp only [writerStep, writeChunk]
    split
    · exact ⟨Or.inl ⟨rfl, by simp [Op.isImage]⟩, fun h => h⟩
    · have h1 := emit_count s [⟨t, d⟩]
      have h2 := emit_fctl s [⟨t, d⟩]
      cases hh : s.emit [⟨t, d⟩] with
      | mk s' ok => rw [hh] at h1 h2; cases ok <;> exact ⟨Or.inl ⟨h1, by simp [Op.isImage]⟩, fun h => by rw [h2]; exact h⟩
  | text b =>
    cases b with
    | none => exact ⟨Or.inl ⟨rfl, by simp [Op.isImage]⟩, fun h => h⟩
    | some c =>
      simp only [writerStep, writeTextChunk]
      have h1 := emit_count s [c]
      have h2 := emit_fctl s [c]
      cases hh : s.emit [c] with
      | mk s' ok => rw [hh] at h1 h2; cases ok <;> exact ⟨Or.inl ⟨h1, by simp [Op.isImage]⟩, fun h => by rw [h2]; exact h⟩
  | setDelay n d => obtain ⟨a, b⟩ := withFctl_count s (fun f => ({ s with fctl := some { f with delayNum := n, delayDen := d } }, .ok)) (fun _ _ => rfl); exact ⟨Or.inl ⟨a, by simp [Op.isImage]⟩, b⟩
  | setBlend b' => obtain ⟨a, b⟩ := withFctl_count s (fun f => ({ s with fctl := some { f with blend := b' } }, .ok)) (fun _ _ => rfl); exact ⟨Or.inl ⟨a, by simp [Op.isImage]⟩, b⟩
  | setDispose d => obtain ⟨a, b⟩ := withFctl_count s (fun f => ({ s with fctl := some { f with dispose := d } }, .ok)) (fun _ _ => rfl); exact ⟨Or.inl ⟨a, by simp [Op.isImage]⟩, b⟩
  | resetPos => obtain ⟨a, b⟩ := withFctl_count s (fun f => ({ s with fctl := some { f with x := 0, y := 0 } }, .ok)) (fun _ _ => rfl); exact ⟨Or.inl ⟨a, by simp [Op.isImage]⟩, b⟩
  | setDim w h =>
    obtain ⟨a, b⟩ := withFctl_count s (fun f =>
      if gtCheckedSub w s.width f.x || gtCheckedSub h s.height f.y then (s, .err .outOfBounds)
      else if w = 0 then (s, .err .zeroWidth)
      else if h = 0 then (s, .err .zeroHeight)
      else ({ s with fctl := some { f with w := w, h := h } }, .ok)) (fun f _ => by
        split; rfl; split; rfl; split; rfl; rfl)
    exact ⟨Or.inl ⟨a, by simp [Op.isImage]⟩, b⟩
  | setPos x y =>
    obtain ⟨a, b⟩ := withFctl_count s (fun f =>
      if gtCheckedSub x s.width f.w || gtCheckedSub y s.height f.h then (s, .err .outOfBounds)
      else ({ s with fctl := some { f with x := x, y := y } }, .ok)) (fun f _ => by split; rfl; rfl)
    exact ⟨Or.inl ⟨a, by simp [Op.isImage]⟩, b⟩
  | resetDim =>
    obtain ⟨a, b⟩ := withFctl_count s (fun f =>
      if s.width < f.x ∨ s.height < f.y then (s, .panic .resetDimUnderflow)
      else ({ s with fctl := some { f with w := s.width - f.x, h := s.height - f.y } }, .ok)) (fun f _ => by split; rfl; rfl)
    exact ⟨Or.inl ⟨a, by simp [Op.isImage]⟩, b⟩

/-- while the frame control exists the declared number of images is not reached -/
theorem Inv.count_lt {imgOk : ImgRule} {s : WState} {seq fctls : Nat} {ph : Phase}
    (inv : Inv imgOk s seq fctls ph) {f : FC} (hf : s.fctl = some f) : s.imagesWritten < declared s := by
  obtain ⟨_, _, _, _, ⟨n, p, ha, hlt⟩, h6⟩ := inv.fc f hf
  simp only [declared, ha]
  cases hs : s.sepDefImg <;> simp [hs] at h6 ⊢
  · omega
  · split at h6 <;> omega

/-- no frame inside the canvas needs more than `usize::MAX` bytes (so that `next_frame_info` is exact) -/
def Fits (w : WState) : Prop := ∀ fw fh, fw ≤ w.width → fh ≤ w.height → inLenOf w fw * fh < 2 ^ 64

theorem Fits.static {a b : WState} (h : StaticEq a b) (hf : Fits a) : Fits b := by
  intro fw fh h1 h2
  have := hf fw fh (by rw [← h.1]; exact h1) (by rw [← h.2.1]; exact h2)
  simpa [inLenOf, h.2.2.1, h.2.2.2.1] using this

/-- what is known of the `Writer` at any point of a program on a sink that never fails, whether or not
    the program stays inside the domain of C12: the panic-relevant facts always; the automaton
    correspondence `Inv` as long as no more than the declared number of images was written; once
    more were written, there is no frame control any more -/
structure JW (imgOk : ImgRule) (C D W H : Nat) (V : Bool) (w : WState) : Prop where
  cd : w.color = C ∧ w.depth = D
  wh : w.width = W ∧ w.height = H
  vl : w.validate = V
  dims : w.width < 2 ^ 32 ∧ w.height < 2 ^ 32
  good : w.sink.good
  safe : Safe w
  iend : w.iendWritten = false
  att : w.sink.iendAttempts = 0
  fits : Fits w
  actlB : ∀ n p, w.actl = some (n, p) → n < 2 ^ 32
  inv : w.imagesWritten ≤ declared w → ∃ seq fctls ph, Inv imgOk w seq fctls ph
  over : declared w < w.imagesWritten → w.fctl = none
  val : w.validate = true → w.imagesWritten ≤ declared w

theorem JW.declared_le {imgOk : ImgRule} {C D W H : Nat} {V : Bool} {w : WState} (h : JW imgOk C D W H V w) : declared w ≤ 2 ^ 32 :=
  Enc.declared_le w h.actlB

/-- the frame control, if any, is in range, and the next `animation_written += 1` does not overflow -/
theorem JW.fctl_facts {imgOk : ImgRule} {C D W H : Nat} {V : Bool} {w : WState} (h : JW imgOk C D W H V w) {f : FC} (hf : w.fctl = some f) :
    f.inRange ∧ RectOk w f ∧ w.animWritten + 1 < 2 ^ 32 ∧ w.imagesWritten < declared w := by
  have hle : w.imagesWritten ≤ declared w := by
    apply Nat.le_of_not_lt; intro hlt; rw [h.over hlt] at hf; cases hf
  obtain ⟨seq, fctls, ph, inv⟩ := h.inv hle
  obtain ⟨h1, _, h3, _, ⟨n, p, ha, hlt⟩, _⟩ := inv.fc f hf
  have := inv.actlR n p ha
  exact ⟨h1, h3, by omega, inv.count_lt hf⟩

/-- any operation of the whole-image API with arguments in range keeps `JW` and does not panic -/
theorem JW.step {imgOk : ImgRule} {C D W H : Nat} {V : Bool} {E : Codec} {w : WState} (h : JW imgOk C D W H V w)
    (hE : Codec.Ok imgOk E w.color w.depth) (op : Op) (hr : op.inRange) (hno : op.noIend) :
    JW imgOk C D W H V (writerStep E w op).1 ∧ (writerStep E w op).2.isPanic = false := by
  have hev := Evolves.step E w op hno
  have hdl := h.declared_le
  have hnp : (writerStep E w op).2.isPanic = false :=
    step_no_panic E h.safe (fun f hf => (h.fctl_facts hf).2.2.1) op
  obtain ⟨hcnt, hfn⟩ := writerStep_count' E w op
  have hd : declared (writerStep E w op).1 = declared w := declared_static hev.static
  refine ⟨?_, hnp⟩
  exact {
    cd := by rw [hev.static.2.2.1, hev.static.2.2.2.1]; exact h.cd
    wh := by rw [hev.static.1, hev.static.2.1]; exact h.wh
    vl := by rw [hev.static.2.2.2.2.2.2.2]; exact h.vl
    dims := by rw [hev.static.1, hev.static.2.1]; exact h.dims
    good := by
      have := hev.beh
      simp only [Sink.good, this]; exact h.good
    safe := h.safe.evolves hev
    iend := by rw [hev.iend]; exact h.iend
    att := by rw [hev.grows.iendAttempts]; exact h.att
    fits := h.fits.static hev.static
    actlB := by rw [hev.static.2.2.2.2.1]; exact h.actlB
    inv := by
      rw [hd]
      intro hle
      rcases hcnt with ⟨hc, hni⟩ | ⟨hi, hok, hc⟩
      · rw [hc] at hle
        obtain ⟨seq, fctls, ph, inv⟩ := h.inv hle
        obtain ⟨s1, f1, p1, i1, _⟩ := inv.step hE op ⟨hr, fun himg => by
          by_cases hlt : w.imagesWritten < declared w
          · exact Or.inl hlt
          · exact Or.inr (fun hok => hni ⟨himg, hok⟩)⟩
        exact ⟨s1, f1, p1, i1⟩
      · rw [hc] at hle
        have hlt : w.imagesWritten < declared w := by omega
        obtain ⟨seq, fctls, ph, inv⟩ := h.inv (by omega)
        obtain ⟨s1, f1, p1, i1, _⟩ := inv.step hE op ⟨hr, fun _ => Or.inl hlt⟩
        exact ⟨s1, f1, p1, i1⟩
    over := by
      rw [hd]
      intro hgt
      apply hfn
      rcases hcnt with ⟨hc, _⟩ | ⟨_, _, hc⟩
      · rw [hc] at hgt; exact h.over hgt
      · rw [hc] at hgt
        by_cases hov : declared w < w.imagesWritten
        · exact h.over hov
        · -- exactly the declared number was written: the frame control is already gone
          obtain ⟨seq, fctls, ph, inv⟩ := h.inv (by omega)
          rcases opt_cases w.fctl with hf | ⟨f, hf⟩
          · exact hf
          · have := inv.count_lt hf; omega
    val := by
      rw [hd, hev.static.2.2.2.2.2.2.2]
      intro hv
      have hle := h.val hv
      rcases hcnt with ⟨hc, _⟩ | ⟨hi, hok, hc⟩
      · rw [hc]; exact hle
      · rw [hc]
        obtain ⟨seq, fctls, ph, inv⟩ := h.inv hle
        apply Nat.le_of_not_lt; intro hgt
        cases op with
        | image d => exact inv.validate_refuses hv (by omega) d hok
        | _ => cases hi }



/-- the stream writer's own copy of the canvas size, filter unit and frame control fits the `Writer` -/
structure CopyOk (s : SW) (w : WState) : Prop where
  width : s.width = w.width
  height : s.height = w.height
  bpp : s.bpp = bytesPerPixel w.color w.depth
  pal : ¬ (w.color = 3 ∧ w.hasPalette = false)
  fc : ∀ f, s.fctl = some f → RectOk w f ∧ f.inRange

theorem CopyOk.static {s : SW} {a b : WState} (h : CopyOk s a) (hst : StaticEq a b) : CopyOk s b := by
  obtain ⟨a1, a2, a3, a4, a5, a6, a7, a8⟩ := hst
  exact ⟨by rw [a1]; exact h.width, by rw [a2]; exact h.height, by rw [a3, a4]; exact h.bpp,
    by rw [a3, a6]; exact h.pal, fun f hf => ⟨by simpa [RectOk, a1, a2] using (h.fc f hf).1, (h.fc f hf).2⟩⟩

theorem CopyOk.same {s s' : SW} {w : WState} (h : CopyOk s w)
    (hs : s'.fctl = s.fctl ∧ s'.width = s.width ∧ s'.height = s.height ∧ s'.bpp = s.bpp) : CopyOk s' w :=
  ⟨by rw [hs.2.1]; exact h.width, by rw [hs.2.2.1]; exact h.height, by rw [hs.2.2.2]; exact h.bpp, h.pal,
    by rw [hs.1]; exact h.fc⟩

/-- the invariant of a stream-writer session on a sink that never fails -/
inductive SessInv (imgOk : ImgRule) (C D W H : Nat) (V : Bool) (Z : ZCodec) : SW → Prop
  /-- between two images: the chunk writer is empty and holds a `Writer` in a `JW` state -/
  | between {s : SW} {w : WState} {cap : Nat} {curr : Ty} :
      s.wr = .chunk ⟨w, cap, [], curr⟩ → 5 ≤ cap → s.toWrite = 0 → s.index = 0 → s.released = none →
      JW imgOk C D W H V w → 0 < w.imagesWritten → CopyOk s w → SessInv imgOk C D W H V Z s
  /-- inside an image that was started on the `Writer` state `wpre` -/
  | inside {s : SW} {wpre wH : WState} {fd : Bool} :
      Inside Z wH fd (nextDims wpre).2 s → HeaderRel wpre wH fd → JW imgOk C D W H V wpre → CopyOk s wpre →
      s.lineLen = inLenOf wpre (nextDims wpre).1 →
      (∀ f, wpre.fctl = some f → wpre.imagesWritten = 0 → f.x = 0 ∧ f.y = 0 ∧ f.w = wpre.width ∧ f.h = wpre.height) →
      validateNewImage wpre = none →
      SessInv imgOk C D W H V Z s

theorem bumpSeq_static (w : WState) (n : Nat) : StaticEq w (bumpSeq w n) := by
  unfold bumpSeq; cases w.fctl <;> exact ⟨rfl, rfl, rfl, rfl, rfl, rfl, rfl, rfl⟩

/-- the `Writer` after a complete stream image is the `Writer` after `write_image_data` with the same
    zlib stream cut the same way; hence `JW` again -/
theorem JW.afterImage {imgOk : ImgRule} {C D W H : Nat} {V : Bool} {Z : ZCodec} {wpre wH : WState} {fd : Bool} (h : JW imgOk C D W H V wpre)
    (hrel : HeaderRel wpre wH fd) (hZ : ZCodec.Ok imgOk Z wpre.color wpre.depth)
    (hpal : ¬ (wpre.color = 3 ∧ wpre.hasPalette = false))
    (h7 : ∀ f, wpre.fctl = some f → wpre.imagesWritten = 0 → f.x = 0 ∧ f.y = 0 ∧ f.w = wpre.width ∧ f.h = wpre.height)
    (hvn : validateNewImage wpre = none)
    (ds : List Bytes) (hist : List ZOp) (curs : List Bytes)
    (hds : ds.flatten = outs Z (hist ++ [ZOp.finish])) (hnf : hist.contains ZOp.finish = false)
    (hcl : curs.length = (nextDims wpre).2) (hcr : ∀ c ∈ curs, c.length = inLenOf wpre (nextDims wpre).1)
    (hwr : writtenOf hist = (fedRows Z (bytesPerPixel wpre.color wpre.depth)
      (List.replicate (inLenOf wpre (nextDims wpre).1) 0) curs).flatten) :
    JW imgOk C D W H V (incrementImagesWritten { (if fd then bumpSeq wH ds.length else wH) with
        sink := (wH.sink.emitChunks (dataChunks fd (seq0Of wH) ds)).1 }) ∧
    0 < (incrementImagesWritten { (if fd then bumpSeq wH ds.length else wH) with
        sink := (wH.sink.emitChunks (dataChunks fd (seq0Of wH) ds)).1 }).imagesWritten ∧
    StaticEq wpre (incrementImagesWritten { (if fd then bumpSeq wH ds.length else wH) with
        sink := (wH.sink.emitChunks (dataChunks fd (seq0Of wH) ds)).1 }) := by
  have hsim := hrel.sim ds
  have hst : (emitImage wpre ds ds).1 = incrementImagesWritten { (if fd then bumpSeq wH ds.length else wH) with
        sink := (wH.sink.emitChunks (dataChunks fd (seq0Of wH) ds)).1 } := by rw [hsim]
  have hok : (emitImage wpre ds ds).2 = .ok := by rw [hsim]
  rw [← hst]
  obtain ⟨hne, himg⟩ := hZ (nextDims wpre).1 (nextDims wpre).2 hist curs hnf hcl hcr hwr
  have hdne : ds ≠ [] := by intro he; rw [he] at hds; simp at hds; exact hne hds
  have hev := Evolves.image wpre ds ds
  obtain ⟨c1, _, c3⟩ := emitImage_count wpre ds ds
  have hcnt := c1 hok
  have hdl := h.declared_le
  have hd : declared (emitImage wpre ds ds).1 = declared wpre := declared_static hev.static
  refine ⟨?_, by rw [hcnt]; omega, hev.static⟩
  exact {
    cd := by rw [hev.static.2.2.1, hev.static.2.2.2.1]; exact h.cd
    wh := by rw [hev.static.1, hev.static.2.1]; exact h.wh
    vl := by rw [hev.static.2.2.2.2.2.2.2]; exact h.vl
    dims := by rw [hev.static.1, hev.static.2.1]; exact h.dims
    good := by have := hev.beh; simp only [Sink.good, this]; exact h.good
    safe := h.safe.evolves hev
    iend := by rw [hev.iend]; exact h.iend
    att := by rw [hev.grows.iendAttempts]; exact h.att
    fits := h.fits.static hev.static
    actlB := by rw [hev.static.2.2.2.2.1]; exact h.actlB
    inv := by
      rw [hd, hcnt]
      intro hle
      have hlt : wpre.imagesWritten < declared wpre := by omega
      obtain ⟨seq, fctls, ph, inv⟩ := h.inv (by omega)
      obtain ⟨s1, f1, p1, i1, _⟩ := inv.emitImage ds ds hdne hdne hpal (by rw [hds]; exact himg) (by rw [hds]; exact himg) h7 (Or.inl hlt)
      exact ⟨s1, f1, p1, i1⟩
    over := by
      rw [hd, hcnt]
      intro hgt
      apply c3
      by_cases hov : declared wpre < wpre.imagesWritten
      · exact h.over hov
      · obtain ⟨seq, fctls, ph, inv⟩ := h.inv (by omega)
        rcases opt_cases wpre.fctl with hf | ⟨f, hf⟩
        · exact hf
        · have := inv.count_lt hf; omega
    val := by
      rw [hd, hcnt, hev.static.2.2.2.2.2.2.2]
      intro hv
      have hlt : wpre.imagesWritten < declared wpre := by
        unfold validateNewImage at hvn
        simp only [hv, Bool.not_true, Bool.false_eq_true, if_false] at hvn
        rcases opt_cases wpre.actl with ha | ⟨⟨n, p⟩, ha⟩
        · simp only [ha] at hvn
          by_cases h0 : wpre.imagesWritten = 0
          · simp only [declared, ha]; omega
          · simp [h0] at hvn
        · simp only [ha] at hvn
          rcases opt_cases wpre.fctl with hf | ⟨f, hf⟩
          · simp [hf] at hvn
          · exact (h.fctl_facts hf).2.2.2
      omega }

theorem chunkKind_eq (w : WState) : chunkKind w = if (chunkKind w == tyFDAT) = true then tyFDAT else tyIDAT := by
  unfold chunkKind; split <;> simp <;> decide

theorem bumpSeq_zero {w : WState} (h : ∀ f, w.fctl = some f → f.seq < 2 ^ 32) : bumpSeq w 0 = w := by
  unfold bumpSeq
  cases hf : w.fctl with
  | none => rfl
  | some f =>
    have := h f hf
    simp only [seqAfter, Nat.add_zero, Nat.mod_eq_of_lt this]
    cases w; simp_all

/-- the stream writer at the first byte of an image -/
theorem Inside.init {Z : ZCodec} {wH : WState} {fd : Bool} {fh : Nat} {s : SW} {cap : Nat} {kind : Ty}
    (hg : wH.sink.good) (hfdf : fd = true → ∃ f, wH.fctl = some f ∧ f.seq < 2 ^ 32) (hcap : 5 ≤ cap)
    (hkind : kind = if fd then tyFDAT else tyIDAT)
    (hwr : s.wr = .zlib { cw := ⟨wH, cap, [], kind⟩ }) (hL : 0 < s.lineLen) (hfh : 0 < fh)
    (htw : s.toWrite = s.lineLen * fh) (hidx : s.index = 0)
    (hprev : s.prevBuf = List.replicate s.lineLen 0) (hcur : s.curBuf.length = s.lineLen)
    (hrel : s.released = none) : Inside Z wH fd fh s := by
  have hw : wH = { (if fd then bumpSeq wH 0 else wH) with sink := (wH.sink.emitChunks (dataChunks fd (seq0Of wH) [])).1 } := by
    have hd : dataChunks fd (seq0Of wH) [] = [] := by cases fd <;> simp [dataChunks, fdatChunks]
    rw [hd]
    cases fd with
    | false => simp [Sink.emitChunks]
    | true =>
      obtain ⟨f, hf, hlt⟩ := hfdf rfl
      have : bumpSeq wH 0 = wH := bumpSeq_zero (fun g hg' => by rw [hf] at hg'; cases hg'; exact hlt)
      simp [this, Sink.emitChunks]
  have hcwi : CWI wH fd ⟨wH, cap, [], kind⟩ [] :=
    ⟨⟨hcap, hkind, hfdf, hg, [], [], by simp, by simp, by simp, by simpa using hw⟩, by simp; omega⟩
  refine ⟨⟨{ cw := ⟨wH, cap, [], kind⟩ }, [], hwr, ⟨[], hcwi, rfl⟩, rfl, ?_, by simp, by simp [writtenOf, fedRows], by simp [hprev]⟩,
    hcur, hL, by omega, ?_, hrel⟩
  · simp [hidx, htw]
  · rw [htw]; exact Nat.mul_pos hL hfh

/-- the geometry of the next image on a `Writer` in a `JW` state -/
theorem JW.frameInfo {imgOk : ImgRule} {C D W H : Nat} {V : Bool} {w : WState} (h : JW imgOk C D W H V w) (cap : Nat) (buf : Bytes) (curr : Ty) :
    (CW.nextFrameInfo ⟨w, cap, buf, curr⟩) =
      (inLenOf w (nextDims w).1, inLenOf w (nextDims w).1 * (nextDims w).2) ∧
    0 < inLenOf w (nextDims w).1 ∧ 0 < (nextDims w).2 := by
  have hpos := h.safe.nextDims_pos
  have hdims : (nextDims w).1 ≤ w.width ∧ (nextDims w).2 ≤ w.height ∧ 0 < (nextDims w).2 := by
    unfold nextDims
    rcases opt_cases w.fctl with hf | ⟨f, hf⟩
    · simp only [hf]; exact ⟨Nat.le_refl _, Nat.le_refl _, h.safe.valid.2.1⟩
    · simp only [hf]
      have := h.safe.rect f hf
      simp only [RectOk] at this; omega
  have hfit := h.fits _ _ hdims.1 hdims.2.1
  refine ⟨?_, hpos, hdims.2.2⟩
  simp only [CW.nextFrameInfo]
  cases hnd : nextDims w with
  | mk a b =>
    rw [hnd] at hfit
    simp only [hfit, if_true]

/-- `set_fctl` with the stream writer's copy keeps `JW` -/
theorem JW.setFctl {imgOk : ImgRule} {C D W H : Nat} {V : Bool} {w : WState} (h : JW imgOk C D W H V w) (f : FC) (hr : RectOk w f ∧ f.inRange) :
    JW imgOk C D W H V (CW.setFctl ⟨w, 0, [], 0⟩ f).w ∧ StaticEq w (CW.setFctl ⟨w, 0, [], 0⟩ f).w ∧
    (CW.setFctl ⟨w, 0, [], 0⟩ f).w.imagesWritten = w.imagesWritten := by
  unfold CW.setFctl
  rcases opt_cases w.fctl with hf | ⟨cur, hf⟩
  · simp only [hf]; exact ⟨h, StaticEq.refl _, trivial⟩
  · simp only [hf]
    obtain ⟨c1, c2, c3, c4⟩ := h.fctl_facts hf
    refine ⟨?_, ⟨rfl, rfl, rfl, rfl, rfl, rfl, rfl, rfl⟩, trivial⟩
    have hr' : ({ f with seq := cur.seq } : FC).inRange := by
      obtain ⟨_, r2, r3, r4, r5, r6, r7, r8, r9⟩ := hr.2
      exact ⟨c1.1, r2, r3, r4, r5, r6, r7, r8, r9⟩
    exact {
      cd := h.cd
      wh := h.wh
      vl := h.vl
      dims := h.dims
      good := h.good
      safe := ⟨fun g hg => by simp only [Option.some.injEq] at hg; subst hg; exact hr.1, h.safe.valid⟩
      iend := h.iend
      att := h.att
      fits := h.fits
      actlB := h.actlB
      inv := by
        intro hle
        obtain ⟨seq, fctls, ph, inv⟩ := h.inv hle
        exact ⟨seq, fctls, ph, inv.setFctl hf rfl hr' hr.1⟩
      over := by
        intro hgt
        have := h.over hgt; rw [hf] at this; cases this
      val := h.val }

theorem CW.setFctl_w (w : WState) (cap : Nat) (buf : Bytes) (curr : Ty) (f : FC) :
    CW.setFctl ⟨w, cap, buf, curr⟩ f = ⟨(CW.setFctl ⟨w, 0, [], 0⟩ f).w, cap, buf, curr⟩ := by
  unfold CW.setFctl; cases w.fctl <;> rfl

/-- between two images: the next non-empty `write` first starts the next image — or is refused by
    `validate_new_image`, leaving the writer between the images -/
theorem SessInv.begin {imgOk : ImgRule} {C D W H : Nat} {V : Bool} {Z : ZCodec} {s : SW} {w : WState} {cap : Nat} {curr : Ty}
    (hwr : s.wr = .chunk ⟨w, cap, [], curr⟩) (hcap : 5 ≤ cap) (htw : s.toWrite = 0) (hidx : s.index = 0)
    (hrl : s.released = none) (hj : JW imgOk C D W H V w) (hcnt : 0 < w.imagesWritten) (hco : CopyOk s w) :
    (∃ e, s.beginIfDone Z = (s, .err e)) ∨
    (∃ s', s.beginIfDone Z = (s', .ok) ∧ SessInv imgOk C D W H V Z s' ∧ 0 < s'.toWrite ∧ (∃ z, s'.wr = .zlib z) ∧
      s'.owned = s.owned ∧ s'.fctl = s.fctl ∧ s'.width = s.width ∧ s'.height = s.height ∧ s'.bpp = s.bpp) := by
  unfold SW.beginIfDone
  rw [if_pos htw]
  simp only [hwr, SW.endZlib, SW.newFrame]
  have hfl : (⟨w, cap, [], curr⟩ : CW).flushInner = (⟨w, cap, [], curr⟩, .ok) := by simp [CW.flushInner]
  simp only [hfl]
  cases hv : validateNewImage w with
  | some e =>
    left; refine ⟨e, ?_⟩
    simp only [← hwr]
  | none =>
    right
    simp only
    -- the writer the image starts on
    have key : ∃ wpre, CW.setFctlOpt ⟨w, cap, [], curr⟩ s.fctl = ⟨wpre, cap, [], curr⟩ ∧
        JW imgOk C D W H V wpre ∧ StaticEq w wpre ∧ wpre.imagesWritten = w.imagesWritten ∧
        validateNewImage wpre = none := by
      cases hsf : s.fctl with
      | none => exact ⟨w, rfl, hj, StaticEq.refl _, rfl, hv⟩
      | some f =>
        obtain ⟨j1, j2, j3⟩ := hj.setFctl f (hco.fc f hsf)
        refine ⟨_, by simp only [CW.setFctlOpt]; exact CW.setFctl_w w cap [] curr f, j1, j2, j3, ?_⟩
        rw [← hv]
        unfold CW.setFctl validateNewImage
        rcases opt_cases w.fctl with hf | ⟨cur, hf⟩ <;> simp only [hf, Option.isSome_some]
    obtain ⟨wpre, hk, hjp, hstp, hcp, hvp⟩ := key
    rw [hk]
    obtain ⟨i1, i2, i3⟩ := hjp.frameInfo cap [] curr
    obtain ⟨wH, h1, h2, h3, h4, h5⟩ := writeHeader_rel cap curr hjp.good (fun f hf => (hjp.fctl_facts hf).2.2.1)
    rw [h1]
    simp only [i1]
    refine ⟨_, rfl, ?_, ?_, ⟨_, rfl⟩, rfl, rfl, rfl, rfl, rfl⟩
    · refine SessInv.inside (wpre := wpre) (wH := wH) (fd := (chunkKind wpre == tyFDAT)) ?_ h2 hjp ?_ rfl ?_ hvp
      · exact Inside.init h2.good h2.fdf hcap (chunkKind_eq wpre) rfl i2 i3 rfl rfl rfl (by simp) hrl
      · exact (hco.static hstp).same ⟨rfl, rfl, rfl, rfl⟩
      · intro f _ h0; rw [hcp] at h0; omega
    · exact Nat.mul_pos i2 i3



/-- `StreamWriter::new` on a `Writer` in a `JW` state: refused before anything is written, or the
    stream writer stands at the first byte of an image -/
theorem SessInv.new {imgOk : ImgRule} {C D W H : Nat} {V : Bool} (Z : ZCodec) {w : WState} (hj : JW imgOk C D W H V w)
    (owned : Bool) (size : Nat) :
    (∃ e, SW.new w owned size = (.inr (if owned then dropW w else w), .err e)) ∨
    (∃ s, SW.new w owned size = (.inl s, .ok) ∧ SessInv imgOk C D W H V Z s ∧ s.owned = owned) := by
  unfold SW.new
  cases hc : streamChecks w with
  | some e => left; exact ⟨e, rfl⟩
  | none =>
    right
    simp only
    -- the checks that passed
    have hpal : ¬ (w.color = 3 ∧ w.hasPalette = false) := by
      intro hp; simp [streamChecks, hp] at hc
    have hrect : validateFirstImageRect w = none := by
      unfold streamChecks at hc
      rw [if_neg hpal] at hc
      cases hv : validateNewImage w with
      | some e => simp [hv] at hc
      | none => simpa [hv] using hc
    have h7 : ∀ f, w.fctl = some f → w.imagesWritten = 0 → f.x = 0 ∧ f.y = 0 ∧ f.w = w.width ∧ f.h = w.height := by
      intro f hf h0
      simp only [validateFirstImageRect, hf, h0, true_and] at hrect
      by_cases hc' : f.x = 0 ∧ f.y = 0 ∧ f.w = w.width ∧ f.h = w.height
      · exact hc'
      · simp [hc'] at hrect
    have hcap : 5 ≤ max (min chunkCap size) streamMinBuffer := Nat.le_max_right _ _
    obtain ⟨i1, i2, i3⟩ := hj.frameInfo (max (min chunkCap size) streamMinBuffer) [] (chunkKind w)
    obtain ⟨wH, h1, h2, h3, h4, h5⟩ := writeHeader_rel (max (min chunkCap size) streamMinBuffer) (chunkKind w) hj.good
      (fun f hf => (hj.fctl_facts hf).2.2.1)
    simp only [CW.new, h1, i1]
    refine ⟨_, rfl, ?_, rfl⟩
    have hvn : validateNewImage w = none := by
      unfold streamChecks at hc
      rw [if_neg hpal] at hc
      cases hv : validateNewImage w with
      | some e => simp [hv] at hc
      | none => rfl
    refine SessInv.inside (wpre := w) (wH := wH) (fd := (chunkKind w == tyFDAT)) ?_ h2 hj ?_ rfl h7 hvn
    · exact Inside.init h2.good h2.fdf hcap (chunkKind_eq w) rfl i2 i3 rfl rfl rfl (by simp) rfl
    · exact ⟨rfl, rfl, rfl, hpal, fun f hf => by
        have := hj.fctl_facts (f := f) hf; exact ⟨this.2.1, this.1⟩⟩

/-- the fields of the stream writer that no `write` changes -/
def SW.sameCopy (s s' : SW) : Prop :=
  s'.owned = s.owned ∧ s'.fctl = s.fctl ∧ s'.width = s.width ∧ s'.height = s.height ∧ s'.bpp = s.bpp

theorem SW.sameCopy.refl (s : SW) : SW.sameCopy s s := ⟨rfl, rfl, rfl, rfl, rfl⟩
theorem SW.sameCopy.trans {a b c : SW} (h1 : SW.sameCopy a b) (h2 : SW.sameCopy b c) : SW.sameCopy a c :=
  ⟨h2.1.trans h1.1, h2.2.1.trans h1.2.1, h2.2.2.1.trans h1.2.2.1, h2.2.2.2.1.trans h1.2.2.2.1, h2.2.2.2.2.trans h1.2.2.2.2⟩

/-- `write` inside an image, with the image-level consequences drawn -/
theorem SessInv.writeInside {imgOk : ImgRule} {C D W H : Nat} {V : Bool} {Z : ZCodec} (hZ : ZCodec.Ok imgOk Z C D)
    {s : SW} {wpre wH : WState} {fd : Bool}
    (hin : Inside Z wH fd (nextDims wpre).2 s) (hrel : HeaderRel wpre wH fd) (hj : JW imgOk C D W H V wpre)
    (hco : CopyOk s wpre) (hL : s.lineLen = inLenOf wpre (nextDims wpre).1)
    (h7 : ∀ f, wpre.fctl = some f → wpre.imagesWritten = 0 → f.x = 0 ∧ f.y = 0 ∧ f.w = wpre.width ∧ f.h = wpre.height)
    (hvn : validateNewImage wpre = none)
    (data : Bytes) (hd : data ≠ []) :
    ∃ s' n, s.write Z data = (s', .ok n) ∧ 0 < n ∧ n ≤ data.length ∧ SessInv imgOk C D W H V Z s' ∧ SW.sameCopy s s' := by
  obtain ⟨s', n, h1, h2, h3, h4, g1, g2, g3, g4, g5, g6⟩ := hin.write data hd
  refine ⟨s', n, h1, h2, h3, ?_, ⟨g1, g2, g3, g4, g5⟩⟩
  have hco' : CopyOk s' wpre := hco.same ⟨g2, g3, g4, g5⟩
  rcases h4 with h4 | h4
  · exact SessInv.inside h4 hrel hj hco' (by rw [g6]; exact hL) h7 hvn
  · obtain ⟨cap, curr, ds, hist, curs, c1, c2, c3, c4, c5, c6, c7, c8⟩ := h4.st
    have hbpp : s.bpp = bytesPerPixel wpre.color wpre.depth := hco.bpp
    obtain ⟨j1, j2, j3⟩ := hj.afterImage hrel (by rw [hj.cd.1, hj.cd.2]; exact hZ) hco.pal h7 hvn ds hist curs c4 c5 c6
      (by rw [← hL]; exact c7) (by rw [← hL, ← hbpp]; exact c8)
    exact SessInv.between c2 c1 h4.tw h4.idx h4.released j1 j2 (hco'.static j3)

theorem write_via_begin {Z : ZCodec} {s s1 : SW} {data : Bytes} (hu : s.wr ≠ .unrecoverable) (hd : data ≠ [])
    (hb : s.beginIfDone Z = (s1, .ok)) (htw : s1.toWrite ≠ 0) (hu1 : s1.wr ≠ .unrecoverable) :
    s.write Z data = s1.write Z data := by
  have hb1 : s1.beginIfDone Z = (s1, .ok) := by unfold SW.beginIfDone; rw [if_neg htw]
  unfold SW.write
  rw [if_neg hu, if_neg hd, if_neg hu1, if_neg hd, hb, hb1]

/-- one `write` call of a session on a sink that never fails: a non-empty prefix is taken, or — between
    two images — the call is refused by `validate_new_image`; never a panic -/
theorem SessInv.write {imgOk : ImgRule} {C D W H : Nat} {V : Bool} {Z : ZCodec} (hZ : ZCodec.Ok imgOk Z C D) {s : SW}
    (h : SessInv imgOk C D W H V Z s) (data : Bytes) (hd : data ≠ []) :
    (∃ e, s.write Z data = (s, .err e)) ∨
    (∃ s' n, s.write Z data = (s', .ok n) ∧ 0 < n ∧ n ≤ data.length ∧ SessInv imgOk C D W H V Z s' ∧ SW.sameCopy s s') := by
  cases h with
  | inside hin hrel hj hco hL h7 hvn => exact Or.inr (SessInv.writeInside hZ hin hrel hj hco hL h7 hvn data hd)
  | between hwr hcap htw hidx hrl hj hcnt hco =>
    have hu : s.wr ≠ .unrecoverable := by rw [hwr]; simp
    rcases SessInv.begin (Z := Z) hwr hcap htw hidx hrl hj hcnt hco with ⟨e, he⟩ | ⟨s1, hb, hs1, htw1, ⟨z, hz⟩, k1, k2, k3, k4, k5⟩
    · left; refine ⟨e, ?_⟩
      unfold SW.write; rw [if_neg hu, if_neg hd, he]
    · right
      have hu1 : s1.wr ≠ .unrecoverable := by rw [hz]; simp
      rw [write_via_begin hu hd hb (by omega) hu1]
      cases hs1 with
      | between hw1 _ ht1 _ _ _ _ _ => omega
      | inside hin hrel hj' hco' hL h7 hvn =>
        obtain ⟨s', n, a1, a2, a3, a4, a5⟩ := SessInv.writeInside hZ hin hrel hj' hco' hL h7 hvn data hd
        exact ⟨s', n, a1, a2, a3, a4, SW.sameCopy.trans ⟨k1, k2, k3, k4, k5⟩ a5⟩

/-- `write_all`: `Ok`, or the refusal to start another image; never a panic -/
theorem SessInv.writeAllAux {imgOk : ImgRule} {C D W H : Nat} {V : Bool} {Z : ZCodec} (hZ : ZCodec.Ok imgOk Z C D) (fuel : Nat) :
    ∀ (s : SW) (d : Bytes), SessInv imgOk C D W H V Z s → d.length < fuel →
      ∃ s', (SW.writeAllAux Z fuel s d).1 = s' ∧ SessInv imgOk C D W H V Z s' ∧ SW.sameCopy s s' ∧
        (SW.writeAllAux Z fuel s d).2.isPanic = false := by
  induction fuel with
  | zero => intro s d _ h; omega
  | succ k ih =>
    intro s d hs hlt
    simp only [SW.writeAllAux]
    by_cases hd : d = []
    · rw [if_pos hd]; exact ⟨s, rfl, hs, SW.sameCopy.refl s, rfl⟩
    · rw [if_neg hd]
      rcases hs.write hZ d hd with ⟨e, he⟩ | ⟨s1, n, h1, h2, h3, h4, h5⟩
      · rw [he]; exact ⟨s, rfl, hs, SW.sameCopy.refl s, rfl⟩
      · rw [h1]
        simp only
        have hn : ¬ n = 0 := by omega
        rw [if_neg hn]
        obtain ⟨s2, g1, g2, g3, g4⟩ := ih s1 (d.drop n) h4 (by simp only [List.length_drop]; omega)
        exact ⟨s2, g1, g2, h5.trans g3, g4⟩

theorem SessInv.writeAll {imgOk : ImgRule} {C D W H : Nat} {V : Bool} {Z : ZCodec} (hZ : ZCodec.Ok imgOk Z C D) {s : SW}
    (h : SessInv imgOk C D W H V Z s) (d : Bytes) :
    SessInv imgOk C D W H V Z (s.writeAll Z d).1 ∧ SW.sameCopy s (s.writeAll Z d).1 ∧ (s.writeAll Z d).2.isPanic = false := by
  obtain ⟨s', h1, h2, h3, h4⟩ := SessInv.writeAllAux hZ (d.length + 1) s d h (Nat.lt_succ_self _)
  unfold SW.writeAll
  rw [h1]; exact ⟨h2, h3, h4⟩



theorem writtenOf_snoc_flush (h : List ZOp) : writtenOf (h ++ [ZOp.flush]) = writtenOf h := by
  simp [writtenOf]

/-- type invariants of the arguments of the stream writer's setters (`u16` delays, enum discriminants) -/
def SetOp.inRange : SetOp → Prop
  | .delay n d => n < 2 ^ 16 ∧ d < 2 ^ 16
  | .blend b => b ≤ 1
  | .dispose d => d ≤ 2
  | _ => True

instance (o : SetOp) : Decidable o.inRange := by
  cases o <;> simp only [SetOp.inRange] <;> infer_instance

def SOp.inRange : SOp → Prop
  | .set o => o.inRange
  | _ => True

instance (o : SOp) : Decidable o.inRange := by
  cases o <;> simp only [SOp.inRange] <;> infer_instance

/-- the frame setters on a frame control inside a canvas (`cw × ch`, both `< 2^32`): never a panic, and the
    result is again inside the canvas and in range -/
theorem setFc_spec (cw ch : Nat) (hcw : cw < 2 ^ 32) (hch : ch < 2 ^ 32) (fc : Option FC) (o : SetOp) (ho : o.inRange)
    (hfc : ∀ f, fc = some f → (0 < f.w ∧ 0 < f.h ∧ f.x + f.w ≤ cw ∧ f.y + f.h ≤ ch) ∧ f.inRange) :
    (setFc cw ch fc o).2.isPanic = false ∧
    ∀ f, (setFc cw ch fc o).1 = some f → (0 < f.w ∧ 0 < f.h ∧ f.x + f.w ≤ cw ∧ f.y + f.h ≤ ch) ∧ f.inRange := by
  unfold setFc
  cases hf : fc with
  | none => exact ⟨rfl, fun f h => by cases h⟩
  | some f =>
    obtain ⟨⟨q1, q2, q3, q4⟩, r1, r2, r3, r4, r5, r6, r7, r8, r9⟩ := hfc f hf
    cases o with
    | delay n d =>
      refine ⟨rfl, fun g hg => ?_⟩
      simp only [Option.some.injEq] at hg; subst hg
      exact ⟨⟨q1, q2, q3, q4⟩, r1, r2, r3, r4, r5, ho.1, ho.2, r8, r9⟩
    | blend b =>
      refine ⟨rfl, fun g hg => ?_⟩
      simp only [Option.some.injEq] at hg; subst hg
      exact ⟨⟨q1, q2, q3, q4⟩, r1, r2, r3, r4, r5, r6, r7, r8, ho⟩
    | dispose d =>
      refine ⟨rfl, fun g hg => ?_⟩
      simp only [Option.some.injEq] at hg; subst hg
      exact ⟨⟨q1, q2, q3, q4⟩, r1, r2, r3, r4, r5, r6, r7, ho, r9⟩
    | resetPos =>
      refine ⟨rfl, fun g hg => ?_⟩
      simp only [Option.some.injEq] at hg; subst hg
      exact ⟨⟨q1, q2, by dsimp only; omega, by dsimp only; omega⟩, r1, r2, r3, by dsimp only; omega, by dsimp only; omega, r6, r7, r8, r9⟩
    | resetDim =>
      have hn : ¬ (cw < f.x ∨ ch < f.y) := by omega
      simp only [hn, if_false]
      refine ⟨rfl, fun g hg => ?_⟩
      simp only [Option.some.injEq] at hg; subst hg
      exact ⟨⟨by dsimp only; omega, by dsimp only; omega, by dsimp only; omega, by dsimp only; omega⟩,
        r1, by dsimp only; omega, by dsimp only; omega, r4, r5, r6, r7, r8, r9⟩
    | dim w h =>
      simp only
      cases hg : (gtCheckedSub w cw f.x || gtCheckedSub h ch f.y) with
      | true => simp only [if_true]; exact ⟨rfl, fun g hg' => hfc g (by rw [hf]; exact hg')⟩
      | false =>
        simp only [Bool.or_eq_false_iff] at hg
        obtain ⟨a1, a2⟩ := gtCheckedSub_false hg.1
        obtain ⟨b1, b2⟩ := gtCheckedSub_false hg.2
        simp only [Bool.false_eq_true, if_false]
        by_cases hw : w = 0
        · simp only [hw, if_true]; exact ⟨rfl, fun g hg' => hfc g (by rw [hf]; exact hg')⟩
        · by_cases hh : h = 0
          · simp only [hw, hh, if_true, if_false]; exact ⟨rfl, fun g hg' => hfc g (by rw [hf]; exact hg')⟩
          · simp only [hw, hh, if_false]
            refine ⟨rfl, fun g hg' => ?_⟩
            simp only [Option.some.injEq] at hg'; subst hg'
            exact ⟨⟨by dsimp only; omega, by dsimp only; omega, by dsimp only; omega, by dsimp only; omega⟩,
              r1, by dsimp only; omega, by dsimp only; omega, r4, r5, r6, r7, r8, r9⟩
    | pos x y =>
      simp only
      cases hg : (gtCheckedSub x cw f.w || gtCheckedSub y ch f.h) with
      | true => simp only [if_true]; exact ⟨rfl, fun g hg' => hfc g (by rw [hf]; exact hg')⟩
      | false =>
        simp only [Bool.or_eq_false_iff] at hg
        obtain ⟨a1, a2⟩ := gtCheckedSub_false hg.1
        obtain ⟨b1, b2⟩ := gtCheckedSub_false hg.2
        simp only [Bool.false_eq_true, if_false]
        refine ⟨rfl, fun g hg' => ?_⟩
        simp only [Option.some.injEq] at hg'; subst hg'
        exact ⟨⟨q1, q2, by dsimp only; omega, by dsimp only; omega⟩,
          r1, r2, r3, by dsimp only; omega, by dsimp only; omega, r6, r7, r8, r9⟩




theorem flushInner_empty (w : WState) (cap : Nat) (curr : Ty) :
    (⟨w, cap, [], curr⟩ : CW).flushInner = (⟨w, cap, [], curr⟩, .ok) := by simp [CW.flushInner]

theorem SW.wr_eta {s : SW} {x : Wrap} (h : s.wr = x) : { s with wr := x } = s := by
  cases s; simp only at h; subst h; rfl

theorem Inside.setFctl {Z : ZCodec} {wH : WState} {fd : Bool} {fh : Nat} {s : SW} (h : Inside Z wH fd fh s)
    (fc : Option FC) : Inside Z wH fd fh { s with fctl := fc } :=
  ⟨h.st, h.cur, h.pos, h.idx, h.tw, h.released⟩

/-- `flush` of a session on a sink that never fails: `Ok`, or `WrittenTooMuch` in the middle of a row -/
theorem SessInv.flush {imgOk : ImgRule} {C D W H : Nat} {V : Bool} {Z : ZCodec} {s : SW} (h : SessInv imgOk C D W H V Z s) :
    SessInv imgOk C D W H V Z (s.flush Z).1 ∧ SW.sameCopy s (s.flush Z).1 ∧ (s.flush Z).2.isPanic = false ∧
    (s.flush Z).1.toWrite = s.toWrite := by
  cases h with
  | between hwr hcap htw hidx hrl hj hcnt hco =>
    rename_i w cap curr
    have : s.flush Z = (s, .ok) := by
      simp only [SW.flush, hwr, flushInner_empty]
      rw [← hwr]
      have hi : ¬ s.index > 0 := by omega
      rw [if_neg hi]
    rw [this]
    exact ⟨SessInv.between hwr hcap htw hidx hrl hj hcnt hco, SW.sameCopy.refl s, rfl, rfl⟩
  | inside hin hrel hj hco hL h7 hvn =>
    obtain ⟨z, curs, hz, hzi, hnf, hcount, hrows, hwo, hprev⟩ := hin.st
    obtain ⟨z', f1, f2, f3, f4⟩ := hzi.flush
    have hin' : Inside Z _ _ _ { s with wr := .zlib z' } :=
      ⟨⟨z', curs, rfl, f2, by simp only [ZEnc.finished, f3]; exact finished_snoc hnf (by simp), hcount, hrows,
        by rw [f3, writtenOf_snoc_flush]; exact hwo, hprev⟩, hin.cur, hin.pos, hin.idx, hin.tw, hin.released⟩
    have hs' : SessInv imgOk C D W H V Z { s with wr := .zlib z' } :=
      SessInv.inside hin' hrel hj (hco.same ⟨rfl, rfl, rfl, rfl⟩) hL h7 hvn
    simp only [SW.flush, hz, f1]
    by_cases hi : s.index > 0
    · rw [if_pos hi]; exact ⟨hs', ⟨rfl, rfl, rfl, rfl, rfl⟩, rfl, rfl⟩
    · rw [if_neg hi]; exact ⟨hs', ⟨rfl, rfl, rfl, rfl, rfl⟩, rfl, rfl⟩

/-- a frame setter on the stream writer's copy -/
theorem SessInv.set {imgOk : ImgRule} {C D W H : Nat} {V : Bool} {Z : ZCodec} {s : SW} (h : SessInv imgOk C D W H V Z s)
    (o : SetOp) (ho : o.inRange) :
    SessInv imgOk C D W H V Z { s with fctl := (setFc s.width s.height s.fctl o).1 } ∧
    (setFc s.width s.height s.fctl o).2.isPanic = false := by
  have key : ∀ w : WState, JW imgOk C D W H V w → CopyOk s w →
      CopyOk { s with fctl := (setFc s.width s.height s.fctl o).1 } w ∧
      (setFc s.width s.height s.fctl o).2.isPanic = false := by
    intro w hj hco
    obtain ⟨g1, g2⟩ := setFc_spec s.width s.height (by rw [hco.width]; exact hj.dims.1) (by rw [hco.height]; exact hj.dims.2)
      s.fctl o ho (fun f hf => by
        have := hco.fc f hf
        simp only [RectOk, ← hco.width, ← hco.height] at this; exact this)
    refine ⟨⟨hco.width, hco.height, hco.bpp, hco.pal, fun f hf => ?_⟩, g1⟩
    have := g2 f hf
    simp only [RectOk, ← hco.width, ← hco.height]; exact this
  cases h with
  | between hwr hcap htw hidx hrl hj hcnt hco =>
    obtain ⟨k1, k2⟩ := key _ hj hco
    exact ⟨SessInv.between hwr hcap htw hidx hrl hj hcnt k1, k2⟩
  | inside hin hrel hj hco hL h7 hvn =>
    obtain ⟨k1, k2⟩ := key _ hj hco
    exact ⟨SessInv.inside (hin.setFctl _) hrel hj k1 hL h7 hvn, k2⟩

/-- one operation of a session -/
theorem SessInv.step {imgOk : ImgRule} {C D W H : Nat} {V : Bool} {Z : ZCodec} (hZ : ZCodec.Ok imgOk Z C D) {s : SW}
    (h : SessInv imgOk C D W H V Z s) (op : SOp) (hr : op.inRange) :
    SessInv imgOk C D W H V Z (streamStep Z s op).1 ∧ (streamStep Z s op).1.owned = s.owned ∧
    (streamStep Z s op).2.isPanic = false := by
  cases op with
  | write d => obtain ⟨a, b, c⟩ := h.writeAll hZ d; exact ⟨a, b.1, c⟩
  | flush => obtain ⟨a, b, c, _⟩ := h.flush; exact ⟨a, b.1, c⟩
  | set o => obtain ⟨a, b⟩ := h.set o hr; exact ⟨a, rfl, b⟩

/-- all operations of a session -/
theorem SessInv.runSOps {imgOk : ImgRule} {C D W H : Nat} {V : Bool} {Z : ZCodec} (hZ : ZCodec.Ok imgOk Z C D) (ops : List SOp) :
    ∀ {s : SW}, SessInv imgOk C D W H V Z s → (∀ o ∈ ops, o.inRange) →
      SessInv imgOk C D W H V Z (Enc.runSOps Z s ops).1 ∧ (Enc.runSOps Z s ops).1.owned = s.owned ∧
      anyPanic (Enc.runSOps Z s ops).2 = false := by
  induction ops with
  | nil => intro s h _; exact ⟨h, rfl, rfl⟩
  | cons op ops ih =>
    intro s h hr
    obtain ⟨a, b, c⟩ := h.step hZ op (hr op (by simp))
    obtain ⟨a2, b2, c2⟩ := ih a (fun o ho => hr o (by simp [ho]))
    simp only [Enc.runSOps]
    cases hst : streamStep Z s op with
    | mk s' r =>
      rw [hst] at a b c a2 b2 c2
      cases r with
      | panic p => cases c
      | ok => exact ⟨a2, b2.trans b, by simpa [anyPanic, Res.isPanic] using c2⟩
      | err e => exact ⟨a2, b2.trans b, by simpa [anyPanic, Res.isPanic] using c2⟩


/-- a session whose current image is complete stands between two images -/
theorem SessInv.atEnd {imgOk : ImgRule} {C D W H : Nat} {V : Bool} {Z : ZCodec} {s : SW} (h : SessInv imgOk C D W H V Z s)
    (htw : s.toWrite = 0) :
    ∃ w cap curr, s.wr = .chunk ⟨w, cap, [], curr⟩ ∧ JW imgOk C D W H V w ∧ 0 < w.imagesWritten ∧ s.index = 0 := by
  cases h with
  | between hwr hcap _ hidx hrl hj hcnt hco => exact ⟨_, _, _, hwr, hj, hcnt, hidx⟩
  | inside hin _ _ _ _ _ _ => have := hin.tw; omega

theorem flush_between {Z : ZCodec} {s : SW} {w : WState} {cap : Nat} {curr : Ty}
    (hwr : s.wr = .chunk ⟨w, cap, [], curr⟩) (hidx : s.index = 0) : s.flush Z = (s, .ok) := by
  simp only [SW.flush, hwr, flushInner_empty]
  rw [← hwr]
  have hi : ¬ s.index > 0 := by omega
  rw [if_neg hi]

/-- dropping a stream writer between two images: nothing is written (but the IEND of an owned `Writer`) -/
theorem drop_between {Z : ZCodec} {s : SW} {w : WState} {cap : Nat} {curr : Ty}
    (hwr : s.wr = .chunk ⟨w, cap, [], curr⟩) (hidx : s.index = 0) (fb : WState) :
    (s.drop Z).2 = .ok ∧ (s.drop Z).1.writerState fb = (if s.owned then dropW w else w) := by
  simp only [SW.drop, flush_between hwr hidx, hwr, Wrap.drop, CW.drop, flushInner_empty, SW.release, SW.writerState]
  exact ⟨trivial, trivial⟩

theorem writeIend_good {w : WState} (hg : w.sink.good) :
    writeIend w = ({ w with iendWritten := true, sink := (w.sink.emitChunks [iendChunk]).1 }, true) ∧
    (w.sink.emitChunks [iendChunk]).1.good := by
  obtain ⟨e1, e2⟩ := WState.emit_good_eq (s := { w with iendWritten := true }) hg [iendChunk]
  exact ⟨by simp only [writeIend, e1], e2⟩

theorem flush_good {k : Sink} (hg : k.good) : (k.flush).2 = true := by simp [Sink.flush, hg.2]

/-- `finish` of a stream writer between two images on a sink that never fails: the sequence check
    decides; an owned `Writer` is closed (by `finish` itself, or by its drop when the check fails) -/
theorem finish_between {Z : ZCodec} {s : SW} {w : WState} {cap : Nat} {curr : Ty}
    (hwr : s.wr = .chunk ⟨w, cap, [], curr⟩) (hidx : s.index = 0) (htw : s.toWrite = 0)
    (hg : w.sink.good) (hie : w.iendWritten = false) (fb : WState) :
    (s.finish Z).2 = (match validateSequenceDone w with | some e => .err e | none => .ok) ∧
    (s.finish Z).1.writerState fb =
      (if s.owned then
        (match validateSequenceDone w with
         | some _ => dropW w
         | none => { dropW w with sink := ((dropW w).sink.flush).1 })
       else w) := by
  have h0 : ¬ s.toWrite > 0 := by omega
  obtain ⟨wi, wg⟩ := writeIend_good hg
  have hd : dropW w = { w with iendWritten := true, sink := (w.sink.emitChunks [iendChunk]).1 } := by
    simp [dropW, hie, wi]
  rw [hd]
  simp only [SW.finish, if_neg h0, flush_between hwr hidx, hwr, SW.finishChunk]
  cases hv : validateSequenceDone w with
  | some e =>
    simp only [CW.drop, flushInner_empty, SW.writerState, hd]
    exact ⟨trivial, trivial⟩
  | none =>
    cases ho : s.owned with
    | false =>
      simp only [CW.drop, flushInner_empty, SW.writerState, Bool.false_eq_true, if_false]
      exact ⟨trivial, trivial⟩
    | true =>
      simp only [if_true, wi]
      have hf := flush_good wg
      cases hfl : (w.sink.emitChunks [iendChunk]).1.flush with
      | mk k okf =>
        rw [hfl] at hf; simp only at hf; subst hf
        simp only [CW.drop, flushInner_empty, SW.writerState, if_true, dropW, ↓reduceIte]
        exact ⟨trivial, trivial⟩




/-! ### sessions and programs on a sink that never fails -/

theorem inLen_le {color depth w : Nat} (hd : depthOk depth = true) :
    rawRowLengthFromWidth color depth w - 1 ≤ 8 * w := by
  have hs : samplesOf color ≤ 4 := by unfold samplesOf; split <;> omega
  have hws : w * samplesOf color ≤ 4 * w := by rw [Nat.mul_comm 4 w]; exact Nat.mul_le_mul_left w hs
  simp only [depthOk, Bool.or_eq_true, beq_iff_eq] at hd
  unfold rawRowLengthFromWidth
  generalize w * samplesOf color = n at hws
  rcases hd with (((h | h) | h) | h) | h <;> subst h <;> simp <;> (try split) <;> omega

/-- the canvas is small enough for `usize` arithmetic on whole images (8 bytes per pixel at most) -/
def Cfg.Small (c : Cfg) : Prop := 8 * c.width * c.height < 2 ^ 64

instance (c : Cfg) : Decidable c.Small := by unfold Cfg.Small; infer_instance

theorem Fits.ofSmall {w : WState} (hd : depthOk w.depth = true) (h : 8 * w.width * w.height < 2 ^ 64) : Fits w := by
  intro fw fh h1 h2
  have a : inLenOf w fw ≤ 8 * fw := inLen_le hd
  have b : inLenOf w fw * fh ≤ (8 * fw) * fh := Nat.mul_le_mul_right fh a
  have c : (8 * fw) * fh ≤ (8 * w.width) * w.height := Nat.mul_le_mul (Nat.mul_le_mul_left 8 h1) h2
  omega

/-- the state after a successful `write_header` on a sink that never fails -/
theorem JW.header (imgOk : ImgRule) (c : Cfg) (hw : c.WellFormed) (hsm : c.Small) {s : WState}
    (h : writeHeader c {} = (s, .ok)) : JW imgOk c.color c.depth c.width c.height c.validate s := by
  obtain ⟨inv, hst, _⟩ := header_inv imgOk c hw h
  obtain ⟨_, _, hatt, _⟩ := (header_spec c {} hw.1 hw.2.1 (fun r hr => by
    have := hw.2.2.2 r hr
    intro hi; rw [hi] at this; revert this; decide)).2.1 (by rw [h])
  rw [h] at hatt
  have h0 : s.imagesWritten = 0 := inv.phPre.mpr rfl
  exact {
    cd := ⟨hst.2.2.1, hst.2.2.2.1⟩
    wh := ⟨hst.1, hst.2.1⟩
    vl := hst.2.2.2.2.2.2.2
    dims := inv.dims
    good := inv.good
    safe := ⟨fun f hf => (inv.fc f hf).2.2.1, inv.valid⟩
    iend := inv.iend
    att := hatt
    fits := Fits.ofSmall inv.valid.2.2.2 (by rw [hst.1, hst.2.1]; exact hsm)
    actlB := inv.actlR
    inv := fun _ => ⟨0, 0, .pre, inv⟩
    over := by intro hlt; omega
    val := by intro _; omega }

/-- the stream-writer session leaves no image unfinished: after the last operation the writer stands
    between two images (`new` refused: nothing was started) -/
def SessionComplete (Z : ZCodec) (w : WState) (owned : Bool) (size : Nat) (ops : List SOp) : Prop :=
  match SW.new w owned size with
  | (.inl s, _) => (runSOps Z s ops).1.toWrite = 0
  | _ => True

instance (Z : ZCodec) (w : WState) (owned : Bool) (size : Nat) (ops : List SOp) :
    Decidable (SessionComplete Z w owned size ops) := by
  unfold SessionComplete; split <;> infer_instance

/-- the `Writer` with the sink flushed once -/
def flushedW (w : WState) : WState := { w with sink := (w.sink.flush).1 }

theorem last_snoc {α : Type} (a : α) (l : List α) (x : α) : (a :: (l ++ [x])).getLast? = some x := by
  have : a :: (l ++ [x]) = (a :: l) ++ [x] := rfl
  rw [this, List.getLast?_append]; rfl

/-- one complete session on a `Writer` in a `JW` state, sink that never fails: no panic; a borrowed
    `Writer` is in a `JW` state again; an owned one is closed — by `finish` (IEND and sink flush)
    or by the drop (IEND); `finish` returns `Ok` exactly when `new` succeeded and the sequence check passes -/
theorem session_spec {imgOk : ImgRule} {C D W H : Nat} {V : Bool} {Z : ZCodec} (hZ : ZCodec.Ok imgOk Z C D) {w : WState}
    (hj : JW imgOk C D W H V w) (owned : Bool) (size : Nat) (ops : List SOp) (fin : Final)
    (hr : ∀ o ∈ ops, o.inRange) (hc : SessionComplete Z w owned size ops) :
    anyPanic (streamSession Z w owned size ops fin).2 = false ∧
    ∃ w', JW imgOk C D W H V w' ∧
      (owned = false → (streamSession Z w owned size ops fin).1 = w') ∧
      (owned = true → (streamSession Z w owned size ops fin).1 = dropW w' ∨
        ((streamSession Z w owned size ops fin).1 = flushedW (dropW w') ∧ fin = .finish ∧ validateSequenceDone w' = none)) ∧
      ∃ r, (streamSession Z w owned size ops fin).2.getLast? = some r ∧
        (fin = .finish → (r = .ok ↔ (SW.new w owned size).2 = .ok ∧ validateSequenceDone w' = none)) := by
  unfold streamSession
  unfold SessionComplete at hc
  rcases SessInv.new Z hj owned size with ⟨e, he⟩ | ⟨s, hs, hsi, hso⟩
  · rw [he]
    simp only
    refine ⟨rfl, w, hj, fun ho => by simp [ho], fun ho => Or.inl (by simp [ho]), .err e, rfl, fun _ => ?_⟩
    constructor
    · intro h; cases h
    · intro h; cases h.1
  · rw [hs] at hc ⊢
    simp only at hc ⊢
    obtain ⟨a, b, c⟩ := hsi.runSOps hZ ops hr
    cases hro : Enc.runSOps Z s ops with
    | mk s1 rs =>
      rw [hro] at a b c hc
      simp only at a b c hc ⊢
      rw [c]
      simp only [Bool.false_eq_true, if_false]
      obtain ⟨w', cap, curr, hwr, hj', hcnt, hidx⟩ := a.atEnd hc
      have hown : s1.owned = owned := b.trans hso
      refine ⟨?_, w', hj', ?_, ?_, ?_⟩
      · -- no panic
        cases fin with
        | finish =>
          have := (finish_between (Z := Z) hwr hidx hc hj'.good hj'.iend w).1
          simp only [anyPanic, List.any_cons, List.any_append, List.any_nil, Bool.or_false, Res.isPanic] at c ⊢
          rw [c, this]; cases validateSequenceDone w' <;> rfl
        | drop =>
          have := (drop_between (Z := Z) hwr hidx w).1
          simp only [anyPanic, List.any_cons, List.any_append, List.any_nil, Bool.or_false, Res.isPanic] at c ⊢
          rw [c, this]; rfl
      · intro ho
        cases fin with
        | finish =>
          have := (finish_between (Z := Z) hwr hidx hc hj'.good hj'.iend w).2
          simp only [this, hown, ho, Bool.false_eq_true, if_false]
        | drop =>
          have := (drop_between (Z := Z) hwr hidx w).2
          simp only [this, hown, ho, Bool.false_eq_true, if_false]
      · intro ho
        cases fin with
        | finish =>
          have := (finish_between (Z := Z) hwr hidx hc hj'.good hj'.iend w).2
          simp only [this, hown, ho, if_true]
          cases hv : validateSequenceDone w' with
          | some e => left; rfl
          | none => right; simp [flushedW]
        | drop =>
          have := (drop_between (Z := Z) hwr hidx w).2
          simp only [this, hown, ho, if_true]
          left; trivial
      · cases fin with
        | finish =>
          refine ⟨(SW.finish Z s1).2, last_snoc _ _ _, fun _ => ?_⟩
          rw [(finish_between (Z := Z) hwr hidx hc hj'.good hj'.iend w).1]
          cases hv : validateSequenceDone w' with
          | some e => simp
          | none => simp
        | drop => exact ⟨(SW.drop Z s1).2, last_snoc _ _ _, fun h => by cases h⟩




theorem Op.noIend_of_inRange {o : Op} (h : o.inRange) : o.noIend := by
  cases o with
  | chunk ty d =>
    simp only [Op.inRange] at h; simp only [Op.noIend]
    intro he; rw [he] at h; revert h; decide
  | text b =>
    cases b with
    | none => trivial
    | some c =>
      simp only [Op.inRange] at h; simp only [Op.noIend]
      intro he; rw [he] at h; revert h; decide
  | _ => trivial


/-- the domain of the stream-writer theorems, step by step along the run: argument types in range and
    every stream-writer session complete (no image left unfinished: N10) -/
def StepsOk (E : Codec) (Z : ZCodec) : WState → List Step → Prop
  | _, [] => True
  | s, .op o :: rest => o.inRange ∧ StepsOk E Z (writerStep E s o).1 rest
  | s, .stream size ops fin :: rest =>
    (∀ o ∈ ops, o.inRange) ∧ SessionComplete Z s false size ops ∧
    StepsOk E Z (streamSession Z s false size ops fin).1 rest

instance stepsOkDec (E : Codec) (Z : ZCodec) : (s : WState) → (steps : List Step) → Decidable (StepsOk E Z s steps)
  | _, [] => isTrue trivial
  | s, .op o :: rest =>
    have := stepsOkDec E Z (writerStep E s o).1 rest
    by unfold StepsOk; infer_instance
  | s, .stream size ops fin :: rest =>
    have := stepsOkDec E Z (streamSession Z s false size ops fin).1 rest
    by unfold StepsOk; infer_instance

def FinalOk (Z : ZCodec) (s : WState) : PFinal → Prop
  | .intoStream size ops _ => (∀ o ∈ ops, o.inRange) ∧ SessionComplete Z s true size ops
  | _ => True

instance (Z : ZCodec) (s : WState) (fin : PFinal) : Decidable (FinalOk Z s fin) := by
  cases fin <;> simp only [FinalOk] <;> infer_instance

/-- the program ends with a call of `finish` (of the `Writer` or of the owned stream writer) -/
def PFinal.isFinish : PFinal → Bool
  | .finish => true
  | .intoStream _ _ .finish => true
  | _ => false

/-- `into_stream_writer` at the end of the program is not refused -/
def PFinal.newOk (s : WState) : PFinal → Prop
  | .intoStream size _ _ => (SW.new s true size).2 = .ok
  | _ => True

instance (s : WState) (fin : PFinal) : Decidable (fin.newOk s) := by
  cases fin <;> simp only [PFinal.newOk] <;> infer_instance

/-- all steps of a program inside the domain: `JW` at the end, no panic -/
theorem JW.runSteps {imgOk : ImgRule} {C D W H : Nat} {V : Bool} {E : Codec} {Z : ZCodec}
    (hE : Codec.Ok imgOk E C D) (hZ : ZCodec.Ok imgOk Z C D) (steps : List Step) :
    ∀ {w : WState}, JW imgOk C D W H V w → StepsOk E Z w steps →
      JW imgOk C D W H V (Enc.runSteps E Z w steps).1 ∧ (Enc.runSteps E Z w steps).2.any anyPanic = false := by
  induction steps with
  | nil => intro w hj _; exact ⟨hj, rfl⟩
  | cons st rest ih =>
    intro w hj hs
    cases st with
    | op o =>
      obtain ⟨hr, hrest⟩ := hs
      obtain ⟨j1, np⟩ := hj.step (E := E) (by rw [hj.cd.1, hj.cd.2]; exact hE) o hr (Op.noIend_of_inRange hr)
      obtain ⟨j2, np2⟩ := ih j1 hrest
      simp only [Enc.runSteps]
      cases hws : writerStep E w o with
      | mk s' r =>
        rw [hws] at np j2 np2
        cases r with
        | panic p => cases np
        | ok => exact ⟨j2, by simpa [anyPanic, Res.isPanic] using np2⟩
        | err e => exact ⟨j2, by simpa [anyPanic, Res.isPanic] using np2⟩
    | stream size ops fin =>
      obtain ⟨hr, hc, hrest⟩ := hs
      obtain ⟨np, w', hj', hb, _, _⟩ := session_spec hZ hj false size ops fin hr hc
      have hst := hb rfl
      obtain ⟨j2, np2⟩ := ih (by rw [hst]; exact hj') hrest
      simp only [Enc.runSteps]
      cases hss : streamSession Z w false size ops fin with
      | mk s' rs =>
        rw [hss] at np j2 np2
        simp only at np j2 np2 ⊢
        rw [np]
        simp only [Bool.false_eq_true, if_false]
        exact ⟨j2, by simp only [List.any_cons, np, Bool.false_or]; exact np2⟩

/-- `finish` of the `Writer` on a sink that never fails -/
theorem finishW_good {w : WState} (hg : w.sink.good) (hie : w.iendWritten = false) :
    finishW w = (match validateSequenceDone w with
      | some e => (dropW w, .err e)
      | none => (flushedW (dropW w), .ok)) := by
  obtain ⟨wi, wg⟩ := writeIend_good hg
  have hd : dropW w = { w with iendWritten := true, sink := (w.sink.emitChunks [iendChunk]).1 } := by
    simp [dropW, hie, wi]
  rw [hd]
  unfold finishW
  cases hv : validateSequenceDone w with
  | some e => simp only [hd]
  | none =>
    simp only [wi]
    have hf := flush_good wg
    cases hfl : (w.sink.emitChunks [iendChunk]).1.flush with
    | mk k okf =>
      rw [hfl] at hf; simp only at hf; subst hf
      simp only [flushedW, hfl, dropW, ↓reduceIte]

/-- a whole program inside the domain (sink that never fails): nothing panics; the `Writer` ends closed,
    from a `JW` state; a final `finish` returns `Ok` exactly when it was reached and the sequence check passes -/
theorem prog_spec {imgOk : ImgRule} {E : Codec} {Z : ZCodec} (c : Cfg) (hw : c.WellFormed) (hsm : c.Small)
    (hE : Codec.Ok imgOk E c.color c.depth) (hZ : ZCodec.Ok imgOk Z c.color c.depth)
    (steps : List Step) (fin : PFinal) (hh : (writeHeader c {}).2 = .ok)
    (hs : StepsOk E Z (writeHeader c {}).1 steps)
    (hf : FinalOk Z (Enc.runSteps E Z (writeHeader c {}).1 steps).1 fin) :
    (runProg E Z c {} steps fin).header = .ok ∧
    (runProg E Z c {} steps fin).results.any anyPanic = false ∧
    anyPanic (runProg E Z c {} steps fin).final = false ∧
    ∃ w', JW imgOk c.color c.depth c.width c.height c.validate w' ∧
      ((runProg E Z c {} steps fin).state = dropW w' ∨
        ((runProg E Z c {} steps fin).state = flushedW (dropW w') ∧ fin.isFinish = true ∧
          validateSequenceDone w' = none)) ∧
      (fin.isFinish = true →
        ((runProg E Z c {} steps fin).final.getLast? = some .ok ↔
          fin.newOk (Enc.runSteps E Z (writeHeader c {}).1 steps).1 ∧ validateSequenceDone w' = none)) := by
  cases hwh : writeHeader c {} with
  | mk s0 r0 =>
    rw [hwh] at hh hs hf
    simp only at hh hs hf
    subst hh
    have hj0 := JW.header imgOk c hw hsm hwh
    obtain ⟨hj1, np⟩ := hj0.runSteps hE hZ steps hs
    unfold runProg
    rw [hwh]
    simp only
    cases hrs : Enc.runSteps E Z s0 steps with
    | mk s1 rss =>
      rw [hrs] at hj1 np hf
      simp only at hj1 np hf ⊢
      rw [np]
      simp only [Bool.false_eq_true, if_false]
      cases fin with
      | finish =>
        rw [finishW_good hj1.good hj1.iend]
        simp only
        refine ⟨trivial, np, ?_, s1, hj1, ?_, fun _ => ?_⟩
        · cases validateSequenceDone s1 <;> rfl
        · cases hv : validateSequenceDone s1 with
          | some e => left; rfl
          | none => right; exact ⟨rfl, rfl, rfl⟩
        · cases hv : validateSequenceDone s1 with
          | some e => simp [PFinal.newOk]
          | none => simp [PFinal.newOk]
      | drop =>
        simp only
        exact ⟨trivial, np, rfl, s1, hj1, Or.inl rfl, fun h => by cases h⟩
      | intoStream size ops f =>
        obtain ⟨hr, hc⟩ := hf
        obtain ⟨npf, w', hj', _, ho, r, hlast, hiff⟩ := session_spec hZ hj1 true size ops f hr hc
        simp only
        cases hss : streamSession Z s1 true size ops f with
        | mk s2 rs =>
          rw [hss] at npf ho hlast
          simp only at npf ho hlast ⊢
          refine ⟨trivial, np, npf, w', hj', ?_, fun hfin => ?_⟩
          · rcases ho trivial with h | ⟨h1, h2, h3⟩
            · exact Or.inl h
            · right; refine ⟨h1, ?_, h3⟩; rw [h2]; rfl
          · have hff : f = .finish := by
              cases f with
              | finish => rfl
              | drop => cases hfin
            rw [hlast]
            simp only [Option.some.injEq, PFinal.newOk]
            exact hiff hff




/-! ### the theorems about programs over both APIs (C12 / C19 for the stream writer) -/

/-- with `validate_sequence`, the sequence check of `finish` passes exactly when the declared number
    of images has been written -/
theorem JW.validate_iff {imgOk : ImgRule} {C D W H : Nat} {V : Bool} {w : WState} (h : JW imgOk C D W H V w)
    (hv : w.validate = true) : validateSequenceDone w = none ↔ w.imagesWritten = declared w := by
  obtain ⟨seq, fctls, ph, inv⟩ := h.inv (h.val hv)
  constructor
  · intro hvd
    unfold validateSequenceDone at hvd
    simp only [hv, Bool.not_true, Bool.false_eq_true, if_false] at hvd
    have hcond : ¬ ((w.actl.isSome = true ∧ w.fctl.isSome = true) ∨ w.imagesWritten = 0) := by
      intro hc; simp [hc] at hvd
    have hcnt := inv.cnt
    rcases opt_cases w.actl with ha | ⟨⟨n, p⟩, ha⟩
    · have : w.imagesWritten ≠ 0 := fun h => hcond (Or.inr h)
      simp only [declared, ha] at hcnt ⊢; omega
    · have hfn : w.fctl = none := by
        rcases opt_cases w.fctl with hf | ⟨f, hf⟩
        · exact hf
        · exact absurd (Or.inl ⟨by simp [ha], by simp [hf]⟩) hcond
      have := (inv.fin hfn n p ha).2
      omega
  · intro hc; exact (inv.finishChunk hc).1

theorem flushedW_chunks (w : WState) : (flushedW w).sink.chunks = w.sink.chunks ∧ (flushedW w).sink.log = w.sink.log ∧
    (flushedW w).iendWritten = w.iendWritten ∧ (flushedW w).imagesWritten = w.imagesWritten ∧ StaticEq w (flushedW w) :=
  ⟨rfl, rfl, rfl, rfl, ⟨rfl, rfl, rfl, rfl, rfl, rfl, rfl, rfl⟩⟩

/-- closing a `Writer` in a `JW` state -/
theorem JW.dropW {imgOk : ImgRule} {C D W H : Nat} {V : Bool} {w : WState} (h : JW imgOk C D W H V w) :
    (Enc.dropW w).iendWritten = true ∧ (Enc.dropW w).sink.iendAttempts = 1 ∧
    (Enc.dropW w).imagesWritten = w.imagesWritten ∧ StaticEq w (Enc.dropW w) ∧
    (∃ pre, (Enc.dropW w).sink.log = pre ++ [⟨.chunk iendChunk, 12⟩]) ∧
    (w.imagesWritten = declared w → ∃ rest, (Enc.dropW w).sink.chunks = ihdrOf w :: rest ∧
      skeletonOfChunks imgOk w.width w.height w.color rest = .ok ()) := by
  have hd : Enc.dropW w = (writeIend w).1 := by simp [Enc.dropW, h.iend]
  obtain ⟨a1, a2, a3, a4⟩ := writeIend_spec w
  obtain ⟨wi, _⟩ := writeIend_good h.good
  rw [hd]
  refine ⟨a1, by rw [a2, h.att], by rw [wi], a4, a3 (by rw [wi]), fun hc => ?_⟩
  obtain ⟨seq, fctls, ph, inv⟩ := h.inv (by omega)
  obtain ⟨_, _, _, _, rest, r1, r2⟩ := inv.finishChunk hc
  exact ⟨rest, r1, r2⟩

theorem ihdrOf_eq {imgOk : ImgRule} {c : Cfg} {w : WState} (h : JW imgOk c.color c.depth c.width c.height c.validate w) :
    ihdrOf w = mkIhdr c := by
  simp [ihdrOf, mkIhdr, h.cd.1, h.cd.2, h.wh.1, h.wh.2]

/-- the domain of C12 for programs over both APIs (decidable for given back-ends): `write_header`
    succeeds, argument types are in range, every stream-writer session is complete, and at the end
    exactly the declared images are written -/
def StreamDomain (E : Codec) (Z : ZCodec) (c : Cfg) (steps : List Step) (fin : PFinal) : Prop :=
  (writeHeader c {}).2 = .ok ∧ StepsOk E Z (writeHeader c {}).1 steps ∧
  FinalOk Z (Enc.runSteps E Z (writeHeader c {}).1 steps).1 fin

instance (E : Codec) (Z : ZCodec) (c : Cfg) (steps : List Step) (fin : PFinal) : Decidable (StreamDomain E Z c steps fin) := by
  unfold StreamDomain; infer_instance

def ProgRun.declaredWritten (r : ProgRun) : Prop := r.state.imagesWritten = declared r.state

instance (r : ProgRun) : Decidable r.declaredWritten := by unfold ProgRun.declaredWritten; infer_instance

/-- C12 for programs that use the stream writer — still pictures and animations, one session or many,
    borrowed or owned, mixed with `write_image_data`, any chunk buffer size, any way the rows are cut
    into `write` calls, with flushes and frame setters in between, ended by `finish` or by a drop:
    inside the domain nothing panics and the chunks in the sink satisfy the sequencing rules -/
theorem stream_skeleton_valid (imgOk : ImgRule) (E : Codec) (Z : ZCodec) (c : Cfg) (hw : c.WellFormed) (hsm : c.Small)
    (hE : Codec.Ok imgOk E c.color c.depth) (hZ : ZCodec.Ok imgOk Z c.color c.depth)
    (steps : List Step) (fin : PFinal) (hdom : StreamDomain E Z c steps fin)
    (hcount : (runProg E Z c {} steps fin).declaredWritten) :
    (runProg E Z c {} steps fin).header = .ok ∧
    (runProg E Z c {} steps fin).results.any anyPanic = false ∧
    anyPanic (runProg E Z c {} steps fin).final = false ∧
    ∃ rest, (runProg E Z c {} steps fin).state.sink.chunks = mkIhdr c :: rest ∧
      skeletonOfChunks imgOk c.width c.height c.color rest = .ok () := by
  obtain ⟨hh, hs, hf⟩ := hdom
  obtain ⟨p1, p2, p3, w', hj, hst, _⟩ := prog_spec (imgOk := imgOk) c hw hsm hE hZ steps fin hh hs hf
  refine ⟨p1, p2, p3, ?_⟩
  obtain ⟨_, _, d3, d4, _, d6⟩ := hj.dropW
  unfold ProgRun.declaredWritten at hcount
  have hcw : w'.imagesWritten = declared w' := by
    rcases hst with h | ⟨h, _, _⟩
    · rw [h, d3, declared_static d4] at hcount; exact hcount
    · rw [h, (flushedW_chunks _).2.2.2.1, declared_static (flushedW_chunks _).2.2.2.2, d3, declared_static d4] at hcount
      exact hcount
  obtain ⟨rest, r1, r2⟩ := d6 hcw
  rw [ihdrOf_eq hj, hj.wh.1, hj.wh.2, hj.cd.1] at *
  refine ⟨rest, ?_, r2⟩
  rcases hst with h | ⟨h, _, _⟩
  · rw [h]; exact r1
  · rw [h, (flushedW_chunks _).1]; exact r1

/-- C19 for programs that use the stream writer, sink that never fails, inside the domain: no call
    panics; the `Writer` ends closed with exactly one IEND, the last thing in the log; `Ok` from the
    final `finish` means the sequence check passed -/
theorem stream_clean (imgOk : ImgRule) (E : Codec) (Z : ZCodec) (c : Cfg) (hw : c.WellFormed) (hsm : c.Small)
    (hE : Codec.Ok imgOk E c.color c.depth) (hZ : ZCodec.Ok imgOk Z c.color c.depth)
    (steps : List Step) (fin : PFinal) (hdom : StreamDomain E Z c steps fin) :
    (runProg E Z c {} steps fin).header = .ok ∧
    (runProg E Z c {} steps fin).results.any anyPanic = false ∧
    anyPanic (runProg E Z c {} steps fin).final = false ∧
    (runProg E Z c {} steps fin).state.iendWritten = true ∧
    (runProg E Z c {} steps fin).state.sink.iendAttempts = 1 ∧
    (∃ pre, (runProg E Z c {} steps fin).state.sink.log = pre ++ [⟨.chunk iendChunk, 12⟩]) := by
  obtain ⟨hh, hs, hf⟩ := hdom
  obtain ⟨p1, p2, p3, w', hj, hst, _⟩ := prog_spec (imgOk := imgOk) c hw hsm hE hZ steps fin hh hs hf
  refine ⟨p1, p2, p3, ?_⟩
  obtain ⟨d1, d2, _, _, d5, _⟩ := hj.dropW
  rcases hst with h | ⟨h, _, _⟩
  · rw [h]; exact ⟨d1, d2, d5⟩
  · rw [h]
    obtain ⟨f1, f2, f3, _⟩ := flushedW_chunks (Enc.dropW w')
    refine ⟨by rw [f3]; exact d1, ?_, by rw [f2]; exact d5⟩
    simp only [Sink.iendAttempts, f2]; exact d2

/-- C19, sequence validation through the stream writer (sink that never fails, inside the domain, with
    `validate_sequence`): `Ok` from the final `finish` — of the `Writer` or of an owned stream writer — means
    that exactly the declared images were written, and then the file is complete; conversely `finish` returns
    `Ok` when they were (and `into_stream_writer` was not refused) -/
theorem stream_validation (imgOk : ImgRule) (E : Codec) (Z : ZCodec) (c : Cfg) (hw : c.WellFormed) (hsm : c.Small)
    (hval : c.validate = true)
    (hE : Codec.Ok imgOk E c.color c.depth) (hZ : ZCodec.Ok imgOk Z c.color c.depth)
    (steps : List Step) (fin : PFinal) (hdom : StreamDomain E Z c steps fin) (hfin : fin.isFinish = true) :
    ((runProg E Z c {} steps fin).final.getLast? = some .ok →
      (runProg E Z c {} steps fin).declaredWritten ∧
      ∃ rest, (runProg E Z c {} steps fin).state.sink.chunks = mkIhdr c :: rest ∧
        skeletonOfChunks imgOk c.width c.height c.color rest = .ok ()) ∧
    ((runProg E Z c {} steps fin).declaredWritten →
      fin.newOk (Enc.runSteps E Z (writeHeader c {}).1 steps).1 →
      (runProg E Z c {} steps fin).final.getLast? = some .ok) := by
  obtain ⟨hh, hs, hf⟩ := hdom
  obtain ⟨p1, p2, p3, w', hj, hst, hiff⟩ := prog_spec (imgOk := imgOk) c hw hsm hE hZ steps fin hh hs hf
  obtain ⟨_, _, d3, d4, _, _⟩ := hj.dropW
  have hvw : w'.validate = true := by rw [hj.vl]; exact hval
  have hvi := hj.validate_iff hvw
  -- the counter of the final state is the one of `w'`
  have hcnt : (runProg E Z c {} steps fin).declaredWritten ↔ w'.imagesWritten = declared w' := by
    unfold ProgRun.declaredWritten
    rcases hst with h | ⟨h, _, _⟩
    · rw [h, d3, declared_static d4]
    · rw [h, (flushedW_chunks _).2.2.2.1, declared_static (flushedW_chunks _).2.2.2.2, d3, declared_static d4]
  have hiff' := hiff hfin
  constructor
  · intro hok
    have hc := hvi.mp (hiff'.mp hok).2
    have hdw := hcnt.mpr hc
    exact ⟨hdw, (stream_skeleton_valid imgOk E Z c hw hsm hE hZ steps fin ⟨hh, hs, hf⟩ hdw).2.2.2⟩
  · intro hdw hn
    exact hiff'.mpr ⟨hn, hvi.mpr (hcnt.mp hdw)⟩




/-! ### streaming back-ends that satisfy the contract -/

/-- the shape of the stream writer's back-end: every row is filtered against the previous one with some
    choice of filter type; the compressor may hold everything back until it is finished -/
def scanZ (compress : Bytes → Bytes) (choose : Bytes → Bytes → FilterType) : ZCodec :=
  { out := fun hist op => match op with
      | .finish => compress (writtenOf hist)
      | _ => []
    row := fun bpp prev cur => ftByte (choose prev cur) :: filtRow (choose prev cur) bpp prev cur }

theorem scanZ_quiet (compress : Bytes → Bytes) (choose : Bytes → Bytes → FilterType) (h : List ZOp) :
    ∀ pre, h.contains ZOp.finish = false → outsAux (scanZ compress choose) pre h = [] := by
  induction h with
  | nil => intro pre _; rfl
  | cons o os ih =>
    intro pre hf
    simp only [List.contains_cons, Bool.or_eq_false_iff] at hf
    simp only [outsAux, ih _ hf.2, List.append_nil]
    cases o with
    | finish => simp at hf
    | write d => rfl
    | flush => rfl

/-- the filter choice as the specification's encoder sees it: the row before the first one is empty there,
    all zero in the stream writer -/
def chooseFirst (choose : Bytes → Bytes → FilterType) : Bytes → Bytes → FilterType :=
  fun prev r => if prev = [] then choose (List.replicate r.length 0) r else choose prev r

theorem chooseFirst_same (choose : Bytes → Bytes → FilterType) (prev r : Bytes) (h : prev.length = r.length) :
    chooseFirst choose prev r = choose prev r := by
  unfold chooseFirst
  by_cases hp : prev = []
  · rw [if_pos hp]
    have : r.length = 0 := by rw [← h, hp]; rfl
    rw [this, hp]; rfl
  · rw [if_neg hp]

theorem fedRows_scanZ (compress : Bytes → Bytes) (choose : Bytes → Bytes → FilterType) (bpp rl : Nat) :
    ∀ (curs : List Bytes) (prev : Bytes), prev.length = rl → (∀ c ∈ curs, c.length = rl) →
      (fedRows (scanZ compress choose) bpp prev curs).flatten = encodeScanlines (chooseFirst choose) bpp prev curs := by
  intro curs
  induction curs with
  | nil => intro prev _ _; rfl
  | cons c cs ih =>
    intro prev hp hc
    have hcl : c.length = rl := hc c (by simp)
    simp only [fedRows, List.flatten_cons, encodeScanlines, chooseFirst_same choose prev c (by rw [hp, hcl])]
    rw [ih c hcl (fun x hx => hc x (by simp [hx]))]
    rfl

theorem fedRows_scanZ_first (compress : Bytes → Bytes) (choose : Bytes → Bytes → FilterType) (bpp rl : Nat)
    (curs : List Bytes) (hc : ∀ c ∈ curs, c.length = rl) :
    (fedRows (scanZ compress choose) bpp (List.replicate rl 0) curs).flatten =
      encodeScanlines (chooseFirst choose) bpp [] curs := by
  cases curs with
  | nil => rfl
  | cons c cs =>
    have hcl : c.length = rl := hc c (by simp)
    simp only [fedRows, List.flatten_cons, encodeScanlines, chooseFirst, if_true]
    rw [fedRows_scanZ compress choose bpp rl cs c hcl (fun x hx => hc x (by simp [hx]))]
    simp only [scanZ, hcl, filtRow_first]

/-- the contract of `ZCodec` holds for every filter choice and every compressor that the inflater inverts,
    with the image rule of the specification -/
theorem scanZ_ok (compress : Bytes → Bytes) (inflate' : Bytes → Option Bytes)
    (choose : Bytes → Bytes → FilterType) (color depth : Nat)
    (hic : ∀ x, inflate' (compress x) = some x) (hnil : inflate' [] = none) :
    ZCodec.Ok (specImgOk inflate' color depth) (scanZ compress choose) color depth := by
  intro w h hist curs hnf hcl hrows hwr
  have hout : outs (scanZ compress choose) (hist ++ [ZOp.finish]) = compress (writtenOf hist) := by
    rw [outs_snoc, outs, scanZ_quiet compress choose hist [] hnf]; rfl
  rw [hout, hwr, fedRows_scanZ_first compress choose _ _ curs hrows]
  constructor
  · intro hz
    have := hic (encodeScanlines (chooseFirst choose) (bytesPerPixel color depth) [] curs)
    rw [hz, hnil] at this; cases this
  · simp only [specImgOk, hic]
    have hl := encodeScanlines_length (chooseFirst choose) (bytesPerPixel color depth) _ _ hrows []
    rw [hcl] at hl
    simp only [hl, ne_eq, not_true_eq_false, if_false]
    have hdec := decode_encode_scanlines (chooseFirst choose) (bytesPerPixel color depth) _ _ hrows [] []
    rw [hcl, List.append_nil] at hdec
    rw [hdec]

theorem toyZ_ok (color depth : Nat) : ZCodec.Ok anyImg toyZ color depth := by
  intro w h hist curs _ _ _ _
  refine ⟨?_, rfl⟩
  rw [outs_snoc]
  simp [toyZ]




/-! ### concrete programs over both APIs: non-vacuity of the domain, and what stays false (N10) -/

def Step.inRange : Step → Prop
  | .op o => o.inRange
  | .stream _ ops _ => ∀ o ∈ ops, o.inRange

instance (s : Step) : Decidable s.inRange := by cases s <;> simp only [Step.inRange] <;> infer_instance

def PFinal.inRange : PFinal → Prop
  | .intoStream _ ops _ => ∀ o ∈ ops, o.inRange
  | _ => True

instance (f : PFinal) : Decidable f.inRange := by cases f <;> simp only [PFinal.inRange] <;> infer_instance

/-- four frames on a 2x2 canvas: frame 1 through `write_image_data`; frames 2 and 3 through one borrowed
    stream writer with a requested chunk buffer of 0 bytes — single-byte writes, a flush between rows, every
    frame setter between the frames (frame 3 is a 1x1 sub-frame at (1,1)); frame 4 (still 1x1) through an
    owned stream writer with a 3-byte buffer, closed by `finish` -/
def cfgAnim4 : Cfg := animatedCfg { width := 2, height := 2 } 4 0
def stepsMixed : List Step :=
  [.op (.image [1, 2, 3, 4]),
   .stream 0 [.write [5], .write [6], .flush, .write [7, 8],
              .set (.delay 3 4), .set (.dim 1 1), .set (.pos 1 1), .set (.dispose 1), .set (.blend 1),
              .write [9]] .finish]
def finMixed : PFinal := .intoStream 3 [.write [10]] .finish
def runMixed : ProgRun := runProg toyCodec toyZ cfgAnim4 {} stepsMixed finMixed

theorem runMixed_facts :
    cfgAnim4.WellFormed ∧ cfgAnim4.Small ∧ StreamDomain toyCodec toyZ cfgAnim4 stepsMixed finMixed ∧
    runMixed.declaredWritten ∧ runMixed.final = [.ok, .ok, .ok] ∧
    (runMixed.state.sink.chunks.filter (·.ty == tyFCTL)).length = 4 ∧
    (runMixed.state.sink.chunks.filter (·.ty == tyFDAT)).length = 13 ∧
    runSkeletonOk cfgAnim4 runMixed.state = true := by decide

/-- a still picture through a borrowed stream writer with a 1-byte buffer request, dropped; the `Writer` finished -/
def runStill : ProgRun :=
  runProg toyCodec toyZ { width := 2, height := 2, validate := true } {}
    [.stream 1 [.write [1, 2, 3], .flush, .write [4]] .drop] .finish

theorem runStill_facts :
    StreamDomain toyCodec toyZ { width := 2, height := 2, validate := true }
      [.stream 1 [.write [1, 2, 3], .flush, .write [4]] .drop] .finish ∧
    runStill.declaredWritten ∧ runStill.final = [.ok] ∧
    runStill.results = [[.ok, .ok, .err .writtenTooMuch, .ok, .ok]] := by decide

/-- N10 (open) with sequence validation: as `runN10a`; every call returns `Ok`, also `finish` -/
def runN10v : ProgRun :=
  runProg toyCodec toyZ { cfgAnim 2 with validate := true } {}
    [.op (.image [7]), .stream 64 [] .drop, .op (.image [9])] .finish

theorem runN10v_facts :
    runN10v.results = [[.ok], [.ok, .ok], [.ok]] ∧ runN10v.final = [.ok] ∧ runN10v.declaredWritten ∧
    runSkeletonOk (cfgAnim 2) runN10v.state = false := by decide

/-- C12 for programs with the stream writer WITHOUT the requirement that every session is complete
    (false: N10) — stated for the most permissive image rule and the toy back-ends -/
def stream_abandoned_skeleton_statement : Prop :=
  ∀ (c : Cfg) (steps : List Step) (fin : PFinal), c.WellFormed → c.Small →
    (∀ s ∈ steps, s.inRange) → fin.inRange →
    (runProg toyCodec toyZ c {} steps fin).header = .ok →
    (runProg toyCodec toyZ c {} steps fin).declaredWritten →
    runSkeletonOk c (runProg toyCodec toyZ c {} steps fin).state = true

/-- C19 "`Ok` from `finish` means complete" with `validate_sequence`, WITHOUT the requirement that every
    session is complete (false: N10) -/
def stream_abandoned_finish_statement : Prop :=
  ∀ (c : Cfg) (steps : List Step) (fin : PFinal), c.WellFormed → c.Small → c.validate = true →
    (∀ s ∈ steps, s.inRange) → fin.inRange → fin.isFinish = true →
    (runProg toyCodec toyZ c {} steps fin).final.getLast? = some .ok →
    runSkeletonOk c (runProg toyCodec toyZ c {} steps fin).state = true

theorem stream_abandoned_skeleton_counterexample : ¬ stream_abandoned_skeleton_statement := by
  intro h
  have := h (cfgAnim 2) [.op (.image [7]), .stream 64 [] .drop, .op (.image [9])] .finish
    (by decide) (by decide) (by decide) (by decide) (by decide) (by decide)
  revert this; decide

theorem stream_abandoned_finish_counterexample : ¬ stream_abandoned_finish_statement := by
  intro h
  have := h { cfgAnim 2 with validate := true } [.op (.image [7]), .stream 64 [] .drop, .op (.image [9])] .finish
    (by decide) (by decide) (by decide) (by decide) (by decide) (by decide) (by decide)
  revert this; decide



/-- remainder of N11 (open, by design of `Drop`): a session dropped in the middle of an image on a sink that
    fails (once) during that drop: the error is lost, every call returns `Ok`, the IDAT chunk is missing -/
def runN11 : ProgRun :=
  runProg toyCodec toyZ { width := 1, height := 2 } { writeFailAt := some 40, writeOnce := true }
    [.stream 64 [.write [1]] .drop] .finish

theorem runN11_facts :
    runN11.results = [[.ok, .ok, .ok]] ∧ runN11.final = [.ok] ∧
    runN11.state.sink.chunks.map (·.ty) = [tyIHDR, tyIEND] ∧ runN11.state.sink.iendAttempts = 1 := by decide


/-- a streaming compressor that answers a sync flush with six bytes at once (flate2 answers with the zlib
    header, the pending block and the `00 00 FF FF` marker) -/
def toyZf : ZCodec :=
  { out := fun hist op => match op with
      | .finish => 120 :: (hist.map fun o => match o with | .write d => d | _ => []).flatten
      | .flush => [1, 2, 3, 4, 5, 6]
      | _ => []
    row := fun _ _ cur => 0 :: cur }

/-- repaired N12 (c724280: `new_frame` resets the row index): two frames on a 2x1 canvas through
    `into_stream_writer_with_size(4)`, the second frame set to 1x1.  Half a row, `flush` — the sink fails (once)
    while the full 5-byte chunk buffer is written: `Err(io)`, the buffer stays full; the rest of the row:
    `Err(WriteZero)` from the zlib encoder's pending output, with `index = line_len` and `to_write = 0` already
    recorded; `flush` again: the chunk goes out, `WrittenTooMuch`; the next `write` starts the narrower frame
    at the beginning of its row — formerly a panic at `curr_buf[..line_len][index..]` for the offsets 91..107. -/
def runN12At (n : Nat) : ProgRun :=
  runProg toyCodec toyZf (animatedCfg { width := 2, height := 1 } 2 0) { writeFailAt := some n, writeOnce := true } []
    (.intoStream 4 [.set (.dim 1 1), .write [1], .flush, .write [2], .flush, .write [3]] .finish)

def runN12 : ProgRun := runN12At 91

theorem runN12_facts :
    runN12.final = [.ok, .ok, .ok, .err .io, .err .writeZero, .err .writtenTooMuch, .ok, .ok] ∧
    runN12.state.sink.iendAttempts = 1 ∧
    ((List.range 300).all fun n => !anyPanic (runN12At n).final) = true := by decide

end Png.Enc
